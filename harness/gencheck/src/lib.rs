//! type-checks (cargo check) everything the real generator emitted for the current C14 document set
include!(concat!(env!("GEN_CHECK_DIR"), "/lib.rs"));
