//! type-checks (cargo check) everything the real generator emitted for the current C14 document set
#![allow(warnings, clippy::all)]
include!(concat!(env!("GEN_CHECK_DIR"), "/lib.rs"));
