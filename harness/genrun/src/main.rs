//! genrun: the emitted Thrift code of the current document set (GEN_DIR), behind the line protocol.
//!   gd  <doc> <type> <proto> <tval> [=> <expected canon tval | err>]   decode(encode_dyn(tval)) -> re-encode -> canonical value
//!   gb  <doc> <type> <proto> <hex>                                      the same from raw bytes
//!   ga  <doc> <type> <aproto> <chunks> <tval>                            async decode of the same bytes, delivered in chunks
//!   gf  <doc> <type>                                                     T::default() re-encoded
//!   gl  <doc> <type> <proto> <hex>                                       live heap bytes before/after a failing decode
#![allow(clippy::all, unused, non_snake_case, non_camel_case_types)]
use std::alloc::{GlobalAlloc, Layout, System};
use std::fmt::Debug;
use std::io::Write;
use std::sync::atomic::{AtomicIsize, Ordering};

use bytes::{BufMut, Bytes, BytesMut};
use pilota::thrift::{
    binary::{TAsyncBinaryProtocol, TBinaryProtocol}, binary_le::{TAsyncBinaryProtocol as TAsyncBinaryLeProtocol, TBinaryProtocol as TBinaryLeProtocol},
    binary_unsafe::{TBinaryUnsafeInputProtocol, TBinaryUnsafeOutputProtocol},
    compact::{TAsyncCompactProtocol, TCompactInputProtocol, TCompactOutputProtocol},
    Message, TLengthProtocol, ThriftException,
};
use rt::thrift::{err_class, read_script, write_all, BufK, Proto, ReadStep, StrApi};
use rt::val::*;
use rt::Oracle;

include!(concat!(env!("GEN_DIR"), "/mods.rs"));
include!(concat!(env!("GEN_DIR"), "/dispatch.rs"));

struct Counting;
static LIVE: AtomicIsize = AtomicIsize::new(0);
static PEAK: AtomicIsize = AtomicIsize::new(0);
static BIGGEST: AtomicIsize = AtomicIsize::new(0);
fn note(n: isize, req: usize) { PEAK.fetch_max(n, Ordering::Relaxed); BIGGEST.fetch_max(req as isize, Ordering::Relaxed); }
unsafe impl GlobalAlloc for Counting {
    unsafe fn alloc(&self, l: Layout) -> *mut u8 { let n = LIVE.fetch_add(l.size() as isize, Ordering::Relaxed) + l.size() as isize; note(n, l.size()); System.alloc(l) }
    unsafe fn dealloc(&self, p: *mut u8, l: Layout) { LIVE.fetch_sub(l.size() as isize, Ordering::Relaxed); System.dealloc(p, l) }
    unsafe fn realloc(&self, p: *mut u8, l: Layout, n: usize) -> *mut u8 { let m = LIVE.fetch_add(n as isize - l.size() as isize, Ordering::Relaxed) + n as isize - l.size() as isize; note(m, n); System.realloc(p, l, n) }
}
/// run `f`; returns its result, the peak of live bytes above the level at entry, the largest single request (C09 allocation oracle)
fn measured<R>(f: impl FnOnce() -> R) -> (R, usize, usize) {
    let start = LIVE.load(Ordering::Relaxed);
    PEAK.store(start, Ordering::Relaxed);
    BIGGEST.store(0, Ordering::Relaxed);
    let r = f();
    (r, (PEAK.load(Ordering::Relaxed) - start).max(0) as usize, BIGGEST.load(Ordering::Relaxed) as usize)
}
/// allocation bound of the C09 oracle (same as for the hand-written readers): live bytes above the level at entry
fn alloc_bound(input_len: usize) -> usize { 512 * input_len + (256 << 10) }
#[global_allocator]
static A: Counting = Counting;

pub trait Action {
    /// `wire_tt`: the wire type of a value of `T` (from the IDL)
    fn run<T: Message + Debug + 'static>(&mut self, default: Option<fn() -> T>, wire_tt: &'static str);
}

fn decode_with<T: Message>(proto: Proto, input: &[u8]) -> (Result<T, ThriftException>, usize) {
    let mut b = Bytes::copy_from_slice(input);
    match proto {
        Proto::Bin => { let mut p = TBinaryProtocol::new(&mut b, false); let r = T::decode(&mut p); drop(p); (r, b.len()) }
        Proto::Le => { let mut p = TBinaryLeProtocol::new(&mut b, false); let r = T::decode(&mut p); drop(p); (r, b.len()) }
        Proto::Cmp => { let mut p = TCompactInputProtocol::new(&mut b); let r = T::decode(&mut p); drop(p); (r, b.len()) }
        Proto::UBin => { let mut p = unsafe { TBinaryUnsafeInputProtocol::new(&mut b) }; let r = T::decode(&mut p); let i = p.index(); drop(p); (r, b.len().wrapping_sub(i)) }
    }
}

fn encode_with<T: Message>(proto: Proto, v: &T) -> Result<(Vec<u8>, usize), ThriftException> {
    let mut b = BytesMut::new();
    let size;
    match proto {
        Proto::Bin => { let mut p = TBinaryProtocol::new(&mut b, false); size = v.size(&mut p); v.encode(&mut p)?; }
        Proto::Le => { let mut p = TBinaryLeProtocol::new(&mut b, false); size = v.size(&mut p); v.encode(&mut p)?; }
        Proto::Cmp => { let mut p = TCompactOutputProtocol::new(&mut b, false); size = v.size(&mut p); v.encode(&mut p)?; }
        Proto::UBin => {
            let mut lp = TBinaryProtocol::new((), false);
            size = v.size(&mut lp);
            b.reserve(size + 64);
            unsafe {
                std::ptr::write_bytes(b.as_mut_ptr(), 0xAA, b.capacity());
                let window: &'static mut [u8] = std::slice::from_raw_parts_mut(b.as_mut_ptr(), size);
                let mut p = TBinaryUnsafeOutputProtocol::new(&mut b, window, false);
                v.encode(&mut p)?;
                let idx = p.index(); drop(p);
                if idx != size { return Err(pilota::thrift::new_protocol_exception(pilota::thrift::ProtocolExceptionKind::Unknown, format!("unchecked index {} != size {}", idx, size))); }
                b.advance_mut(idx);
            }
        }
    }
    Ok((b.to_vec(), size))
}

/// the binary encoding through the LinkedBytes writers (checked / unchecked, zero-copy off / on): must be the BytesMut bytes
fn encode_linked<T: Message>(v: &T, unchecked: bool, zc: bool) -> Result<Vec<u8>, ThriftException> {
    use linkedbytes::LinkedBytes;
    let concat = |lb: &mut LinkedBytes| { let mut out = Vec::new(); lb.sync_write_all_vectored(&mut out).expect("write to Vec"); out };
    if !unchecked {
        let mut lb = LinkedBytes::new();
        let mut p = TBinaryProtocol::new(&mut lb, zc);
        v.encode(&mut p)?;
        drop(p);
        return Ok(concat(&mut lb));
    }
    let mut lp = TBinaryProtocol::new((), false);
    let size = v.size(&mut lp);
    let mut lb = LinkedBytes::with_capacity(size + 64);
    unsafe {
        let l = lb.bytes_mut().len();
        let cap = lb.bytes_mut().capacity();
        let spare = lb.bytes_mut().as_mut_ptr().add(l);
        std::ptr::write_bytes(spare, 0xAA, cap - l);
        let window: &'static mut [u8] = std::slice::from_raw_parts_mut(spare, cap - l);
        let mut p = TBinaryUnsafeOutputProtocol::new(&mut lb, window, zc);
        v.encode(&mut p)?;
        let idx = p.index();
        drop(p);
        let rem = lb.bytes_mut().capacity() - lb.bytes_mut().len();
        if idx > rem { return Err(pilota::thrift::new_protocol_exception(pilota::thrift::ProtocolExceptionKind::Unknown, format!("unchecked index {} beyond capacity {}", idx, rem))); }
        lb.bytes_mut().advance_mut(idx);
    }
    Ok(concat(&mut lb))
}

/// canonical form of a value tree: map entries and set elements sorted by their text, duplicates kept as decoded
fn canon(v: &Val) -> Val {
    match v {
        Val::Struct(fs) => Val::Struct(fs.iter().map(|(i, x)| (*i, canon(x))).collect()),
        Val::List(t, xs) => Val::List(*t, xs.iter().map(canon).collect()),
        Val::Set(t, xs) => { let mut ys: Vec<Val> = xs.iter().map(canon).collect(); ys.sort_by_key(|y| y.sexp()); Val::Set(*t, ys) }
        Val::Map(k, t, kvs) => { let mut ys: Vec<(Val, Val)> = kvs.iter().map(|(a, b)| (canon(a), canon(b))).collect(); ys.sort_by_key(|(a, _)| a.sexp()); Val::Map(*k, *t, ys) }
        x => x.clone(),
    }
}

/// the value as its binary re-encoding reads back, canonicalised (hash containers have no order)
fn canon_of<T: Message>(v: &T, ws: &str) -> String {
    match encode_with(Proto::Bin, v) {
        Err(_) => "err-encode".into(),
        Ok((b, _)) => {
            let r = read_script(Proto::Bin, &b, &[ReadStep::Read(TT::of_name(ws).unwrap_or(TT::Struct))]);
            if r.err.is_none() && r.rem == 0 { Val::of_sexp(&Sexp::parse_line(&r.items[0]).unwrap()[0]).map(|v| canon(&v).sexp()).unwrap_or_default() } else { format!("raw:{}", hex(&b)) }
        }
    }
}

struct Recode<'a> { proto: Proto, input: &'a [u8], o: &'a mut Oracle, out: String, keep: bool, rt: bool }
impl<'a> Action for Recode<'a> {
    fn run<T: Message + Debug + 'static>(&mut self, _d: Option<fn() -> T>, ws: &'static str) {
        let ((r, rem), peak, biggest) = measured(|| decode_with::<T>(self.proto, self.input));
        if peak > alloc_bound(self.input.len()) { self.o.fail("C09", format!("emitted decoder under {}: peak allocation {} bytes (largest request {}) on {} input bytes", self.proto.name(), peak, biggest, self.input.len())); }
        self.out = match r {
            Err(e) => err_class(&e).to_string(),
            Ok(v) => {
                // size() == bytes written, under every protocol (C04 for emitted types)
                // retained unknown fields are raw binary-protocol bytes: only the binary family applies with retention
                let all: &[Proto] = if self.keep { &[Proto::Bin, Proto::UBin] } else { &[Proto::Bin, Proto::Le, Proto::Cmp, Proto::UBin] };
                for &p in all {
                    match encode_with(p, &v) {
                        Ok((b, size)) => if b.len() != size { self.o.fail("C04", format!("emitted size() {} != {} bytes written under {}", size, b.len(), p.name())); },
                        Err(e) => self.o.fail("C02,C11", format!("emitted encode failed under {}: {}", p.name(), e)),
                    }
                }
                match encode_with(Proto::Bin, &v) {
                    Err(_) => "err-encode".into(),
                    Ok((b, _)) => {
                        // every binary writer (BytesMut / LinkedBytes, checked / unchecked, zero-copy off / on) writes these bytes:
                        // retained chunks and large payloads go through the zero-copy insertion of the LinkedBytes writers
                        for (unchecked, zc) in [(false, false), (false, true), (true, false), (true, true)] {
                            match encode_linked(&v, unchecked, zc) {
                                Ok(lbv) => if lbv != b { self.o.fail("C11,C13,C02", format!("the {} LinkedBytes writer (zero-copy {}) wrote {} bytes that differ from the BytesMut writer's {} (first difference at {})",
                                    if unchecked { "unchecked" } else { "checked" }, zc, lbv.len(), b.len(), lbv.iter().zip(b.iter()).position(|(x, y)| x != y).unwrap_or(lbv.len().min(b.len())))); },
                                Err(e) => self.o.fail("C11,C13,C02", format!("the {} LinkedBytes writer (zero-copy {}) failed: {}", if unchecked { "unchecked" } else { "checked" }, zc, e)),
                            }
                        }
                        // read back by the wire type the IDL gives the declared type (a newtype / enum is not a struct on the wire)
                        let r = read_script(Proto::Bin, &b, &[ReadStep::Read(TT::of_name(ws).unwrap_or(TT::Struct))]);
                        let shown = if r.err.is_none() && r.rem == 0 { Val::of_sexp(&Sexp::parse_line(&r.items[0]).unwrap()[0]).map(|v| canon(&v).sexp()).unwrap_or_default() } else { format!("raw:{}", hex(&b)) };
                        // the same value must round trip through the other protocols (C02).  The reference is the value's own
                        // binary round trip, not the value: an absent optional field with an IDL default legitimately comes back filled.
                        if !self.rt { self.out = format!("ok {} rem={}", shown, rem); return; }
                        let reference = match decode_with::<T>(Proto::Bin, &b) { (Ok(vb), 0) => canon_of(&vb, ws), _ => { self.o.fail("C02", "binary round trip of a decoded value failed or left bytes".into()); shown.clone() } };
                        for &p in all.iter().filter(|p| **p != Proto::Bin) {
                            if let Ok((b2, _)) = encode_with(p, &v) {
                                let (r2, rem2) = decode_with::<T>(p, &b2);
                                match r2 { Ok(v2) => { if rem2 != 0 || canon_of(&v2, ws) != reference { self.o.fail("C02", format!("round trip under {} changed the value or left {} bytes", p.name(), rem2)); } }
                                           Err(e) => self.o.fail("C02", format!("round trip under {} failed: {}", p.name(), e)) }
                            }
                        }
                        format!("ok {} rem={}", shown, rem)
                    }
                }
            }
        };
    }
}

struct DefaultOf { out: String }
impl Action for DefaultOf {
    fn run<T: Message + Debug + 'static>(&mut self, d: Option<fn() -> T>, ws: &'static str) {
        self.out = match d {
            None => "no-default".into(),
            Some(f) => match encode_with(Proto::Bin, &f()) {
                Err(_) => "err-encode".into(),
                Ok((b, _)) => { let r = read_script(Proto::Bin, &b, &[ReadStep::Read(TT::of_name(ws).unwrap_or(TT::Struct))]); if r.err.is_none() && r.rem == 0 { format!("ok {}", Val::of_sexp(&Sexp::parse_line(&r.items[0]).unwrap()[0]).map(|v| canon(&v).sexp()).unwrap_or_default()) } else { format!("ok raw:{}", hex(&b)) } }
            },
        };
    }
}

struct Leak<'a> { proto: Proto, input: &'a [u8], out: String, leaks: Vec<usize>, accepted_prefix: Option<usize> }
impl<'a> Action for Leak<'a> {
    fn run<T: Message + Debug + 'static>(&mut self, _d: Option<fn() -> T>, ws: &'static str) {
        // warm up once so that lazily initialised statics do not count
        { let _ = decode_with::<T>(self.proto, self.input); }
        for cut in 0..self.input.len() {
            let before = LIVE.load(Ordering::Relaxed);
            let failed;
            { let (r, _) = decode_with::<T>(self.proto, &self.input[..cut]); failed = r.is_err(); drop(r); }
            let after = LIVE.load(Ordering::Relaxed);
            if failed { if after != before { self.leaks.push(cut); } } else if self.accepted_prefix.is_none() { self.accepted_prefix = Some(cut); }
        }
        self.out = format!("ok n={} leaks={}", self.input.len(), if self.leaks.is_empty() { "-".to_string() } else { self.leaks.iter().map(|x| x.to_string()).collect::<Vec<_>>().join(",") });
    }
}

// ---- async: scripted reader + hand-rolled executor
struct Chunked { data: Vec<u8>, pos: usize, chunks: Vec<usize>, ci: usize, pulled: usize }
impl tokio::io::AsyncRead for Chunked {
    fn poll_read(mut self: std::pin::Pin<&mut Self>, cx: &mut std::task::Context<'_>, buf: &mut tokio::io::ReadBuf<'_>) -> std::task::Poll<std::io::Result<()>> {
        let me = &mut *self;
        let c = if me.ci < me.chunks.len() { let c = me.chunks[me.ci]; me.ci += 1; c } else { usize::MAX };
        if c == 0 { cx.waker().wake_by_ref(); return std::task::Poll::Pending; }   // spurious pending
        let n = c.min(buf.remaining()).min(me.data.len() - me.pos);
        buf.put_slice(&me.data[me.pos..me.pos + n]);
        me.pos += n; me.pulled += n;
        std::task::Poll::Ready(Ok(()))
    }
}
fn block_on<F: std::future::Future>(f: F) -> F::Output {
    use std::task::{Context, Poll, RawWaker, RawWakerVTable, Waker};
    fn noop(_: *const ()) {} fn clone(_: *const ()) -> RawWaker { RawWaker::new(std::ptr::null(), &VT) }
    static VT: RawWakerVTable = RawWakerVTable::new(clone, noop, noop, noop);
    let w = unsafe { Waker::from_raw(RawWaker::new(std::ptr::null(), &VT)) };
    let mut cx = Context::from_waker(&w);
    let mut f = std::pin::pin!(f);
    loop { if let Poll::Ready(v) = f.as_mut().poll(&mut cx) { return v; } }
}
struct AsyncDec<'a> { proto: Proto, input: &'a [u8], chunks: Vec<usize>, o: &'a mut Oracle, out: String }
impl<'a> Action for AsyncDec<'a> {
    fn run<T: Message + Debug + 'static>(&mut self, _d: Option<fn() -> T>, ws: &'static str) {
        let mut rd = Chunked { data: self.input.to_vec(), pos: 0, chunks: self.chunks.clone(), ci: 0, pulled: 0 };
        let proto = self.proto;
        let (r, peak, biggest): (Result<T, ThriftException>, usize, usize) = measured(|| match proto {
            Proto::Bin | Proto::UBin => block_on(async { let mut p = TAsyncBinaryProtocol::new(&mut rd); T::decode_async(&mut p).await }),
            Proto::Le => block_on(async { let mut p = TAsyncBinaryLeProtocol::new(&mut rd); T::decode_async(&mut p).await }),
            Proto::Cmp => block_on(async { let mut p = TAsyncCompactProtocol::new(&mut rd); T::decode_async(&mut p).await }),
        });
        if peak > alloc_bound(self.input.len()) { self.o.fail("C09", format!("emitted async decoder under {}: peak allocation {} bytes (largest request {}) on {} input bytes", proto.name(), peak, biggest, self.input.len())); }
        let (sr, srem) = decode_with::<T>(self.proto, self.input);
        // C12: same outcome as the in-memory decoder, never reads past the message
        match (&r, &sr) {
            (Ok(a), Ok(s)) => { if canon_of(a, ws) != canon_of(s, ws) { self.o.fail("C12", "async value differs from in-memory value".into()); }
                                if rd.pulled != self.input.len() - srem { self.o.fail("C12", format!("async pulled {} bytes, in-memory consumed {}", rd.pulled, self.input.len() - srem)); } }
            (Ok(_), Err(e)) => self.o.fail("C12", format!("async ok where in-memory decoder fails: {}", e)),
            (Err(e), Ok(_)) => self.o.fail("C12", format!("async fails where in-memory decoder succeeds: {}", e)),
            (Err(_), Err(_)) => {}
        }
        self.out = match r {
            // the async skipper has no container-size check to fail on first, so it may report the depth limit where the
            // in-memory reader reports a size error: both are errors, the class is not compared
            Err(e) => { let c = err_class(&e); if c == "depth" { "err".to_string() } else { c.to_string() } }
            Ok(v) => match encode_with(Proto::Bin, &v) {
                Err(_) => "err-encode".into(),
                Ok((b, _)) => { let r = read_script(Proto::Bin, &b, &[ReadStep::Read(TT::of_name(ws).unwrap_or(TT::Struct))]); let shown = if r.err.is_none() && r.rem == 0 { Val::of_sexp(&Sexp::parse_line(&r.items[0]).unwrap()[0]).map(|v| canon(&v).sexp()).unwrap_or_default() } else { format!("raw:{}", hex(&b)) }; format!("ok {} pulled={}", shown, rd.pulled) }
            },
        };
    }
}

fn exec(verb: &str, items: &[Sexp], o: &mut Oracle) -> Option<String> {
    let a = |i: usize| items.get(i).and_then(|x| x.atom());
    let bad = || Some("bad-request".to_string());
    match verb {
        "doc" => Some("ok".into()),
        "gbs" => {
            // gbs <doc> <type> <proto> <stack-KiB> <hex>: decode on a thread with a small stack (C09: no stack exhaustion)
            let (Some(doc), Some(ty), Some(proto), Some(kib), Some(input)) = (a(1), a(2), a(3).and_then(Proto::of), a(4).and_then(|s| s.parse::<usize>().ok()), a(5).and_then(unhex)) else { return bad() };
            let (doc, ty) = (doc.to_string(), ty.to_string());
            let h = std::thread::Builder::new().stack_size(kib << 10).spawn(move || {
                let mut o2 = Oracle { fails: vec![] };
                let mut act = Recode { proto, input: &input, o: &mut o2, out: String::new(), keep: doc.ends_with('k'), rt: true };
                if !dispatch(&doc, &ty, &mut act) { return "unknown-type".to_string(); }
                act.out
            }).unwrap();
            match h.join() { Ok(s) => Some(s), Err(_) => { o.fail("PANIC", "decode panicked on a small stack".into()); Some("panic".into()) } }
        }
        "gd" | "gb" | "gl" | "ga" | "gab" => {
            let (Some(doc), Some(ty), Some(proto)) = (a(1), a(2), a(3).and_then(Proto::of)) else { return bad() };
            let mut idx = 4;
            let mut chunks = vec![];
            if verb == "ga" || verb == "gab" { let Some(c) = a(4) else { return bad() }; chunks = if c == "-" { vec![] } else { c.split(',').filter_map(|x| x.parse().ok()).collect() }; idx = 5; }
            let input: Vec<u8> = if verb == "gb" || verb == "gab" { let Some(h) = a(idx).and_then(unhex) else { return bad() }; h }
            else {
                let Some(v) = items.get(idx).and_then(Val::of_sexp) else { return bad() };
                match write_all(proto, BufK::Bm, StrApi::Bytes, &[v]) { Ok(w) => w.bytes, Err(_) => return Some("err-input".into()) }
            };
            let expect = items.iter().position(|x| x.atom() == Some("=>")).and_then(|i| items.get(i + 1));
            let out;
            match verb {
                "gl" => { let mut act = Leak { proto, input: &input, out: String::new(), leaks: vec![], accepted_prefix: None }; if !dispatch(doc, ty, &mut act) { return Some("unknown-type".into()); } out = act.out;
                          if !act.leaks.is_empty() { o.fail("C19", format!("failed decode of {}::{} under {} leaves heap memory or buffer references behind when the input is cut at {:?}", doc, ty, proto.name(), act.leaks)); }
                          if let Some(c) = act.accepted_prefix { o.fail("C09", format!("strict prefix of length {} of a valid {}::{} encoding is accepted under {}", c, doc, ty, proto.name())); } }
                "ga" | "gab" => { let mut act = AsyncDec { proto, input: &input, chunks, o, out: String::new() }; if !dispatch(doc, ty, &mut act) { return Some("unknown-type".into()); } out = act.out; }
                _ => { let rt = !items.iter().any(|x| x.atom() == Some("nort")); let mut act = Recode { proto, input: &input, o, out: String::new(), keep: doc.ends_with('k'), rt }; if !dispatch(doc, ty, &mut act) { return Some("unknown-type".into()); } out = act.out; }
            }
            if let Some(e) = expect {
                let want = match e { Sexp::Atom(s) => s.clone(), l => { let mut s = String::new(); fn p(x: &Sexp, s: &mut String) { match x { Sexp::Atom(a) => s.push_str(a), Sexp::List(l) => { s.push('('); for (i, y) in l.iter().enumerate() { if i > 0 { s.push(' '); } p(y, s); } s.push(')'); } } } p(l, &mut s); s } };
                let got = if out.starts_with("ok ") { out[3..].rsplit_once(' ').map(|x| x.0.to_string()).unwrap_or_default() } else { out.clone() };
                let same = got == want || (want == "err" && (got == "err" || got == "depth"));
                if !same { o.fail(items.iter().rev().filter_map(|x| x.atom()).find(|t| t.starts_with('C') && t.len() == 3).unwrap_or("C02"), format!("emitted {}::{} under {}: got {} want {}", doc, ty, proto.name(), got, want)); }
            }
            Some(out)
        }
        "gf" => {
            let (Some(doc), Some(ty)) = (a(1), a(2)) else { return bad() };
            let mut act = DefaultOf { out: String::new() };
            if !dispatch(doc, ty, &mut act) { return Some("unknown-type".into()); }
            let expect = items.iter().position(|x| x.atom() == Some("=>")).and_then(|i| items.get(i + 1));
            if let Some(e) = expect { let mut s = String::new(); fn p(x: &Sexp, s: &mut String) { match x { Sexp::Atom(a) => s.push_str(a), Sexp::List(l) => { s.push('('); for (i, y) in l.iter().enumerate() { if i > 0 { s.push(' '); } p(y, s); } s.push(')'); } } } p(e, &mut s);
                if act.out != format!("ok {}", s) { o.fail("C20", format!("Default of {}::{}: got {} want ok {}", doc, ty, act.out, s)); } }
            Some(act.out)
        }
        _ => None,
    }
}

fn gen(_stream: &str, _tier: &str, _seed: u64, _out: &mut dyn Write) -> bool { false }

static MODS: &[(rt::ExecFn, rt::GenFn)] = &[(exec, gen)];
fn main() { rt::run_main(MODS); }
