//! gentool thrift|protobuf <out.rs> [--split] [--keep] [--no-change-case] [--ignore-unused] [--workspace] -- <idl>...
//! Runs the real pilota_build::Builder; exit status 0, or non-zero with the panic text on stderr.
use std::path::PathBuf;

fn main() {
    let args: Vec<String> = std::env::args().collect();
    let kind = args[1].clone();
    let out = PathBuf::from(&args[2]);
    let sep = args.iter().position(|a| a == "--").expect("-- before idl files");
    let flags: Vec<&str> = args[3..sep].iter().map(|s| s.as_str()).collect();
    let idls: Vec<PathBuf> = args[sep + 1..].iter().map(PathBuf::from).collect();
    let has = |f: &str| flags.contains(&f);
    let output = if has("--workspace") { pilota_build::Output::Workspace(out.clone()) } else { pilota_build::Output::File(out.clone()) };
    let services: Vec<pilota_build::IdlService> = idls.iter().map(|p| pilota_build::IdlService::from_path(p.clone())).collect();
    let inc: Vec<PathBuf> = idls.iter().filter_map(|p| p.parent().map(|d| d.to_path_buf())).collect();
    match kind.as_str() {
        "thrift" => {
            let mut b = pilota_build::Builder::thrift()
                .ignore_unused(has("--ignore-unused"))
                .split_generated_files(has("--split"))
                .change_case(!has("--no-change-case"))
                .include_dirs(inc);
            if has("--keep") { b = b.keep_unknown_fields(idls.clone()); }
            b.compile_with_config(services, output);
        }
        "protobuf" => {
            let b = pilota_build::Builder::protobuf()
                .ignore_unused(has("--ignore-unused"))
                .split_generated_files(has("--split"))
                .change_case(!has("--no-change-case"))
                .include_dirs(inc);
            b.compile_with_config(services, output);
        }
        _ => panic!("unknown kind"),
    }
}
