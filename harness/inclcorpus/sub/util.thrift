namespace rs util_v2

struct Cursor { 1: required binary token, 2: optional Cursor next }
union Either { 1: Cursor c, 2: i64 n }
