namespace rs base

enum Tone { Low = 1, High = 2 }
struct Meta { 1: required string trace_id, 2: optional map<string, string> extra, 3: Tone tone = Tone.High }
typedef list<Meta> Metas
const i32 LIMIT = 25
const string GREETING = "hello"
exception Broken { 1: required string why, 2: optional Meta meta }
