include "base.thrift"

namespace rs mid.layer

struct Wrapped { 1: required base.Meta meta, 2: optional base.Metas more, 3: i32 cap = base.LIMIT }
service Parent {
    base.Meta describe(1: Wrapped w) throws (1: base.Broken broken),
    oneway void poke(1: string s),
}
