namespace rs util

struct Stamp { 1: required i64 at, 2: optional string zone }
