// `base.thrift` comes before `base.ext.thrift`: one include name is a prefix of the other; `util.thrift` and `sub/util.thrift`
// share their file stem; `mid.thrift` includes `base.thrift` again (a diamond).
include "base.thrift"
include "base.ext.thrift"
include "util.thrift"
include "sub/util.thrift"
include "mid.thrift"

namespace rs main.api

struct Invoice {
    1: required base.Meta meta,
    2: required base.ext.Money total,
    3: optional base.ext.Currency display = base.ext.Currency.USD,
    4: required i32 scale = base.ext.SCALE,
    5: required util.Stamp stamp,
    6: optional util.Cursor next,
    7: optional util.Either either,
    8: optional mid.Wrapped wrapped,
    9: string hello = base.GREETING,
    10: optional list<base.ext.Money> items,
    11: optional map<string, mid.Wrapped> by_name,
}

exception Failure { 1: required string reason, 2: optional base.Broken cause }

// two services whose names differ only in case (both convert to `Relay`), sharing method names
service Relay {
    Invoice ping(1: Invoice req) throws (1: Failure failure, 2: base.Broken broken),
    void drop(1: base.ext.Money m),
}

service relay {
    Invoice ping(1: Invoice req) throws (1: Failure failure),
    Invoice pong(1: util.Cursor from),
}

service Child extends mid.Parent {
    base.ext.Money total(1: list<Invoice> invoices, 2: util.Stamp at),
}
