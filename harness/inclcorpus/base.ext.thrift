namespace rs base_ext

enum Currency { EUR = 1, USD = 2 }
struct Money { 1: required i64 amount, 2: required Currency currency = Currency.EUR }
const i32 SCALE = 100
