//! The verbs over the EMITTED message types.  Each is a generic function instantiated once per type
//! by the dispatch table (`glue::entries()`).
//!
//!   pbeenc <type> <f0|f1> <schema> <i> <msg>          -> ok <hex|~> len=<n>
//!   pbedec <type> <schema> <i> <hex>                   -> ok <msg> | err | depth
//!   pbemrg <type> <schema> <i> <msg> <hex>             -> ok <msg> | err | depth
//!   pbedld <type> <schema> <i> <hex>                   -> ok <msg> rem=<n> | err | depth
//!   pbecat <type> <f0|f1> <schema> <i> <msgA> <msgB>   -> ok <msg> | err | depth
use std::collections::HashMap;
use std::sync::{Arc, OnceLock};

use bytes::{Buf, Bytes, BytesMut};
use pilota::prost::{DecodeError, Message};

use crate::glue::{to_dyn, Glue};
use crate::shared::dynmsg::*;
use crate::shared::msgverbs::{check_utf8, class, flag_name, FLAG_ON};
use crate::val::*;
use crate::Oracle;

pub struct Ops {
    pub enc: fn(&Arc<Schema>, &DynMsg, &mut Oracle) -> String,
    pub dec: fn(&Arc<Schema>, usize, Vec<u8>, &mut Oracle) -> String,
    pub mrg: fn(&Arc<Schema>, &DynMsg, Vec<u8>, &mut Oracle) -> String,
    pub dld: fn(&Arc<Schema>, usize, Vec<u8>, &mut Oracle) -> String,
    pub cat: fn(&Arc<Schema>, &DynMsg, &DynMsg, &mut Oracle) -> String,
    pub leak: fn(Vec<u8>, &mut Oracle) -> String,
    /// the emitted encoder, for the request generators
    pub raw_enc: fn(&DynMsg) -> Vec<u8>,
    pub raw_enc_ld: fn(&DynMsg) -> Vec<u8>,
}
impl Ops {
    pub fn of<T: Message + Default + Clone + Glue>() -> Ops {
        Ops { enc: v_enc::<T>, dec: v_dec::<T>, mrg: v_mrg::<T>, dld: v_dld::<T>, cat: v_cat::<T>, leak: v_leak::<T>, raw_enc: raw_enc::<T>, raw_enc_ld: raw_enc_ld::<T> }
    }
}
pub struct Entry { pub name: &'static str, pub file: usize, pub idx: usize, pub ops: Ops }

pub struct Table { pub entries: Vec<Entry>, pub schemas: Vec<Arc<Schema>>, pub by_name: HashMap<&'static str, usize> }
pub fn table() -> &'static Table {
    static T: OnceLock<Table> = OnceLock::new();
    T.get_or_init(|| {
        let entries = crate::glue::entries();
        let schemas = crate::glue::FILE_SCHEMAS.iter().map(|(f, t)| {
            let s = Schema::of_sexp(&Sexp::parse_line(t).expect("schema text")[0]).unwrap_or_else(|| panic!("schema of {} does not parse", f));
            assert_eq!(&s.sexp(), t, "schema of {} is not in the printed form", f);
            Arc::new(s)
        }).collect();
        let by_name = entries.iter().enumerate().map(|(i, e)| (e.name, i)).collect();
        Table { entries, schemas, by_name }
    })
}
impl Table {
    pub fn schema_of(&self, e: &Entry) -> &Arc<Schema> { &self.schemas[e.file] }
    pub fn schema_text(&self, e: &Entry) -> &'static str { crate::glue::FILE_SCHEMAS[e.file].1 }
    pub fn get(&self, name: &str) -> Option<&Entry> { self.by_name.get(name).map(|i| &self.entries[*i]) }
}

fn build<T: Glue>(m: &DynMsg) -> Option<T> { if m.idx != T::IDX { return None; } T::from_slots(&m.slots) }
fn raw_enc<T: Message + Glue>(m: &DynMsg) -> Vec<u8> { build::<T>(m).expect("generator: value fits the emitted type").encode_to_vec() }
fn raw_enc_ld<T: Message + Glue>(m: &DynMsg) -> Vec<u8> { build::<T>(m).expect("generator: value fits the emitted type").encode_length_delimited_to_vec() }

type Outcome = Result<(DynMsg, usize), DecodeError>;
fn show(r: &Outcome) -> String { match r { Ok((m, rem)) => format!("ok {} rem={}", m_sexp(m), rem), Err(e) => format!("{} ({})", class(e), e) } }

/// run the UTF-8 oracle, cross-check the emitted decode against the dynamic message's decode of the
/// same bytes, print the answer
fn finish(with_rem: bool, s: &Arc<Schema>, emitted: Outcome, dynamic: Outcome, o: &mut Oracle) -> String {
    let mut badstr = vec![];
    if let Ok((m, _)) = &emitted { check_utf8(s, m, &mut badstr); }
    if !badstr.is_empty() { o.fail("NOTE-utf8", format!("decoded message holds a string that is not UTF-8: {}", badstr[0])); }
    let same = match (&emitted, &dynamic) {
        (Ok((a, ra)), Ok((b, rb))) => ra == rb && m_same(a, b),
        (Err(a), Err(b)) => class(a) == class(b),
        _ => false,
    };
    // The dynamic message keeps its values as `SV`s and converts them back with `Conv::of_sv`, which
    // validates UTF-8 (`sc_merge_repeated` re-converts the whole accumulator and so turns an earlier
    // non-UTF-8 element into ""): once the emitted value holds a non-UTF-8 string (reported above)
    // the dynamic message is not a reference any more.
    if !same && badstr.is_empty() { o.fail("C05,C10,C18", format!("emitted decode differs from dynamic message decode: emitted {} dynamic {}", show(&emitted), show(&dynamic))); }
    match emitted {
        Ok((m, rem)) => if with_rem { format!("ok {} rem={}", m_sexp(&m), rem) } else { format!("ok {}", m_sexp(&m)) },
        Err(e) => class(&e),
    }
}

fn v_enc<T: Message + Default + Clone + Glue>(s: &Arc<Schema>, m: &DynMsg, o: &mut Oracle) -> String {
    let Some(t) = build::<T>(m) else { return "bad-request".into() };
    let back = to_dyn(&t, s);
    assert!(m_same(m, &back), "harness: glue does not read back what it built: {}", m_sexp(&back));
    let mut b = BytesMut::new();
    t.encode_raw(&mut b);
    let l = t.encoded_len();
    if l != b.len() { o.fail("C05", format!("encoded_len {} != {} bytes written", l, b.len())); }
    let multi = multi_entry(m);
    if t.encode_to_vec()[..] != b[..] { o.fail("C05", "encode_to_vec differs from encode_raw".to_string()); }
    match T::decode(b.clone().freeze()) {
        Ok(t2) => {
            let m2 = to_dyn(&t2, s);
            if !m_same(m, &m2) {
                if !FLAG_ON && m_same(&norm_negzero(m), &m2) { o.fail("C05", format!("decode(encode x) differs from x only in map values equal to their default under IEEE == (negative zero dropped): {}", m_sexp(&m2))); }
                else { o.fail("C05", format!("decode(encode x) = {} differs from x", m_sexp(&m2))); }
            }
        }
        Err(e) => o.fail("C05", format!("decode(encode x) failed: {}", e)),
    }
    let mut ld = Bytes::from(t.encode_length_delimited_to_vec());
    match T::decode_length_delimited(&mut ld).map(|t2| (to_dyn(&t2, s), ld.remaining())) {
        Ok((m2, 0)) if m_same(m, &m2) || (!FLAG_ON && m_same(&norm_negzero(m), &m2)) => {}
        other => o.fail("C05", format!("decode_length_delimited(encode_length_delimited x): {:?}", other.map(|(m, r)| (m_sexp(&m), r)).map_err(|e| e.to_string()))),
    }
    // the dynamic message built from the same value
    let dl = m.encoded_len();
    if dl != l { o.fail("C05", format!("emitted encoded_len {} differs from dynamic message encoded_len {}", l, dl)); }
    if !multi {
        let mut db = BytesMut::new();
        m.encode_raw(&mut db);
        if db[..] != b[..] { o.fail("C05", format!("emitted bytes differ from dynamic message bytes: emitted {} dynamic {}", hex(&b), hex(&db))); }
    }
    format!("ok {} len={}", if multi { "~".to_string() } else { hex(&b) }, l)
}

fn v_dec<T: Message + Default + Clone + Glue>(s: &Arc<Schema>, i: usize, input: Vec<u8>, o: &mut Oracle) -> String {
    let buf = Bytes::from(input.clone());
    let (res, alloc, dt) = crate::measured(|| T::decode(buf));
    crate::check_bounded(o, "decode", input.len(), alloc, dt);
    let emitted = res.map(|t| (to_dyn(&t, s), 0));
    // the same bytes through a buffer that hands them out in small chunks (a chained / non-contiguous `Buf`)
    for k in [1usize, 7] {
        let alt = T::decode(crate::shared::rtverbs::Chunked { data: &input, pos: 0, k }).map(|t| to_dyn(&t, s));
        let same = match (&emitted, &alt) { (Ok((a, _)), Ok(b)) => m_same(a, b), (Err(_), Err(_)) => true, _ => false };
        if !same { o.fail("C05,C06,C10,C18", format!("decode through {}-byte chunks gives {:?}, from one contiguous buffer {:?}", k, alt.as_ref().map(m_sexp).map_err(|e| e.to_string()), emitted.as_ref().map(|x| m_sexp(&x.0)).map_err(|e| e.to_string()))); }
    }
    let dynamic = DynMsg::decode_dyn(s, i, false, Bytes::from(input)).map(|m| (m, 0));
    finish(false, s, emitted, dynamic, o)
}

fn v_mrg<T: Message + Default + Clone + Glue>(s: &Arc<Schema>, m: &DynMsg, input: Vec<u8>, o: &mut Oracle) -> String {
    let Some(mut t) = build::<T>(m) else { return "bad-request".into() };
    let buf = Bytes::from(input.clone());
    let (res, alloc, dt) = crate::measured(|| t.merge(buf));
    crate::check_bounded(o, "merge", input.len(), alloc, dt);
    let emitted = res.map(|_| (to_dyn(&t, s), 0));
    let mut d = m.clone();
    let dynamic = d.merge(Bytes::from(input)).map(|_| (d, 0));
    finish(false, s, emitted, dynamic, o)
}

fn v_dld<T: Message + Default + Clone + Glue>(s: &Arc<Schema>, i: usize, input: Vec<u8>, o: &mut Oracle) -> String {
    let mut b = Bytes::from(input.clone());
    let (res, alloc, dt) = crate::measured(|| T::decode_length_delimited(&mut b));
    crate::check_bounded(o, "decode_length_delimited", input.len(), alloc, dt);
    let emitted = res.map(|t| (to_dyn(&t, s), b.remaining()));
    let dynamic = DynMsg::decode_ld_dyn(s, i, false, Bytes::from(input));
    finish(true, s, emitted, dynamic, o)
}

fn v_cat<T: Message + Default + Clone + Glue>(s: &Arc<Schema>, ma: &DynMsg, mb: &DynMsg, o: &mut Oracle) -> String {
    let (Some(a), Some(b)) = (build::<T>(ma), build::<T>(mb)) else { return "bad-request".into() };
    let eb = b.encode_to_vec();
    let mut cat = a.encode_to_vec();
    cat.extend_from_slice(&eb);
    let whole = T::decode(Bytes::from(cat.clone())).map(|t| to_dyn(&t, s));
    // decode the first encoding, then merge the second into the result
    let stepped = T::decode(Bytes::from(a.encode_to_vec())).and_then(|mut step| step.merge(Bytes::from(eb)).map(|_| to_dyn(&step, s)));
    match (&whole, &stepped) {
        (Ok(x), Ok(y)) if m_same(x, y) => {}
        _ => o.fail("C18", format!("decode(a ++ b) {:?} != decode a then merge b {:?}", whole.as_ref().map(m_sexp).map_err(|e| e.to_string()), stepped.as_ref().map(m_sexp).map_err(|e| e.to_string()))),
    }
    let dynamic = DynMsg::decode_dyn(s, T::IDX, false, Bytes::from(cat)).map(|m| (m, 0));
    finish(false, s, whole.map(|m| (m, 0)), dynamic, o)
}

/// C19 for emitted protobuf types: every truncation of `input` and every single-byte corruption from a fixed set of values is
/// decoded; when the decode fails, the live heap must be back where it was once the error and our own handle on the input are
/// dropped (a value that still held references into the input would keep the input's allocation alive).
/// pbeleak <type> <hex>  -> ok n=<len> tried=<failing decodes> leaks=<list of cut:N / flip:POS:VAL, or ->
fn v_leak<T: Message + Default + Clone + Glue>(input: Vec<u8>, o: &mut Oracle) -> String {
    use std::sync::atomic::Ordering::Relaxed;
    let run = |bytes: &[u8]| -> (bool, bool) {
        let before = crate::LIVE.load(Relaxed);
        let failed;
        { let buf = Bytes::copy_from_slice(bytes); let r = T::decode(buf); failed = r.is_err(); drop(r); }
        (failed, crate::LIVE.load(Relaxed) != before)
    };
    // warm up (lazily initialised statics, thread locals)
    let _ = run(&input); let _ = run(&input[..input.len() / 2]);
    let mut leaks: Vec<String> = vec![];
    let mut tried = 0usize;
    for cut in 0..input.len() {
        let (failed, leaked) = run(&input[..cut]);
        if failed { tried += 1; if leaked { leaks.push(format!("cut:{}", cut)); } }
    }
    for pos in 0..input.len() {
        for val in [0x00u8, 0x07, 0x0f, 0x3f, 0x7f, 0x80, 0xff, input[pos] ^ 0x01, input[pos] ^ 0x04, input[pos].wrapping_add(1)] {
            if val == input[pos] { continue; }
            let mut m = input.clone(); m[pos] = val;
            let (failed, leaked) = run(&m);
            if failed { tried += 1; if leaked { leaks.push(format!("flip:{}:{:02x}", pos, val)); } }
        }
    }
    if !leaks.is_empty() { o.fail("C19", format!("failed decode of an emitted protobuf type leaves heap memory or buffer references behind at {:?}", &leaks[..leaks.len().min(8)])); }
    format!("ok n={} tried={} leaks={}", input.len(), tried, if leaks.is_empty() { "-".to_string() } else { leaks.join(",") })
}

pub fn exec(verb: &str, items: &[Sexp], o: &mut Oracle) -> Option<String> {
    if !matches!(verb, "pbeenc" | "pbedec" | "pbemrg" | "pbedld" | "pbecat" | "pbespecchk" | "pbedup" | "pbeleak") { return None; }
    let a = |i: usize| items.get(i).and_then(|x| x.atom());
    let bad = || Some("bad-request".to_string());
    let tb = table();
    let Some(e) = a(1).and_then(|n| tb.get(n)) else { return bad() };
    let s = tb.schema_of(e);
    // <schema> <i> start at `at`; they must be the table's
    let check = |at: usize| -> bool {
        let (Some(rs), Some(ri)) = (items.get(at).and_then(Schema::of_sexp), a(at + 1).and_then(|x| x.parse::<usize>().ok())) else { return false };
        rs == **s && ri == e.idx
    };
    if verb == "pbeleak" { let Some(input) = a(2).and_then(unhex) else { return bad() }; return Some((e.ops.leak)(input, o)); }
    Some(match verb {
        "pbespecchk" => {
            // pbespecchk <type> <pschema> <i> <msg> <hex>: hex is claimed to be a conforming encoding of msg  -> ok 1 <emitted decode>
            use crate::shared::refcodec::{pschema_of_sexp, ref_decode};
            let (Some(ps), Some(ri)) = (items.get(2).and_then(pschema_of_sexp), a(3).and_then(|x| x.parse::<usize>().ok())) else { return bad() };
            if ps != **s || ri != e.idx { return bad() }
            let (Some(m), Some(input)) = (items.get(4).and_then(|x| m_of_sexp(s, e.idx, false, x)), a(5).and_then(unhex)) else { return bad() };
            let ans = (e.ops.dec)(s, e.idx, input, o);
            if ans != format!("ok {}", m_sexp(&m)) { o.fail("C06", format!("emitted decode of a conforming encoding: {}", ans)); }
            let enc = (e.ops.raw_enc)(&m);
            match ref_decode(s, e.idx, false, &enc) {
                Some(m3) if m_same(&m, &m3) || (!FLAG_ON && m_same(&norm_negzero(&m), &m3)) => {}
                other => o.fail("C06", format!("the reference decoder reads the emitted encoding {} as {}", hex(&enc), other.as_ref().map(m_sexp).unwrap_or("err".into()))),
            }
            match ans.strip_prefix("ok ") { Some(rest) => format!("ok 1 {}", rest), None => format!("ok 1 {}", ans) }
        }
        "pbedup" => {
            // pbedup <type> <pschema> <i> <msg> <hex>: hex = records overridden by a conforming encoding of msg that follows them
            use crate::shared::refcodec::pschema_of_sexp;
            let (Some(ps), Some(ri)) = (items.get(2).and_then(pschema_of_sexp), a(3).and_then(|x| x.parse::<usize>().ok())) else { return bad() };
            if ps != **s || ri != e.idx { return bad() }
            let (Some(m), Some(input)) = (items.get(4).and_then(|x| m_of_sexp(s, e.idx, false, x)), a(5).and_then(unhex)) else { return bad() };
            let ans = (e.ops.dec)(s, e.idx, input, o);
            if ans != format!("ok {}", m_sexp(&m)) { o.fail("C06,C18", format!("a valid encoding whose later records override earlier ones (same map key / same singular field) decodes to {}", ans)); }
            ans
        }
        "pbeenc" | "pbecat" => {
            if a(2) != Some(flag_name()) { return Some("bad-flag".into()) }
            if !check(3) { return bad() }
            let Some(m) = items.get(5).and_then(|x| m_of_sexp(s, e.idx, false, x)) else { return bad() };
            if verb == "pbeenc" { (e.ops.enc)(s, &m, o) } else {
                let Some(m2) = items.get(6).and_then(|x| m_of_sexp(s, e.idx, false, x)) else { return bad() };
                (e.ops.cat)(s, &m, &m2, o)
            }
        }
        "pbedec" | "pbedld" => {
            if !check(2) { return bad() }
            let Some(input) = a(4).and_then(unhex) else { return bad() };
            if verb == "pbedec" { (e.ops.dec)(s, e.idx, input, o) } else { (e.ops.dld)(s, e.idx, input, o) }
        }
        _ => {
            if !check(2) { return bad() }
            let (Some(m), Some(input)) = (items.get(4).and_then(|x| m_of_sexp(s, e.idx, false, x)), a(5).and_then(unhex)) else { return bad() };
            (e.ops.mrg)(s, &m, input, o)
        }
    })
}
