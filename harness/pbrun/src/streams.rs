//! Request generators: `pbrun gen <C05e|C18e|C10e> <quick|thorough> <seed>`.
//! Fixed boundary cases first, then random ones, all from one `Rng(seed)`.
use std::io::Write;
use std::sync::Arc;

use crate::ops::{table, Entry, Table};
use crate::shared::dynmsg::*;
use crate::shared::msgverbs::{flag_name, gen_msg};
use crate::shared::rtverbs::{put_key, put_varint};
use crate::val::*;

struct Cx<'a> { tb: &'static Table, out: &'a mut dyn Write }
impl<'a> Cx<'a> {
    fn head(&self, e: &Entry) -> String { format!("{} {}", self.tb.schema_text(e), e.idx) }
    fn enc(&mut self, e: &Entry, m: &DynMsg) { let _ = writeln!(self.out, "pbeenc {} {} {} {}", e.name, flag_name(), self.head(e), m_sexp(m)); }
    fn dec(&mut self, e: &Entry, b: &[u8]) { let _ = writeln!(self.out, "pbedec {} {} {}", e.name, self.head(e), hex(b)); }
    fn dld(&mut self, e: &Entry, b: &[u8]) { let _ = writeln!(self.out, "pbedld {} {} {}", e.name, self.head(e), hex(b)); }
    fn mrg(&mut self, e: &Entry, m: &DynMsg, b: &[u8]) { let _ = writeln!(self.out, "pbemrg {} {} {} {}", e.name, self.head(e), m_sexp(m), hex(b)); }
    fn cat(&mut self, e: &Entry, a: &DynMsg, b: &DynMsg) { let _ = writeln!(self.out, "pbecat {} {} {} {} {}", e.name, flag_name(), self.head(e), m_sexp(a), m_sexp(b)); }
}

/// The encoding of `m` that the decode requests are fed: the EMITTED encoder's bytes, except when
/// some map of `m` holds two or more entries -- then the order of the entries in the emitted bytes
/// follows the per-process hash seed, and to keep `gen` reproducible the bytes come from the
/// dynamic message in its BTreeMap flavour (entries sorted by key) instead.
fn bytes_of(e: &Entry, m: &DynMsg) -> Vec<u8> {
    use pilota::prost::Message;
    if !multi_entry(m) { return (e.ops.raw_enc)(m); }
    let x = Sexp::parse_line(&m_sexp(m)).expect("printed value parses");
    m_of_sexp(&m.schema, m.idx, true, &x[0]).expect("printed value reads back").encode_to_vec()
}
fn ld_of(e: &Entry, m: &DynMsg) -> Vec<u8> { let b = bytes_of(e, m); let mut l = vec![]; put_varint(b.len() as u64, &mut l); l.extend_from_slice(&b); l }

fn value(r: &mut Rng, s: &Arc<Schema>, e: &Entry) -> DynMsg { let dp = 1 + r.below(4) as usize; gen_msg(r, s, e.idx, false, dp) }
/// a random value whose emitted encoding stays below `cap` bytes
fn small_value(r: &mut Rng, s: &Arc<Schema>, e: &Entry, cap: usize) -> (DynMsg, Vec<u8>) {
    for k in 0..12 {
        let dp = if k < 6 { 1 + r.below(3) as usize } else { 1 };
        let m = gen_msg(r, s, e.idx, false, dp);
        let b = bytes_of(e, &m);
        if b.len() <= cap && (!b.is_empty() || k >= 6) { return (m, b); }
    }
    let m = DynMsg::new(s, e.idx, false);
    let b = bytes_of(e, &m);
    (m, b)
}

/// every position of the type populated with something that owns memory: strings and byte strings too long for an inline
/// representation, two elements per repeated field, one entry per map, the first member of every oneof, nested messages likewise
/// (to `depth`; below it messages are left at their defaults)
fn full_value(s: &Arc<Schema>, idx: usize, depth: usize, salt: &mut u64) -> DynMsg {
    use crate::shared::sv::{Codec, SV};
    use crate::shared::dynmsg::{DK, MapS};
    fn scalar(c: Codec, salt: &mut u64) -> SV {
        *salt += 1;
        match c {
            Codec::Bool => SV::Bool(true),
            Codec::Float => SV::F32(0x3fc00000), Codec::Double => SV::F64(0x3ff8000000000000),
            Codec::Str | Codec::FastStr | Codec::Bytes => SV::Bs(format!("owned-payload-{:03}-abcdefghijklmnopqrstuvwxyz", *salt % 1000).into_bytes()),
            Codec::Uint32 | Codec::Uint64 | Codec::Fixed32 | Codec::Fixed64 => SV::Int(300 + (*salt % 50) as i128),
            _ => SV::Int(-300 - (*salt % 50) as i128),
        }
    }
    fn elem(s: &Arc<Schema>, ty: &FTy, depth: usize, salt: &mut u64) -> EVal {
        match ty { FTy::Scalar(c) => EVal::S(scalar(*c, salt)), FTy::Msg(i) => EVal::Msg(if depth == 0 { DynMsg::new(s, *i, false) } else { full_value(s, *i, depth - 1, salt) }) }
    }
    let mut m = DynMsg::new(s, idx, false);
    for (k, d) in s.decls(idx).iter().enumerate() {
        m.slots[k] = match d {
            Decl::Single { ty, opt: false, .. } => Slot::Req(elem(s, ty, depth, salt)),
            Decl::Single { ty, opt: true, .. } => Slot::Some(elem(s, ty, depth, salt)),
            Decl::Rep { ty, .. } => Slot::Rep(vec![elem(s, ty, depth, salt), elem(s, ty, depth, salt)]),
            Decl::Map { k: kc, v, .. } => { let mut mm = MapS::new(false); mm.insert(DK(scalar(*kc, salt)), elem(s, v, depth, salt)); Slot::Map(mm) }
            Decl::Oneof(vs) => match vs.first() { Some((t, ty)) => Slot::One(*t, elem(s, ty, depth, salt)), None => Slot::None },
        };
    }
    m
}

pub fn gen(stream: &str, tier: &str, seed: u64, out: &mut dyn Write) -> bool {
    let thorough = tier == "thorough";
    let n = |q: usize, t: usize| if thorough { t } else { q };
    let tb = table();
    let mut cx = Cx { tb, out };
    match stream {
        "C05e" => {
            let mut r = Rng(seed ^ 0xe05e);
            let reps = n(25, 500);
            for e in &tb.entries {
                let s = tb.schema_of(e);
                for k in 0..(if s.msgs.iter().map(|m| m.len()).sum::<usize>() > 100 { (reps / 8).max(2) } else { reps }) {
                    let m = if k == 0 { DynMsg::new(s, e.idx, false) } else { value(&mut r, s, e) };
                    cx.enc(e, &m);
                    cx.dec(e, &bytes_of(e, &m));
                    if k % 3 == 0 { cx.dld(e, &if multi_entry(&m) { ld_of(e, &m) } else { (e.ops.raw_enc_ld)(&m) }); }
                }
            }
        }
        "C06e" => {
            use crate::shared::refcodec::{pschema_sexp, ref_encode, Choices};
            let mut r = Rng(seed ^ 0xe06e);
            let reps = n(20, 300);
            for e in &tb.entries {
                let s = tb.schema_of(e);
                let ps = pschema_sexp(s);
                for k in 0..(if s.msgs.iter().map(|m| m.len()).sum::<usize>() > 100 { (reps / 8).max(2) } else { reps }) {
                    let m = if k == 0 { DynMsg::new(s, e.idx, false) } else { value(&mut r, s, e) };
                    let canon = ref_encode(s, &m, &mut Choices { r: &mut r, canonical: true });
                    let _ = writeln!(cx.out, "pbespecchk {} {} {} {} {}", e.name, ps, e.idx, m_sexp(&m), hex(&canon));
                    for _ in 0..n(2, 5) {
                        let alt = ref_encode(s, &m, &mut Choices { r: &mut r, canonical: false });
                        let _ = writeln!(cx.out, "pbespecchk {} {} {} {} {}", e.name, ps, e.idx, m_sexp(&m), hex(&alt));
                    }
                    // last occurrence wins: the same encoding behind records that it overrides (stale map entries for the same keys,
                    // explicit zeros of singular scalars) still decodes to the value.  No membership claim: oracle only
                    let stale = crate::shared::refcodec::stale_prefix(s, &m, &mut r);
                    if !stale.is_empty() {
                        let _ = writeln!(cx.out, "pbedup {} {} {} {} {} oracle-only", e.name, ps, e.idx, m_sexp(&m), hex(&[stale, canon.clone()].concat()));
                    }
                    let (pre, suf) = crate::shared::refcodec::overridden_wrap(s, &m, &mut r);
                    if !pre.is_empty() {
                        let _ = writeln!(cx.out, "pbedup {} {} {} {} {} oracle-only", e.name, ps, e.idx, m_sexp(&m), hex(&[pre, canon.clone(), suf].concat()));
                    }
                    // the emitted encoder's own bytes must be in the relation (order fixed: no map with two entries)
                    if !multi_entry(&m) && (crate::shared::msgverbs::FLAG_ON || m_same(&norm_negzero(&m), &m)) {
                        let _ = writeln!(cx.out, "pbespecchk {} {} {} {} {}", e.name, ps, e.idx, m_sexp(&m), hex(&(e.ops.raw_enc)(&m)));
                    }
                }
            }
        }
        "C19e" => {
            // valid emitted encodings of every corpus type; the verb tries every truncation and a set of corruptions of each
            let mut r = Rng(seed ^ 0xe19e);
            for e in &tb.entries {
                let s = tb.schema_of(e);
                for _ in 0..n(3, 20) {
                    let (_, b) = small_value(&mut r, s, e, n(160, 400));
                    if !b.is_empty() { let _ = writeln!(cx.out, "pbeleak {} {} oracle-only", e.name, hex(&b)); }
                }
                // ... and one value with every position populated by something that owns memory
                let mut salt = 0u64;
                for depth in [1usize, 2] {
                    let b = bytes_of(e, &full_value(s, e.idx, depth, &mut salt));
                    if !b.is_empty() && b.len() <= n(1500, 6000) { let _ = writeln!(cx.out, "pbeleak {} {} oracle-only", e.name, hex(&b)); }
                }
            }
        }
        "C18e" => {
            let mut r = Rng(seed ^ 0xe18e);
            let reps = n(24, 480);
            for e in &tb.entries {
                let s = tb.schema_of(e);
                for k in 0..(if s.msgs.iter().map(|m| m.len()).sum::<usize>() > 100 { (reps / 8).max(2) } else { reps }) {
                    let a = if k == 0 { DynMsg::new(s, e.idx, false) } else { value(&mut r, s, e) };
                    let mut b = if k == 1 { DynMsg::new(s, e.idx, false) } else { value(&mut r, s, e) };
                    if k > 1 && r.chance(1, 2) { crate::shared::msgverbs::align_oneofs(&mut r, s, &a, &mut b, 1); }
                    cx.cat(e, &a, &b);
                    cx.mrg(e, &a, &bytes_of(e, &b));
                    // the second encoding as another conforming encoder may write it: repeated scalars packed, unpacked or split
                    // into runs, fields interleaved, defaults present or omitted - merged into a value that is not empty
                    if k % (if thorough { 4 } else { 2 }) == 0 {
                        use crate::shared::refcodec::{ref_encode, Choices};
                        let alt = ref_encode(s, &b, &mut Choices { r: &mut r, canonical: false });
                        cx.mrg(e, &a, &alt);
                        let alt_a = ref_encode(s, &a, &mut Choices { r: &mut r, canonical: false });
                        cx.dec(e, &[alt_a, alt].concat());
                    }
                }
            }
        }
        "C10e" => {
            let mut r = Rng(seed ^ 0xe10e);
            ladders(&mut cx);
            // random byte strings
            for k in 0..n(300, 6000) {
                let e = r.pick(&tb.entries);
                let len = r.below(65) as usize;
                let b: Vec<u8> = if k % 2 == 0 { (0..len).map(|_| r.next() as u8).collect() } else { wireish(&mut r, len) };
                match k % 5 { 0 => cx.dld(e, &b), 1 => { let s = tb.schema_of(e); let m = small_value(&mut r, s, e, 120).0; cx.mrg(e, &m, &b) } _ => cx.dec(e, &b) }
            }
            // every declared field (and one undeclared) as a length-delimited record whose length prefix exceeds the input by
            // far: strings, bytes, messages, maps and PACKED runs must reject it before anything is sized from it
            for e in &tb.entries {
                let s = tb.schema_of(e);
                let mut tags: Vec<u32> = s.msgs[e.idx].iter().flat_map(|d| d.tags()).collect();
                tags.push(536870911);
                let lens: &[u64] = if thorough { &[65, 1 << 20, 64 << 20, (1 << 31) - 1, 1 << 32, (1u64 << 63) - 8, 1 << 63, u64::MAX] } else { &[64 << 20, 1 << 63, (1u64 << 63) - 8] };
                for (i, tag) in tags.iter().enumerate() {
                    for (j, l) in lens.iter().enumerate() {
                        if !thorough && (i + j) % 2 == 1 { continue; }
                        let mut b = vec![];
                        put_key(*tag, 2, &mut b);
                        put_varint(*l, &mut b);
                        b.extend_from_slice(&[0, 0, 0, 0, 0, 0, 0, 0]);
                        cx.dec(e, &b);
                    }
                }
            }
            // every declared field as a SHORT length-delimited record (a packed run whose length is not a multiple of the element
            // width, a string, a nested message of a few bytes), the input ending with the record or inside it
            for e in &tb.entries {
                let s = tb.schema_of(e);
                let tags: Vec<u32> = s.msgs[e.idx].iter().flat_map(|d| d.tags()).collect();
                for (i, tag) in tags.iter().enumerate() {
                    for (j, l) in [1u64, 2, 3, 5, 6, 7, 9, 10, 12].iter().enumerate() {
                        if !thorough && (i + j) % 3 != 0 { continue; }
                        for missing in [0u64, 1, 3] {
                            if missing > *l { continue; }
                            let mut b = vec![];
                            put_key(*tag, 2, &mut b);
                            put_varint(*l, &mut b);
                            b.extend((0..(*l - missing)).map(|_| r.next() as u8));
                            cx.dec(e, &b);
                        }
                    }
                }
            }
            // mutations of valid emitted encodings
            // quick: 9 types spread over the table; thorough: every type twice
            let len = tb.entries.len();
            let nmsg = n(9.min(len), 2 * len);
            let start = r.below(len as u64) as usize;
            let stride = (2..len).rev().find(|k| gcd(*k, len) == 1 && *k <= len / 2 + 1).unwrap_or(1);
            for k in 0..nmsg {
                let e = &tb.entries[(start + k * stride) % len];
                let s = tb.schema_of(e);
                let (m, b) = small_value(&mut r, s, e, n(160, 120));
                mutate(&mut cx, &mut r, e, s, &m, &b, thorough);
            }
        }
        _ => return false,
    }
    true
}

fn gcd(a: usize, b: usize) -> usize { if b == 0 { a } else { gcd(b, a % b) } }

/// bytes that look like protobuf records (keys with small tags, plausible lengths)
fn wireish(r: &mut Rng, len: usize) -> Vec<u8> {
    let mut b = vec![];
    while b.len() < len {
        let tag = match r.below(4) { 0 => *r.pick(&[15u32, 16, 2047, 2048, 536870911]), _ => 1 + r.below(20) as u32 };
        let wt = r.below(8) as u8;
        put_key(tag, wt, &mut b);
        match wt {
            0 => put_varint(crate::shared::sv::gen_u64(r), &mut b),
            1 => b.extend((0..8).map(|_| r.next() as u8)),
            2 => { let l = r.below(6); put_varint(if r.chance(1, 6) { l + 1 + r.below(3) } else { l }, &mut b); b.extend((0..l).map(|_| r.next() as u8)); }
            5 => b.extend((0..4).map(|_| r.next() as u8)),
            _ => {}
        }
    }
    b.truncate(len.max(1));
    b
}

// ---------------------------------------------------------------- a tiny wire walker (top-level records)
pub struct Rec { pub key_pos: usize, pub key_len: usize, pub tag: u64, pub wt: u8, pub len_pos: usize, pub len_len: usize }
fn rd_varint(b: &[u8], mut p: usize) -> Option<(u64, usize)> {
    let (mut v, mut sh) = (0u64, 0u32);
    loop {
        let x = *b.get(p)?;
        p += 1;
        if sh < 64 { v |= ((x & 0x7f) as u64) << sh; }
        sh += 7;
        if x & 0x80 == 0 { return Some((v, p)); }
        if sh > 70 { return None; }
    }
}
pub fn walk(b: &[u8]) -> Vec<Rec> {
    let mut out = vec![];
    let mut p = 0;
    while p < b.len() {
        let Some((key, q)) = rd_varint(b, p) else { break };
        let wt = (key & 7) as u8;
        let mut rec = Rec { key_pos: p, key_len: q - p, tag: key >> 3, wt, len_pos: 0, len_len: 0 };
        let next = match wt {
            0 => match rd_varint(b, q) { Some((_, e)) => e, None => break },
            1 => q + 8,
            5 => q + 4,
            2 => match rd_varint(b, q) { Some((l, e)) => { rec.len_pos = q; rec.len_len = e - q; e.saturating_add(l as usize) } None => break },
            _ => break,
        };
        if next > b.len() { break; }
        out.push(rec);
        p = next;
    }
    out
}

fn mutate(cx: &mut Cx, r: &mut Rng, e: &Entry, s: &Arc<Schema>, m: &DynMsg, b: &[u8], thorough: bool) {
    // every mutated byte string goes to pbedec; every third also to pbedld (behind a correct length
    // prefix, with two bytes following) and every fifth to pbemrg into the value it came from
    let mut k = 0usize;
    let other = small_value(r, s, e, 120).0;
    let mut send = |cx: &mut Cx, x: &[u8]| {
        cx.dec(e, x);
        if k % 3 == 0 { let mut l = vec![]; put_varint(x.len() as u64, &mut l); l.extend_from_slice(x); l.extend_from_slice(&[0x08, 0x01]); cx.dld(e, &l); }
        if k % 5 == 0 { cx.mrg(e, if k % 10 == 0 { m } else { &other }, x); }
        k += 1;
    };
    send(cx, b);
    // truncation points
    let cuts: Vec<usize> = if thorough || b.len() <= 40 { (0..b.len()).collect() } else { let mut v: Vec<usize> = (0..40).map(|i| i * b.len() / 40).collect(); v.dedup(); v };
    for c in cuts { send(cx, &b[..c]); }
    // the length-delimited form cut short (the prefix promises more than there is)
    { let mut l = vec![]; put_varint(b.len() as u64, &mut l); l.extend_from_slice(b); for c in [l.len().saturating_sub(1), l.len() / 2, 1.min(l.len())] { cx.dld(e, &l[..c]); } }
    // single-bit flips
    let span = if thorough { b.len() } else { b.len().min(64) };
    for i in 0..span {
        let bits: &[u8] = if thorough { &[0, 1, 2, 3, 4, 5, 6, 7] } else { &[7, 0] };
        for bit in bits { let mut x = b.to_vec(); x[i] ^= 1 << bit; send(cx, &x); }
    }
    // top-level records: length prefixes and wire types
    let recs = walk(b);
    let cap = if thorough { recs.len() } else { recs.len().min(6) };
    let pick: Vec<usize> = if recs.len() <= cap { (0..recs.len()).collect() } else { (0..cap).map(|i| i * recs.len() / cap).collect() };
    for &ri in &pick {
        let rec = &recs[ri];
        if rec.wt == 2 {
            let rem = (b.len() - rec.len_pos - rec.len_len) as u64;
            for v in [0u64, 1, rem.wrapping_sub(1), rem, rem + 1, (1 << 31) - 1, (1 << 32) - 1, 1 << 63] {
                let mut x = b[..rec.len_pos].to_vec();
                put_varint(v, &mut x);
                x.extend_from_slice(&b[rec.len_pos + rec.len_len..]);
                send(cx, &x);
            }
        }
        for wt in 0u8..8 {
            if wt == rec.wt { continue; }
            let mut x = b[..rec.key_pos].to_vec();
            put_varint((rec.tag << 3) | wt as u64, &mut x);
            x.extend_from_slice(&b[rec.key_pos + rec.key_len..]);
            send(cx, &x);
        }
    }
}

// ---------------------------------------------------------------- nesting ladders (bytes built by hand, inside out)
/// `d` nested length-delimited fields; level k (0 = outermost) uses field number `cycle[k % len]`
pub fn ladder(d: usize, cycle: &[u32], leaf: &[u8]) -> Vec<u8> {
    let mut inner = leaf.to_vec();
    for lvl in (0..d).rev() {
        let mut o = vec![];
        put_key(cycle[lvl % cycle.len()], 2, &mut o);
        put_varint(inner.len() as u64, &mut o);
        o.extend_from_slice(&inner);
        inner = o;
    }
    inner
}
/// start-group keys of field `f` nested `d` deep, then the matching end-group keys
pub fn group_ladder(d: usize, f: u32, leaf: &[u8]) -> Vec<u8> {
    let mut o = vec![];
    for _ in 0..d { put_key(f, 3, &mut o); }
    o.extend_from_slice(leaf);
    for _ in 0..d { put_key(f, 4, &mut o); }
    o
}

const DEPTHS: [usize; 12] = [1, 2, 49, 50, 51, 99, 100, 101, 102, 150, 300, 1000];

fn ladders(cx: &mut Cx) {
    let tb = cx.tb;
    // (type, field-number cycle of the recursion, a leaf that is a valid innermost payload at every level or empty)
    let paths: [(&str, &[u32], &[u8]); 13] = [
        ("rc3.RecOpt", &[2], &[0x08, 0x07]),             // optional field
        ("rc3.RecRep", &[2], &[0x08, 0x07]),             // repeated field
        ("rc3.RecMap", &[2, 2], &[]),                    // map value: entry, value
        ("rc3.RecOne", &[2, 1], &[]),                    // oneof variant -> Wrap.items
        ("rc3.Tree", &[2], &[0x0a, 0x01, 0x78]),         // Tree.next
        ("rc3.Tree", &[7], &[]),                         // Tree.maybe (proto3 optional)
        ("rc3.Tree", &[3], &[0x0a, 0x01, 0x78]),         // Tree.kids
        ("rc3.Tree", &[4, 2], &[]),                      // Tree.by_name
        ("rc3.Tree", &[5, 1], &[]),                      // Tree.alt.sub -> Forest.trees
        ("rc3.Tree", &[5, 2, 2], &[]),                   // Tree.alt.sub -> Forest.tree_map -> value
        ("rc3.Ping", &[1, 1], &[]),                      // Ping.pong <-> Pong.ping
        ("pb2.Opt", &[2048], &[]),                       // proto2 optional self reference
        ("mp3.MapVals", &[18, 2], &[]),                  // map<bool, MapVals>
    ];
    for (name, cycle, leaf) in paths {
        let e = tb.get(name).unwrap_or_else(|| panic!("corpus type {} missing", name));
        for d in DEPTHS {
            let b = ladder(d, cycle, leaf);
            cx.dec(e, &b);
            if d % 2 == 0 { let mut l = vec![]; put_varint(b.len() as u64, &mut l); l.extend_from_slice(&b); cx.dld(e, &l); }
            if !leaf.is_empty() { cx.dec(e, &ladder(d, cycle, &[])); }
        }
    }
    // unknown-field groups: field numbers that no corpus message declares
    for name in ["ns3.Empty", "rc3.Tree", "sc3.Scalars", "pb2.Req"] {
        let e = tb.get(name).unwrap_or_else(|| panic!("corpus type {} missing", name));
        for d in DEPTHS {
            cx.dec(e, &group_ladder(d, 999, &[]));
            if d <= 102 { cx.dec(e, &group_ladder(d, 999, &[0x08, 0x01])); }
        }
        // unbalanced / mismatched groups
        let mut x = vec![]; put_key(999, 3, &mut x); cx.dec(e, &x);
        let mut x = vec![]; put_key(999, 4, &mut x); cx.dec(e, &x);
        let mut x = vec![]; put_key(999, 3, &mut x); put_key(998, 4, &mut x); cx.dec(e, &x);
        let mut x = vec![]; put_key(999, 3, &mut x); put_key(998, 3, &mut x); put_key(999, 4, &mut x); put_key(998, 4, &mut x); cx.dec(e, &x);
        // a group nested inside an unknown length-delimited field is opaque bytes
        let g = group_ladder(3, 999, &[]); let mut x = vec![]; put_key(1000, 2, &mut x); put_varint(g.len() as u64, &mut x); x.extend_from_slice(&g); cx.dec(e, &x);
    }
    // groups under a known recursive field: the depth budget is shared between messages and groups
    let e = tb.get("rc3.RecOpt").expect("rc3.RecOpt");
    for (dm, dg) in [(1usize, 98usize), (1, 99), (1, 100), (50, 49), (50, 50), (50, 51), (99, 1), (99, 2), (100, 1)] {
        cx.dec(e, &ladder(dm, &[2], &group_ladder(dg, 999, &[])));
    }
}
