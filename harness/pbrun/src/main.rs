include!(concat!(env!("OUT_DIR"), "/pbgen.rs"));
fn main(){}
