//! Runner for the code EMITTED by pilota-build's protobuf backend over the fixed corpus
//! harness/pbcorpus/*.proto (build.rs runs the generator and writes the glue).
//!
//! `pbrun gen <stream> <tier> <seed>`  -> request lines on stdout   (streams: C05e, C18e, C10e)
//! `pbrun exec [--oracle FILE]`        -> reads request lines on stdin, one answer line each on stdout
//! `pbrun types`                       -> the dispatch table: <type> <file> <index>
//! `pbrun schemas`                     -> <file> <schema> for every corpus file
#[path = "../../rt/src/gen.rs"]
mod gen;
#[path = "../../rt/src/val.rs"]
mod val;
#[path = "../../rt/src/watchdog.rs"]
mod watchdog;
#[path = "../../pbshared/mod.rs"]
pub mod shared;

mod glue;
mod ops;
mod streams;

// the emitted code: `pub mod pbgen { pub mod <package> { .. } .. }`
include!(concat!(env!("OUT_DIR"), "/pbgen.rs"));

use std::io::{BufRead, Write};

use val::*;

/// counts the bytes requested from the allocator (C10: allocation in proportion to the input)
pub struct Counting;
pub static REQUESTED: std::sync::atomic::AtomicUsize = std::sync::atomic::AtomicUsize::new(0);
/// live heap bytes (C19: a failed decode leaves nothing behind)
pub static LIVE: std::sync::atomic::AtomicIsize = std::sync::atomic::AtomicIsize::new(0);
unsafe impl std::alloc::GlobalAlloc for Counting {
    unsafe fn alloc(&self, l: std::alloc::Layout) -> *mut u8 { REQUESTED.fetch_add(l.size(), std::sync::atomic::Ordering::Relaxed); LIVE.fetch_add(l.size() as isize, std::sync::atomic::Ordering::Relaxed); unsafe { std::alloc::System.alloc(l) } }
    unsafe fn dealloc(&self, p: *mut u8, l: std::alloc::Layout) { LIVE.fetch_sub(l.size() as isize, std::sync::atomic::Ordering::Relaxed); unsafe { std::alloc::System.dealloc(p, l) } }
    unsafe fn realloc(&self, p: *mut u8, l: std::alloc::Layout, n: usize) -> *mut u8 { REQUESTED.fetch_add(n.saturating_sub(l.size()), std::sync::atomic::Ordering::Relaxed); LIVE.fetch_add(n as isize - l.size() as isize, std::sync::atomic::Ordering::Relaxed); unsafe { std::alloc::System.realloc(p, l, n) } }
}
#[global_allocator]
static ALLOC: Counting = Counting;
/// run `f`, return its result, the bytes it requested from the allocator, and the time it took
pub fn measured<R>(f: impl FnOnce() -> R) -> (R, usize, std::time::Duration) {
    let a0 = REQUESTED.load(std::sync::atomic::Ordering::Relaxed);
    let t0 = std::time::Instant::now();
    let r = f();
    (r, REQUESTED.load(std::sync::atomic::Ordering::Relaxed) - a0, t0.elapsed())
}
/// the C10 bound: requested bytes linear in the input (the constant covers the struct itself and the first buckets of its containers)
pub fn check_bounded(o: &mut Oracle, what: &str, input_len: usize, alloc: usize, dt: std::time::Duration) {
    if alloc > 2048 * input_len + (64 << 10) { o.fail("C10", format!("{} requested {} bytes from the allocator for {} input bytes", what, alloc, input_len)); }
    if dt > std::time::Duration::from_secs(2) { o.fail("C10", format!("{} took {:?} for {} input bytes", what, dt, input_len)); }
}

pub struct Oracle { pub fails: Vec<String> }
impl Oracle { pub fn fail(&mut self, props: &str, why: String) { self.fails.push(format!("{}\t{}", props, why.replace(['\n', '\t'], " "))); } }

fn exec_line(line: &str, o: &mut Oracle) -> String {
    let Some(items) = Sexp::parse_line(line) else { return "bad-request".into() };
    let Some(verb) = items.first().and_then(|x| x.atom()) else { return "bad-request".into() };
    ops::exec(verb, &items, o).unwrap_or_else(|| "bad-request".into())
}

fn main() {
    let args: Vec<String> = std::env::args().collect();
    match args.get(1).map(|s| s.as_str()) {
        Some("gen") if args.len() >= 4 => {
            let seed = args.get(4).and_then(|s| s.parse().ok()).unwrap_or(0);
            let so = std::io::stdout();
            let mut w = std::io::BufWriter::new(so.lock());
            if !streams::gen(&args[2], &args[3], seed, &mut w) { eprintln!("unknown stream {}", args[2]); std::process::exit(2); }
        }
        Some("types") => {
            let tb = ops::table();
            for e in &tb.entries { println!("{} {} {}", e.name, glue::FILE_SCHEMAS[e.file].0, e.idx); }
        }
        Some("schemas") => { for (f, t) in glue::FILE_SCHEMAS { println!("{} {}", f, t); } }
        Some("exec") => {
            let oracle_path = args.iter().position(|a| a == "--oracle").map(|i| args[i + 1].clone());
            std::panic::set_hook(Box::new(|_| {}));
            watchdog::start();
            let child = std::thread::Builder::new().stack_size(512 << 20).spawn(move || {
                let stdin = std::io::stdin();
                let so = std::io::stdout();
                let mut w = std::io::BufWriter::new(so.lock());
                let mut ofile = oracle_path.map(|p| std::io::BufWriter::new(std::fs::File::create(p).expect("oracle file")));
                for (i, line) in stdin.lock().lines().enumerate() {
                    let line = line.expect("stdin");
                    let line = line.trim();
                    if line.is_empty() || line.starts_with('#') { let _ = writeln!(w, ""); continue; }
                    let mut o = Oracle { fails: vec![] };
                    watchdog::tick(i as u64 + 1);
                    let ans = match std::panic::catch_unwind(std::panic::AssertUnwindSafe(|| exec_line(line, &mut o))) {
                        Ok(a) => a,
                        Err(p) => {
                            let msg = p.downcast_ref::<String>().cloned().or_else(|| p.downcast_ref::<&str>().map(|s| s.to_string())).unwrap_or_default();
                            o.fail("PANIC", msg.replace('\n', " "));
                            "panic".into()
                        }
                    };
                    watchdog::done();
                    let _ = writeln!(w, "{}", ans);
                    let _ = w.flush();
                    if let Some(f) = ofile.as_mut() { for x in &o.fails { let _ = writeln!(f, "{}\t{}", i + 1, x); } let _ = f.flush(); }
                }
                let _ = w.flush();
                if let Some(mut f) = ofile { let _ = f.flush(); }
            }).unwrap();
            child.join().unwrap();
        }
        _ => { eprintln!("usage: pbrun gen <stream> <tier> <seed> | pbrun exec [--oracle FILE] | pbrun types | pbrun schemas"); std::process::exit(2); }
    }
}
