use std::path::PathBuf;
fn main() {
    let corpus = PathBuf::from(std::env::var("CARGO_MANIFEST_DIR").unwrap()).join("../pbcorpus").canonicalize().unwrap();
    let out = PathBuf::from(std::env::var("OUT_DIR").unwrap());
    println!("cargo:rerun-if-changed={}", corpus.display());
    let mut files: Vec<PathBuf> = std::fs::read_dir(&corpus).unwrap().map(|e| e.unwrap().path()).filter(|p| p.extension().map_or(false, |e| e == "proto")).collect();
    files.sort();
    pilota_build::Builder::protobuf()
        .ignore_unused(false)
        .include_dirs(vec![corpus.clone()])
        .compile_with_config(files.iter().map(|p| pilota_build::IdlService::from_path(p.clone())).collect(), pilota_build::Output::File(out.join("pbgen.rs")));
}
