//! Message-level verbs over the dynamic message (`dynmsg.rs`), and schema / value generators.
//!
//!   pbenc <hm|bt> <f0|f1> <schema> <i> <msg>      -> ok <hex|~> len=<n>       (~ : a hash map with >= 2 entries, order not fixed)
//!   pbdec <hm|bt> <schema> <i> <hex>               -> ok <msg> | err | depth
//!   pbmrg <hm|bt> <schema> <i> <msg> <hex>         -> ok <msg> | err | depth   (Message::merge into an existing value)
//!   pbdld <hm|bt> <schema> <i> <hex>               -> ok <msg> rem=<n> | err | depth  (decode_length_delimited)
//!   pbcat <hm|bt> <f0|f1> <schema> <i> <msg> <msg> -> ok <msg>                 (decode (encode a ++ encode b))
use std::sync::Arc;

use bytes::{Buf, Bytes, BytesMut};
use pilota::prost::Message;

use super::dynmsg::*;
use super::sv::*;
use crate::val::*;
use crate::Oracle;

pub const FLAG_ON: bool = cfg!(feature = "pb-encode-default-value");
pub fn flag_name() -> &'static str { if FLAG_ON { "f1" } else { "f0" } }

pub fn class(e: &pilota::prost::DecodeError) -> String { err_class(e).to_string() }

/// every string value inside a decoded message is UTF-8 (a `FastStr` / `String` must be)
pub fn check_utf8(s: &Schema, m: &DynMsg, bad: &mut Vec<String>) {
    fn e(s: &Schema, ty: &FTy, v: &EVal, bad: &mut Vec<String>) {
        match (ty, v) {
            (FTy::Scalar(c @ (Codec::Str | Codec::FastStr)), EVal::S(SV::Bs(b))) => if std::str::from_utf8(b).is_err() { bad.push(format!("{} field {}", c.name(), hex(b))); },
            (FTy::Msg(_), EVal::Msg(m)) => check_utf8(s, m, bad),
            _ => {}
        }
    }
    for (d, slot) in s.decls(m.idx).iter().zip(&m.slots) {
        match (d, slot) {
            (Decl::Single { ty, .. }, Slot::Req(v) | Slot::Some(v)) => e(s, ty, v, bad),
            (Decl::Rep { ty, .. }, Slot::Rep(xs)) => for x in xs { e(s, ty, x, bad) },
            (Decl::Map { k, v, .. }, Slot::Map(mm)) => for (key, val) in mm.sorted() { e(s, &FTy::Scalar(*k), &EVal::S(key.0.clone()), bad); e(s, v, val, bad) },
            (Decl::Oneof(vs), Slot::One(t, v)) => if let Some(x) = vs.iter().find(|x| x.0 == *t) { e(s, &x.1, v, bad) },
            _ => {}
        }
    }
}

pub fn exec(verb: &str, items: &[Sexp], o: &mut Oracle) -> Option<String> {
    let a = |i: usize| items.get(i).and_then(|x| x.atom());
    let bad = || Some("bad-request".to_string());
    let bt = match a(1) { Some("bt") => true, Some("hm") => false, _ => return if matches!(verb, "pbenc" | "pbdec" | "pbmrg" | "pbdld" | "pbcat" | "pbunk" | "pbilv" | "pbgrpenc" | "pbgrpdec") { bad() } else { None } };
    Some(match verb {
        "pbenc" | "pbcat" => {
            if a(2) != Some(flag_name()) { return Some("bad-flag".into()) }
            let (Some(s), Some(i)) = (items.get(3).and_then(Schema::of_sexp), a(4).and_then(|x| x.parse::<usize>().ok())) else { return bad() };
            let s = Arc::new(s);
            let Some(m) = items.get(5).and_then(|x| m_of_sexp(&s, i, bt, x)) else { return bad() };
            let mut b = BytesMut::new();
            m.encode_raw(&mut b);
            let l = m.encoded_len();
            if l != b.len() { o.fail("C05", format!("encoded_len {} != {} bytes written", l, b.len())); }
            if verb == "pbenc" {
                match DynMsg::decode_dyn(&s, i, bt, b.clone().freeze()) {
                    Ok(m2) => if !m_same(&m, &m2) {
                        if !FLAG_ON && m_same(&norm_negzero(&m), &m2) { o.fail("C05", format!("decode(encode x) differs from x only in map values equal to their default under IEEE == (negative zero dropped): {}", m_sexp(&m2))); }
                        else { o.fail("C05", format!("decode(encode x) = {} differs from x", m_sexp(&m2))); }
                    },
                    Err(e) => o.fail("C05", format!("decode(encode x) failed: {}", e)),
                }
                let ld = m.encode_length_delimited_to_vec();
                match DynMsg::decode_ld_dyn(&s, i, bt, Bytes::from(ld)) {
                    Ok((m2, 0)) if m_same(&m, &m2) || (!FLAG_ON && m_same(&norm_negzero(&m), &m2)) => {}
                    other => o.fail("C05", format!("decode_length_delimited(encode_length_delimited x): {:?}", other.map(|(m, r)| (m_sexp(&m), r)).map_err(|e| e.to_string()))),
                }
                let shown = if !bt && multi_entry(&m) { "~".to_string() } else { hex(&b) };
                format!("ok {} len={}", shown, l)
            } else {
                let Some(m2) = items.get(6).and_then(|x| m_of_sexp(&s, i, bt, x)) else { return bad() };
                let mut cat = b.to_vec();
                let mut b2 = BytesMut::new();
                m2.encode_raw(&mut b2);
                cat.extend_from_slice(&b2);
                let whole = DynMsg::decode_dyn(&s, i, bt, Bytes::from(cat));
                // decode the first, merge the second into it
                let stepped = DynMsg::decode_dyn(&s, i, bt, b.clone().freeze()).and_then(|mut step| step.merge(b2.clone().freeze()).map(|_| step));
                match (&whole, &stepped) {
                    (Ok(x), Ok(y)) if m_same(x, y) => {}
                    _ => o.fail("C18", format!("decode(a ++ b) {:?} != decode a then merge b {:?}", whole.as_ref().map(m_sexp).map_err(|e| e.to_string()), stepped.as_ref().map(m_sexp).map_err(|e| e.to_string()))),
                }
                // against the specification: merge of the two values as they survive their own encoding
                if let (Ok(x), Ok(da), Ok(db)) = (&whole, DynMsg::decode_dyn(&s, i, bt, b.clone().freeze()), DynMsg::decode_dyn(&s, i, bt, b2.clone().freeze())) {
                    let spec = merge_spec(&da, &db);
                    if !m_same(x, &spec) { o.fail("C18", format!("decode(a ++ b) = {} but the merge specification gives {}", m_sexp(x), m_sexp(&spec))); }
                }
                match whole { Ok(x) => format!("ok {}", m_sexp(&x)), Err(e) => class(&e) }
            }
        }
        "pbdec" | "pbdld" | "pbmrg" => {
            let (Some(s), Some(i)) = (items.get(2).and_then(Schema::of_sexp), a(3).and_then(|x| x.parse::<usize>().ok())) else { return bad() };
            let s = Arc::new(s);
            let res = match verb {
                "pbdec" => { let Some(input) = a(4).and_then(unhex) else { return bad() }; DynMsg::decode_dyn(&s, i, bt, Bytes::from(input)).map(|m| (m, 0)) }
                "pbdld" => { let Some(input) = a(4).and_then(unhex) else { return bad() }; DynMsg::decode_ld_dyn(&s, i, bt, Bytes::from(input)) }
                _ => {
                    let (Some(mut m), Some(input)) = (items.get(4).and_then(|x| m_of_sexp(&s, i, bt, x)), a(5).and_then(unhex)) else { return bad() };
                    m.merge(Bytes::from(input)).map(|_| (m, 0))
                }
            };
            match res {
                Ok((m, rem)) => {
                    let mut badstr = vec![];
                    check_utf8(&s, &m, &mut badstr);
                    if !badstr.is_empty() { o.fail("NOTE-utf8", format!("decoded message holds a string that is not UTF-8: {}", badstr[0])); }
                    if verb == "pbdld" { format!("ok {} rem={}", m_sexp(&m), rem) } else { format!("ok {}", m_sexp(&m)) }
                }
                Err(e) => class(&e),
            }
        }
        "pbgrpenc" => {
            // pbgrpenc <fl> <flag> <schema> <i> <tag> <msg>  -> ok <hex|~> len=<n>   (prost::encoding::group::{encode, encoded_len, merge})
            if a(2) != Some(flag_name()) { return Some("bad-flag".into()) }
            let (Some(s), Some(i), Some(tag)) = (items.get(3).and_then(Schema::of_sexp), a(4).and_then(|x| x.parse::<usize>().ok()), a(5).and_then(|x| x.parse::<u32>().ok())) else { return bad() };
            let s = Arc::new(s);
            let Some(m) = items.get(6).and_then(|x| m_of_sexp(&s, i, bt, x)) else { return bad() };
            let mut b = BytesMut::new();
            pilota::prost::encoding::group::encode(tag, &m, &mut b);
            let l = pilota::prost::encoding::group::encoded_len(tag, &m);
            if l != b.len() { o.fail("C05", format!("group::encoded_len {} != {} bytes written", l, b.len())); }
            let mut rd = b.clone().freeze();
            let mut back = DynMsg::new(&s, i, bt);
            let r = pilota::prost::encoding::decode_key(&mut rd).and_then(|(t, w)| { if t != tag { o.fail("C05", format!("group tag read back {}", t)); } pilota::prost::encoding::group::merge(tag, w, &mut back, &mut rd, Default::default()) });
            match r {
                Ok(()) if (m_same(&m, &back) || (!FLAG_ON && m_same(&norm_negzero(&m), &back))) && !rd.has_remaining() => {}
                other => o.fail("C05", format!("group::merge(group::encode x): {:?} {} rem {}", other.map_err(|e| e.to_string()), m_sexp(&back), rd.remaining())),
            }
            let shown = if !bt && multi_entry(&m) { "~".to_string() } else { hex(&b) };
            format!("ok {} len={}", shown, l)
        }
        "pbgrpdec" => {
            // pbgrpdec <fl> <schema> <i> <tag> <hex>  (hex: what follows the start-group key)  -> ok <msg> rem=<n> | err | depth
            let (Some(s), Some(i), Some(tag), Some(input)) = (items.get(2).and_then(Schema::of_sexp), a(3).and_then(|x| x.parse::<usize>().ok()), a(4).and_then(|x| x.parse::<u32>().ok()), a(5).and_then(unhex)) else { return bad() };
            let s = Arc::new(s);
            let mut rd = Bytes::from(input);
            let mut m = DynMsg::new(&s, i, bt);
            match pilota::prost::encoding::group::merge(tag, pilota::prost::encoding::WireType::StartGroup, &mut m, &mut rd, Default::default()) {
                Ok(()) => format!("ok {} rem={}", m_sexp(&m), rd.remaining()),
                Err(e) => class(&e),
            }
        }
        "pbunk" | "pbilv" => {
            // pbunk <fl> <schema> <i> <with> <without>   : bytes with / without unknown records  -> decode(with); oracle: same as decode(without)
            // pbilv <fl> <schema> <i> <interleaved> <concatenated>                               -> decode(interleaved); oracle: same as decode(concatenated)
            let (Some(s), Some(i), Some(x), Some(y)) = (items.get(2).and_then(Schema::of_sexp), a(3).and_then(|x| x.parse::<usize>().ok()), a(4).and_then(unhex), a(5).and_then(unhex)) else { return bad() };
            let s = Arc::new(s);
            let dx = DynMsg::decode_dyn(&s, i, bt, Bytes::from(x));
            let dy = DynMsg::decode_dyn(&s, i, bt, Bytes::from(y));
            let same = match (&dx, &dy) { (Ok(p), Ok(q)) => m_same(p, q), (Err(e), Err(f)) => class(e) == class(f), _ => false };
            if !same {
                let show = |r: &Result<DynMsg, pilota::prost::DecodeError>| match r { Ok(m) => m_sexp(m), Err(e) => class(e) };
                o.fail("C18", format!("{}: {} vs {}", if verb == "pbunk" { "unknown fields changed the result" } else { "interleaving changed the result" }, show(&dx), show(&dy)));
            }
            match dx { Ok(m) => format!("ok {}", m_sexp(&m)), Err(e) => class(&e) }
        }
        _ => return None,
    })
}

impl DynMsg {
    pub fn decode_dyn(s: &Arc<Schema>, i: usize, bt: bool, buf: Bytes) -> Result<DynMsg, pilota::prost::DecodeError> {
        let mut m = DynMsg::new(s, i, bt);
        m.merge(buf)?;                                            // Message::decode = default + merge
        Ok(m)
    }
    pub fn decode_ld_dyn(s: &Arc<Schema>, i: usize, bt: bool, mut buf: Bytes) -> Result<(DynMsg, usize), pilota::prost::DecodeError> {
        let mut m = DynMsg::new(s, i, bt);
        m.merge_length_delimited(&mut buf)?;
        Ok((m, buf.remaining()))
    }
}

// ---------------------------------------------------------------- generators
pub const KEY_CODECS: [Codec; 12] = [Codec::Int32, Codec::Int64, Codec::Uint32, Codec::Uint64, Codec::Sint32, Codec::Sint64,
    Codec::Fixed32, Codec::Fixed64, Codec::Sfixed32, Codec::Sfixed64, Codec::Bool, Codec::FastStr];

fn gen_fty(r: &mut Rng, nmsgs: usize, lo: usize, msg_chance: u64) -> FTy {
    if lo < nmsgs && r.chance(msg_chance, 10) { FTy::Msg(lo + r.below((nmsgs - lo) as u64) as usize) } else { FTy::Scalar(*r.pick(&Codec::ALL)) }
}

pub fn gen_schema(r: &mut Rng) -> Schema {
    let n = 1 + r.below(4) as usize;
    let mut msgs = vec![];
    for i in 0..n {
        let nf = match r.below(8) { 0 => 0, 1 => 1, _ => 1 + r.below(6) } as usize;
        let mut used: Vec<u32> = vec![];
        let mut fresh = |r: &mut Rng| loop {
            let t = match r.below(4) { 0 => *r.pick(&TAG_EDGES), 1 => 1 + r.below((1 << 29) - 1) as u32, _ => 1 + r.below(24) as u32 };
            if !used.contains(&t) { used.push(t); return t; }
        };
        let mut ds = vec![];
        for _ in 0..nf {
            ds.push(match r.below(10) {
                0..=2 => { let opt = r.chance(1, 2); let ty = if opt { gen_fty(r, n, 0, 4) } else { gen_fty(r, n, i + 1, 3) }; Decl::Single { tag: fresh(r), ty, opt } }
                3..=5 => Decl::Rep { tag: fresh(r), ty: gen_fty(r, n, 0, 3) },
                6 | 7 => Decl::Map { tag: fresh(r), k: *r.pick(&KEY_CODECS), v: gen_fty(r, n, 0, 3) },
                _ => { let k = 1 + r.below(4); Decl::Oneof((0..k).map(|_| (fresh(r), gen_fty(r, n, 0, 3))).collect()) }
            });
        }
        msgs.push(ds);
    }
    Schema { msgs }
}

fn gen_e(r: &mut Rng, s: &Arc<Schema>, ty: &FTy, bt: bool, depth: usize) -> EVal {
    match ty { FTy::Scalar(c) => EVal::S(if r.chance(1, 6) { c.default() } else { gen_sv(r, *c) }), FTy::Msg(i) => EVal::Msg(gen_msg(r, s, *i, bt, depth)) }
}
pub fn gen_msg(r: &mut Rng, s: &Arc<Schema>, idx: usize, bt: bool, depth: usize) -> DynMsg {
    let mut m = DynMsg::new(s, idx, bt);
    for (d, slot) in s.decls(idx).iter().zip(m.slots.iter_mut()) {
        let deep = |ty: &FTy| matches!(ty, FTy::Msg(_)) && depth == 0;
        match d {
            Decl::Single { ty, opt: false, .. } => *slot = Slot::Req(gen_e(r, s, ty, bt, depth.saturating_sub(1))),
            Decl::Single { ty, opt: true, .. } => if !deep(ty) && r.chance(2, 3) { *slot = Slot::Some(gen_e(r, s, ty, bt, depth - usize::from(matches!(ty, FTy::Msg(_))))) },
            Decl::Rep { ty, .. } => if !deep(ty) {
                let n = match r.below(8) { 0 | 1 => 0, 2 => 1, _ => r.below(4) } as usize;
                *slot = Slot::Rep((0..n).map(|_| gen_e(r, s, ty, bt, depth - usize::from(matches!(ty, FTy::Msg(_))))).collect());
            },
            Decl::Map { k, v, .. } => if !deep(v) {
                let n = match r.below(8) { 0 | 1 => 0, 2 | 3 => 1, _ => r.below(4) } as usize;
                let mut mm = MapS::new(bt);
                for _ in 0..n { let key = if r.chance(1, 4) { k.default() } else { gen_sv(r, *k) }; mm.insert(DK(key), gen_e(r, s, v, bt, depth - usize::from(matches!(v, FTy::Msg(_))))); }
                *slot = Slot::Map(mm);
            },
            Decl::Oneof(vs) => if r.chance(3, 4) {
                let (t, ty) = r.pick(vs);
                if !deep(ty) { *slot = Slot::One(*t, gen_e(r, s, ty, bt, depth - usize::from(matches!(ty, FTy::Msg(_))))); }
            },
        }
    }
    m
}

/// make `b` set the same oneof members as `a` wherever `a` has a message-typed member set (the case in which
/// the emitted `<Enum>::merge` keeps the current value and merges into it)
pub fn align_oneofs(r: &mut Rng, s: &Arc<Schema>, a: &DynMsg, b: &mut DynMsg, depth: usize) {
    for ((d, sa), sb) in s.decls(a.idx).iter().zip(&a.slots).zip(b.slots.iter_mut()) {
        if let (Decl::Oneof(vs), Slot::One(t, EVal::Msg(_))) = (d, sa) {
            if let Some((_, FTy::Msg(j))) = vs.iter().find(|v| v.0 == *t) { *sb = Slot::One(*t, EVal::Msg(gen_msg(r, s, *j, a.bt, depth))); }
        }
    }
}

pub fn fixed_schemas() -> Vec<Schema> {
    let txt = [
        // every codec singular, optional, repeated
        "(schema (msg (f 1 int32 req) (f 2 sint32 req) (f 3 faststr req) (f 4 bytes opt) (f 5 double req) (f 6 float opt) (r 7 int64) (r 8 faststr) (f 9 bool req) (f 16 fixed32 req) (f 2047 sfixed64 opt) (f 536870911 uint64 req)))",
        // nested, recursive through optional / repeated / map / oneof
        "(schema (msg (f 1 (msg 1) req) (f 2 (msg 0) opt) (r 3 (msg 0)) (m 4 int32 (msg 0)) (o (5 (msg 0)) (6 faststr) (7 int32))) (msg (f 1 int32 opt) (m 2 faststr (msg 1))))",
        // maps of every key kind with scalar, enum-like and message values
        "(schema (msg (m 1 int32 int32) (m 2 faststr faststr) (m 3 bool double) (m 4 sint64 bytes) (m 5 fixed32 float) (m 6 uint64 (msg 1)) (m 7 sfixed32 sint32)) (msg (f 1 float req) (f 2 faststr req)))",
        // oneofs
        "(schema (msg (f 1 int32 req) (o (2 faststr) (4 int32)) (f 5 int64 req) (o (6 faststr) (8 (msg 1)) (9 bytes) (10 double))) (msg (f 1 int32 req) (r 2 int32)))",
        "(schema (msg))",
    ];
    txt.iter().map(|t| Schema::of_sexp(&Sexp::parse_line(t).unwrap()[0]).unwrap()).collect()
}

pub fn gen_message_level(r: &mut Rng, thorough: bool, out: &mut Vec<String>) {
    let n = |q: usize, t: usize| if thorough { t } else { q };
    let mut schemas = fixed_schemas();
    for _ in 0..n(40, 600) { schemas.push(gen_schema(r)); }
    for (si, s) in schemas.into_iter().enumerate() {
        let s = Arc::new(s);
        if s.msgs.is_empty() { continue; }
        let reps = if si < 5 { n(25, 300) } else { n(4, 10) };
        for k in 0..reps {
            let i = r.below(s.msgs.len() as u64) as usize;
            let bt = r.chance(1, 2);
            let fl = if bt { "bt" } else { "hm" };
            let dp = 1 + r.below(4) as usize;
            let m = if k == 0 { DynMsg::new(&s, i, bt) } else { gen_msg(r, &s, i, bt, dp) };
            out.push(format!("pbenc {} {} {} {} {}", fl, flag_name(), s.sexp(), i, m_sexp(&m)));
            let mut b = BytesMut::new();
            m.encode_raw(&mut b);
            out.push(format!("pbdec {} {} {} {}", fl, s.sexp(), i, hex(&b)));
            if k % 3 == 0 { out.push(format!("pbdld {} {} {} {}", fl, s.sexp(), i, hex(&m.encode_length_delimited_to_vec()))); }
            if k % 4 == 1 {
                let tag = gen_tag(r);
                out.push(format!("pbgrpenc {} {} {} {} {} {}", fl, flag_name(), s.sexp(), i, tag, m_sexp(&m)));
                let mut g = b.to_vec(); super::rtverbs::put_key(tag, 4, &mut g); g.extend([0x55u8, 0x66]);
                out.push(format!("pbgrpdec {} {} {} {} {}", fl, s.sexp(), i, tag, hex(&g)));
            }
        }
    }
}

// ---------------------------------------------------------------- C18: concatenation, unknown fields, interleaving
use super::adv::{group_ladder, walk};
use super::rtverbs::{put_key, put_varint};

/// a well-formed record of field `tag` (any wire type; groups may nest)
pub fn gen_unknown_record(r: &mut Rng, tag: u32, depth: usize) -> Vec<u8> {
    let mut v = vec![];
    match r.below(if depth == 0 { 4 } else { 5 }) {
        0 => { put_key(tag, 0, &mut v); put_varint(gen_u64(r), &mut v); }
        1 => { put_key(tag, 1, &mut v); v.extend((0..8).map(|_| r.next() as u8)); }
        2 => { put_key(tag, 5, &mut v); v.extend((0..4).map(|_| r.next() as u8)); }
        3 => { put_key(tag, 2, &mut v); let n = r.below(6); put_varint(n, &mut v); v.extend((0..n).map(|_| r.next() as u8)); }
        _ => { put_key(tag, 3, &mut v); for _ in 0..r.below(3) { let t = 1 + r.below(40) as u32; v.extend(gen_unknown_record(r, t, depth - 1)); } put_key(tag, 4, &mut v); }
    }
    v
}

fn unused_tag(r: &mut Rng, s: &Schema) -> u32 {
    let used: Vec<u32> = s.msgs.iter().flat_map(|m| m.iter().flat_map(|d| d.tags())).collect();
    loop { let t = match r.below(3) { 0 => 1 + r.below(30) as u32, 1 => *r.pick(&TAG_EDGES), _ => gen_tag(r) }; if !used.contains(&t) && t != 1 && t != 2 { return t; } }
}

/// insert unknown records at record boundaries of `valid` (top level, and inside one nested message payload)
fn with_unknown(r: &mut Rng, s: &Schema, idx: usize, valid: &[u8]) -> Vec<u8> {
    let tag = unused_tag(r, s);
    let recs = walk(valid);
    let mut out = vec![];
    let mut pos = 0;
    let nested_at = if recs.is_empty() { usize::MAX } else { r.below(recs.len() as u64 * 2) as usize };
    for (n, rec) in recs.iter().enumerate() {
        if r.chance(1, 3) { out.extend(gen_unknown_record(r, tag, 2)); }
        // nested: a length-delimited record of a field declared with a message type gets a record inserted inside
        let decl_msg = s.decls(idx).iter().any(|d| match d {
            Decl::Single { tag: t, ty: FTy::Msg(_), .. } | Decl::Rep { tag: t, ty: FTy::Msg(_) } => (*t as u64) == key_tag(valid, rec.key_pos),
            Decl::Oneof(vs) => vs.iter().any(|(t, ty)| matches!(ty, FTy::Msg(_)) && (*t as u64) == key_tag(valid, rec.key_pos)),
            _ => false });
        if n == nested_at && decl_msg && rec.wt == 2 {
            let lp = rec.len_pos.unwrap();
            let mut p = lp; while valid[p] >= 0x80 { p += 1; } p += 1;
            let inner = &valid[p..rec.end];
            let irecs = walk(inner);
            let cut = if irecs.is_empty() { 0 } else { irecs[r.below(irecs.len() as u64) as usize].key_pos };
            let mut ni = inner[..cut].to_vec(); ni.extend(gen_unknown_record(r, tag, 2)); ni.extend_from_slice(&inner[cut..]);
            out.extend_from_slice(&valid[rec.key_pos..lp]); put_varint(ni.len() as u64, &mut out); out.extend(ni);
        } else { out.extend_from_slice(&valid[pos..rec.end]); }
        pos = rec.end;
    }
    out.extend_from_slice(&valid[pos..]);
    if r.chance(1, 2) { out.extend(gen_unknown_record(r, tag, 2)); }
    out
}
fn key_tag(b: &[u8], p: usize) -> u64 { let mut v = 0u64; let mut q = p; let mut sh = 0; loop { let x = b[q]; v |= ((x & 0x7f) as u64) << sh; if x < 0x80 { break; } sh += 7; q += 1; } v >> 3 }

/// an interleaving of the records of `x ++ y` that keeps, per struct field (a oneof counts as one field), the order of its records
fn interleave(r: &mut Rng, s: &Schema, idx: usize, cat: &[u8]) -> Vec<u8> {
    let recs = walk(cat);
    let slot_of = |t: u64| s.decls(idx).iter().position(|d| d.tags().iter().any(|x| *x as u64 == t)).map(|p| p as u64).unwrap_or(1_000_000 + t);
    let mut queues: Vec<(u64, std::collections::VecDeque<&[u8]>)> = vec![];
    for rec in &recs {
        let sl = slot_of(key_tag(cat, rec.key_pos));
        let bytes = &cat[rec.key_pos..rec.end];
        match queues.iter_mut().find(|q| q.0 == sl) { Some(q) => q.1.push_back(bytes), None => queues.push((sl, std::iter::once(bytes).collect())) }
    }
    let mut out = vec![];
    while !queues.is_empty() {
        let k = r.below(queues.len() as u64) as usize;
        out.extend_from_slice(queues[k].1.pop_front().unwrap());
        if queues[k].1.is_empty() { queues.remove(k); }
    }
    out
}

pub fn gen_merge_level(r: &mut Rng, thorough: bool, out: &mut Vec<String>) {
    let n = |q: usize, t: usize| if thorough { t } else { q };
    let mut schemas = fixed_schemas();
    for _ in 0..n(40, 600) { schemas.push(gen_schema(r)); }
    for (si, s) in schemas.into_iter().enumerate() {
        let s = Arc::new(s);
        if s.msgs.is_empty() { continue; }
        let reps = if si < 5 { n(20, 200) } else { n(4, 10) };
        for _ in 0..reps {
            let i = r.below(s.msgs.len() as u64) as usize;
            let bt = r.chance(1, 2);
            let fl = if bt { "bt" } else { "hm" };
            let dp = 1 + r.below(3) as usize;
            let x = gen_msg(r, &s, i, bt, dp);
            let mut y = gen_msg(r, &s, i, bt, dp);
            if r.chance(1, 2) { align_oneofs(r, &s, &x, &mut y, dp.saturating_sub(1)); }
            out.push(format!("pbcat {} {} {} {} {} {}", fl, flag_name(), s.sexp(), i, m_sexp(&x), m_sexp(&y)));
            let (mut bx, mut by) = (BytesMut::new(), BytesMut::new());
            x.encode_raw(&mut bx); y.encode_raw(&mut by);
            out.push(format!("pbmrg {} {} {} {} {}", fl, s.sexp(), i, m_sexp(&x), hex(&by)));
            let mut cat = bx.to_vec(); cat.extend_from_slice(&by);
            out.push(format!("pbunk {} {} {} {} {}", fl, s.sexp(), i, hex(&with_unknown(r, &s, i, &cat)), hex(&cat)));
            out.push(format!("pbilv {} {} {} {} {}", fl, s.sexp(), i, hex(&interleave(r, &s, i, &cat)), hex(&cat)));
        }
    }
    // unknown groups at the edge of the budget, at the top level (100 levels are skipped, 101 are refused: both sides agree on the error)
    let s = "(schema (msg (f 1 int32 req)))";
    for d in [1usize, 50, 99, 100] { out.push(format!("pbunk hm {} 0 {} 0805", s, hex(&{ let mut v = vec![8u8, 5]; v.extend(group_ladder(7, d, false)); v }))); }
}
