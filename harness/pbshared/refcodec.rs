//! C06: an independent reference encoder / decoder for the protobuf wire format, written from the
//! encoding guide (no call into pilota), and the verbs that confront pilota with it.
//!
//!   pbspecchk <hm|bt> <pschema> <i> <msg> <hex>   -> ok 1 <msg'> | ok 1 err     (hex is claimed to be a conforming encoding of msg;
//!                                                    msg' = pilota's decode of hex; the model prints its checker's verdict instead of `1`)
//!   pbspecdec <pschema> <i> <hex>                 -> ok <msg> | err             (the REFERENCE decoder; the model answers with Spec.decode)
//!
//! `<pschema>` is the declared schema: like `<schema>` but with proto type names (`string` instead of `faststr`).
use std::sync::Arc;

use bytes::{Bytes, BytesMut};
use pilota::prost::Message;

use super::dynmsg::*;
use super::msgverbs::*;
use super::rtverbs::{put_key, put_varint};
use super::sv::*;
use crate::val::*;
use crate::Oracle;

// ---------------------------------------------------------------- declared schemas
pub fn pschema_sexp(s: &Schema) -> String { s.sexp().replace("faststr", "string") }
pub fn pschema_of_sexp(x: &Sexp) -> Option<Schema> {
    // lower by the SPEC: string -> the string codec pilota-build uses (faststr); every other name is its codec
    fn fix(x: &Sexp) -> Sexp { match x { Sexp::Atom(a) if a == "string" => Sexp::Atom("faststr".into()), Sexp::Atom(a) if a == "enum" => Sexp::Atom("int32".into()), Sexp::Atom(a) => Sexp::Atom(a.clone()), Sexp::List(l) => Sexp::List(l.iter().map(fix).collect()) } }
    Schema::of_sexp(&fix(x))
}

// ---------------------------------------------------------------- scalars by declared type (the guide)
fn wire_of(c: Codec) -> u8 {
    match c {
        Codec::Int32 | Codec::Int64 | Codec::Uint32 | Codec::Uint64 | Codec::Sint32 | Codec::Sint64 | Codec::Bool => 0,
        Codec::Fixed64 | Codec::Sfixed64 | Codec::Double => 1,
        Codec::Str | Codec::FastStr | Codec::Bytes => 2,
        Codec::Fixed32 | Codec::Sfixed32 | Codec::Float => 5,
    }
}
fn enc_scalar(c: Codec, v: &SV, out: &mut Vec<u8>) {
    match (c, v) {
        (Codec::Int32 | Codec::Int64, SV::Int(n)) => put_varint(*n as i64 as u64, out),          // sign-extended to 64 bits
        (Codec::Uint32 | Codec::Uint64, SV::Int(n)) => put_varint(*n as u64, out),
        (Codec::Sint32, SV::Int(n)) => { let n = *n as i32; put_varint(((n << 1) ^ (n >> 31)) as u32 as u64, out) }
        (Codec::Sint64, SV::Int(n)) => { let n = *n as i64; put_varint(((n << 1) ^ (n >> 63)) as u64, out) }
        (Codec::Bool, SV::Bool(b)) => out.push(*b as u8),
        (Codec::Fixed32, SV::Int(n)) => out.extend_from_slice(&(*n as u32).to_le_bytes()),
        (Codec::Sfixed32, SV::Int(n)) => out.extend_from_slice(&(*n as i32).to_le_bytes()),
        (Codec::Fixed64, SV::Int(n)) => out.extend_from_slice(&(*n as u64).to_le_bytes()),
        (Codec::Sfixed64, SV::Int(n)) => out.extend_from_slice(&(*n as i64).to_le_bytes()),
        (Codec::Float, SV::F32(b)) => out.extend_from_slice(&b.to_le_bytes()),
        (Codec::Double, SV::F64(b)) => out.extend_from_slice(&b.to_le_bytes()),
        (Codec::Str | Codec::FastStr | Codec::Bytes, SV::Bs(b)) => { put_varint(b.len() as u64, out); out.extend_from_slice(b) }
        _ => panic!("harness: scalar does not match its declared type"),
    }
}
fn exact_zero(v: &SV) -> bool { match v { SV::Int(n) => *n == 0, SV::Bool(b) => !*b, SV::F32(x) => *x == 0, SV::F64(x) => *x == 0, SV::Bs(b) => b.is_empty() } }
fn packable(ty: &FTy) -> bool { matches!(ty, FTy::Scalar(c) if c.is_numeric()) }

// ---------------------------------------------------------------- reference encoder with choices
pub struct Choices<'a> { pub r: &'a mut Rng, pub canonical: bool }
impl<'a> Choices<'a> { fn flip(&mut self, canon: bool) -> bool { if self.canonical { canon } else { self.r.chance(1, 2) } } }

fn rec_e(s: &Schema, tag: u32, ty: &FTy, v: &EVal, ch: &mut Choices) -> Vec<u8> {
    let mut out = vec![];
    match (ty, v) {
        (FTy::Scalar(c), EVal::S(x)) => { put_key(tag, wire_of(*c), &mut out); enc_scalar(*c, x, &mut out); }
        (FTy::Msg(_), EVal::Msg(m)) => { let body = ref_encode(s, m, ch); put_key(tag, 2, &mut out); put_varint(body.len() as u64, &mut out); out.extend(body); }
        _ => panic!("harness: value does not match its declared type"),
    }
    out
}
fn is_zero_e(ty: &FTy, v: &EVal) -> bool { matches!((ty, v), (FTy::Scalar(_), EVal::S(x)) if exact_zero(x)) }

/// a conforming encoding of `m`: per field a list of records; fields interleaved at random, packed or not, defaults present or not
pub fn ref_encode(s: &Schema, m: &DynMsg, ch: &mut Choices) -> Vec<u8> {
    let mut per_slot: Vec<Vec<Vec<u8>>> = vec![];
    for (d, slot) in s.decls(m.idx).iter().zip(&m.slots) {
        let mut recs: Vec<Vec<u8>> = vec![];
        match (d, slot) {
            (Decl::Single { tag, ty, opt: false }, Slot::Req(v)) => if !(is_zero_e(ty, v) && ch.flip(true)) { recs.push(rec_e(s, *tag, ty, v, ch)); },
            (Decl::Single { tag, ty, opt: true }, Slot::Some(v)) => recs.push(rec_e(s, *tag, ty, v, ch)),
            (Decl::Single { opt: true, .. }, Slot::None) | (Decl::Oneof(_), Slot::None) => {}
            (Decl::Rep { tag, ty }, Slot::Rep(xs)) => {
                if let (true, FTy::Scalar(c)) = (packable(ty), ty) {
                    let mut i = 0;
                    while i < xs.len() {
                        // a packed run of k >= 1 elements, or one unpacked element
                        let k = if ch.canonical { xs.len() } else { 1 + ch.r.below((xs.len() - i) as u64) as usize };
                        if ch.flip(true) {
                            let mut body = vec![];
                            for x in &xs[i..i + k] { if let EVal::S(v) = x { enc_scalar(*c, v, &mut body) } }
                            let mut rec = vec![]; put_key(*tag, 2, &mut rec); put_varint(body.len() as u64, &mut rec); rec.extend(body);
                            recs.push(rec); i += k;
                        } else { recs.push(rec_e(s, *tag, ty, &xs[i], ch)); i += 1; }
                    }
                } else { for x in xs { recs.push(rec_e(s, *tag, ty, x, ch)); } }
            }
            (Decl::Map { tag, k, v }, Slot::Map(mm)) => {
                for (key, val) in mm.sorted() {
                    let mut kr = vec![]; let mut vr = vec![];
                    if !(exact_zero(&key.0) && ch.flip(true)) { put_key(1, wire_of(*k), &mut kr); enc_scalar(*k, &key.0, &mut kr); }
                    if !(is_zero_e(v, val) && ch.flip(true)) { vr = rec_e(s, 2, v, val, ch); }
                    let body = if ch.flip(true) { [kr, vr].concat() } else { [vr, kr].concat() };
                    let mut rec = vec![]; put_key(*tag, 2, &mut rec); put_varint(body.len() as u64, &mut rec); rec.extend(body);
                    recs.push(rec);
                }
            }
            (Decl::Oneof(vs), Slot::One(t, v)) => recs.push(rec_e(s, *t, &vs.iter().find(|x| x.0 == *t).expect("variant").1, v, ch)),
            _ => panic!("harness: slot does not match its declaration"),
        }
        per_slot.push(recs);
    }
    // interleave the fields (each field's records stay in order)
    let mut queues: Vec<std::collections::VecDeque<Vec<u8>>> = per_slot.into_iter().map(|v| v.into_iter().collect()).filter(|q: &std::collections::VecDeque<Vec<u8>>| !q.is_empty()).collect();
    let mut out = vec![];
    while !queues.is_empty() {
        let k = if ch.canonical { 0 } else { ch.r.below(queues.len() as u64) as usize };
        out.extend(queues[k].pop_front().unwrap());
        if queues[k].is_empty() { queues.remove(k); }
    }
    out
}

/// records a decoder must see overridden by what follows (last occurrence wins): for every map entry, with probability 1/2, an
/// earlier entry with the same key and no value; for singular scalar fields, with probability 1/3, an earlier explicit zero
pub fn stale_prefix(s: &Schema, m: &DynMsg, r: &mut Rng) -> Vec<u8> {
    let mut out = vec![];
    for (d, slot) in s.decls(m.idx).iter().zip(&m.slots) {
        match (d, slot) {
            (Decl::Map { tag, k, .. }, Slot::Map(mm)) => {
                for (key, _) in mm.sorted() {
                    if !r.chance(1, 2) { continue; }
                    let mut kr = vec![];
                    put_key(1, wire_of(*k), &mut kr); enc_scalar(*k, &key.0, &mut kr);
                    put_key(*tag, 2, &mut out); put_varint(kr.len() as u64, &mut out); out.extend(kr);
                }
            }
            (Decl::Single { tag, ty: FTy::Scalar(c), .. }, Slot::Req(_) | Slot::Some(_)) => {
                if r.chance(1, 3) { put_key(*tag, wire_of(*c), &mut out); enc_scalar(*c, &c.default(), &mut out); }
            }
            _ => {}
        }
    }
    out
}

/// (prefix, suffix) around a conforming encoding of `m`: for some singular scalar fields an earlier record with an arbitrary
/// (non-default) value, and at the very end an explicit record with the field's real value - also when that value is the default
/// and the encoding in between leaves it out.  Last occurrence wins: the whole still decodes to `m`.
pub fn overridden_wrap(s: &Schema, m: &DynMsg, r: &mut Rng) -> (Vec<u8>, Vec<u8>) {
    let (mut pre, mut suf) = (vec![], vec![]);
    for (d, slot) in s.decls(m.idx).iter().zip(&m.slots) {
        if let (Decl::Single { tag, ty: FTy::Scalar(c), .. }, Slot::Req(EVal::S(v)) | Slot::Some(EVal::S(v))) = (d, slot) {
            if !r.chance(1, 2) { continue; }
            let other = gen_sv(r, *c);
            put_key(*tag, wire_of(*c), &mut pre); enc_scalar(*c, &other, &mut pre);
            put_key(*tag, wire_of(*c), &mut suf); enc_scalar(*c, v, &mut suf);
        }
    }
    (pre, suf)
}

// ---------------------------------------------------------------- reference decoder
fn rd_var(b: &[u8], p: &mut usize) -> Option<u64> {
    let mut v: u128 = 0;
    for i in 0..10 { let x = *b.get(*p)?; *p += 1; v |= ((x & 0x7f) as u128) << (7 * i); if x < 0x80 { return if v < (1u128 << 64) { Some(v as u64) } else { None }; } }
    None
}
struct Rec<'a> { tag: u32, wt: u8, payload: &'a [u8] }
fn parse_recs(b: &[u8]) -> Option<Vec<Rec>> {
    let mut p = 0; let mut out = vec![];
    while p < b.len() {
        let key = rd_var(b, &mut p)?;
        let tag = key >> 3; if tag < 1 || tag > (1 << 29) - 1 { return None; }
        let st = p;
        match key & 7 { 0 => { rd_var(b, &mut p)?; } 1 => p += 8, 5 => p += 4, 2 => { let n = rd_var(b, &mut p)?; p = p.checked_add(usize::try_from(n).ok()?)?; } _ => return None }
        if p > b.len() { return None; }
        out.push(Rec { tag: tag as u32, wt: (key & 7) as u8, payload: &b[st..p] });
    }
    Some(out)
}
fn un_len(p: &[u8]) -> Option<&[u8]> { let mut q = 0; let n = rd_var(p, &mut q)?; if (p.len() - q) as u64 == n { Some(&p[q..]) } else { None } }
fn dec_scalar(c: Codec, p: &[u8], q: &mut usize) -> Option<SV> {
    let fixed = |q: &mut usize, n: usize| -> Option<&[u8]> { let s = p.get(*q..*q + n)?; *q += n; Some(s) };
    Some(match c {
        Codec::Int32 => SV::Int(rd_var(p, q)? as i32 as i128),
        Codec::Int64 => SV::Int(rd_var(p, q)? as i64 as i128),
        Codec::Uint32 => SV::Int(rd_var(p, q)? as u32 as i128),
        Codec::Uint64 => SV::Int(rd_var(p, q)? as i128),
        Codec::Sint32 => { let n = rd_var(p, q)? as u32; SV::Int((((n >> 1) as i32) ^ -((n & 1) as i32)) as i128) }
        Codec::Sint64 => { let n = rd_var(p, q)?; SV::Int((((n >> 1) as i64) ^ -((n & 1) as i64)) as i128) }
        Codec::Bool => SV::Bool(rd_var(p, q)? != 0),
        Codec::Fixed32 => SV::Int(u32::from_le_bytes(fixed(q, 4)?.try_into().ok()?) as i128),
        Codec::Sfixed32 => SV::Int(i32::from_le_bytes(fixed(q, 4)?.try_into().ok()?) as i128),
        Codec::Float => SV::F32(u32::from_le_bytes(fixed(q, 4)?.try_into().ok()?)),
        Codec::Fixed64 => SV::Int(u64::from_le_bytes(fixed(q, 8)?.try_into().ok()?) as i128),
        Codec::Sfixed64 => SV::Int(i64::from_le_bytes(fixed(q, 8)?.try_into().ok()?) as i128),
        Codec::Double => SV::F64(u64::from_le_bytes(fixed(q, 8)?.try_into().ok()?)),
        Codec::Str | Codec::FastStr => { let b = un_len(&p[*q..])?; std::str::from_utf8(b).ok()?; *q = p.len(); SV::Bs(b.to_vec()) }
        Codec::Bytes => { let b = un_len(&p[*q..])?; *q = p.len(); SV::Bs(b.to_vec()) }
    })
}
fn dec_one(c: Codec, r: &Rec) -> Option<SV> { if r.wt != wire_of(c) { return None; } let mut q = 0; let v = dec_scalar(c, r.payload, &mut q)?; if q == r.payload.len() { Some(v) } else { None } }
fn dec_e(s: &Arc<Schema>, ty: &FTy, cur: &mut EVal, r: &Rec, depth: usize) -> Option<()> {
    match (ty, cur) {
        (FTy::Scalar(c), EVal::S(x)) => { *x = dec_one(*c, r)?; Some(()) }
        (FTy::Msg(_), EVal::Msg(m)) => { if r.wt != 2 { return None; } ref_merge(s, m, un_len(r.payload)?, depth) }
        _ => None,
    }
}
fn ref_merge(s: &Arc<Schema>, m: &mut DynMsg, bytes: &[u8], depth: usize) -> Option<()> {
    if depth == 0 { return None; }
    for r in parse_recs(bytes)? {
        let Some(pos) = s.decls(m.idx).iter().position(|d| d.tags().contains(&r.tag)) else { continue };   // unknown field: ignored
        let d = s.decls(m.idx)[pos].clone();
        let bt = m.bt;
        let slot = &mut m.slots[pos];
        match &d {
            Decl::Single { ty, opt: false, .. } => { let Slot::Req(v) = slot else { return None }; dec_e(s, ty, v, &r, depth - 1)?; }
            Decl::Single { ty, opt: true, .. } => { if !matches!(slot, Slot::Some(_)) { *slot = Slot::Some(default_e(s, ty, bt)); } let Slot::Some(v) = slot else { unreachable!() }; dec_e(s, ty, v, &r, depth - 1)?; }
            Decl::Rep { ty, .. } => {
                let Slot::Rep(xs) = slot else { return None };
                if let (true, 2, FTy::Scalar(c)) = (packable(ty), r.wt, ty) {
                    let body = un_len(r.payload)?; let mut q = 0;
                    while q < body.len() { let st = q; xs.push(EVal::S(dec_scalar(*c, body, &mut q)?)); if q == st { return None; } }
                } else { let mut v = default_e(s, ty, bt); dec_e(s, ty, &mut v, &r, depth - 1)?; xs.push(v); }
            }
            Decl::Map { k, v, .. } => {
                let Slot::Map(mm) = slot else { return None };
                if r.wt != 2 { return None; }
                let (mut key, mut val) = (k.default(), default_e(s, v, bt));
                for e in parse_recs(un_len(r.payload)?)? {
                    if e.tag == 1 { key = dec_one(*k, &e)?; } else if e.tag == 2 { dec_e(s, v, &mut val, &e, depth - 1)?; }
                }
                mm.insert(DK(key), val);
            }
            Decl::Oneof(vs) => {
                let ty = &vs.iter().find(|x| x.0 == r.tag)?.1;
                match slot { Slot::One(t, v) if *t == r.tag => dec_e(s, ty, v, &r, depth - 1)?, _ => { let mut v = default_e(s, ty, bt); dec_e(s, ty, &mut v, &r, depth - 1)?; *slot = Slot::One(r.tag, v); } }
            }
        }
    }
    Some(())
}
pub fn ref_decode(s: &Arc<Schema>, idx: usize, bt: bool, bytes: &[u8]) -> Option<DynMsg> {
    let mut m = DynMsg::new(s, idx, bt);
    ref_merge(s, &mut m, bytes, 101)?;
    Some(m)
}

// ---------------------------------------------------------------- verbs
pub fn exec(verb: &str, items: &[Sexp], o: &mut Oracle) -> Option<String> {
    let a = |i: usize| items.get(i).and_then(|x| x.atom());
    let bad = || Some("bad-request".to_string());
    Some(match verb {
        "pbspecchk" => {
            let bt = match a(1) { Some("bt") => true, Some("hm") => false, _ => return bad() };
            let (Some(s), Some(i), Some(input)) = (items.get(2).and_then(pschema_of_sexp), a(3).and_then(|x| x.parse::<usize>().ok()), a(5).and_then(unhex)) else { return bad() };
            let s = Arc::new(s);
            let Some(m) = items.get(4).and_then(|x| m_of_sexp(&s, i, bt, x)) else { return bad() };
            // direction 2: pilota reads the conforming encoding
            let got = DynMsg::decode_dyn(&s, i, bt, Bytes::from(input));
            match &got { Ok(m2) if m_same(&m, m2) => {} other => o.fail("C06", format!("pilota decodes a conforming encoding to {}", other.as_ref().map(m_sexp).unwrap_or_else(|e| class(e)))) }
            // direction 1: the reference decoder reads pilota's encoding
            let mut b = BytesMut::new(); m.encode_raw(&mut b);
            match ref_decode(&s, i, bt, &b) {
                Some(m3) if m_same(&m, &m3) || (!FLAG_ON && m_same(&norm_negzero(&m), &m3)) => {}
                other => o.fail("C06", format!("the reference decoder reads pilota's encoding {} as {}", hex(&b), other.as_ref().map(m_sexp).unwrap_or("err".into()))),
            }
            match got { Ok(m2) => format!("ok 1 {}", m_sexp(&m2)), Err(e) => format!("ok 1 {}", class(&e)) }
        }
        "pbspecdec" => {
            let (Some(s), Some(i), Some(input)) = (items.get(1).and_then(pschema_of_sexp), a(2).and_then(|x| x.parse::<usize>().ok()), a(3).and_then(unhex)) else { return bad() };
            let s = Arc::new(s);
            let r = ref_decode(&s, i, false, &input);
            if let Some(m) = &r {
                match DynMsg::decode_dyn(&s, i, false, Bytes::from(input)) { Ok(m2) if m_same(m, &m2) => {} other => o.fail("C06", format!("reference decoder: {}, pilota: {}", m_sexp(m), other.as_ref().map(m_sexp).unwrap_or_else(|e| class(e)))) }
            }
            match r { Some(m) => format!("ok {}", m_sexp(&m)), None => "err".into() }
        }
        _ => return None,
    })
}

pub fn gen_spec_level(r: &mut Rng, thorough: bool, out: &mut Vec<String>) {
    let n = |q: usize, t: usize| if thorough { t } else { q };
    let mut schemas = fixed_schemas();
    for _ in 0..n(40, 600) { schemas.push(gen_schema(r)); }
    for (si, s) in schemas.into_iter().enumerate() {
        // the spec knows `string`, not the unchecked `string` module: declared schemas only
        if s.sexp().contains(" string") { continue; }
        let s = Arc::new(s);
        if s.msgs.is_empty() { continue; }
        let ps = pschema_sexp(&s);
        let reps = if si < 5 { n(20, 200) } else { n(4, 10) };
        for k in 0..reps {
            let i = r.below(s.msgs.len() as u64) as usize;
            let bt = r.chance(1, 2);
            let fl = if bt { "bt" } else { "hm" };
            let dp = 1 + r.below(3) as usize;
            let m = if k == 0 { DynMsg::new(&s, i, bt) } else { gen_msg(r, &s, i, bt, dp) };
            // pilota's own bytes must be in the relation
            let mut b = BytesMut::new(); m.encode_raw(&mut b);
            if (FLAG_ON || m_same(&norm_negzero(&m), &m)) && (bt || !multi_entry(&m)) { out.push(format!("pbspecchk {} {} {} {} {}", fl, ps, i, m_sexp(&m), hex(&b))); }
            // the canonical reference encoding and random conforming alternatives
            let canon = ref_encode(&s, &m, &mut Choices { r, canonical: true });
            out.push(format!("pbspecchk {} {} {} {} {}", fl, ps, i, m_sexp(&m), hex(&canon)));
            for _ in 0..n(2, 6) { let alt = ref_encode(&s, &m, &mut Choices { r, canonical: false }); out.push(format!("pbspecchk {} {} {} {} {}", fl, ps, i, m_sexp(&m), hex(&alt))); }
            out.push(format!("pbspecdec {} {} {}", ps, i, hex(&b)));
            let alt = ref_encode(&s, &m, &mut Choices { r, canonical: false });
            out.push(format!("pbspecdec {} {} {}", ps, i, hex(&alt)));
            for mu in super::adv::mutations(r, &alt, false).into_iter().take(n(3, 20)) { out.push(format!("pbspecdec {} {} {}", ps, i, hex(&mu))); }
        }
    }
}
