//! Adversarial inputs for the protobuf decoders (C10) and the wrapper-type verbs.
//!
//!   pbwrapenc <kind> <sv>     -> ok <hex> len=<n>        (`impl Message for bool/u32/.../String/Vec<u8>/Bytes`: encode, encoded_len)
//!   pbwrapdec <kind> <hex>    -> ok <sv> | err | depth   (Message::decode)
//!   pbwrapld <kind> <hex>     -> ok <sv> rem=<n> | err | depth (decode_length_delimited)
//!   pbunit <hex>              -> ok | err | depth        (`impl Message for ()`)
use std::sync::Arc;

use bytes::{Buf, Bytes, BytesMut};
use pilota::prost::Message;

use super::dynmsg::*;
use super::msgverbs::*;
use super::rtverbs::*;
use super::sv::*;
use crate::val::*;
use crate::Oracle;

pub const WRAP_KINDS: [(&str, Codec); 10] = [("bool", Codec::Bool), ("u32", Codec::Uint32), ("u64", Codec::Uint64), ("i32", Codec::Int32), ("i64", Codec::Int64),
    ("f32", Codec::Float), ("f64", Codec::Double), ("string", Codec::Str), ("vec", Codec::Bytes), ("bytes", Codec::Bytes)];

macro_rules! with_wrap {
    ($k:expr, $t:ident, $body:expr) => {
        match $k {
            "bool" => { type $t = bool; $body }
            "u32" => { type $t = u32; $body }
            "u64" => { type $t = u64; $body }
            "i32" => { type $t = i32; $body }
            "i64" => { type $t = i64; $body }
            "f32" => { type $t = f32; $body }
            "f64" => { type $t = f64; $body }
            "string" => { type $t = String; $body }
            "vec" => { type $t = VecU8; $body }
            "bytes" => { type $t = Bytes; $body }
            _ => return Some("bad-request".into()),
        }
    };
}
/// `Vec<u8>` through the same `Conv` interface
#[derive(Clone, Default, Debug)]
pub struct VecU8(pub Vec<u8>);
impl Conv for VecU8 { fn of_sv(v: &SV) -> Option<Self> { if let SV::Bs(b) = v { Some(VecU8(b.clone())) } else { None } } fn to_sv(&self) -> SV { SV::Bs(self.0.clone()) } }
trait Wrap: Conv { type M: Message + Default; fn m(&self) -> Self::M; fn of_m(m: &Self::M) -> Self; }
macro_rules! wrap_id { ($($t:ty),*) => { $(impl Wrap for $t { type M = $t; fn m(&self) -> $t { self.clone() } fn of_m(m: &$t) -> $t { m.clone() } })* } }
wrap_id!(bool, u32, u64, i32, i64, f32, f64, String, Bytes);
impl Wrap for VecU8 { type M = Vec<u8>; fn m(&self) -> Vec<u8> { self.0.clone() } fn of_m(m: &Vec<u8>) -> Self { VecU8(m.clone()) } }

pub fn exec(verb: &str, items: &[Sexp], o: &mut Oracle) -> Option<String> {
    let a = |i: usize| items.get(i).and_then(|x| x.atom());
    let bad = || Some("bad-request".to_string());
    Some(match verb {
        "pbwrapenc" => {
            let (Some(k), Some(v)) = (a(1), items.get(2).and_then(SV::of_sexp)) else { return bad() };
            with_wrap!(k, T, {
                let Some(x) = <T as Conv>::of_sv(&v) else { return bad() };
                let m = x.m();
                let b = m.encode_to_vec();
                let l = m.encoded_len();
                if l != b.len() { o.fail("C05", format!("wrapper encoded_len {} != {} bytes", l, b.len())); }
                match <<T as Wrap>::M as Message>::decode(&b[..]) {
                    Ok(m2) => { let v2 = <T as Wrap>::of_m(&m2).to_sv(); if v2 != v { if v.is_default() && v2.is_default() { o.fail("C05", format!("wrapper decode(encode x) differs from x only by the sign of zero: {}", v2.sexp())); } else { o.fail("C05", format!("wrapper decode(encode x) = {}", v2.sexp())); } } }
                    Err(e) => o.fail("C05", format!("wrapper decode(encode x) failed: {}", e)),
                }
                format!("ok {} len={}", hex(&b), l)
            })
        }
        "pbwrapdec" | "pbwrapld" => {
            let (Some(k), Some(input)) = (a(1), a(2).and_then(unhex)) else { return bad() };
            with_wrap!(k, T, {
                let mut buf = Bytes::from(input);
                let r = if verb == "pbwrapdec" { <<T as Wrap>::M as Message>::decode(&mut buf) } else { <<T as Wrap>::M as Message>::decode_length_delimited(&mut buf) };
                match r {
                    Ok(m) => { let v = <T as Wrap>::of_m(&m).to_sv(); if verb == "pbwrapdec" { format!("ok {}", v.sexp()) } else { format!("ok {} rem={}", v.sexp(), buf.remaining()) } }
                    Err(e) => err_class(&e).into(),
                }
            })
        }
        "pbunit" => {
            let Some(input) = a(1).and_then(unhex) else { return bad() };
            match <() as Message>::decode(&input[..]) { Ok(()) => "ok".into(), Err(e) => err_class(&e).into() }
        }
        _ => return None,
    })
}

// ---------------------------------------------------------------- wire walking and mutation
pub struct Rec { pub key_pos: usize, pub wt: u8, pub len_pos: Option<usize>, pub end: usize }

fn rd_varint(b: &[u8], mut p: usize) -> Option<(u64, usize)> {
    let mut v = 0u64;
    for i in 0..10 { let x = *b.get(p)?; p += 1; v |= ((x & 0x7f) as u64) << (7 * i); if x < 0x80 { return Some((v, p)); } }
    None
}
/// top-level records of a well-formed encoding (stops at the first thing it does not understand)
pub fn walk(b: &[u8]) -> Vec<Rec> {
    let mut out = vec![];
    let mut p = 0;
    while p < b.len() {
        let Some((key, q)) = rd_varint(b, p) else { break };
        let wt = (key & 7) as u8;
        let (len_pos, end) = match wt {
            0 => { let Some((_, e)) = rd_varint(b, q) else { break }; (None, e) }
            1 => (None, q + 8),
            5 => (None, q + 4),
            2 => { let Some((l, e)) = rd_varint(b, q) else { break }; (Some(q), e + l as usize) }
            _ => break,
        };
        if end > b.len() { break; }
        out.push(Rec { key_pos: p, wt, len_pos, end });
        p = end;
    }
    out
}

pub const LEN_ATTACKS: [u64; 5] = [0, 1, (1 << 31) - 1, (1 << 32) - 1, 1 << 63];

/// corruptions of one valid encoding
pub fn mutations(r: &mut Rng, valid: &[u8], thorough: bool) -> Vec<Vec<u8>> {
    let mut out = vec![];
    let n = valid.len();
    let cap = if thorough { usize::MAX } else { 24 };
    // truncations
    let step = (n / cap.min(n.max(1))).max(1);
    let mut i = 0; while i < n { out.push(valid[..i].to_vec()); i += step; }
    // bit flips
    for i in 0..n.min(if thorough { 4096 } else { 48 }) {
        for bit in if thorough { vec![0u8, 1, 2, 3, 4, 5, 6, 7] } else { vec![0u8, 7] } { let mut v = valid.to_vec(); v[i] ^= 1 << bit; out.push(v); }
    }
    let recs = walk(valid);
    for rec in recs.iter().take(if thorough { 64 } else { 6 }) {
        // length prefix overwritten
        if let Some(lp) = rec.len_pos {
            let Some((_, body)) = rd_varint(valid, lp) else { continue };
            let rem = (n - body) as u64;
            let mut attacks = LEN_ATTACKS.to_vec();
            attacks.extend([rem.saturating_sub(1), rem, rem + 1]);
            for a in attacks { let mut v = valid[..lp].to_vec(); put_varint(a, &mut v); v.extend_from_slice(&valid[body..]); out.push(v); }
        }
        // wire type of the key changed (low three bits of the key's first byte)
        for w in 0..8u8 { if w != rec.wt { let mut v = valid.to_vec(); v[rec.key_pos] = (v[rec.key_pos] & !7) | w; out.push(v); } }
    }
    // random garbage spliced in
    for _ in 0..(if thorough { 16 } else { 3 }) {
        let mut v = valid.to_vec();
        let at = r.below(n as u64 + 1) as usize;
        let g: Vec<u8> = (0..r.below(6) + 1).map(|_| r.next() as u8).collect();
        v.splice(at..at, g);
        out.push(v);
    }
    out
}

/// `depth` nested groups of an undeclared field, closed properly (or with a wrong end tag)
pub fn group_ladder(tag: u32, depth: usize, bad_end: bool) -> Vec<u8> {
    let mut v = vec![];
    for _ in 0..depth { put_key(tag, 3, &mut v); }
    for i in 0..depth { put_key(if bad_end && i == 0 { tag + 1 } else { tag }, 4, &mut v); }
    v
}
/// `depth` nested length-delimited fields `tag`, innermost payload `inner`
pub fn len_ladder(tag: u32, depth: usize, inner: &[u8]) -> Vec<u8> {
    let mut cur = inner.to_vec();
    for _ in 0..depth { let mut v = vec![]; put_key(tag, 2, &mut v); put_varint(cur.len() as u64, &mut v); v.extend_from_slice(&cur); cur = v; }
    cur
}
/// map-entry ladder: field `mtag` is `map<int32, Self>`: entry { 1: key, 2: nested }
pub fn map_ladder(mtag: u32, depth: usize) -> Vec<u8> {
    let mut cur: Vec<u8> = vec![];
    for _ in 0..depth {
        let mut entry = vec![]; put_key(1, 0, &mut entry); entry.push(7);
        put_key(2, 2, &mut entry); put_varint(cur.len() as u64, &mut entry); entry.extend_from_slice(&cur);
        let mut v = vec![]; put_key(mtag, 2, &mut v); put_varint(entry.len() as u64, &mut v); v.extend_from_slice(&entry);
        cur = v;
    }
    cur
}

/// wrapper impls (prost/types.rs): encode / encoded_len / decode round trip
pub fn gen_wrappers(r: &mut Rng, thorough: bool, out: &mut Vec<String>) {
    for (k, c) in WRAP_KINDS {
        out.push(format!("pbwrapenc {} {}", k, c.default().sexp()));
        for _ in 0..(if thorough { 300 } else { 15 }) { out.push(format!("pbwrapenc {} {}", k, gen_sv(r, c).sexp())); }
    }
    out.push("pbwrapenc f32 (f32 80000000)".into());
    out.push("pbwrapenc f64 (f64 8000000000000000)".into());
}

pub const DEPTHS: [usize; 12] = [1, 2, 3, 49, 50, 51, 98, 99, 100, 101, 150, 300];

pub fn gen_adversarial(r: &mut Rng, thorough: bool, out: &mut Vec<String>) {
    let n = |q: usize, t: usize| if thorough { t } else { q };
    // ---- runtime level
    // decode_varint: all three paths (the oracle feeds the same bytes through chunked buffers, i.e. the slow path)
    for last in [0u8, 1, 2, 3, 4, 0x7f, 0x80, 0x81] { for pad in [0usize, 1, 2, 5] {
        let mut v = vec![0xffu8; 9]; v.push(last); v.extend(std::iter::repeat(0x21).take(pad)); out.push(format!("pbvardec {}", hex(&v)));
    } }
    for _ in 0..n(300, 6000) { out.push(format!("pbvardec {}", hex(&gen_varint_bytes(r)))); }
    for d in DEPTHS { for bad in [false, true] { let b = group_ladder(9, d, bad); let mut body = b.clone(); let k = { let mut k = vec![]; put_key(9, 3, &mut k); k.len() }; body.drain(..k); out.push(format!("pbskip sgroup 9 {}", hex(&body))); } }
    for wt in WT_NAMES {
        for b in [vec![], vec![0u8], vec![0x80], vec![1, 2, 3], vec![5, 1, 2, 3, 4, 5, 6], vec![0xff; 12], vec![4, 1, 2, 3], vec![0xff, 0xff, 0xff, 0xff, 0x0f, 1], vec![0x0c], vec![0x0b, 0x0c], vec![0x0b, 0x14]] {
            out.push(format!("pbskip {} 1 {}", wt, hex(&b)));
        }
    }
    for _ in 0..n(300, 6000) {
        let b: Vec<u8> = (0..r.below(24)).map(|_| if r.chance(1, 3) { *r.pick(&[0u8, 1, 2, 4, 8, 0x0a, 0x0b, 0x0c, 0x12, 0x80, 0xff]) } else { r.next() as u8 }).collect();
        out.push(format!("pbskip {} {} {}", r.pick(&WT_NAMES), 1 + r.below(3), hex(&b)));
    }
    for c in Codec::ALL {
        for wt in WT_NAMES {
            for _ in 0..n(6, 60) {
                let b = match r.below(4) { 0 => gen_varint_bytes(r), 1 => { let l = r.below(12); let mut v = vec![]; put_varint(l.wrapping_add(r.below(3)).wrapping_sub(1), &mut v); v.extend((0..l).map(|_| r.next() as u8)); v } 2 => (0..r.below(10)).map(|_| r.next() as u8).collect(), _ => { let mut v = vec![]; put_varint(*r.pick(&LEN_ATTACKS), &mut v); v.extend([1u8, 2, 3]); v } };
                out.push(format!("pbscm {} {} {}", c.name(), wt, hex(&b)));
            }
        }
        // strings: every UTF-8 boundary class
        if matches!(c, Codec::Str | Codec::FastStr) {
            for s in [&[0xc0u8, 0x80][..], &[0xc2], &[0xe0, 0x9f, 0xbf], &[0xed, 0xa0, 0x80], &[0xf0, 0x8f, 0xbf, 0xbf], &[0xf4, 0x90, 0x80, 0x80], &[0xf5, 0x80, 0x80, 0x80], &[0xff], &[0x80], &[0xe2, 0x82], &[0xf0, 0x9f, 0x98], &[0x41, 0xc3, 0xa9, 0xe2, 0x82, 0xac, 0xf0, 0x9f, 0x98, 0x80], &[0xef, 0xbf, 0xbe], &[0xed, 0x9f, 0xbf], &[0xee, 0x80, 0x80], &[0xf4, 0x8f, 0xbf, 0xbf]] {
                let mut v = vec![]; put_varint(s.len() as u64, &mut v); v.extend_from_slice(s); out.push(format!("pbscm {} len {}", c.name(), hex(&v)));
            }
        }
        for _ in 0..n(10, 200) {
            // a valid repeated / packed encoding, corrupted
            let k = r.below(5) as usize; let vs: Vec<SV> = (0..k).map(|_| gen_sv(r, c)).collect();
            let mut b = BytesMut::new();
            if c.is_numeric() && r.chance(1, 2) { sc_encode_packed(c, 3, &vs, &mut b); } else { sc_encode_repeated(c, 3, &vs, &mut b); }
            for m in mutations(r, &b, false).into_iter().take(n(6, 40)) { out.push(format!("pbrepm {} {}", c.name(), hex(&m))); }
        }
    }
    // ---- wrappers
    for (k, c) in WRAP_KINDS {
        for _ in 0..n(10, 200) {
            let v = if r.chance(1, 5) { c.default() } else { gen_sv(r, c) };
            out.push(format!("pbwrapenc {} {}", k, v.sexp()));
            let mut b = BytesMut::new(); sc_encode(c, 1, &v, &mut b);
            if r.chance(1, 2) { let mut u = vec![]; put_key(7, 0, &mut u); u.push(1); b.extend_from_slice(&u); }
            out.push(format!("pbwrapdec {} {}", k, hex(&b)));
            for m in mutations(r, &b, false).into_iter().take(n(5, 40)) { out.push(format!("pbwrapdec {} {}", k, hex(&m))); }
            let mut ld = vec![]; put_varint(b.len() as u64, &mut ld); ld.extend_from_slice(&b); ld.extend([9u8, 9]);
            out.push(format!("pbwrapld {} {}", k, hex(&ld)));
        }
        for d in [1usize, 99, 100, 101] { out.push(format!("pbwrapdec {} {}", k, hex(&group_ladder(5, d, false)))); }
    }
    for d in DEPTHS { out.push(format!("pbunit {}", hex(&group_ladder(1, d, false)))); }
    for _ in 0..n(50, 1000) { let b: Vec<u8> = (0..r.below(16)).map(|_| r.next() as u8).collect(); out.push(format!("pbunit {}", hex(&b))); }
    // ---- dynamic messages: a recursive schema for the ladders, then mutations of valid encodings
    let rec_s = "(schema (msg (f 1 (msg 0) opt) (r 2 (msg 0)) (m 3 int32 (msg 0)) (o (4 (msg 0)) (5 int32)) (f 6 int32 opt)))";
    for d in DEPTHS {
        for (tag, inner) in [(1u32, vec![]), (2, vec![]), (4, vec![]), (1, vec![0x30, 0x07]), (1, vec![0x3b, 0x3c])] {
            out.push(format!("pbdec hm {} 0 {}", rec_s, hex(&len_ladder(tag, d, &inner))));
        }
        out.push(format!("pbdec hm {} 0 {}", rec_s, hex(&map_ladder(3, d))));
        out.push(format!("pbdec bt {} 0 {}", rec_s, hex(&group_ladder(77, d, false))));
        out.push(format!("pbdld hm {} 0 {}", rec_s, hex(&{ let l = len_ladder(1, d, &[]); let mut v = vec![]; put_varint(l.len() as u64, &mut v); v.extend(l); v })));
    }
    let mut schemas = fixed_schemas();
    for _ in 0..n(12, 200) { schemas.push(gen_schema(r)); }
    for s in schemas {
        let s = Arc::new(s);
        if s.msgs.is_empty() { continue; }
        for _ in 0..n(3, 12) {
            let i = r.below(s.msgs.len() as u64) as usize;
            let bt = r.chance(1, 2);
            let fl = if bt { "bt" } else { "hm" };
            let m = gen_msg(r, &s, i, bt, 3);
            let mut b = BytesMut::new();
            m.encode_raw(&mut b);
            // group::merge on corrupted group bodies (wrong end tag, missing end, nested)
            { let tag = 1 + r.below(40) as u32; let mut g = b.to_vec(); put_key(if r.chance(1, 4) { tag + 1 } else { tag }, 4, &mut g);
              out.push(format!("pbgrpdec {} {} {} {} {}", fl, s.sexp(), i, tag, hex(&g)));
              for mu in mutations(r, &g, false).into_iter().take(n(6, 60)) { out.push(format!("pbgrpdec {} {} {} {} {}", fl, s.sexp(), i, tag, hex(&mu))); } }
            for mu in mutations(r, &b, thorough).into_iter().take(n(40, 600)) {
                match r.below(6) { 0 => out.push(format!("pbdld {} {} {} {}", fl, s.sexp(), i, hex(&mu))), 1 => out.push(format!("pbmrg {} {} {} {} {}", fl, s.sexp(), i, m_sexp(&m), hex(&mu))), _ => out.push(format!("pbdec {} {} {} {}", fl, s.sexp(), i, hex(&mu))) }
            }
        }
        for _ in 0..n(4, 40) { let b: Vec<u8> = (0..r.below(40)).map(|_| r.next() as u8).collect(); out.push(format!("pbdec hm {} 0 {}", s.sexp(), hex(&b))); }
    }
}
