//! Runtime-level protobuf verbs: they call `pilota::prost::encoding::*` directly.
//!
//!   pbvarenc <u64>                    -> ok <hex> len=<encoded_len_varint>
//!   pbvardec <hex>                    -> ok <u64> rem=<n> | err          (oracle: same through chunked buffers = slow path)
//!   pbkeyenc <tag> <wt>               -> ok <hex> len=<key_len> | panic
//!   pbkeydec <hex>                    -> ok <tag> <wt> rem=<n> | err
//!   pbskip <wt> <tag> <hex>           -> ok rem=<n> | err | depth        (ctx = DecodeContext::default())
//!   pbsc <codec> <tag> <sv>           -> ok <hex> len=<n> | <sv> rem=<n>  (encode, encoded_len, decode_key + merge)
//!   pbscm <codec> <wt> <hex>          -> ok <sv> rem=<n> | err           (merge into Default)
//!   pbrep <codec> <tag> <sv>*         -> ok <hex> len=<n> | <sv>* rem=<n> (encode_repeated / encoded_len_repeated / merge_repeated loop)
//!   pbpk <codec> <tag> <sv>*          -> ok <hex> len=<n> | <sv>* rem=<n> (encode_packed / encoded_len_packed / merge_repeated loop)
//!   pbrepm <codec> <hex>              -> ok <sv>* | err                  (loop { decode_key; merge_repeated } over the whole input)
//!   pblend <hex>                      -> ok <n> | err                    (decode_length_delimiter)
use bytes::{Buf, BufMut, Bytes, BytesMut};
use pilota::prost::encoding::{self as enc, DecodeContext, WireType};
use pilota::prost::DecodeError;

use super::sv::*;
use crate::val::*;
use crate::Oracle;

pub trait Conv: Sized + Default + Clone {
    fn of_sv(v: &SV) -> Option<Self>;
    fn to_sv(&self) -> SV;
}
impl Conv for bool { fn of_sv(v: &SV) -> Option<Self> { if let SV::Bool(b) = v { Some(*b) } else { None } } fn to_sv(&self) -> SV { SV::Bool(*self) } }
impl Conv for i32 { fn of_sv(v: &SV) -> Option<Self> { if let SV::Int(n) = v { i32::try_from(*n).ok() } else { None } } fn to_sv(&self) -> SV { SV::Int(*self as i128) } }
impl Conv for i64 { fn of_sv(v: &SV) -> Option<Self> { if let SV::Int(n) = v { i64::try_from(*n).ok() } else { None } } fn to_sv(&self) -> SV { SV::Int(*self as i128) } }
impl Conv for u32 { fn of_sv(v: &SV) -> Option<Self> { if let SV::Int(n) = v { u32::try_from(*n).ok() } else { None } } fn to_sv(&self) -> SV { SV::Int(*self as i128) } }
impl Conv for u64 { fn of_sv(v: &SV) -> Option<Self> { if let SV::Int(n) = v { u64::try_from(*n).ok() } else { None } } fn to_sv(&self) -> SV { SV::Int(*self as i128) } }
impl Conv for f32 { fn of_sv(v: &SV) -> Option<Self> { if let SV::F32(n) = v { Some(f32::from_bits(*n)) } else { None } } fn to_sv(&self) -> SV { SV::F32(self.to_bits()) } }
impl Conv for f64 { fn of_sv(v: &SV) -> Option<Self> { if let SV::F64(n) = v { Some(f64::from_bits(*n)) } else { None } } fn to_sv(&self) -> SV { SV::F64(self.to_bits()) } }
impl Conv for String { fn of_sv(v: &SV) -> Option<Self> { if let SV::Bs(b) = v { String::from_utf8(b.clone()).ok() } else { None } } fn to_sv(&self) -> SV { SV::Bs(self.as_bytes().to_vec()) } }
impl Conv for pilota::FastStr { fn of_sv(v: &SV) -> Option<Self> { if let SV::Bs(b) = v { pilota::FastStr::new_u8_slice(b).ok() } else { None } } fn to_sv(&self) -> SV { SV::Bs(self.as_bytes().to_vec()) } }
impl Conv for Bytes { fn of_sv(v: &SV) -> Option<Self> { if let SV::Bs(b) = v { Some(Bytes::from(b.clone())) } else { None } } fn to_sv(&self) -> SV { SV::Bs(self.to_vec()) } }

/// run `$body` with `$m` bound to the codec module and `$t` to its Rust value type
#[macro_export]
macro_rules! with_codec {
    ($c:expr, $m:ident, $t:ident, $body:expr) => {
        match $c {
            Codec::Bool => { use pilota::prost::encoding::bool as $m; type $t = bool; $body }
            Codec::Int32 => { use pilota::prost::encoding::int32 as $m; type $t = i32; $body }
            Codec::Int64 => { use pilota::prost::encoding::int64 as $m; type $t = i64; $body }
            Codec::Uint32 => { use pilota::prost::encoding::uint32 as $m; type $t = u32; $body }
            Codec::Uint64 => { use pilota::prost::encoding::uint64 as $m; type $t = u64; $body }
            Codec::Sint32 => { use pilota::prost::encoding::sint32 as $m; type $t = i32; $body }
            Codec::Sint64 => { use pilota::prost::encoding::sint64 as $m; type $t = i64; $body }
            Codec::Float => { use pilota::prost::encoding::float as $m; type $t = f32; $body }
            Codec::Double => { use pilota::prost::encoding::double as $m; type $t = f64; $body }
            Codec::Fixed32 => { use pilota::prost::encoding::fixed32 as $m; type $t = u32; $body }
            Codec::Fixed64 => { use pilota::prost::encoding::fixed64 as $m; type $t = u64; $body }
            Codec::Sfixed32 => { use pilota::prost::encoding::sfixed32 as $m; type $t = i32; $body }
            Codec::Sfixed64 => { use pilota::prost::encoding::sfixed64 as $m; type $t = i64; $body }
            Codec::Str => { use pilota::prost::encoding::string as $m; type $t = String; $body }
            Codec::FastStr => { use pilota::prost::encoding::faststr as $m; type $t = pilota::FastStr; $body }
            Codec::Bytes => { use pilota::prost::encoding::bytes as $m; type $t = bytes::Bytes; $body }
        }
    };
}
#[macro_export]
macro_rules! with_numeric {
    ($c:expr, $m:ident, $t:ident, $body:expr, $else:expr) => {
        match $c {
            Codec::Bool => { use pilota::prost::encoding::bool as $m; type $t = bool; $body }
            Codec::Int32 => { use pilota::prost::encoding::int32 as $m; type $t = i32; $body }
            Codec::Int64 => { use pilota::prost::encoding::int64 as $m; type $t = i64; $body }
            Codec::Uint32 => { use pilota::prost::encoding::uint32 as $m; type $t = u32; $body }
            Codec::Uint64 => { use pilota::prost::encoding::uint64 as $m; type $t = u64; $body }
            Codec::Sint32 => { use pilota::prost::encoding::sint32 as $m; type $t = i32; $body }
            Codec::Sint64 => { use pilota::prost::encoding::sint64 as $m; type $t = i64; $body }
            Codec::Float => { use pilota::prost::encoding::float as $m; type $t = f32; $body }
            Codec::Double => { use pilota::prost::encoding::double as $m; type $t = f64; $body }
            Codec::Fixed32 => { use pilota::prost::encoding::fixed32 as $m; type $t = u32; $body }
            Codec::Fixed64 => { use pilota::prost::encoding::fixed64 as $m; type $t = u64; $body }
            Codec::Sfixed32 => { use pilota::prost::encoding::sfixed32 as $m; type $t = i32; $body }
            Codec::Sfixed64 => { use pilota::prost::encoding::sfixed64 as $m; type $t = i64; $body }
            _ => $else,
        }
    };
}

// ---------------------------------------------------------------- scalar operations on SV
pub fn sc_encode<B: BufMut>(c: Codec, tag: u32, v: &SV, buf: &mut B) -> Option<()> {
    with_codec!(c, m, T, { let x = <T as Conv>::of_sv(v)?; m::encode(tag, &x, buf); Some(()) })
}
pub fn sc_encoded_len(c: Codec, tag: u32, v: &SV) -> Option<usize> {
    with_codec!(c, m, T, { let x = <T as Conv>::of_sv(v)?; Some(m::encoded_len(tag, &x)) })
}
/// `<module>::merge` into `cur` (the existing field value)
pub fn sc_merge<B: Buf>(c: Codec, wt: WireType, cur: &SV, buf: &mut B, ctx: DecodeContext) -> Result<SV, DecodeError> {
    with_codec!(c, m, T, { let mut x = <T as Conv>::of_sv(cur).unwrap_or_default(); m::merge(wt, &mut x, buf, ctx)?; Ok(x.to_sv()) })
}
pub fn sc_encode_repeated<B: BufMut>(c: Codec, tag: u32, vs: &[SV], buf: &mut B) -> Option<()> {
    with_codec!(c, m, T, { let xs: Vec<T> = vs.iter().map(<T as Conv>::of_sv).collect::<Option<_>>()?; m::encode_repeated(tag, &xs, buf); Some(()) })
}
pub fn sc_encoded_len_repeated(c: Codec, tag: u32, vs: &[SV]) -> Option<usize> {
    with_codec!(c, m, T, { let xs: Vec<T> = vs.iter().map(<T as Conv>::of_sv).collect::<Option<_>>()?; Some(m::encoded_len_repeated(tag, &xs)) })
}
pub fn sc_encode_packed<B: BufMut>(c: Codec, tag: u32, vs: &[SV], buf: &mut B) -> Option<()> {
    with_numeric!(c, m, T, { let xs: Vec<T> = vs.iter().map(<T as Conv>::of_sv).collect::<Option<_>>()?; m::encode_packed(tag, &xs, buf); Some(()) }, None)
}
pub fn sc_encoded_len_packed(c: Codec, tag: u32, vs: &[SV]) -> Option<usize> {
    with_numeric!(c, m, T, { let xs: Vec<T> = vs.iter().map(<T as Conv>::of_sv).collect::<Option<_>>()?; Some(m::encoded_len_packed(tag, &xs)) }, None)
}
/// `<module>::merge_repeated` appending to `acc` (the real function only pushes; it is run on a fresh vector and the
/// new elements are appended, so that elements already held are not converted back and forth)
pub fn sc_merge_repeated<B: Buf>(c: Codec, wt: WireType, acc: &mut Vec<SV>, buf: &mut B, ctx: DecodeContext) -> Result<(), DecodeError> {
    with_codec!(c, m, T, {
        let mut xs: Vec<T> = vec![];
        let r = m::merge_repeated(wt, &mut xs, buf, ctx);
        acc.extend(xs.iter().map(|x| x.to_sv()));
        r
    })
}

/// a `Buf` whose chunks are at most `k` bytes: drives `decode_varint` into its slow path
pub struct Chunked<'a> { pub data: &'a [u8], pub pos: usize, pub k: usize }
impl<'a> Buf for Chunked<'a> {
    fn remaining(&self) -> usize { self.data.len() - self.pos }
    fn chunk(&self) -> &[u8] { &self.data[self.pos..(self.pos + self.k).min(self.data.len())] }
    fn advance(&mut self, n: usize) { assert!(n <= self.remaining()); self.pos += n; }
}

fn svs(vs: &[SV]) -> String { if vs.is_empty() { "-".into() } else { vs.iter().map(|v| v.sexp()).collect::<Vec<_>>().join(" ") } }

pub fn exec(verb: &str, items: &[Sexp], o: &mut Oracle) -> Option<String> {
    let a = |i: usize| items.get(i).and_then(|x| x.atom());
    let bad = || Some("bad-request".to_string());
    Some(match verb {
        "pbvarenc" => {
            let Some(n) = a(1).and_then(|s| s.parse::<u64>().ok()) else { return bad() };
            let mut b = BytesMut::new();
            enc::encode_varint(n, &mut b);
            let l = enc::encoded_len_varint(n);
            if l != b.len() { o.fail("C05", format!("encoded_len_varint {} != {} bytes written", l, b.len())); }
            let mut rd = &b[..];
            match enc::decode_varint(&mut rd) { Ok(v) if v == n && rd.is_empty() => {} other => o.fail("C05", format!("varint read back {:?} rem {}", other.map_err(|e| e.to_string()), rd.len())) }
            format!("ok {} len={}", hex(&b), l)
        }
        "pbvardec" => {
            let Some(input) = a(1).and_then(unhex) else { return bad() };
            let mut rd = &input[..];
            let main = enc::decode_varint(&mut rd).map(|v| (v, rd.len())).map_err(|_| ());
            for k in [1usize, 2, 3, 5, 9, 10, 11, 12, 64] {
                let mut cb = Chunked { data: &input, pos: 0, k };
                let alt = enc::decode_varint(&mut cb).map(|v| (v, cb.remaining())).map_err(|_| ());
                if alt != main { o.fail("C05,C10", format!("decode_varint through {}-byte chunks gives {:?}, contiguous {:?}", k, alt, main)); }
            }
            // Bytes (the buffer type generated code is handed)
            let mut bb = Bytes::from(input.clone());
            let viab = enc::decode_varint(&mut bb).map(|v| (v, bb.remaining())).map_err(|_| ());
            if viab != main { o.fail("C10", format!("decode_varint on Bytes {:?} vs slice {:?}", viab, main)); }
            match main { Ok((v, rem)) => format!("ok {} rem={}", v, rem), Err(_) => "err".into() }
        }
        "pbkeyenc" => {
            let (Some(tag), Some(wt)) = (a(1).and_then(|s| s.parse::<u32>().ok()), a(2).and_then(wt_of_name)) else { return bad() };
            let mut b = BytesMut::new();
            enc::encode_key(tag, wt, &mut b);
            let l = enc::key_len(tag);
            if l != b.len() { o.fail("C05", format!("key_len {} != {} bytes", l, b.len())); }
            let mut rd = &b[..];
            match enc::decode_key(&mut rd) { Ok((t, w)) if t == tag && w == wt && rd.is_empty() => {} other => o.fail("C05", format!("key read back {:?}", other.map_err(|e| e.to_string()))) }
            format!("ok {} len={}", hex(&b), l)
        }
        "pbkeydec" => {
            let Some(input) = a(1).and_then(unhex) else { return bad() };
            let mut rd = &input[..];
            match enc::decode_key(&mut rd) { Ok((t, w)) => format!("ok {} {} rem={}", t, wt_name(w), rd.len()), Err(e) => err_class(&e).into() }
        }
        "pbskip" => {
            let (Some(wt), Some(tag), Some(input)) = (a(1).and_then(wt_of_name), a(2).and_then(|s| s.parse::<u32>().ok()), a(3).and_then(unhex)) else { return bad() };
            let mut rd = Bytes::from(input);
            match enc::skip_field(wt, tag, &mut rd, DecodeContext::default()) { Ok(()) => format!("ok rem={}", rd.remaining()), Err(e) => err_class(&e).into() }
        }
        "pbsc" => {
            let (Some(c), Some(tag), Some(v)) = (a(1).and_then(Codec::of_name), a(2).and_then(|s| s.parse::<u32>().ok()), items.get(3).and_then(SV::of_sexp)) else { return bad() };
            let mut b = BytesMut::new();
            if sc_encode(c, tag, &v, &mut b).is_none() { return bad() }
            let l = sc_encoded_len(c, tag, &v).unwrap();
            if l != b.len() { o.fail("C05", format!("encoded_len {} != {} bytes written", l, b.len())); }
            let mut rd = b.clone().freeze();
            let back = enc::decode_key(&mut rd).and_then(|(t, w)| { if t != tag { o.fail("C05", format!("tag read back {}", t)); } sc_merge(c, w, &c.default(), &mut rd, DecodeContext::default()) });
            match back {
                Ok(v2) => { if v2 != v || rd.has_remaining() { o.fail("C05", format!("read back {} rem {}", v2.sexp(), rd.remaining())); } format!("ok {} len={} | {} rem={}", hex(&b), l, v2.sexp(), rd.remaining()) }
                Err(e) => { o.fail("C05", format!("read back failed: {}", e)); format!("ok {} len={} | {}", hex(&b), l, err_class(&e)) }
            }
        }
        "pbscm" => {
            let (Some(c), Some(wt), Some(input)) = (a(1).and_then(Codec::of_name), a(2).and_then(wt_of_name), a(3).and_then(unhex)) else { return bad() };
            let mut rd = Bytes::from(input);
            match sc_merge(c, wt, &c.default(), &mut rd, DecodeContext::default()) {
                Ok(v) => {
                    if matches!(c, Codec::FastStr | Codec::Str) { if let SV::Bs(b) = &v { if std::str::from_utf8(b).is_err() { o.fail("NOTE-utf8", format!("{}::merge returned a string that is not UTF-8: {}", c.name(), hex(b))); } } }
                    format!("ok {} rem={}", v.sexp(), rd.remaining())
                }
                Err(e) => err_class(&e).into(),
            }
        }
        "pbrep" | "pbpk" => {
            let (Some(c), Some(tag)) = (a(1).and_then(Codec::of_name), a(2).and_then(|s| s.parse::<u32>().ok())) else { return bad() };
            let Some(vs) = items[3..].iter().map(SV::of_sexp).collect::<Option<Vec<_>>>() else { return bad() };
            let mut b = BytesMut::new();
            let (e, l) = if verb == "pbrep" { (sc_encode_repeated(c, tag, &vs, &mut b), sc_encoded_len_repeated(c, tag, &vs)) } else { (sc_encode_packed(c, tag, &vs, &mut b), sc_encoded_len_packed(c, tag, &vs)) };
            let (Some(()), Some(l)) = (e, l) else { return bad() };
            if l != b.len() { o.fail("C05", format!("{} encoded_len {} != {} bytes written", verb, l, b.len())); }
            let mut rd = b.clone().freeze();
            let mut acc = vec![];
            let mut res = Ok(());
            while rd.has_remaining() && res.is_ok() {
                res = enc::decode_key(&mut rd).and_then(|(t, w)| { if t != tag { o.fail("C05", format!("tag read back {}", t)); } sc_merge_repeated(c, w, &mut acc, &mut rd, DecodeContext::default()) });
            }
            match res {
                Ok(()) => { if acc != vs { o.fail("C05", format!("{} read back {}", verb, svs(&acc))); } format!("ok {} len={} | {} rem={}", hex(&b), l, svs(&acc), rd.remaining()) }
                Err(e) => { o.fail("C05", format!("{} read back failed: {}", verb, e)); format!("ok {} len={} | {}", hex(&b), l, err_class(&e)) }
            }
        }
        "pbrepm" => {
            let (Some(c), Some(input)) = (a(1).and_then(Codec::of_name), a(2).and_then(unhex)) else { return bad() };
            let mut rd = Bytes::from(input);
            let mut acc = vec![];
            while rd.has_remaining() {
                if let Err(e) = enc::decode_key(&mut rd).and_then(|(_, w)| sc_merge_repeated(c, w, &mut acc, &mut rd, DecodeContext::default())) { return Some(err_class(&e).into()); }
            }
            format!("ok {}", svs(&acc))
        }
        "pblend" => {
            let Some(input) = a(1).and_then(unhex) else { return bad() };
            match pilota::prost::decode_length_delimiter(&input[..]) { Ok(n) => format!("ok {}", n), Err(_) => "err".into() }
        }
        _ => return None,
    })
}

// ---------------------------------------------------------------- request generators
pub fn put_varint(mut v: u64, out: &mut Vec<u8>) { loop { if v < 0x80 { out.push(v as u8); break; } out.push((v as u8 & 0x7f) | 0x80); v >>= 7; } }
pub fn put_key(tag: u32, wt: u8, out: &mut Vec<u8>) { put_varint(((tag as u64) << 3) | wt as u64, out); }

/// random bytes that look like varints: continuation bits biased on
pub fn gen_varint_bytes(r: &mut Rng) -> Vec<u8> {
    let n = match r.below(8) { 0 => 0, 1 => 1, 2 => 9, 3 => 10, 4 => 11, 5 => 12, _ => r.below(14) } as usize;
    let mode = r.below(4);
    (0..n).map(|i| {
        let b = r.next() as u8;
        match mode { 0 => b | 0x80, 1 => if i + 1 == n { b & 0x7f } else { b | 0x80 }, 2 => if r.chance(1, 6) { b & 0x7f } else { b | 0x80 }, _ => b }
    }).collect()
}

pub fn gen_scalar_level(r: &mut Rng, thorough: bool, out: &mut Vec<String>) {
    let n = |q: usize, t: usize| if thorough { t } else { q };
    // varints: boundary values, then random
    for v in U64_EDGES { out.push(format!("pbvarenc {}", v)); }
    for k in 0..64u32 { for d in [0u64, 1] { out.push(format!("pbvarenc {}", (1u64 << k).wrapping_sub(d))); } }
    for _ in 0..n(200, 4000) { out.push(format!("pbvarenc {}", gen_u64(r))); }
    // varint decoding of arbitrary bytes, all three paths
    let fixed: [&[u8]; 12] = [&[], &[0], &[0x7f], &[0x80], &[0x80, 0x01, 0x80], &[0xff; 9], &[0xff; 10], &[0xff; 11],
        &[0xff, 0xff, 0xff, 0xff, 0xff, 0xff, 0xff, 0xff, 0xff, 0x01], &[0xff, 0xff, 0xff, 0xff, 0xff, 0xff, 0xff, 0xff, 0xff, 0x02],
        &[0x80, 0x80, 0x80, 0x80, 0x80, 0x80, 0x80, 0x80, 0x80, 0x00, 0x55], &[0x80, 0x80, 0x80, 0x80, 0x80, 0x80, 0x80, 0x80, 0x80, 0x80, 0x01]];
    for f in fixed { out.push(format!("pbvardec {}", hex(f))); }
    for last in [0u8, 1, 2, 3, 0x7f, 0x80, 0x81] { for pad in [0usize, 1, 2] {
        let mut v = vec![0x80u8; 9]; v.push(last); v.extend(std::iter::repeat(0x33).take(pad)); out.push(format!("pbvardec {}", hex(&v)));
    } }
    for _ in 0..n(400, 8000) { out.push(format!("pbvardec {}", hex(&gen_varint_bytes(r)))); }
    // keys
    for t in TAG_EDGES { for w in WT_NAMES { out.push(format!("pbkeyenc {} {}", t, w)); } }
    for _ in 0..n(100, 2000) { out.push(format!("pbkeyenc {} {}", gen_tag(r), r.pick(&WT_NAMES))); }
    for key in [0u64, 1, 7, 8, 9, 13, 14, 15, 16, (1 << 32) - 1, 1 << 32, (1 << 32) + 8, u64::MAX] { let mut b = vec![]; put_varint(key, &mut b); b.push(0x11); out.push(format!("pbkeydec {}", hex(&b))); }
    for _ in 0..n(200, 4000) { out.push(format!("pbkeydec {}", hex(&gen_varint_bytes(r)))); }
    // every codec x boundary tags x values
    for c in Codec::ALL {
        for t in [1u32, 15, 16, 2047, 2048, (1 << 29) - 1] { out.push(format!("pbsc {} {} {}", c.name(), t, c.default().sexp())); }
        for _ in 0..n(60, 1500) { out.push(format!("pbsc {} {} {}", c.name(), gen_tag(r), gen_sv(r, c).sexp())); }
        for k in [0usize, 1, 2, 3, 127, 128] {
            let vs: Vec<String> = (0..k).map(|_| gen_sv(r, c).sexp()).collect();
            out.push(format!("pbrep {} {} {}", c.name(), gen_tag(r), vs.join(" ")));
            if c.is_numeric() { out.push(format!("pbpk {} {} {}", c.name(), gen_tag(r), vs.join(" "))); }
        }
        for _ in 0..n(20, 500) {
            let k = r.below(6) as usize;
            let vs: Vec<String> = (0..k).map(|_| gen_sv(r, c).sexp()).collect();
            out.push(format!("pbrep {} {} {}", c.name(), gen_tag(r), vs.join(" ")));
            if c.is_numeric() { out.push(format!("pbpk {} {} {}", c.name(), gen_tag(r), vs.join(" "))); }
        }
    }
    for c in [Codec::Int32, Codec::Int64, Codec::Uint32, Codec::Sint32, Codec::Sint64, Codec::Bool] {
        // varints that do not fit the target type: truncation on decode
        for v in [u64::MAX, 1 << 32, (1 << 32) + 5, 1 << 31, (1 << 63) + 1, 2, 3] { let mut b = vec![]; put_varint(v, &mut b); out.push(format!("pbscm {} varint {}", c.name(), hex(&b))); }
    }
}
