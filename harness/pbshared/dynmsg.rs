//! A schema-driven dynamic message implementing `pilota::prost::Message` by calling the same
//! runtime functions the code emitted by pilota-build calls (codegen/protobuf/mod.rs), so that
//! message-level requests can be run for arbitrary schemas without compiling generated code.
use std::cell::RefCell;
use std::collections::BTreeMap;
use std::sync::Arc;

use bytes::{Buf, BufMut};
use pilota::prost::encoding::{self as enc, DecodeContext, WireType};
use pilota::prost::{DecodeError, Message};
use pilota::AHashMap;

use super::rtverbs::*;
use super::sv::*;
use crate::val::*;

#[derive(Clone, Debug, PartialEq)]
pub enum FTy { Scalar(Codec), Msg(usize) }
#[derive(Clone, Debug, PartialEq)]
pub enum Decl { Single { tag: u32, ty: FTy, opt: bool }, Rep { tag: u32, ty: FTy }, Map { tag: u32, k: Codec, v: FTy }, Oneof(Vec<(u32, FTy)>) }
#[derive(Clone, Debug, PartialEq)]
pub struct Schema { pub msgs: Vec<Vec<Decl>> }

impl FTy {
    pub fn sexp(&self) -> String { match self { FTy::Scalar(c) => c.name().into(), FTy::Msg(i) => format!("(msg {})", i) } }
    pub fn of_sexp(x: &Sexp) -> Option<FTy> {
        if let Some(a) = x.atom() { return Some(FTy::Scalar(Codec::of_name(a)?)); }
        let l = x.list()?;
        if l.first()?.atom()? != "msg" { return None; }
        Some(FTy::Msg(l.get(1)?.atom()?.parse().ok()?))
    }
}
impl Decl {
    pub fn tags(&self) -> Vec<u32> {
        match self { Decl::Single { tag, .. } | Decl::Rep { tag, .. } | Decl::Map { tag, .. } => vec![*tag], Decl::Oneof(vs) => vs.iter().map(|v| v.0).collect() }
    }
    pub fn sexp(&self) -> String {
        match self {
            Decl::Single { tag, ty, opt } => format!("(f {} {} {})", tag, ty.sexp(), if *opt { "opt" } else { "req" }),
            Decl::Rep { tag, ty } => format!("(r {} {})", tag, ty.sexp()),
            Decl::Map { tag, k, v } => format!("(m {} {} {})", tag, k.name(), v.sexp()),
            Decl::Oneof(vs) => format!("(o{})", vs.iter().map(|(t, ty)| format!(" ({} {})", t, ty.sexp())).collect::<String>()),
        }
    }
    pub fn of_sexp(x: &Sexp) -> Option<Decl> {
        let l = x.list()?;
        let num = |i: usize| l.get(i)?.atom()?.parse::<u32>().ok();
        Some(match l.first()?.atom()? {
            "f" => Decl::Single { tag: num(1)?, ty: FTy::of_sexp(l.get(2)?)?, opt: match l.get(3)?.atom()? { "opt" => true, "req" => false, _ => return None } },
            "r" => Decl::Rep { tag: num(1)?, ty: FTy::of_sexp(l.get(2)?)? },
            "m" => Decl::Map { tag: num(1)?, k: Codec::of_name(l.get(2)?.atom()?)?, v: FTy::of_sexp(l.get(3)?)? },
            "o" => Decl::Oneof(l[1..].iter().map(|v| { let v = v.list()?; Some((v.first()?.atom()?.parse().ok()?, FTy::of_sexp(v.get(1)?)?)) }).collect::<Option<_>>()?),
            _ => return None,
        })
    }
}
impl Schema {
    pub fn sexp(&self) -> String {
        format!("(schema{})", self.msgs.iter().map(|m| format!(" (msg{})", m.iter().map(|d| format!(" {}", d.sexp())).collect::<String>())).collect::<String>())
    }
    pub fn of_sexp(x: &Sexp) -> Option<Schema> {
        let l = x.list()?;
        if l.first()?.atom()? != "schema" { return None; }
        let mut msgs = vec![];
        for m in &l[1..] { let m = m.list()?; if m.first()?.atom()? != "msg" { return None; } msgs.push(m[1..].iter().map(Decl::of_sexp).collect::<Option<Vec<_>>>()?); }
        Some(Schema { msgs })
    }
    pub fn decls(&self, i: usize) -> &[Decl] { self.msgs.get(i).map(|v| &v[..]).unwrap_or(&[]) }
}

// ---------------------------------------------------------------- values
#[derive(Clone, Debug)]
pub enum EVal { S(SV), Msg(DynMsg) }
#[derive(Clone, Debug, PartialEq, Eq, Hash, PartialOrd, Ord)]
pub struct DK(pub SV);
#[derive(Clone, Debug)]
pub enum MapS { H(AHashMap<DK, EVal>), B(BTreeMap<DK, EVal>) }
#[derive(Clone, Debug)]
pub enum Slot { Req(EVal), None, Some(EVal), Rep(Vec<EVal>), Map(MapS), One(u32, EVal) }
#[derive(Clone, Debug)]
pub struct DynMsg { pub schema: Arc<Schema>, pub idx: usize, pub bt: bool, pub slots: Vec<Slot> }

thread_local! {
    static KDEF: RefCell<SV> = RefCell::new(SV::Int(0));
    static MDEF: RefCell<Option<DynMsg>> = RefCell::new(None);
}
impl Default for DK { fn default() -> Self { DK(KDEF.with(|k| k.borrow().clone())) } }
impl Default for DynMsg { fn default() -> Self { MDEF.with(|m| m.borrow().clone()).expect("message default not set") } }
fn kdef_get() -> SV { KDEF.with(|k| k.borrow().clone()) }
fn kdef_set(v: SV) { KDEF.with(|k| *k.borrow_mut() = v) }

/// Rust's derived `PartialEq` on the emitted types: IEEE `==` on floats
fn sv_eq(a: &SV, b: &SV) -> bool {
    match (a, b) {
        (SV::F32(x), SV::F32(y)) => f32::from_bits(*x) == f32::from_bits(*y),
        (SV::F64(x), SV::F64(y)) => f64::from_bits(*x) == f64::from_bits(*y),
        _ => a == b,
    }
}
impl PartialEq for EVal {
    fn eq(&self, o: &EVal) -> bool {
        match (self, o) { (EVal::S(a), EVal::S(b)) => sv_eq(a, b), (EVal::Msg(a), EVal::Msg(b)) => a.slots.len() == b.slots.len() && a.slots.iter().zip(&b.slots).all(|(x, y)| x == y), _ => false }
    }
}
impl MapS {
    pub fn len(&self) -> usize { match self { MapS::H(m) => m.len(), MapS::B(m) => m.len() } }
    pub fn get(&self, k: &DK) -> Option<&EVal> { match self { MapS::H(m) => m.get(k), MapS::B(m) => m.get(k) } }
    pub fn insert(&mut self, k: DK, v: EVal) { match self { MapS::H(m) => { m.insert(k, v); } MapS::B(m) => { m.insert(k, v); } } }
    pub fn sorted(&self) -> Vec<(&DK, &EVal)> { let mut v: Vec<_> = match self { MapS::H(m) => m.iter().collect(), MapS::B(m) => m.iter().collect() }; v.sort_by(|a, b| a.0.cmp(b.0)); v }
    pub fn new(bt: bool) -> MapS { if bt { MapS::B(BTreeMap::new()) } else { MapS::H(AHashMap::new()) } }
}
impl PartialEq for Slot {
    fn eq(&self, o: &Slot) -> bool {
        match (self, o) {
            (Slot::Req(a), Slot::Req(b)) | (Slot::Some(a), Slot::Some(b)) => a == b,
            (Slot::None, Slot::None) => true,
            (Slot::Rep(a), Slot::Rep(b)) => a == b,
            (Slot::Map(a), Slot::Map(b)) => a.len() == b.len() && a.sorted().iter().all(|(k, v)| b.get(k).map_or(false, |w| *v == w)),
            (Slot::One(t, a), Slot::One(u, b)) => t == u && a == b,
            _ => false,
        }
    }
}

pub fn default_e(s: &Arc<Schema>, ty: &FTy, bt: bool) -> EVal {
    match ty { FTy::Scalar(c) => EVal::S(c.default()), FTy::Msg(i) => EVal::Msg(DynMsg::new(s, *i, bt)) }
}
impl DynMsg {
    pub fn new(s: &Arc<Schema>, idx: usize, bt: bool) -> DynMsg {
        let slots = s.decls(idx).iter().map(|d| match d {
            Decl::Single { ty, opt: false, .. } => Slot::Req(default_e(s, ty, bt)),
            Decl::Single { .. } | Decl::Oneof(_) => Slot::None,
            Decl::Rep { .. } => Slot::Rep(vec![]),
            Decl::Map { .. } => Slot::Map(MapS::new(bt)),
        }).collect();
        DynMsg { schema: s.clone(), idx, bt, slots }
    }
}

// ---- bit-exact comparison (what the round-trip oracles use): floats by bit pattern
pub fn e_same(a: &EVal, b: &EVal) -> bool {
    match (a, b) { (EVal::S(x), EVal::S(y)) => x == y, (EVal::Msg(x), EVal::Msg(y)) => m_same(x, y), _ => false }
}
pub fn m_same(a: &DynMsg, b: &DynMsg) -> bool { a.slots.len() == b.slots.len() && a.slots.iter().zip(&b.slots).all(|(x, y)| s_same(x, y)) }
pub fn s_same(a: &Slot, b: &Slot) -> bool {
    match (a, b) {
        (Slot::Req(x), Slot::Req(y)) | (Slot::Some(x), Slot::Some(y)) => e_same(x, y),
        (Slot::None, Slot::None) => true,
        (Slot::Rep(x), Slot::Rep(y)) => x.len() == y.len() && x.iter().zip(y).all(|(p, q)| e_same(p, q)),
        (Slot::Map(x), Slot::Map(y)) => x.len() == y.len() && x.sorted().iter().all(|(k, v)| y.get(k).map_or(false, |w| e_same(v, w))),
        (Slot::One(t, x), Slot::One(u, y)) => t == u && e_same(x, y),
        _ => false,
    }
}

/// `x` with every map value that is `==` its default (IEEE: a zero of either sign, or a message all of whose fields are)
/// replaced by the default itself — what the map codec's default skipping preserves when the feature is off
pub fn norm_negzero(m: &DynMsg) -> DynMsg {
    fn e(s: &Arc<Schema>, v: &EVal) -> EVal { match v { EVal::S(x) => EVal::S(x.clone()), EVal::Msg(m) => EVal::Msg(norm_negzero(m)) } }
    let s = m.schema.clone();
    let mut out = m.clone();
    for (d, slot) in s.decls(m.idx).iter().zip(out.slots.iter_mut()) {
        *slot = match (d, &*slot) {
            (_, Slot::Req(v)) => Slot::Req(e(&s, v)),
            (_, Slot::Some(v)) => Slot::Some(e(&s, v)),
            (_, Slot::One(t, v)) => Slot::One(*t, e(&s, v)),
            (_, Slot::Rep(xs)) => Slot::Rep(xs.iter().map(|x| e(&s, x)).collect()),
            (Decl::Map { v: vty, .. }, Slot::Map(mm)) => {
                let mut nm = MapS::new(m.bt);
                let dflt = default_e(&s, vty, m.bt);
                for (k, v) in mm.sorted() { let v2 = e(&s, v); nm.insert(k.clone(), if v2 == dflt { dflt.clone() } else { v2 }); }
                Slot::Map(nm)
            }
            (_, other) => other.clone(),
        };
    }
    out
}

/// the merge SPECIFICATION (independent of any decoder): last wins, append, insert-replace, oneof replace
/// (same message member merges), messages field-wise
pub fn merge_spec(a: &DynMsg, b: &DynMsg) -> DynMsg {
    fn e(s: &Arc<Schema>, ty: &FTy, bt: bool, x: Option<&EVal>, y: &EVal) -> EVal {
        match (ty, y) {
            (FTy::Msg(_), EVal::Msg(ym)) => match x { Some(EVal::Msg(xm)) => EVal::Msg(merge_spec(xm, ym)), _ => { let d = default_e(s, ty, bt); if let EVal::Msg(dm) = &d { EVal::Msg(merge_spec(dm, ym)) } else { y.clone() } } },
            _ => y.clone(),
        }
    }
    let s = a.schema.clone();
    let mut out = a.clone();
    for ((d, x), y) in s.decls(a.idx).iter().zip(out.slots.iter_mut()).zip(&b.slots) {
        let nx = match (d, &*x, y) {
            (Decl::Single { ty, .. }, Slot::Req(xv), Slot::Req(yv)) => Slot::Req(e(&s, ty, a.bt, Some(xv), yv)),
            (Decl::Single { ty, .. }, xs, Slot::Some(yv)) => Slot::Some(e(&s, ty, a.bt, if let Slot::Some(xv) = xs { Some(xv) } else { None }, yv)),
            (Decl::Rep { .. }, Slot::Rep(xs), Slot::Rep(ys)) => { let mut v = xs.clone(); v.extend(ys.iter().cloned()); Slot::Rep(v) }
            (Decl::Map { .. }, Slot::Map(xm), Slot::Map(ym)) => { let mut m = xm.clone(); for (k, v) in ym.sorted() { m.insert(k.clone(), v.clone()); } Slot::Map(m) }
            (Decl::Oneof(vs), xs, Slot::One(t, yv)) => {
                let ty = &vs.iter().find(|v| v.0 == *t).expect("variant").1;
                Slot::One(*t, e(&s, ty, a.bt, match xs { Slot::One(u, xv) if u == t => Some(xv), _ => None }, yv))
            }
            (_, xs, _) => xs.clone(),
        };
        *x = nx;
    }
    out
}

// ---------------------------------------------------------------- sexp form of values (maps sorted by key)
pub fn e_sexp(v: &EVal) -> String { match v { EVal::S(x) => x.sexp(), EVal::Msg(m) => m_sexp(m) } }
pub fn m_sexp(m: &DynMsg) -> String { format!("(msg{})", m.slots.iter().map(|s| format!(" {}", s_sexp(s))).collect::<String>()) }
pub fn s_sexp(s: &Slot) -> String {
    match s {
        Slot::Req(v) => format!("(req {})", e_sexp(v)),
        Slot::None => "none".into(),
        Slot::Some(v) => format!("(some {})", e_sexp(v)),
        Slot::Rep(xs) => format!("(rep{})", xs.iter().map(|x| format!(" {}", e_sexp(x))).collect::<String>()),
        Slot::Map(m) => format!("(map{})", m.sorted().iter().map(|(k, v)| format!(" ({} {})", k.0.sexp(), e_sexp(v))).collect::<String>()),
        Slot::One(t, v) => format!("(one {} {})", t, e_sexp(v)),
    }
}
pub fn e_of_sexp(s: &Arc<Schema>, ty: &FTy, bt: bool, x: &Sexp) -> Option<EVal> {
    match ty {
        FTy::Scalar(c) => { let v = SV::of_sexp(x)?; if c.holds(&v) { Some(EVal::S(v)) } else { None } }
        FTy::Msg(i) => Some(EVal::Msg(m_of_sexp(s, *i, bt, x)?)),
    }
}
pub fn m_of_sexp(s: &Arc<Schema>, idx: usize, bt: bool, x: &Sexp) -> Option<DynMsg> {
    let l = x.list()?;
    if l.first()?.atom()? != "msg" { return None; }
    let ds = s.decls(idx);
    if l.len() - 1 != ds.len() { return None; }
    let mut slots = vec![];
    for (d, x) in ds.iter().zip(&l[1..]) { slots.push(s_of_sexp(s, d, bt, x)?); }
    Some(DynMsg { schema: s.clone(), idx, bt, slots })
}
pub fn s_of_sexp(s: &Arc<Schema>, d: &Decl, bt: bool, x: &Sexp) -> Option<Slot> {
    if x.atom() == Some("none") { return match d { Decl::Single { opt: true, .. } | Decl::Oneof(_) => Some(Slot::None), _ => None }; }
    let l = x.list()?;
    let head = l.first()?.atom()?;
    Some(match (d, head) {
        (Decl::Single { ty, opt: false, .. }, "req") => Slot::Req(e_of_sexp(s, ty, bt, l.get(1)?)?),
        (Decl::Single { ty, opt: true, .. }, "some") => Slot::Some(e_of_sexp(s, ty, bt, l.get(1)?)?),
        (Decl::Rep { ty, .. }, "rep") => Slot::Rep(l[1..].iter().map(|x| e_of_sexp(s, ty, bt, x)).collect::<Option<_>>()?),
        (Decl::Map { k, v, .. }, "map") => {
            let mut m = MapS::new(bt);
            for e in &l[1..] { let e = e.list()?; let key = SV::of_sexp(e.first()?)?; if !k.holds(&key) { return None; } m.insert(DK(key), e_of_sexp(s, v, bt, e.get(1)?)?); }
            if m.len() != l.len() - 1 { return None; }           // duplicate keys are not a map value
            Slot::Map(m)
        }
        (Decl::Oneof(vs), "one") => { let t: u32 = l.get(1)?.atom()?.parse().ok()?; let ty = &vs.iter().find(|v| v.0 == t)?.1; Slot::One(t, e_of_sexp(s, ty, bt, l.get(2)?)?) }
        _ => return None,
    })
}
/// does some map (at any depth) hold two or more entries (hash iteration order then shows in the bytes)
pub fn multi_entry(m: &DynMsg) -> bool {
    fn e(v: &EVal) -> bool { if let EVal::Msg(m) = v { multi_entry(m) } else { false } }
    m.slots.iter().any(|s| match s {
        Slot::Req(v) | Slot::Some(v) | Slot::One(_, v) => e(v),
        Slot::Rep(xs) => xs.iter().any(e),
        Slot::Map(mm) => mm.len() >= 2 || mm.sorted().iter().any(|(_, v)| e(v)),
        Slot::None => false,
    })
}

// ---------------------------------------------------------------- the Message impl
fn enc_e<B: BufMut>(ty: &FTy, tag: u32, v: &EVal, buf: &mut B) {
    match (ty, v) {
        (FTy::Scalar(c), EVal::S(x)) => { sc_encode(*c, tag, x, buf).expect("typed value"); }
        (FTy::Msg(_), EVal::Msg(m)) => enc::message::encode(tag, m, buf),
        _ => panic!("harness: value does not match its declared type"),
    }
}
fn len_e(ty: &FTy, tag: u32, v: &EVal) -> usize {
    match (ty, v) {
        (FTy::Scalar(c), EVal::S(x)) => sc_encoded_len(*c, tag, x).expect("typed value"),
        (FTy::Msg(_), EVal::Msg(m)) => enc::message::encoded_len(tag, m),
        _ => panic!("harness: value does not match its declared type"),
    }
}
fn merge_e<B: Buf>(ty: &FTy, wt: WireType, cur: &mut EVal, buf: &mut B, ctx: DecodeContext) -> Result<(), DecodeError> {
    match (ty, cur) {
        (FTy::Scalar(c), EVal::S(x)) => { *x = sc_merge(*c, wt, x, buf, ctx)?; Ok(()) }
        (FTy::Msg(_), EVal::Msg(m)) => enc::message::merge(wt, m, buf, ctx),
        _ => panic!("harness: value does not match its declared type"),
    }
}

impl Message for DynMsg {
    fn encoded_len(&self) -> usize {
        let s = self.schema.clone();
        let mut n = 0;
        for (d, slot) in s.decls(self.idx).iter().zip(&self.slots) {
            n += match (d, slot) {
                (Decl::Single { tag, ty, opt: false }, Slot::Req(v)) => len_e(ty, *tag, v),
                (Decl::Single { tag, ty, opt: true }, Slot::Some(v)) => len_e(ty, *tag, v),
                (Decl::Single { opt: true, .. }, Slot::None) | (Decl::Oneof(_), Slot::None) => 0,
                (Decl::Rep { tag, ty }, Slot::Rep(xs)) => match ty {
                    FTy::Scalar(c) => { let vs: Vec<SV> = xs.iter().map(|x| if let EVal::S(v) = x { v.clone() } else { panic!("harness: typed") }).collect(); sc_encoded_len_repeated(*c, *tag, &vs).expect("typed") }
                    FTy::Msg(_) => { let ms: Vec<DynMsg> = xs.iter().map(|x| if let EVal::Msg(m) = x { m.clone() } else { panic!("harness: typed") }).collect(); enc::message::encoded_len_repeated(*tag, &ms) }
                },
                (Decl::Map { tag, k, v }, Slot::Map(m)) => {
                    kdef_set(k.default());
                    let vdef = default_e(&s, v, self.bt);
                    let kl = |t: u32, key: &DK| sc_encoded_len(*k, t, &key.0).expect("typed key");
                    let vl = |t: u32, val: &EVal| { let saved = kdef_get(); let r = len_e(v, t, val); kdef_set(saved); r };
                    match m { MapS::H(m) => enc::hash_map::encoded_len_with_default(kl, vl, &vdef, *tag, m), MapS::B(m) => enc::btree_map::encoded_len_with_default(kl, vl, &vdef, *tag, m) }
                }
                (Decl::Oneof(vs), Slot::One(t, v)) => len_e(&vs.iter().find(|x| x.0 == *t).expect("variant").1, *t, v),
                _ => panic!("harness: slot does not match its declaration"),
            };
        }
        n
    }
    fn encode_raw<B: BufMut>(&self, buf: &mut B) {
        let s = self.schema.clone();
        for (d, slot) in s.decls(self.idx).iter().zip(&self.slots) {
            match (d, slot) {
                (Decl::Single { tag, ty, opt: false }, Slot::Req(v)) => enc_e(ty, *tag, v, buf),
                (Decl::Single { tag, ty, opt: true }, Slot::Some(v)) => enc_e(ty, *tag, v, buf),
                (Decl::Single { opt: true, .. }, Slot::None) | (Decl::Oneof(_), Slot::None) => {}
                (Decl::Rep { tag, ty }, Slot::Rep(xs)) => match ty {
                    FTy::Scalar(c) => { let vs: Vec<SV> = xs.iter().map(|x| if let EVal::S(v) = x { v.clone() } else { panic!("harness: typed") }).collect(); sc_encode_repeated(*c, *tag, &vs, buf).expect("typed"); }
                    FTy::Msg(_) => { for x in xs { if let EVal::Msg(m) = x { enc::message::encode(*tag, m, buf); } else { panic!("harness: typed") } } }
                },
                (Decl::Map { tag, k, v }, Slot::Map(m)) => {
                    kdef_set(k.default());
                    let vdef = default_e(&s, v, self.bt);
                    let ke = |t: u32, key: &DK, buf: &mut B| { sc_encode(*k, t, &key.0, buf).expect("typed key"); };
                    let kl = |t: u32, key: &DK| sc_encoded_len(*k, t, &key.0).expect("typed key");
                    let ve = |t: u32, val: &EVal, buf: &mut B| { let saved = kdef_get(); enc_e(v, t, val, buf); kdef_set(saved); };
                    let vl = |t: u32, val: &EVal| { let saved = kdef_get(); let r = len_e(v, t, val); kdef_set(saved); r };
                    match m { MapS::H(m) => enc::hash_map::encode_with_default(ke, kl, ve, vl, &vdef, *tag, m, buf), MapS::B(m) => enc::btree_map::encode_with_default(ke, kl, ve, vl, &vdef, *tag, m, buf) }
                }
                (Decl::Oneof(vs), Slot::One(t, v)) => enc_e(&vs.iter().find(|x| x.0 == *t).expect("variant").1, *t, v, buf),
                _ => panic!("harness: slot does not match its declaration"),
            }
        }
    }
    fn merge_field<B: Buf>(&mut self, tag: u32, wt: WireType, buf: &mut B, ctx: DecodeContext) -> Result<(), DecodeError> {
        let s = self.schema.clone();
        let bt = self.bt;
        let Some(pos) = s.decls(self.idx).iter().position(|d| d.tags().contains(&tag)) else { return enc::skip_field(wt, tag, buf, ctx) };
        let d = &s.decls(self.idx)[pos];
        let slot = &mut self.slots[pos];
        match d {
            Decl::Single { ty, opt: false, .. } => { let Slot::Req(v) = slot else { panic!("harness: slot") }; merge_e(ty, wt, v, buf, ctx) }
            Decl::Single { ty, opt: true, .. } => {
                if !matches!(slot, Slot::Some(_)) { *slot = Slot::Some(default_e(&s, ty, bt)); }       // get_or_insert_with(Default::default)
                let Slot::Some(v) = slot else { unreachable!() };
                merge_e(ty, wt, v, buf, ctx)
            }
            Decl::Rep { ty, .. } => {
                let Slot::Rep(xs) = slot else { panic!("harness: slot") };
                match ty {
                    FTy::Scalar(c) => {
                        let mut vs: Vec<SV> = xs.iter().map(|x| if let EVal::S(v) = x { v.clone() } else { panic!("harness: typed") }).collect();
                        let r = sc_merge_repeated(*c, wt, &mut vs, buf, ctx);
                        *xs = vs.into_iter().map(EVal::S).collect();
                        r
                    }
                    FTy::Msg(i) => {
                        let mut ms: Vec<DynMsg> = xs.iter().map(|x| if let EVal::Msg(m) = x { m.clone() } else { panic!("harness: typed") }).collect();
                        MDEF.with(|m| *m.borrow_mut() = Some(DynMsg::new(&s, *i, bt)));
                        let r = enc::message::merge_repeated(wt, &mut ms, buf, ctx);
                        *xs = ms.into_iter().map(EVal::Msg).collect();
                        r
                    }
                }
            }
            Decl::Map { k, v, .. } => {
                let Slot::Map(m) = slot else { panic!("harness: slot") };
                kdef_set(k.default());
                let vdef = default_e(&s, v, bt);
                let km = |wt: WireType, key: &mut DK, buf: &mut B, ctx: DecodeContext| -> Result<(), DecodeError> { key.0 = sc_merge(*k, wt, &key.0, buf, ctx)?; Ok(()) };
                let vm = |wt: WireType, val: &mut EVal, buf: &mut B, ctx: DecodeContext| -> Result<(), DecodeError> { merge_e(v, wt, val, buf, ctx) };
                match m { MapS::H(m) => enc::hash_map::merge_with_default(km, vm, vdef, m, buf, ctx), MapS::B(m) => enc::btree_map::merge_with_default(km, vm, vdef, m, buf, ctx) }
            }
            Decl::Oneof(vs) => {
                // the emitted `<Enum>::merge`
                let ty = &vs.iter().find(|x| x.0 == tag).expect("unreachable!(invalid oneof tag)").1;
                match slot {
                    Slot::One(t, v) if *t == tag => merge_e(ty, wt, v, buf, ctx),
                    _ => { let mut owned = default_e(&s, ty, bt); merge_e(ty, wt, &mut owned, buf, ctx)?; *slot = Slot::One(tag, owned); Ok(()) }
                }
            }
        }
    }
}
