//! Protobuf track: code shared by `rt` (runtime-level verbs, dynamic messages) and `pbrun` (emitted code).
pub mod sv;
pub mod rtverbs;
