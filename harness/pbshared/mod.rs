//! Protobuf track: code shared by `rt` (runtime-level verbs, dynamic messages) and `pbrun` (emitted code).
pub mod sv;
#[macro_use]
pub mod rtverbs;
pub mod dynmsg;
pub mod msgverbs;
pub mod adv;
pub mod refcodec;
