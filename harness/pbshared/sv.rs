//! Scalar values and codec names shared by the protobuf verbs (runtime level and message level).
use crate::val::*;

#[derive(Clone, Debug, PartialEq, Eq, Hash, PartialOrd, Ord)]
pub enum SV { Int(i128), Bool(bool), F32(u32), F64(u64), Bs(Vec<u8>) }

impl SV {
    pub fn sexp(&self) -> String {
        match self {
            SV::Int(n) => format!("(i {})", n),
            SV::Bool(b) => format!("(b {})", *b as u8),
            SV::F32(x) => format!("(f32 {:08x})", x),
            SV::F64(x) => format!("(f64 {:016x})", x),
            SV::Bs(b) => format!("(bs {})", hex(b)),
        }
    }
    pub fn of_sexp(x: &Sexp) -> Option<SV> {
        let l = x.list()?;
        let a = l.get(1)?.atom()?;
        Some(match l.first()?.atom()? {
            "i" => SV::Int(a.parse().ok()?),
            "b" => SV::Bool(a.parse::<u8>().ok()? != 0),
            "f32" => SV::F32(u32::from_str_radix(a, 16).ok()?),
            "f64" => SV::F64(u64::from_str_radix(a, 16).ok()?),
            "bs" => SV::Bs(unhex(a)?),
            _ => return None,
        })
    }
    /// Rust `==` with `Default::default()` of the field type (IEEE equality for floats)
    pub fn is_default(&self) -> bool {
        match self {
            SV::Int(n) => *n == 0,
            SV::Bool(b) => !*b,
            SV::F32(x) => f32::from_bits(*x) == 0.0,
            SV::F64(x) => f64::from_bits(*x) == 0.0,
            SV::Bs(b) => b.is_empty(),
        }
    }
}

#[derive(Clone, Copy, Debug, PartialEq, Eq, Hash)]
pub enum Codec { Bool, Int32, Int64, Uint32, Uint64, Sint32, Sint64, Float, Double, Fixed32, Fixed64, Sfixed32, Sfixed64, Str, FastStr, Bytes }

impl Codec {
    pub const ALL: [Codec; 16] = [Codec::Bool, Codec::Int32, Codec::Int64, Codec::Uint32, Codec::Uint64, Codec::Sint32, Codec::Sint64,
        Codec::Float, Codec::Double, Codec::Fixed32, Codec::Fixed64, Codec::Sfixed32, Codec::Sfixed64, Codec::Str, Codec::FastStr, Codec::Bytes];
    pub const NUMERIC: [Codec; 13] = [Codec::Bool, Codec::Int32, Codec::Int64, Codec::Uint32, Codec::Uint64, Codec::Sint32, Codec::Sint64,
        Codec::Float, Codec::Double, Codec::Fixed32, Codec::Fixed64, Codec::Sfixed32, Codec::Sfixed64];
    pub fn name(self) -> &'static str {
        match self {
            Codec::Bool => "bool", Codec::Int32 => "int32", Codec::Int64 => "int64", Codec::Uint32 => "uint32", Codec::Uint64 => "uint64",
            Codec::Sint32 => "sint32", Codec::Sint64 => "sint64", Codec::Float => "float", Codec::Double => "double",
            Codec::Fixed32 => "fixed32", Codec::Fixed64 => "fixed64", Codec::Sfixed32 => "sfixed32", Codec::Sfixed64 => "sfixed64",
            Codec::Str => "string", Codec::FastStr => "faststr", Codec::Bytes => "bytes",
        }
    }
    pub fn of_name(s: &str) -> Option<Codec> { Codec::ALL.iter().copied().find(|c| c.name() == s) }
    pub fn is_numeric(self) -> bool { !matches!(self, Codec::Str | Codec::FastStr | Codec::Bytes) }
    pub fn default(self) -> SV {
        match self {
            Codec::Bool => SV::Bool(false), Codec::Float => SV::F32(0), Codec::Double => SV::F64(0),
            Codec::Str | Codec::FastStr | Codec::Bytes => SV::Bs(vec![]),
            _ => SV::Int(0),
        }
    }
    /// does the Rust type of the module hold this value
    pub fn holds(self, v: &SV) -> bool {
        match (self, v) {
            (Codec::Bool, SV::Bool(_)) => true,
            (Codec::Int32 | Codec::Sint32 | Codec::Sfixed32, SV::Int(n)) => i32::try_from(*n).is_ok(),
            (Codec::Int64 | Codec::Sint64 | Codec::Sfixed64, SV::Int(n)) => i64::try_from(*n).is_ok(),
            (Codec::Uint32 | Codec::Fixed32, SV::Int(n)) => u32::try_from(*n).is_ok(),
            (Codec::Uint64 | Codec::Fixed64, SV::Int(n)) => u64::try_from(*n).is_ok(),
            (Codec::Float, SV::F32(_)) | (Codec::Double, SV::F64(_)) => true,
            (Codec::Str | Codec::FastStr, SV::Bs(b)) => std::str::from_utf8(b).is_ok(),
            (Codec::Bytes, SV::Bs(_)) => true,
            _ => false,
        }
    }
}

pub const WT_NAMES: [&str; 6] = ["varint", "i64", "len", "sgroup", "egroup", "i32"];
pub fn wt_of_name(s: &str) -> Option<pilota::prost::encoding::WireType> {
    use pilota::prost::encoding::WireType as W;
    Some(match s { "varint" => W::Varint, "i64" => W::SixtyFourBit, "len" => W::LengthDelimited, "sgroup" => W::StartGroup, "egroup" => W::EndGroup, "i32" => W::ThirtyTwoBit, _ => return None })
}
pub fn wt_name(w: pilota::prost::encoding::WireType) -> &'static str { WT_NAMES[w as u8 as usize] }

pub fn err_class(e: &pilota::prost::DecodeError) -> &'static str {
    if e.to_string().ends_with("recursion limit reached") { "depth" } else { "err" }
}

// ------------------------------------------------------------------ value generators
pub const U64_EDGES: [u64; 24] = [0, 1, 2, 127, 128, 129, 255, 256, 16383, 16384, (1 << 21) - 1, 1 << 21, (1 << 28) - 1, 1 << 28,
    (1 << 31) - 1, 1 << 31, u32::MAX as u64, 1 << 32, (1 << 35) - 1, 1 << 35, (1 << 56) - 1, 1 << 63, u64::MAX - 1, u64::MAX];

pub fn gen_u64(r: &mut Rng) -> u64 {
    match r.below(5) {
        0 => *r.pick(&U64_EDGES),
        1 => { let k = r.below(64); (1u64 << k).wrapping_add(r.below(3)).wrapping_sub(1) }
        2 => r.below(300),
        3 => { let k = 1 + r.below(10); let bits = (7 * k).min(64); if bits == 64 { r.next() } else { r.next() & ((1u64 << bits) - 1) } }
        _ => r.next(),
    }
}

pub const TAG_EDGES: [u32; 14] = [1, 2, 15, 16, 17, 2047, 2048, 2049, (1 << 18) - 1, 1 << 18, (1 << 25) - 1, 1 << 25, (1 << 29) - 2, (1 << 29) - 1];
pub fn gen_tag(r: &mut Rng) -> u32 {
    match r.below(3) { 0 => *r.pick(&TAG_EDGES), 1 => 1 + r.below(20) as u32, _ => 1 + r.below((1 << 29) - 1) as u32 }
}

pub fn gen_utf8(r: &mut Rng) -> Vec<u8> {
    let n = match r.below(12) { 0 | 1 => 0, 2 => 127, 3 => 128, 4 => 300, _ => r.below(9) } as usize;
    let pool = ["a", "Z", "0", " ", "é", "ß", "€", "汉", "𝄞", "😀", "\u{7f}", "\u{80}", "\u{7ff}", "\u{800}", "\u{ffff}", "\u{10000}", "\u{10ffff}", "\0"];
    let mut s = String::new();
    while s.len() < n { let p: &str = *r.pick(&pool[..]); s.push_str(p); }
    s.into_bytes()
}
pub fn gen_blob(r: &mut Rng) -> Vec<u8> {
    let n = match r.below(14) { 0 | 1 => 0, 2 => 127, 3 => 128, 4 => 129, 5 => 16383, 6 => 16384, _ => r.below(10) } as usize;
    let seed = r.next();
    (0..n).map(|i| (seed.wrapping_mul(i as u64 + 3) >> 11) as u8).collect()
}

pub fn gen_sv(r: &mut Rng, c: Codec) -> SV {
    let i = crate::gen::gen_i64(r);
    match c {
        Codec::Bool => SV::Bool(r.chance(1, 2)),
        Codec::Int32 | Codec::Sint32 | Codec::Sfixed32 => SV::Int(match r.below(6) { 0 => i32::MIN as i128, 1 => i32::MAX as i128, 2 => -1, _ => (i as i32) as i128 }),
        Codec::Int64 | Codec::Sint64 | Codec::Sfixed64 => SV::Int(i as i128),
        Codec::Uint32 | Codec::Fixed32 => SV::Int((gen_u64(r) as u32) as i128),
        Codec::Uint64 | Codec::Fixed64 => SV::Int(gen_u64(r) as i128),
        Codec::Float => SV::F32(match r.below(8) { 0 => 0, 1 => 0x8000_0000, 2 => 0x7fc0_0000, 3 => 0x7f80_0000, 4 => 0xff80_0001, 5 => 0x3f80_0000, _ => r.next() as u32 }),
        Codec::Double => SV::F64(if r.chance(1, 2) { *r.pick(&crate::gen::DBL_EDGES) } else { r.next() }),
        Codec::Str | Codec::FastStr => SV::Bs(gen_utf8(r)),
        Codec::Bytes => SV::Bs(gen_blob(r)),
    }
}
