//! Thrift runtime verbs: the value interpreter over the real protocol traits.
use bytes::{BufMut, Bytes, BytesMut};
use linkedbytes::LinkedBytes;
use pilota::thrift::{
    binary::TBinaryProtocol, binary_le::TBinaryProtocol as TBinaryLeProtocol,
    binary_unsafe::{TBinaryUnsafeInputProtocol, TBinaryUnsafeOutputProtocol},
    compact::{TCompactInputProtocol, TCompactOutputProtocol},
    ProtocolExceptionKind, TInputProtocol, TLengthProtocol, TListIdentifier, TMapIdentifier, TMessageIdentifier,
    TMessageType, TOutputProtocol, TSetIdentifier, TStructIdentifier, ThriftException,
};

use crate::val::*;

pub static IDENT: TStructIdentifier = TStructIdentifier { name: "V" };

/// which API writes a binary value (same wire form, different zero-copy branches)
#[derive(Clone, Copy, PartialEq)]
pub enum StrApi { Bytes, Vec, FastStr,
    /// `write_i32(len)` + `write_bytes_without_len` (what emitted code does for retained chunks); binary family only
    Raw,
    /// `write_string(&str)` when the payload is UTF-8, else `write_bytes_vec`
    Str }
impl StrApi {
    pub fn of(s: &str) -> Option<StrApi> { Some(match s { "b" => StrApi::Bytes, "v" => StrApi::Vec, "f" => StrApi::FastStr, "r" => StrApi::Raw, "s" => StrApi::Str, _ => return None }) }
}

pub fn write_val<P: TOutputProtocol>(p: &mut P, v: &Val, api: StrApi, mark: &mut dyn FnMut(&mut P)) -> Result<(), ThriftException> {
    match v {
        Val::Bool(b) => { p.write_bool(*b)?; mark(p); }
        Val::I8(n) => { p.write_i8(*n)?; mark(p); }
        Val::I16(n) => { p.write_i16(*n)?; mark(p); }
        Val::I32(n) => { p.write_i32(*n)?; mark(p); }
        Val::I64(n) => { p.write_i64(*n)?; mark(p); }
        Val::Dbl(b) => { p.write_double(f64::from_bits(*b))?; mark(p); }
        Val::Bin(b) => {
            match api {
                StrApi::Bytes => p.write_bytes(Bytes::copy_from_slice(b))?,
                StrApi::Vec => p.write_bytes_vec(b)?,
                StrApi::FastStr => p.write_faststr(unsafe { faststr::FastStr::from_bytes_unchecked(Bytes::copy_from_slice(b)) })?,
                StrApi::Raw => { p.write_i32(b.len() as i32)?; p.write_bytes_without_len(Bytes::copy_from_slice(b))?; }
                StrApi::Str => match std::str::from_utf8(b) { Ok(st) => p.write_string(st)?, Err(_) => p.write_bytes_vec(b)? },
            }
            mark(p);
        }
        Val::Uuid(u) => { p.write_uuid(*u)?; mark(p); }
        Val::Struct(fs) => {
            p.write_struct_begin(&IDENT)?; mark(p);
            for (id, fv) in fs {
                p.write_field_begin(fv.tt().to_p(), *id)?; mark(p);
                write_val(p, fv, api, mark)?;
                p.write_field_end()?; mark(p);
            }
            p.write_field_stop()?; mark(p);
            p.write_struct_end()?; mark(p);
        }
        Val::List(et, xs) => {
            p.write_list_begin(TListIdentifier { element_type: et.to_p(), size: xs.len() })?; mark(p);
            for x in xs { write_val(p, x, api, mark)?; }
            p.write_list_end()?; mark(p);
        }
        Val::Set(et, xs) => {
            p.write_set_begin(TSetIdentifier { element_type: et.to_p(), size: xs.len() })?; mark(p);
            for x in xs { write_val(p, x, api, mark)?; }
            p.write_set_end()?; mark(p);
        }
        Val::Map(kt, vt, kvs) => {
            p.write_map_begin(TMapIdentifier { key_type: kt.to_p(), value_type: vt.to_p(), size: kvs.len() })?; mark(p);
            for (k, x) in kvs { write_val(p, k, api, mark)?; write_val(p, x, api, mark)?; }
            p.write_map_end()?; mark(p);
        }
    }
    Ok(())
}

/// the `*_len` twin of `write_val`: one number per op, in the same order.
pub fn len_val<P: TLengthProtocol>(p: &mut P, v: &Val, out: &mut Vec<usize>) { len_val_api(p, v, StrApi::Bytes, out) }

/// the same with the `*_len` twin of the string API that will write the payload
pub fn len_val_api<P: TLengthProtocol>(p: &mut P, v: &Val, api: StrApi, out: &mut Vec<usize>) {
    match v {
        Val::Bool(b) => out.push(p.bool_len(*b)),
        Val::I8(n) => out.push(p.i8_len(*n)),
        Val::I16(n) => out.push(p.i16_len(*n)),
        Val::I32(n) => out.push(p.i32_len(*n)),
        Val::I64(n) => out.push(p.i64_len(*n)),
        Val::Dbl(b) => out.push(p.double_len(f64::from_bits(*b))),
        Val::Bin(b) => out.push(match api {
            StrApi::Bytes => p.bytes_len(b),
            StrApi::Vec => p.bytes_vec_len(b),
            StrApi::FastStr => p.faststr_len(&unsafe { faststr::FastStr::from_bytes_unchecked(Bytes::copy_from_slice(b)) }),
            StrApi::Raw => p.i32_len(b.len() as i32) + b.len(),
            StrApi::Str => match std::str::from_utf8(b) { Ok(st) => p.string_len(st), Err(_) => p.bytes_vec_len(b) },
        }),
        Val::Uuid(u) => out.push(p.uuid_len(*u)),
        Val::Struct(fs) => {
            out.push(p.struct_begin_len(&IDENT));
            for (id, fv) in fs {
                out.push(p.field_begin_len(fv.tt().to_p(), Some(*id)));
                len_val_api(p, fv, api, out);
                out.push(p.field_end_len());
            }
            out.push(p.field_stop_len());
            out.push(p.struct_end_len());
        }
        Val::List(et, xs) => {
            out.push(p.list_begin_len(TListIdentifier { element_type: et.to_p(), size: xs.len() }));
            for x in xs { len_val_api(p, x, api, out); }
            out.push(p.list_end_len());
        }
        Val::Set(et, xs) => {
            out.push(p.set_begin_len(TSetIdentifier { element_type: et.to_p(), size: xs.len() }));
            for x in xs { len_val_api(p, x, api, out); }
            out.push(p.set_end_len());
        }
        Val::Map(kt, vt, kvs) => {
            out.push(p.map_begin_len(TMapIdentifier { key_type: kt.to_p(), value_type: vt.to_p(), size: kvs.len() }));
            for (k, x) in kvs { len_val_api(p, k, api, out); len_val_api(p, x, api, out); }
            out.push(p.map_end_len());
        }
    }
}

/// dynamic reading interpreter: by wire type, as a decoder would.
pub fn read_val<P: TInputProtocol>(p: &mut P, tt: TT) -> Result<Val, ThriftException> {
    Ok(match tt {
        TT::Bool => Val::Bool(p.read_bool()?),
        TT::I8 => Val::I8(p.read_i8()?),
        TT::I16 => Val::I16(p.read_i16()?),
        TT::I32 => Val::I32(p.read_i32()?),
        TT::I64 => Val::I64(p.read_i64()?),
        TT::Double => Val::Dbl(p.read_double()?.to_bits()),
        TT::Binary => Val::Bin(p.read_bytes()?.to_vec()),
        TT::Uuid => Val::Uuid(p.read_uuid()?),
        TT::Struct => {
            p.read_struct_begin()?;
            let mut fs = vec![];
            loop {
                let f = p.read_field_begin()?;
                if f.field_type == pilota::thrift::TType::Stop { break; }
                let v = read_val(p, TT::of_p(f.field_type))?;
                p.read_field_end()?;
                fs.push((f.id.unwrap_or(0), v));
            }
            p.read_struct_end()?;
            Val::Struct(fs)
        }
        TT::List => {
            let l = p.read_list_begin()?;
            let et = TT::of_p(l.element_type);
            let mut xs = vec![];
            for _ in 0..l.size { xs.push(read_val(p, et)?); }
            p.read_list_end()?;
            Val::List(et, xs)
        }
        TT::Set => {
            let l = p.read_set_begin()?;
            let et = TT::of_p(l.element_type);
            let mut xs = vec![];
            for _ in 0..l.size { xs.push(read_val(p, et)?); }
            p.read_set_end()?;
            Val::Set(et, xs)
        }
        TT::Map => {
            let m = p.read_map_begin()?;
            let (kt, vt) = (TT::of_p(m.key_type), TT::of_p(m.value_type));
            let mut kvs = vec![];
            for _ in 0..m.size { let k = read_val(p, kt)?; let v = read_val(p, vt)?; kvs.push((k, v)); }
            p.read_map_end()?;
            Val::Map(kt, vt, kvs)
        }
        TT::Stop | TT::Void => return Err(pilota::thrift::new_protocol_exception(ProtocolExceptionKind::InvalidData, "cannot read stop/void")),
    })
}

pub fn err_class(e: &ThriftException) -> &'static str {
    match e {
        ThriftException::Protocol(p) if p.kind() == ProtocolExceptionKind::DepthLimit => "depth",
        _ => "err",
    }
}

#[derive(Clone, Copy, PartialEq, Debug)]
pub enum Proto { Bin, Le, Cmp, UBin }
impl Proto {
    pub fn of(s: &str) -> Option<Proto> { Some(match s { "bin" => Proto::Bin, "le" => Proto::Le, "cmp" => Proto::Cmp, "ubin" => Proto::UBin, _ => return None }) }
    pub fn name(self) -> &'static str { match self { Proto::Bin => "bin", Proto::Le => "le", Proto::Cmp => "cmp", Proto::UBin => "ubin" } }
}
#[derive(Clone, Copy, PartialEq, Debug)]
pub enum BufK { Bm, Lb0, Lb1,
    /// BytesMut with the protocol's `zero_copy` flag set (documented as having no effect on this buffer kind)
    Bm1 }
impl BufK {
    pub fn of(s: &str) -> Option<BufK> { Some(match s { "bm" => BufK::Bm, "lb0" => BufK::Lb0, "lb1" => BufK::Lb1, "bm1" => BufK::Bm1, _ => return None }) }
    pub fn name(self) -> &'static str { match self { BufK::Bm => "bm", BufK::Lb0 => "lb0", BufK::Lb1 => "lb1", BufK::Bm1 => "bm1" } }
    pub fn zc(self) -> bool { matches!(self, BufK::Lb1 | BufK::Bm1) }
}

fn lb_concat(lb: &mut LinkedBytes) -> Vec<u8> {
    let mut out = Vec::new();
    lb.sync_write_all_vectored(&mut out).expect("write to Vec");
    out
}

/// total size of `vals` under `proto`, by the length machine of that protocol
pub fn size_of(proto: Proto, vals: &[Val]) -> (usize, Vec<usize>) {
    let mut per = vec![];
    match proto {
        Proto::Bin | Proto::UBin => { let mut p = TBinaryProtocol::new((), false); for v in vals { len_val(&mut p, v, &mut per); } }
        Proto::Le => { let mut p = TBinaryLeProtocol::new((), false); for v in vals { len_val(&mut p, v, &mut per); } }
        Proto::Cmp => { let mut p = TCompactOutputProtocol::new((), false); for v in vals { len_val(&mut p, v, &mut per); } }
    }
    (per.iter().sum(), per)
}

/// the size the OUTPUT protocol that will do the writing reports (its own `TLengthProtocol`, its `zero_copy` flag, the `*_len` twin
/// of the string API used)
pub fn size_of_writer(proto: Proto, zc: bool, api: StrApi, vals: &[Val]) -> (usize, Vec<usize>) {
    let mut per = vec![];
    match proto {
        Proto::Bin => { let mut p = TBinaryProtocol::new((), zc); for v in vals { len_val_api(&mut p, v, api, &mut per); } }
        Proto::Le => { let mut p = TBinaryLeProtocol::new((), zc); for v in vals { len_val_api(&mut p, v, api, &mut per); } }
        Proto::Cmp => { let mut p = TCompactOutputProtocol::new((), zc); for v in vals { len_val_api(&mut p, v, api, &mut per); } }
        Proto::UBin => {
            let empty: &'static mut [u8] = &mut [];
            let mut p = unsafe { TBinaryUnsafeOutputProtocol::new((), empty, zc) };
            for v in vals { len_val_api(&mut p, v, api, &mut per); }
        }
    }
    (per.iter().sum(), per)
}

pub struct Written { pub bytes: Vec<u8>, pub per_op: Vec<usize>, pub zero_copy_len: usize, pub note: String }

const GUARD: usize = 32;

/// write `vals` back to back with one protocol instance.
pub fn write_all(proto: Proto, buf: BufK, api: StrApi, vals: &[Val]) -> Result<Written, ThriftException> {
    let mut per = vec![];
    let mut note = String::new();
    macro_rules! bm_run { ($mk:expr) => {{
        let mut b = BytesMut::new();
        let mut p = $mk(&mut b);
        let mut last = 0usize;
        for v in vals { write_val(&mut p, v, api, &mut |p| { let n = p.buf_mut().len(); per.push(n - last); last = n; })?; }
        let z = p.zero_copy_len();
        drop(p);
        Ok(Written { bytes: b.to_vec(), per_op: per, zero_copy_len: z, note })
    }}; }
    macro_rules! lb_run { ($mk:expr) => {{
        let mut lb = LinkedBytes::new();
        let mut p = $mk(&mut lb);
        for v in vals { write_val(&mut p, v, api, &mut |_| {})?; }
        let z = p.zero_copy_len();
        drop(p);
        Ok(Written { bytes: lb_concat(&mut lb), per_op: per, zero_copy_len: z, note })
    }}; }
    let zc = buf.zc();
    match (proto, buf) {
        (Proto::Bin, BufK::Bm | BufK::Bm1) => bm_run!(|b| TBinaryProtocol::new(b, zc)),
        (Proto::Le, BufK::Bm | BufK::Bm1) => bm_run!(|b| TBinaryLeProtocol::new(b, zc)),
        (Proto::Cmp, BufK::Bm | BufK::Bm1) => bm_run!(|b| TCompactOutputProtocol::new(b, zc)),
        (Proto::Bin, _) => lb_run!(|b| TBinaryProtocol::new(b, zc)),
        (Proto::Le, _) => lb_run!(|b| TBinaryLeProtocol::new(b, zc)),
        (Proto::Cmp, _) => lb_run!(|b| TCompactOutputProtocol::new(b, zc)),
        (Proto::UBin, BufK::Bm | BufK::Bm1) => {
            // documented set-up: an output buffer at least as large as the reported size (the size the unchecked protocol itself
            // reports; if that is SMALLER than what the checked length machine says, the window is the larger of the two so that
            // the harness does not turn a wrong size into undefined behaviour: the mismatch is reported by the size oracle)
            let (size0, _) = size_of(Proto::UBin, vals);
            let (size1, _) = size_of_writer(Proto::UBin, zc, api, vals);
            if size0 != size1 { note = format!("unchecked size {} != checked size {}", size1, size0); }
            let size = size0.max(size1);
            let mut b = BytesMut::with_capacity(size + 2 * GUARD);
            b.put_bytes(0xAA, GUARD);                        // leading guard (already-written data)
            let base = b.len();
            unsafe {
                let spare = b.as_mut_ptr().add(base);
                std::ptr::write_bytes(spare, 0xAA, b.capacity() - base);
                let window: &'static mut [u8] = std::slice::from_raw_parts_mut(spare, size);
                let mut p = TBinaryUnsafeOutputProtocol::new(&mut b, window, zc);
                for v in vals { write_val(&mut p, v, api, &mut |_| {})?; }
                let idx = p.index();
                drop(p);
                if idx != size0 { note.push_str(&format!(" index {} != size {}", idx, size0)); }
                let cap = b.capacity();
                let tail = std::slice::from_raw_parts(b.as_ptr().add(base + size), cap - base - size);
                if tail.iter().any(|x| *x != 0xAA) { note.push_str(" wrote-past-window"); }
                b.advance_mut(idx.min(cap - base));
            }
            if b[..GUARD].iter().any(|x| *x != 0xAA) { note.push_str(" clobbered-leading-bytes"); }
            Ok(Written { bytes: b[GUARD..].to_vec(), per_op: per, zero_copy_len: 0, note })
        }
        (Proto::UBin, _) => {
            let (size, _) = size_of(Proto::UBin, vals);
            let mut lb = LinkedBytes::with_capacity(size + 2 * GUARD);
            lb.bytes_mut().put_bytes(0xAA, GUARD);
            let z;
            unsafe {
                let l = lb.bytes_mut().len();
                let cap = lb.bytes_mut().capacity();
                let spare = lb.bytes_mut().as_mut_ptr().add(l);
                std::ptr::write_bytes(spare, 0xAA, cap - l);
                // the window is the spare capacity, as the zero-copy branch re-derives it
                let window: &'static mut [u8] = std::slice::from_raw_parts_mut(spare, cap - l);
                let mut p = TBinaryUnsafeOutputProtocol::new(&mut lb, window, zc);
                for v in vals { write_val(&mut p, v, api, &mut |_| {})?; }
                let idx = p.index();
                z = p.zero_copy_len();
                drop(p);
                let rem = lb.bytes_mut().capacity() - lb.bytes_mut().len();
                if idx > rem { note = format!("index {} beyond capacity {}", idx, rem); }
                lb.bytes_mut().advance_mut(idx.min(rem));
            }
            let all = lb_concat(&mut lb);
            if all.len() < GUARD || all[..GUARD].iter().any(|x| *x != 0xAA) { note.push_str(" clobbered-leading-bytes"); }
            let bytes = all[GUARD.min(all.len())..].to_vec();
            if bytes.len() != size { note.push_str(&format!(" wrote {} != size {}", bytes.len(), size)); }
            Ok(Written { bytes, per_op: per, zero_copy_len: z, note })
        }
    }
}

pub enum ReadStep { Read(TT), Skip(TT), SkipDepth(TT, i8) }

pub struct ReadOut { pub items: Vec<String>, pub rem: usize, pub err: Option<&'static str> }

/// run a script of reads / skips on ONE protocol instance over `input`.
pub fn read_script(proto: Proto, input: &[u8], script: &[ReadStep]) -> ReadOut {
    let mut b = Bytes::copy_from_slice(input);
    let total = b.len();
    let mut items = vec![];
    let mut err = None;
    fn go<P: TInputProtocol>(p: &mut P, script: &[ReadStep], items: &mut Vec<String>, err: &mut Option<&'static str>) {
        for st in script {
            let r = match st {
                ReadStep::Read(tt) => read_val(p, *tt).map(|v| v.sexp()),
                ReadStep::Skip(tt) => p.skip(tt.to_p()).map(|n| n.to_string()),
                ReadStep::SkipDepth(tt, d) => p.skip_till_depth(tt.to_p(), *d).map(|n| n.to_string()),
            };
            match r { Ok(s) => items.push(s), Err(e) => { *err = Some(err_class(&e)); return; } }
        }
    }
    let rem;
    match proto {
        Proto::Bin => { let mut p = TBinaryProtocol::new(&mut b, false); go(&mut p, script, &mut items, &mut err); drop(p); rem = b.len(); }
        Proto::Le => { let mut p = TBinaryLeProtocol::new(&mut b, false); go(&mut p, script, &mut items, &mut err); drop(p); rem = b.len(); }
        Proto::Cmp => { let mut p = TCompactInputProtocol::new(&mut b); go(&mut p, script, &mut items, &mut err); drop(p); rem = b.len(); }
        Proto::UBin => {
            let mut p = unsafe { TBinaryUnsafeInputProtocol::new(&mut b) };
            go(&mut p, script, &mut items, &mut err);
            let idx = p.index();
            drop(p);
            rem = b.len().wrapping_sub(idx);
            let _ = total;
        }
    }
    ReadOut { items, rem, err }
}

pub fn msg_type(n: u8) -> Option<TMessageType> {
    Some(match n { 1 => TMessageType::Call, 2 => TMessageType::Reply, 3 => TMessageType::Exception, 4 => TMessageType::OneWay, _ => return None })
}

/// the same envelope through the LinkedBytes-backed writer of the protocol (zero-copy on): bytes and reported length
pub fn write_msg_linked(proto: Proto, name: &[u8], mt: u8, seq: i32) -> Result<(Vec<u8>, usize), ThriftException> {
    let id = TMessageIdentifier::new(unsafe { faststr::FastStr::from_bytes_unchecked(Bytes::copy_from_slice(name)) }, msg_type(mt).unwrap(), seq);
    let mut lb = LinkedBytes::new();
    let len;
    match proto {
        Proto::Bin | Proto::UBin => { let mut p = TBinaryProtocol::new(&mut lb, true); len = p.message_begin_len(&id) + p.message_end_len(); p.write_message_begin(&id)?; p.write_message_end()?; }
        Proto::Le => { let mut p = TBinaryLeProtocol::new(&mut lb, true); len = p.message_begin_len(&id) + p.message_end_len(); p.write_message_begin(&id)?; p.write_message_end()?; }
        Proto::Cmp => { let mut p = TCompactOutputProtocol::new(&mut lb, true); len = p.message_begin_len(&id) + p.message_end_len(); p.write_message_begin(&id)?; p.write_message_end()?; }
    }
    Ok((lb_concat(&mut lb), len))
}

pub fn write_msg(proto: Proto, name: &[u8], mt: u8, seq: i32) -> Result<(Vec<u8>, usize), ThriftException> {
    let id = TMessageIdentifier::new(unsafe { faststr::FastStr::from_bytes_unchecked(Bytes::copy_from_slice(name)) }, msg_type(mt).unwrap(), seq);
    let mut b = BytesMut::new();
    let len;
    match proto {
        Proto::Bin => { let mut p = TBinaryProtocol::new(&mut b, false); len = p.message_begin_len(&id) + p.message_end_len(); p.write_message_begin(&id)?; p.write_message_end()?; }
        Proto::Le => { let mut p = TBinaryLeProtocol::new(&mut b, false); len = p.message_begin_len(&id) + p.message_end_len(); p.write_message_begin(&id)?; p.write_message_end()?; }
        Proto::Cmp => { let mut p = TCompactOutputProtocol::new(&mut b, false); len = p.message_begin_len(&id) + p.message_end_len(); p.write_message_begin(&id)?; p.write_message_end()?; }
        Proto::UBin => {
            let mut lp = TBinaryProtocol::new((), false);
            len = lp.message_begin_len(&id);
            b.reserve(len + 8);
            unsafe {
                let window: &'static mut [u8] = std::slice::from_raw_parts_mut(b.as_mut_ptr(), len);
                let mut p = TBinaryUnsafeOutputProtocol::new(&mut b, window, false);
                p.write_message_begin(&id)?; p.write_message_end()?;
                let idx = p.index(); drop(p);
                b.advance_mut(idx);
            }
        }
    }
    Ok((b.to_vec(), len))
}

pub fn read_msg(proto: Proto, input: &[u8]) -> Result<(Vec<u8>, u8, i32, usize), ThriftException> {
    let mut b = Bytes::copy_from_slice(input);
    let id; let rem;
    match proto {
        Proto::Bin => { let mut p = TBinaryProtocol::new(&mut b, false); id = p.read_message_begin()?; p.read_message_end()?; drop(p); rem = b.len(); }
        Proto::Le => { let mut p = TBinaryLeProtocol::new(&mut b, false); id = p.read_message_begin()?; p.read_message_end()?; drop(p); rem = b.len(); }
        Proto::Cmp => { let mut p = TCompactInputProtocol::new(&mut b); id = p.read_message_begin()?; p.read_message_end()?; drop(p); rem = b.len(); }
        Proto::UBin => { let mut p = unsafe { TBinaryUnsafeInputProtocol::new(&mut b) }; id = p.read_message_begin()?; p.read_message_end()?; let i = p.index(); drop(p); rem = b.len() - i; }
    }
    Ok((id.name.as_bytes().to_vec(), id.message_type as u8, id.sequence_number, rem))
}
