//! `rt gen <stream> <tier> <seed>`  -> request lines on stdout
//! `rt exec [--oracle FILE]`        -> reads request lines on stdin, one answer line each on stdout
//!
//! Verbs and streams are provided by the modules registered in `MODULES`; each module answers the
//! verbs it knows (`exec` returns None otherwise) and generates the streams it knows (`gen` returns false).
pub mod gen;
pub mod idl;
pub mod pb;
pub mod thrift;
pub mod thrift2;
pub mod thrift3;
pub mod thrift_rt;
pub mod val;
pub mod watchdog;

use std::io::{BufRead, Write};

use val::*;

pub struct Oracle { pub fails: Vec<String> }
impl Oracle { pub fn fail(&mut self, props: &str, why: String) { self.fails.push(format!("{}\t{}", props, why.replace(['\n', '\t'], " "))); } }

pub type ExecFn = fn(&str, &[Sexp], &mut Oracle) -> Option<String>;
pub type GenFn = fn(&str, &str, u64, &mut dyn Write) -> bool;
pub const MODULES: &[(ExecFn, GenFn)] = &[
    (thrift_rt::exec, thrift_rt::gen),
    (thrift2::exec, thrift2::gen),
    (thrift3::exec, thrift3::gen),
    (pb::exec, pb::gen),
    (idl::exec, idl::gen),
];

fn exec_line(modules: &[(ExecFn, GenFn)], line: &str, o: &mut Oracle) -> String {
    let Some(items) = Sexp::parse_line(line) else { return "bad-request".into() };
    let Some(verb) = items.first().and_then(|x| x.atom()) else { return "bad-request".into() };
    for (e, _) in modules { if let Some(a) = e(verb, &items, o) { return a; } }
    "bad-request".into()
}

fn gen_stream(modules: &[(ExecFn, GenFn)], stream: &str, tier: &str, seed: u64, out: &mut dyn Write) {
    for (_, g) in modules { if g(stream, tier, seed, out) { return; } }
    eprintln!("unknown stream {}", stream);
    std::process::exit(2);
}

/// the command-line loop shared by every harness binary
thread_local! { static PANIC_LOC: std::cell::RefCell<String> = std::cell::RefCell::new(String::new()); }

pub fn run_main(modules: &'static [(ExecFn, GenFn)]) {
    let args: Vec<String> = std::env::args().collect();
    match args.get(1).map(|s| s.as_str()) {
        Some("gen") => {
            let seed = args.get(4).and_then(|s| s.parse().ok()).unwrap_or(0);
            let so = std::io::stdout();
            let mut w = std::io::BufWriter::new(so.lock());
            gen_stream(modules, &args[2], &args[3], seed, &mut w);
        }
        Some("exec") => {
            let oracle_path = args.iter().position(|a| a == "--oracle").map(|i| args[i + 1].clone());
            std::panic::set_hook(Box::new(|i| { let l = i.location().map(|l| { let f = l.file(); let f = f.rsplit('/').take(2).collect::<Vec<_>>().into_iter().rev().collect::<Vec<_>>().join("/"); format!("{}:{}", f, l.line()) }).unwrap_or_default(); if std::env::var_os("VERIF_PANIC_BT").is_some() { eprintln!("{}", std::backtrace::Backtrace::force_capture()); }
                if std::env::var_os("VERIF_PANIC_LOG").is_some() { eprintln!("panic: {} @ {}", i.payload().downcast_ref::<&str>().map(|s| s.to_string()).or_else(|| i.payload().downcast_ref::<String>().cloned()).unwrap_or_default(), l); } PANIC_LOC.with(|c| *c.borrow_mut() = l); }));
            watchdog::start();
            let child = std::thread::Builder::new().stack_size(512 << 20).spawn(move || {
                let stdin = std::io::stdin();
                let so = std::io::stdout();
                let mut w = std::io::BufWriter::new(so.lock());
                let mut ofile = oracle_path.map(|p| std::io::BufWriter::new(std::fs::File::create(p).expect("oracle file")));
                for (i, line) in stdin.lock().lines().enumerate() {
                    let line = line.expect("stdin");
                    let line = line.trim();
                    if line.is_empty() || line.starts_with('#') { let _ = writeln!(w, ""); continue; }
                    let mut o = Oracle { fails: vec![] };
                    watchdog::tick(i as u64 + 1);
                    let ans = match std::panic::catch_unwind(std::panic::AssertUnwindSafe(|| exec_line(modules, line, &mut o))) {
                        Ok(a) => a,
                        Err(p) => {
                            let msg = p.downcast_ref::<String>().cloned().or_else(|| p.downcast_ref::<&str>().map(|s| s.to_string())).unwrap_or_default();
                            let loc = PANIC_LOC.with(|c| c.borrow().clone());
                            o.fail("PANIC", format!("{} @ {}", msg.replace('\n', " "), loc));
                            "panic".into()
                        }
                    };
                    watchdog::done();
                    let _ = writeln!(w, "{}", ans);
                    let _ = w.flush();
                    if let Some(f) = ofile.as_mut() { for x in &o.fails { let _ = writeln!(f, "{}\t{}", i + 1, x); } let _ = f.flush(); }
                }
                let _ = w.flush();
                if let Some(mut f) = ofile { let _ = f.flush(); }
            }).unwrap();
            child.join().unwrap();
        }
        _ => { eprintln!("usage: rt gen <stream> <tier> <seed> | rt exec [--oracle FILE]"); std::process::exit(2); }
    }
}
