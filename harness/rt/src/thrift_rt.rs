//! Verbs w / rt / l / r / m / mr and streams C01, C04 (Thrift runtime round trip and sizes).
use std::io::Write;

use crate::gen;
use crate::thrift::*;
use crate::val::*;
use crate::Oracle;

pub fn csv(v: &[usize]) -> String { if v.is_empty() { "-".into() } else { v.iter().map(|x| x.to_string()).collect::<Vec<_>>().join(",") } }


fn vals_of(xs: &[Sexp]) -> Option<Vec<Val>> { xs.iter().map(Val::of_sexp).collect() }

fn steps_of(xs: &[Sexp]) -> Option<Vec<ReadStep>> {
    xs.iter().map(|x| {
        let l = x.list()?;
        let tt = TT::of_name(l.get(1)?.atom()?)?;
        Some(match l.first()?.atom()? {
            "read" => ReadStep::Read(tt),
            "skip" => ReadStep::Skip(tt),
            "skipd" => ReadStep::SkipDepth(tt, l.get(2)?.atom()?.parse().ok()?),
            _ => return None,
        })
    }).collect()
}

pub fn exec(verb: &str, items: &[Sexp], o: &mut Oracle) -> Option<String> {
    Some(exec_inner(verb, items, o)?)
}

fn exec_inner(verb: &str, items: &[Sexp], o: &mut Oracle) -> Option<String> {
    let r: String = (|| -> String {
    let a = |i: usize| items.get(i).and_then(|x| x.atom());
    match verb {
        "w" | "rt" => {
            let (Some(proto), Some(buf), Some(api)) = (a(1).and_then(Proto::of), a(2).and_then(BufK::of), a(3)) else { return "bad-request".into() };
            let Some(api) = StrApi::of(api) else { return "bad-request".into() };
            if api == StrApi::Raw && proto == Proto::Cmp { return "bad-request".into() }      // the raw API pair is a binary-family idiom
            let Some(vals) = vals_of(&items[4..]) else { return "bad-request".into() };
            let w = match write_all(proto, buf, api, &vals) { Ok(w) => w, Err(e) => return err_class(&e).into() };
            if !w.note.is_empty() { o.fail("C04,C11", format!("unchecked writer: {}", w.note.trim())); }
            if verb == "w" {
                return format!("ok {} {} z={}", hex(&w.bytes), csv(&w.per_op), w.zero_copy_len);
            }
            // round trip: one reader instance reads every value back
            let (size, _) = size_of(proto, &vals);
            if size != w.bytes.len() { o.fail("C04", format!("size {} != written {}", size, w.bytes.len())); }
            // ... and the size the writing protocol itself reports (its own length machine, its zero-copy flag, this string API)
            let (wsize, _) = size_of_writer(proto, buf.zc(), api, &vals);
            if wsize != w.bytes.len() { o.fail("C04", format!("size reported by the {} writer (zero_copy={}) {} != written {}", proto.name(), buf.zc(), wsize, w.bytes.len())); }
            let script: Vec<ReadStep> = vals.iter().map(|v| ReadStep::Read(v.tt())).collect();
            let r = read_script(proto, &w.bytes, &script);
            let expect: Vec<String> = vals.iter().map(|v| if proto == Proto::Cmp { v.norm_compact().sexp() } else { v.sexp() }).collect();
            if r.err.is_some() || r.items != expect { o.fail("C01", format!("read back {:?} {}", r.err, r.items.join(" "))); }
            else if r.rem != 0 { o.fail("C01", format!("{} bytes left after reading back", r.rem)); }
            match r.err { Some(c) => format!("{} {} after={}", c, hex(&w.bytes), r.items.len()), None => format!("ok {} | {} | rem={}", hex(&w.bytes), r.items.join(" "), r.rem) }
        }
        "l" => {
            let Some(proto) = a(1).and_then(Proto::of) else { return "bad-request".into() };
            let Some(vals) = vals_of(&items[2..]) else { return "bad-request".into() };
            let (t, per) = size_of(proto, &vals);
            format!("ok {} {}", t, csv(&per))
        }
        "lz" => {
            let (Some(proto), Some(zc), Some(api)) = (a(1).and_then(Proto::of), a(2), a(3).and_then(StrApi::of)) else { return "bad-request".into() };
            let Some(vals) = vals_of(&items[4..]) else { return "bad-request".into() };
            let (t, per) = size_of_writer(proto, zc == "1", api, &vals);
            format!("ok {} {}", t, csv(&per))
        }
        "r" => {
            let (Some(proto), Some(input)) = (a(1).and_then(Proto::of), a(2).and_then(unhex)) else { return "bad-request".into() };
            let Some(script) = steps_of(&items[3..]) else { return "bad-request".into() };
            let r = read_script(proto, &input, &script);
            match r.err { Some(c) => format!("{} after={}", c, r.items.len()), None => format!("ok {} rem={}", r.items.join(" "), r.rem) }
        }
        "m" => {
            let (Some(proto), Some(name), Some(mt), Some(seq)) = (a(1).and_then(Proto::of), a(2).and_then(unhex), a(3).and_then(|s| s.parse::<u8>().ok()), a(4).and_then(|s| s.parse::<i32>().ok())) else { return "bad-request".into() };
            if msg_type(mt).is_none() { return "bad-request".into() }
            match write_msg(proto, &name, mt, seq) {
                Ok((b, len)) => {
                    if len != b.len() { o.fail("C04", format!("message_begin_len {} != written {}", len, b.len())); }
                    if proto != Proto::UBin {
                        match write_msg_linked(proto, &name, mt, seq) {
                            Ok((lbb, lblen)) => {
                                if lbb != b { o.fail("C01,C03", format!("message envelope through the LinkedBytes writer {} differs from the BytesMut writer {}", hex(&lbb), hex(&b))); }
                                if lblen != lbb.len() { o.fail("C04", format!("LinkedBytes writer: message_begin_len {} != written {}", lblen, lbb.len())); }
                            }
                            Err(e) => o.fail("C01", format!("message envelope through the LinkedBytes writer failed: {}", e)),
                        }
                    }
                    match read_msg(proto, &b) {
                        Ok((n2, mt2, seq2, rem)) if n2 == name && mt2 == mt && seq2 == seq && rem == 0 => {}
                        other => o.fail("C01,C03", format!("message envelope read back {:?}", other.map_err(|e| e.to_string()))),
                    }
                    format!("ok {} len={}", hex(&b), len)
                }
                Err(e) => err_class(&e).into(),
            }
        }
        "mr" => {
            let (Some(proto), Some(input)) = (a(1).and_then(Proto::of), a(2).and_then(unhex)) else { return "bad-request".into() };
            match read_msg(proto, &input) { Ok((n, mt, seq, rem)) => format!("ok {} {} {} rem={}", hex(&n), mt, seq, rem), Err(e) => err_class(&e).into() }
        }
        _ => "\u{0}unknown".into(),
    }
    })();
    if r == "\u{0}unknown" { None } else { Some(r) }
}

pub fn gen(stream: &str, tier: &str, seed: u64, out: &mut dyn Write) -> bool {
    let mut r = Rng(seed ^ 0x5eed);
    let thorough = tier == "thorough";
    let n = |q: usize, t: usize| if thorough { t } else { q };
    let protos = [Proto::Bin, Proto::Le, Proto::Cmp, Proto::UBin];
    let bufs = [BufK::Bm, BufK::Lb0, BufK::Lb1, BufK::Bm1];
    match stream {
        "C01" | "C04" => {
            // fixed boundary cases first (do not depend on the seed)
            let mut fixed: Vec<Vec<Val>> = vec![
                vec![Val::Struct(vec![(1, Val::Struct(vec![(5, Val::I32(1))])), (2, Val::Bool(true)), (3, Val::List(TT::Bool, vec![Val::Bool(true), Val::Bool(false)])), (4, Val::Dbl(0x7ff8000000000001))])],
                vec![Val::Struct(vec![(-20000, Val::I8(1)), (20000, Val::I8(2)), (32767, Val::Bool(false)), (-32768, Val::I64(i64::MIN))])],
                vec![Val::Map(TT::Bool, TT::Bool, vec![]), Val::Map(TT::Bool, TT::Bool, vec![(Val::Bool(true), Val::Bool(false))])],
                vec![Val::Dbl(0x400921fb54442d18), Val::Struct(vec![(1, Val::Dbl(0x3ff0000000000001))])],
                vec![Val::Struct(vec![(15, Val::I16(1)), (30, Val::I16(2)), (31, Val::I16(3)), (16, Val::I16(4))])],
            ];
            for k in [0usize, 1, 14, 15, 16, 127, 128] { fixed.push(vec![Val::List(TT::I8, (0..k).map(|i| Val::I8(i as i8)).collect())]); }
            for k in [4095usize, 4096, 4097] { fixed.push(vec![Val::Struct(vec![(1, Val::Bin(vec![0x61; k])), (2, Val::I32(5))])]); }
            for d in [1usize, 8, 40, 80] { fixed.push(vec![gen::ladder(d, 0)]); fixed.push(vec![gen::ladder(d, 1)]); }
            // densest encodings at the very end of the buffer: containers whose elements have their shortest encoding
            // (empty map / list / set / struct / string, bool, i8), alone and as the last field of a struct
            for k in [1usize, 2, 3, 20] {
                let minimal = [Val::Map(TT::I32, TT::Binary, vec![]), Val::List(TT::Bool, vec![]), Val::Set(TT::I64, vec![]), Val::Struct(vec![]), Val::Bin(vec![]), Val::Bool(true), Val::I8(0), Val::I16(0)];
                for m in &minimal {
                    let l = Val::List(m.tt(), vec![m.clone(); k]);
                    fixed.push(vec![l.clone()]);
                    fixed.push(vec![Val::Struct(vec![(1, Val::I32(7)), (2, l.clone())])]);
                    fixed.push(vec![Val::Map(TT::I8, m.tt(), (0..k).map(|i| (Val::I8(i as i8), m.clone())).collect())]);
                    if k <= 2 { fixed.push(vec![Val::Map(m.tt(), m.tt(), vec![(m.clone(), m.clone())])]); }
                }
            }
            let mut emit = |vals: &[Val], r: &mut Rng, all: bool| {
                let vs: Vec<String> = vals.iter().map(|v| v.sexp()).collect();
                let vs = vs.join(" ");
                let big = vs.len() > 8000;       // a payload around the zero-copy threshold: every string API on every buffer
                for p in protos {
                    let apis: &[&str] = if p == Proto::Cmp { &["b", "v", "f", "s"] } else { &["b", "v", "f", "r", "s"] };
                    if stream == "C04" {
                        if p != Proto::UBin { let _ = writeln!(out, "l {} {}", p.name(), vs); }
                        // the size as each writer itself reports it: own length machine, either zero-copy flag, every string API
                        if all { for zc in ["0", "1"] { for api in apis { let _ = writeln!(out, "lz {} {} {} {}", p.name(), zc, api, vs); } } }
                        else { let _ = writeln!(out, "lz {} {} {} {}", p.name(), r.pick(&["0", "1"]), r.pick(apis), vs); }
                    }
                    for b in bufs {
                        if !all && !r.chance(1, 2) { continue; }
                        if big && all { for api in apis { let _ = writeln!(out, "rt {} {} {} {}", p.name(), b.name(), api, vs); } continue; }
                        let api = *r.pick(apis);
                        let _ = writeln!(out, "rt {} {} {} {}", p.name(), b.name(), api, vs);
                        if b == BufK::Bm && p != Proto::UBin { let _ = writeln!(out, "w {} {} {} {}", p.name(), b.name(), api, vs); }
                    }
                }
            };
            for f in &fixed { emit(f, &mut r, true); }
            for _ in 0..n(150, 4000) {
                let k = 1 + r.below(3) as usize;
                let vals: Vec<Val> = (0..k).map(|_| gen::gen_any(&mut r, 5)).collect();
                emit(&vals, &mut r, false);
            }
            // the runtime's own Message impl (ApplicationException) through size / encode / decode / decode_async, at top level and
            // nested as a struct field under ids on both sides of the compact short-delta window
            for p in [Proto::Bin, Proto::Le, Proto::Cmp] { for b in ["bm", "lb1"] {
                for (mi, m) in [&b""[..], b"x", b"general remote error", &[b'e'; 200][..], &[b'z'; 5000][..]].iter().enumerate() {
                    for (ki, kind) in [0i32, 1, 6, 10, -1, i32::MIN].iter().enumerate() {
                        if (mi + ki) % 2 == 1 && !thorough { continue; }
                        let _ = writeln!(out, "axm {} {} {} {} -", p.name(), b, hex(m), kind);
                        for oid in [2i16, 5, 16, 200, 32766, -3] { if (mi + ki + (oid as i32 + 40000) as usize) % 3 == 0 || thorough { let _ = writeln!(out, "axm {} {} {} {} {}", p.name(), b, hex(m), kind, oid); } }
                    }
                }
            } }
            for _ in 0..n(40, 400) {
                let name: Vec<u8> = (0..r.below(12)).map(|_| b'a' + r.below(26) as u8).collect();
                let seq = match r.below(6) { 0 => 0, 1 => i32::MAX, 2 => i32::MIN, 3 => -1, 4 => -(r.below(300) as i32), _ => r.next() as i32 };
                let _ = writeln!(out, "m {} {} {} {}", r.pick(&protos).name(), hex(&name), 1 + r.below(4), seq);
            }
        }
        _ => return false,
    }
    true
}

