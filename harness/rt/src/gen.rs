//! Structured value generators (DESIGN.md section 7).
use crate::val::*;

pub const I64_EDGES: [i64; 22] = [0, 1, -1, 2, -2, 63, 64, -64, -65, 127, 128, -128, -129, 8191, 8192, -8192, -8193,
    i32::MAX as i64, i32::MIN as i64, i64::MAX, i64::MIN, 1 << 62];
pub const DBL_EDGES: [u64; 10] = [0, 0x8000000000000000, 0x7ff0000000000000, 0xfff0000000000000, 0x7ff8000000000001,
    0xfff4000000000123, 1, 0x000fffffffffffff, 0x3ff0000000000000, 0x402abd70a3d70a3d];

pub fn gen_i64(r: &mut Rng) -> i64 {
    match r.below(4) {
        0 => *r.pick(&I64_EDGES),
        1 => { let k = r.below(63); let b = 1i64 << k; let d = r.below(3) as i64 - 1; let s = if r.chance(1, 2) { -1 } else { 1 }; s * (b.wrapping_add(d)) }
        2 => r.below(300) as i64 - 150,
        _ => r.next() as i64,
    }
}
fn clamp(n: i64, bits: u32) -> i64 {
    let m = 1i64 << (bits - 1);
    if n >= m || n < -m { ((n as i128).rem_euclid(1i128 << bits) as i64).wrapping_sub(if (n as i128).rem_euclid(1i128 << bits) >= m as i128 { 1i64 << bits } else { 0 }) } else { n }
}
pub fn gen_leaf(r: &mut Rng, tt: TT) -> Val {
    match tt {
        TT::Bool => Val::Bool(r.chance(1, 2)),
        TT::I8 => Val::I8(clamp(gen_i64(r), 8) as i8),
        TT::I16 => Val::I16(clamp(gen_i64(r), 16) as i16),
        TT::I32 => Val::I32(clamp(gen_i64(r), 32) as i32),
        TT::I64 => Val::I64(gen_i64(r)),
        TT::Double => Val::Dbl(if r.chance(1, 2) { *r.pick(&DBL_EDGES) } else { r.next() }),
        TT::Binary => {
            let n = match r.below(40) { 0 => 127, 1 => 128, 2 => 4095, 3 => 4096, 4 => 4097, 5 => 16384, 6 | 7 => 0, _ => r.below(12) } as usize;
            let seed = r.next();
            Val::Bin((0..n).map(|i| (seed.wrapping_mul(i as u64 + 1) >> 7) as u8).collect())
        }
        TT::Uuid => { let mut u = [0u8; 16]; for b in u.iter_mut() { *b = r.next() as u8; } Val::Uuid(u) }
        _ => unreachable!(),
    }
}
const LEAVES: [TT; 8] = [TT::Bool, TT::I8, TT::I16, TT::I32, TT::I64, TT::Double, TT::Binary, TT::Uuid];
const CONTAINERS: [TT; 4] = [TT::Struct, TT::List, TT::Set, TT::Map];

pub fn gen_tt(r: &mut Rng, depth: usize) -> TT {
    if depth == 0 || r.chance(3, 5) { *r.pick(&LEAVES) } else { *r.pick(&CONTAINERS) }
}
fn gen_count(r: &mut Rng, leafy: bool) -> usize {
    match r.below(24) {
        0 | 1 | 2 => 0, 3 | 4 | 5 => 1, 6 => 14, 7 => 15, 8 => 16,
        9 if leafy => 127, 10 if leafy => 128,
        _ => r.below(5) as usize,
    }
}
pub fn gen_ids(r: &mut Rng, n: usize) -> Vec<i16> {
    let mut ids = Vec::with_capacity(n);
    let mode = r.below(7);
    let mut cur: i32 = match mode { 3 => 32767, 4 => -5, _ => 0 };
    for i in 0..n {
        let id: i32 = match mode {
            0 => { cur += 1; cur }                                         // dense ascending
            1 => { cur += 1 + r.below(20) as i32; cur }                    // ascending, gaps around 15
            2 => { cur += [1, 14, 15, 16, 100, 4000][r.below(6) as usize]; cur }
            3 => { cur -= 1 + r.below(3) as i32 * 7; cur }                 // descending from i16::MAX
            4 => { cur += r.below(4) as i32; cur }                         // negative through zero, repeats
            5 => *r.pick(&[1i32, 2, 15, 16, 17, 32767, -32768, -1, 0, 20000, -20000, 32766]),
            _ => (r.next() as i16) as i32,
        };
        let _ = i;
        ids.push(id.clamp(-32768, 32767) as i16);
    }
    ids
}
pub fn gen_val(r: &mut Rng, tt: TT, depth: usize) -> Val {
    match tt {
        TT::Struct => {
            let n = if depth == 0 { 0 } else { match r.below(10) { 0 => 0, 1 => 1, _ => 1 + r.below(6) as usize } };
            let ids = gen_ids(r, n);
            Val::Struct(ids.into_iter().map(|id| { let t = gen_tt(r, depth - 1); (id, gen_val(r, t, depth - 1)) }).collect())
        }
        TT::List | TT::Set => {
            let et = if depth == 0 { *r.pick(&LEAVES) } else { gen_tt(r, depth - 1) };
            let leafy = matches!(et, TT::Bool | TT::I8 | TT::I16 | TT::I32 | TT::I64 | TT::Double);
            let n = gen_count(r, leafy);
            let xs = (0..n).map(|_| gen_val(r, et, depth.saturating_sub(1))).collect();
            if tt == TT::List { Val::List(et, xs) } else { Val::Set(et, xs) }
        }
        TT::Map => {
            let kt = if depth == 0 || r.chance(4, 5) { *r.pick(&LEAVES) } else { gen_tt(r, depth - 1) };
            let vt = if depth == 0 { *r.pick(&LEAVES) } else { gen_tt(r, depth - 1) };
            let leafy = matches!(kt, TT::Bool | TT::I8 | TT::I16 | TT::I32 | TT::I64) && matches!(vt, TT::Bool | TT::I8 | TT::I16 | TT::I32 | TT::I64 | TT::Double);
            let n = gen_count(r, leafy);
            Val::Map(kt, vt, (0..n).map(|_| (gen_val(r, kt, depth.saturating_sub(1)), gen_val(r, vt, depth.saturating_sub(1)))).collect())
        }
        t => gen_leaf(r, t),
    }
}
/// a value of random type and depth
pub fn gen_any(r: &mut Rng, max_depth: usize) -> Val {
    let d = r.below(max_depth as u64 + 1) as usize;
    let tt = if d == 0 { *r.pick(&LEAVES) } else if r.chance(1, 2) { TT::Struct } else { *r.pick(&CONTAINERS) };
    gen_val(r, tt, d)
}
/// nesting ladder: `depth` nested containers around a leaf (kind cycles struct/list/map/set)
/// nesting that goes through map KEYS (kind 0: every level; 1: alternating with lists; 2: alternating with structs and map values)
pub fn ladder_keys(depth: usize, kind: usize) -> Val {
    let mut v = Val::I32(7);
    for i in 0..depth {
        let through_key = match kind { 0 => true, 1 => i % 2 == 0, _ => i % 3 == 0 };
        v = if through_key { Val::Map(v.tt(), TT::I8, vec![(v, Val::I8(1))]) }
            else if kind == 1 { Val::List(v.tt(), vec![v]) }
            else if i % 3 == 1 { Val::Struct(vec![(1, v)]) }
            else { Val::Map(TT::I8, v.tt(), vec![(Val::I8(1), v)]) };
    }
    v
}

pub fn ladder(depth: usize, kind: usize) -> Val {
    let mut v = Val::I32(7);
    for i in 0..depth {
        v = match (i + kind) % 4 {
            0 => Val::Struct(vec![(1, v)]),
            1 => Val::List(v.tt(), vec![v]),
            2 => Val::Map(TT::I8, v.tt(), vec![(Val::I8(1), v)]),
            _ => Val::Set(v.tt(), vec![v]),
        };
    }
    v
}
