//! Protobuf runtime verbs and streams (C05, C06, C10, C18).  The code lives in harness/pbshared
//! (shared with the emitted-code runner `pbrun`).
use std::io::Write;

use crate::val::*;
use crate::Oracle;

#[path = "../../pbshared/mod.rs"]
pub mod shared;

pub fn exec(verb: &str, items: &[Sexp], o: &mut Oracle) -> Option<String> {
    if !verb.starts_with("pb") { return None; }
    shared::rtverbs::exec(verb, items, o).or_else(|| shared::adv::exec(verb, items, o)).or_else(|| shared::refcodec::exec(verb, items, o)).or_else(|| shared::msgverbs::exec(verb, items, o))
}

pub fn gen(stream: &str, tier: &str, seed: u64, out: &mut dyn Write) -> bool {
    let thorough = tier == "thorough";
    let mut r = Rng(seed ^ 0x9b0b);
    let mut lines = vec![];
    match stream {
        "C05" => { shared::rtverbs::gen_scalar_level(&mut r, thorough, &mut lines); shared::msgverbs::gen_message_level(&mut r, thorough, &mut lines); shared::adv::gen_wrappers(&mut r, thorough, &mut lines); }
        "C06" => { shared::refcodec::gen_spec_level(&mut r, thorough, &mut lines); }
        "C18" => { shared::msgverbs::gen_merge_level(&mut r, thorough, &mut lines); }
        "C10" => { shared::adv::gen_adversarial(&mut r, thorough, &mut lines); }
        _ => return false,
    }
    for l in lines { let _ = writeln!(out, "{}", l); }
    true
}
