//! Protobuf runtime verbs and streams (C05, C06, C10, C18).
use std::io::Write;

use crate::val::*;
use crate::Oracle;

pub fn exec(_verb: &str, _items: &[Sexp], _o: &mut Oracle) -> Option<String> {
    None
}

pub fn gen(_stream: &str, _tier: &str, _seed: u64, _out: &mut dyn Write) -> bool {
    false
}
