//! Thrift runtime, second part: spec conformance (C03), skip (C07), totality (C09), unchecked codec (C11), async (C12).
use std::io::Write;

use crate::val::*;
use crate::Oracle;

pub fn exec(_verb: &str, _items: &[Sexp], _o: &mut Oracle) -> Option<String> {
    None
}

pub fn gen(_stream: &str, _tier: &str, _seed: u64, _out: &mut dyn Write) -> bool {
    false
}
