//! Track thrift2: skip (C07) and totality of the safe in-memory readers and the skippers (C09).
//!
//! Verbs
//!   skv <proto> <depth|-> <val> <val2|-> <trailing-hex>   encode val (+val2, +trailing), skip val, read val2
//!   sk  <proto> <hex> <step>…                               script of (read tt) / (skip tt) / (skipd tt d) over raw bytes
//!   pfx <proto> <val>                                       every strict prefix of the encoding is rejected (read and skip)
//! protos: bin le cmp (in-memory), ubin (unchecked reader, iterative skipper, `skip_till_depth`),
//!         ubinf (unchecked reader, `skip` after `read_field_begin`), abin acmp (async readers).
use std::alloc::{GlobalAlloc, Layout, System};
use std::future::Future;
use std::io::Write;
use std::pin::Pin;
use std::sync::atomic::{AtomicUsize, Ordering::Relaxed};
use std::sync::Arc;
use std::task::{Context, Poll, Waker};

use bytes::Bytes;
use pilota::thrift::{
    binary_unsafe::TBinaryUnsafeInputProtocol, TAsyncBinaryProtocol, TAsyncCompactProtocol, TAsyncInputProtocol,
    TInputProtocol, ThriftException,
};

use crate::gen;
use crate::thrift::{err_class, read_script, read_val, write_all, BufK, Proto, ReadStep, StrApi};
use crate::val::*;
use crate::Oracle;

// ------------------------------------------------------------------------------------------------
// counting allocator: live bytes, peak, largest single request (C09 allocation oracle)

pub struct CountingAlloc;
static LIVE: AtomicUsize = AtomicUsize::new(0);
static PEAK: AtomicUsize = AtomicUsize::new(0);
static BIGGEST: AtomicUsize = AtomicUsize::new(0);

unsafe impl GlobalAlloc for CountingAlloc {
    unsafe fn alloc(&self, l: Layout) -> *mut u8 {
        BIGGEST.fetch_max(l.size(), Relaxed);
        let p = System.alloc(l);
        if !p.is_null() { let n = LIVE.fetch_add(l.size(), Relaxed) + l.size(); PEAK.fetch_max(n, Relaxed); }
        p
    }
    unsafe fn dealloc(&self, p: *mut u8, l: Layout) { LIVE.fetch_sub(l.size(), Relaxed); System.dealloc(p, l) }
    unsafe fn alloc_zeroed(&self, l: Layout) -> *mut u8 {
        BIGGEST.fetch_max(l.size(), Relaxed);
        let p = System.alloc_zeroed(l);
        if !p.is_null() { let n = LIVE.fetch_add(l.size(), Relaxed) + l.size(); PEAK.fetch_max(n, Relaxed); }
        p
    }
    unsafe fn realloc(&self, p: *mut u8, l: Layout, new: usize) -> *mut u8 {
        BIGGEST.fetch_max(new, Relaxed);
        let q = System.realloc(p, l, new);
        if !q.is_null() {
            if new >= l.size() { let n = LIVE.fetch_add(new - l.size(), Relaxed) + (new - l.size()); PEAK.fetch_max(n, Relaxed); }
            else { LIVE.fetch_sub(l.size() - new, Relaxed); }
        }
        q
    }
}

// Registered as the global allocator by the `rt` BINARY (main.rs), not by this library: other binaries that link
// the library (genrun) install their own; there the counters stay at zero and the allocation oracle is silent.

/// run `f`; returns its result, the peak of live bytes above the level at entry, the largest single request.
fn measured<T>(f: impl FnOnce() -> T) -> (T, usize, usize) {
    let start = LIVE.load(Relaxed);
    PEAK.store(start, Relaxed);
    BIGGEST.store(0, Relaxed);
    let r = f();
    (r, PEAK.load(Relaxed).saturating_sub(start), BIGGEST.load(Relaxed))
}

// ------------------------------------------------------------------------------------------------
// a hand-rolled executor and an AsyncRead over a byte vector whose position can be observed

thread_local! {
    /// polls granted to one future (raised for long inputs delivered in small chunks with spurious wake-ups)
    static POLL_BUDGET: std::cell::Cell<usize> = std::cell::Cell::new(4096);
    /// set when an async script gave different answers under different delivery schedules
    static CHUNK_DIFF: std::cell::RefCell<Option<String>> = std::cell::RefCell::new(None);
}

fn block_on<F: Future>(f: F) -> Option<F::Output> {
    let mut f = Box::pin(f);
    let mut cx = Context::from_waker(Waker::noop());
    for _ in 0..POLL_BUDGET.with(|b| b.get()) { if let Poll::Ready(x) = f.as_mut().poll(&mut cx) { return Some(x); } }
    None
}

/// delivery schedules every async script is run under: (bytes per read, a Pending before every read)
const SCHEDULES: [(usize, bool); 4] = [(usize::MAX, false), (1, false), (3, true), (4093, true)];

/// run `f` under every schedule; the answer is the one of the first schedule (everything at once), a different answer under
/// another schedule is recorded for the oracle (C07 / C09 / C12: the outcome must not depend on how the stream delivers the bytes)
fn under_schedules<T: PartialEq + std::fmt::Debug>(input: &[u8], mut f: impl FnMut(SliceRead, &Arc<AtomicUsize>) -> T) -> T {
    let mut first: Option<T> = None;
    for (chunk, pend) in SCHEDULES {
        if first.is_some() && input.len() > 20000 && chunk < 1000 { continue; }
        POLL_BUDGET.with(|b| b.set(4096 + 4 * input.len()));
        let pos = Arc::new(AtomicUsize::new(0));
        let rd = SliceRead { data: input.to_vec(), pos: pos.clone(), chunk, pend, flip: false };
        let r = f(rd, &pos);
        POLL_BUDGET.with(|b| b.set(4096));
        match &first {
            None => first = Some(r),
            Some(a) => if *a != r {
                let msg = format!("chunk={} pending={}: {:?} but all at once: {:?}", chunk, pend, r, a);
                CHUNK_DIFF.with(|c| { let mut c = c.borrow_mut(); if c.is_none() { *c = Some(msg.chars().take(400).collect()); } });
            }
        }
    }
    first.unwrap()
}

pub struct SliceRead { data: Vec<u8>, pos: Arc<AtomicUsize>, chunk: usize, pend: bool, flip: bool }
impl tokio::io::AsyncRead for SliceRead {
    fn poll_read(self: Pin<&mut Self>, _cx: &mut Context<'_>, buf: &mut tokio::io::ReadBuf<'_>) -> Poll<std::io::Result<()>> {
        let me = self.get_mut();
        if me.pend && !me.flip { me.flip = true; return Poll::Pending; }
        me.flip = false;
        let p = me.pos.load(Relaxed);
        let n = buf.remaining().min(me.data.len() - p).min(me.chunk);
        buf.put_slice(&me.data[p..p + n]);
        me.pos.store(p + n, Relaxed);
        Poll::Ready(Ok(()))
    }
}

/// the dynamic reading interpreter over the async reader traits.
fn aread_val<'a, P: TAsyncInputProtocol>(p: &'a mut P, tt: TT) -> Pin<Box<dyn Future<Output = Result<Val, ThriftException>> + Send + 'a>> {
    Box::pin(async move {
        Ok(match tt {
            TT::Bool => Val::Bool(p.read_bool().await?),
            TT::I8 => Val::I8(p.read_i8().await?),
            TT::I16 => Val::I16(p.read_i16().await?),
            TT::I32 => Val::I32(p.read_i32().await?),
            TT::I64 => Val::I64(p.read_i64().await?),
            TT::Double => Val::Dbl(p.read_double().await?.to_bits()),
            TT::Binary => Val::Bin(p.read_bytes_vec().await?),
            TT::Uuid => Val::Uuid(p.read_uuid().await?),
            TT::Struct => {
                p.read_struct_begin().await?;
                let mut fs = vec![];
                loop {
                    let f = p.read_field_begin().await?;
                    if f.field_type == pilota::thrift::TType::Stop { break; }
                    let v = aread_val(p, TT::of_p(f.field_type)).await?;
                    p.read_field_end().await?;
                    fs.push((f.id.unwrap_or(0), v));
                }
                p.read_struct_end().await?;
                Val::Struct(fs)
            }
            TT::List | TT::Set => {
                let (et, n) = if tt == TT::List { let l = p.read_list_begin().await?; (l.element_type, l.size) } else { let l = p.read_set_begin().await?; (l.element_type, l.size) };
                let et = TT::of_p(et);
                let mut xs = vec![];
                for _ in 0..n { xs.push(aread_val(p, et).await?); }
                if tt == TT::List { p.read_list_end().await?; Val::List(et, xs) } else { p.read_set_end().await?; Val::Set(et, xs) }
            }
            TT::Map => {
                let m = p.read_map_begin().await?;
                let (kt, vt) = (TT::of_p(m.key_type), TT::of_p(m.value_type));
                let mut kvs = vec![];
                for _ in 0..m.size { let k = aread_val(p, kt).await?; let v = aread_val(p, vt).await?; kvs.push((k, v)); }
                p.read_map_end().await?;
                Val::Map(kt, vt, kvs)
            }
            TT::Stop | TT::Void => return Err(pilota::thrift::new_protocol_exception(pilota::thrift::ProtocolExceptionKind::InvalidData, "cannot read stop/void")),
        })
    })
}

// ------------------------------------------------------------------------------------------------

#[derive(Clone, Copy, PartialEq, Debug)]
pub enum SP { Bin, Le, Cmp, UBin, UBinF, ABin, ACmp }
impl SP {
    pub const ALL: [SP; 7] = [SP::Bin, SP::Le, SP::Cmp, SP::UBin, SP::UBinF, SP::ABin, SP::ACmp];
    pub const SAFE: [SP; 5] = [SP::Bin, SP::Le, SP::Cmp, SP::ABin, SP::ACmp];
    pub fn of(s: &str) -> Option<SP> { SP::ALL.iter().copied().find(|p| p.name() == s) }
    pub fn name(self) -> &'static str { match self { SP::Bin => "bin", SP::Le => "le", SP::Cmp => "cmp", SP::UBin => "ubin", SP::UBinF => "ubinf", SP::ABin => "abin", SP::ACmp => "acmp" } }
    /// the writer whose bytes this reader reads
    pub fn family(self) -> Proto { match self { SP::Le => Proto::Le, SP::Cmp | SP::ACmp => Proto::Cmp, _ => Proto::Bin } }
    pub fn compact(self) -> bool { matches!(self, SP::Cmp | SP::ACmp) }
    pub fn recursive(self) -> bool { !matches!(self, SP::UBin | SP::UBinF) }
}

pub fn enc_for(p: SP, v: &Val) -> Vec<u8> {
    write_all(p.family(), BufK::Bm, StrApi::Bytes, std::slice::from_ref(v)).expect("writer").bytes
}

pub struct ScriptOut { pub items: Vec<String>, pub rem: usize, pub err: Option<&'static str>, pub hung: bool }

fn run_async<P: TAsyncInputProtocol>(p: &mut P, pos: &AtomicUsize, script: &[ReadStep], items: &mut Vec<String>, err: &mut Option<&'static str>) -> bool {
    let fut = async {
        for st in script {
            let before = pos.load(Relaxed);
            let r = match st {
                ReadStep::Read(tt) => aread_val(p, *tt).await.map(|v| v.sexp()),
                ReadStep::Skip(tt) => p.skip(tt.to_p()).await.map(|_| (pos.load(Relaxed) - before).to_string()),
                ReadStep::SkipDepth(tt, d) => p.skip_till_depth(tt.to_p(), *d).await.map(|_| (pos.load(Relaxed) - before).to_string()),
            };
            match r { Ok(s) => items.push(s), Err(e) => { *err = Some(err_class(&e)); return; } }
        }
    };
    block_on(fut).is_some()
}

/// run a script on ONE reader instance of kind `p` over `input`.
pub fn run_script(p: SP, input: &[u8], script: &[ReadStep]) -> ScriptOut {
    match p {
        SP::Bin | SP::Le | SP::Cmp => {
            let r = read_script(p.family(), input, script);
            ScriptOut { items: r.items, rem: r.rem, err: r.err, hung: false }
        }
        SP::UBin => {
            // the unchecked reader's `skip` presupposes a field header just read; scripts call the loop directly
            let script: Vec<ReadStep> = script.iter().map(|s| match s { ReadStep::Skip(t) => ReadStep::SkipDepth(*t, 64), ReadStep::Read(t) => ReadStep::Read(*t), ReadStep::SkipDepth(t, d) => ReadStep::SkipDepth(*t, *d) }).collect();
            let r = read_script(Proto::UBin, input, &script);
            ScriptOut { items: r.items, rem: r.rem, err: r.err, hung: false }
        }
        SP::UBinF => {
            // every skip step is preceded by a synthetic field header, read with read_field_begin, then `skip`
            let mut data = Vec::with_capacity(input.len() + 3 * script.len());
            let mut first = true;
            for st in script {
                if let (ReadStep::Skip(t) | ReadStep::SkipDepth(t, _), true) = (st, first) { data.push(t.to_p() as u8); data.extend_from_slice(&[0, 1]); first = false; }
            }
            data.extend_from_slice(input);
            let mut b = Bytes::from(data);
            let mut items = vec![];
            let mut err = None;
            let mut p = unsafe { TBinaryUnsafeInputProtocol::new(&mut b) };
            let mut first = true;
            for st in script {
                let r = match st {
                    ReadStep::Read(tt) => read_val(&mut p, *tt).map(|v| v.sexp()),
                    ReadStep::Skip(_) | ReadStep::SkipDepth(_, _) if first => { first = false; p.read_field_begin().and_then(|f| p.skip(f.field_type)).map(|n| n.to_string()) }
                    ReadStep::Skip(tt) | ReadStep::SkipDepth(tt, _) => p.skip_till_depth(tt.to_p(), 64).map(|n| n.to_string()),
                };
                match r { Ok(s) => items.push(s), Err(e) => { err = Some(err_class(&e)); break; } }
            }
            let idx = p.index();
            drop(p);
            ScriptOut { items, rem: b.len().wrapping_sub(idx), err, hung: false }
        }
        SP::ABin | SP::ACmp => {
            let (items, rem, err, hung) = under_schedules(input, |rd, pos| {
                let mut items = vec![];
                let mut err = None;
                let done = if p == SP::ABin { let mut pr = TAsyncBinaryProtocol::new(rd); run_async(&mut pr, pos, script, &mut items, &mut err) }
                           else { let mut pr = TAsyncCompactProtocol::new(rd); run_async(&mut pr, pos, script, &mut items, &mut err) };
                (items, input.len() - pos.load(Relaxed), err, !done)
            });
            ScriptOut { items, rem, err, hung }
        }
    }
}

fn steps_of(xs: &[Sexp]) -> Option<Vec<ReadStep>> {
    xs.iter().map(|x| {
        let l = x.list()?;
        let tt = TT::of_name(l.get(1)?.atom()?)?;
        Some(match l.first()?.atom()? {
            "read" => ReadStep::Read(tt),
            "skip" => ReadStep::Skip(tt),
            "skipd" => ReadStep::SkipDepth(tt, l.get(2)?.atom()?.parse().ok()?),
            _ => return None,
        })
    }).collect()
}

/// field-by-field decode of a struct, skipping field number `k`: (reported count, bytes the reader moved, struct of the other fields, remaining)
fn skip_field(p: SP, input: &[u8], k: usize) -> Result<(Option<usize>, Option<usize>, String, usize), &'static str> {
    fn sync<P: TInputProtocol>(pr: &mut P, k: usize, pos: &dyn Fn(&mut P) -> usize) -> Result<(Option<usize>, Option<usize>, String), ThriftException> {
        pr.read_struct_begin()?;
        let (mut fs, mut count, mut moved, mut i) = (vec![], None, None, 0usize);
        loop {
            let f = pr.read_field_begin()?;
            if f.field_type == pilota::thrift::TType::Stop { break; }
            if i == k { let before = pos(pr); count = Some(pr.skip(f.field_type)?); moved = Some(before - pos(pr)); }
            else { fs.push((f.id.unwrap_or(0), read_val(pr, TT::of_p(f.field_type))?)); }
            pr.read_field_end()?;
            i += 1;
        }
        pr.read_struct_end()?;
        Ok((count, moved, Val::Struct(fs).sexp()))
    }
    async fn asyn<P: TAsyncInputProtocol>(pr: &mut P, k: usize, pos: &AtomicUsize) -> Result<(Option<usize>, Option<usize>, String), ThriftException> {
        pr.read_struct_begin().await?;
        let (mut fs, mut count, mut i) = (vec![], None, 0usize);
        loop {
            let f = pr.read_field_begin().await?;
            if f.field_type == pilota::thrift::TType::Stop { break; }
            if i == k { let before = pos.load(Relaxed); pr.skip(f.field_type).await?; count = Some(pos.load(Relaxed) - before); }
            else { fs.push((f.id.unwrap_or(0), aread_val(pr, TT::of_p(f.field_type)).await?)); }
            pr.read_field_end().await?;
            i += 1;
        }
        pr.read_struct_end().await?;
        Ok((count, count, Val::Struct(fs).sexp()))
    }
    let mut b = Bytes::copy_from_slice(input);
    let r = match p {
        SP::Bin => { let mut pr = pilota::thrift::binary::TBinaryProtocol::new(&mut b, false); let r = sync(&mut pr, k, &|q| q.buf().len()); drop(pr); r.map(|x| (x, b.len())) }
        SP::Le => { let mut pr = pilota::thrift::binary_le::TBinaryProtocol::new(&mut b, false); let r = sync(&mut pr, k, &|q| q.buf().len()); drop(pr); r.map(|x| (x, b.len())) }
        SP::Cmp => { let mut pr = pilota::thrift::compact::TCompactInputProtocol::new(&mut b); let r = sync(&mut pr, k, &|q| q.buf().len()); drop(pr); r.map(|x| (x, b.len())) }
        SP::UBin | SP::UBinF => {
            let mut pr = unsafe { TBinaryUnsafeInputProtocol::new(&mut b) };
            let r = sync(&mut pr, k, &|q| { let i = q.index(); q.buf().len() - i });
            let idx = pr.index(); drop(pr);
            r.map(|x| (x, b.len().wrapping_sub(idx)))
        }
        SP::ABin | SP::ACmp => {
            let r = under_schedules(input, |rd, pos| {
                let r = if p == SP::ABin { let mut pr = TAsyncBinaryProtocol::new(rd); block_on(asyn(&mut pr, k, pos)) } else { let mut pr = TAsyncCompactProtocol::new(rd); block_on(asyn(&mut pr, k, pos)) };
                match r { Some(r) => Some(r.map(|x| (x, input.len() - pos.load(Relaxed))).map_err(|e| err_class(&e))), None => None }
            });
            match r { Some(Ok(x)) => return Ok((x.0.0, x.0.1, x.0.2, x.1)), Some(Err(c)) => return Err(c), None => return Err("hung") }
        }
    };
    match r { Ok(((c, m, s), rem)) => Ok((c, m, s, rem)), Err(e) => Err(err_class(&e)) }
}

/// allocation bound of the C09 oracle: live bytes above the level at entry
fn alloc_bound(input_len: usize) -> usize { 512 * input_len + (256 << 10) }

pub fn exec(verb: &str, items: &[Sexp], o: &mut Oracle) -> Option<String> {
    CHUNK_DIFF.with(|c| *c.borrow_mut() = None);
    let r = exec_inner(verb, items, o);
    if let Some(d) = CHUNK_DIFF.with(|c| c.borrow_mut().take()) { o.fail("C07,C09,C12", format!("async outcome depends on the delivery schedule: {}", d)); }
    r
}

fn exec_inner(verb: &str, items: &[Sexp], o: &mut Oracle) -> Option<String> {
    let a = |i: usize| items.get(i).and_then(|x| x.atom());
    Some(match verb {
        "skv" => {
            let (Some(p), Some(d), Some(v), Some(tr)) = (a(1).and_then(SP::of), a(2), items.get(3).and_then(Val::of_sexp), a(5).and_then(unhex)) else { return Some("bad-request".into()) };
            let d: Option<i8> = if d == "-" { None } else { match d.parse() { Ok(x) => Some(x), Err(_) => return Some("bad-request".into()) } };
            let v2 = match items.get(4) { Some(Sexp::Atom(s)) if s == "-" => None, Some(x) => match Val::of_sexp(x) { Some(v) => Some(v), None => return Some("bad-request".into()) }, None => return Some("bad-request".into()) };
            let e1 = enc_for(p, &v);
            let mut input = e1.clone();
            if let Some(w) = &v2 { input.extend(enc_for(p, w)); }
            input.extend(&tr);
            let mut script = vec![match d { None => ReadStep::Skip(v.tt()), Some(d) => ReadStep::SkipDepth(v.tt(), d) }];
            if let Some(w) = &v2 { script.push(ReadStep::Read(w.tt())); }
            let t0 = std::time::Instant::now();
            let r = run_script(p, &input, &script);
            if t0.elapsed().as_secs() >= 5 { o.fail("C07,C09", format!("skip took {:?}", t0.elapsed())); }
            if r.hung { o.fail("C07,C09", "async skip stayed pending on a fully delivered stream".into()); }
            // ---- oracle (C07)
            let need = v.depth() as i32;
            let budget = d.map(|x| x as i32).unwrap_or(64);
            let expect_ok = !p.recursive() || (budget >= need) || (budget < 0 && need <= 100);
            if expect_ok {
                match r.err {
                    Some(c) if r.items.is_empty() => o.fail("C07", format!("skip of a well-formed value (nesting {}, budget {}) failed: {}", need, budget, c)),
                    Some(c) => o.fail("C07", format!("value after the skipped one failed to read: {}", c)),
                    None => {
                        if r.items[0] != e1.len().to_string() { o.fail("C07", format!("skip reported {} but the value is {} bytes", r.items[0], e1.len())); }
                        if r.rem != tr.len() { o.fail("C07", format!("{} bytes left, trailing data is {} bytes", r.rem, tr.len())); }
                        if let Some(w) = &v2 {
                            let want = if p.compact() { w.norm_compact().sexp() } else { w.sexp() };
                            if r.items[1] != want { o.fail("C07", format!("value after the skipped one read as {} expected {}", r.items[1], want)); }
                        }
                    }
                }
            } else if !(r.err == Some("depth") && r.items.is_empty()) {
                o.fail("C07", format!("nesting {} with budget {} not refused with a depth-limit error: {:?} {:?}", need, budget, r.err, r.items));
            }
            match (r.err, r.items.len()) {
                (None, 1) => format!("ok {} - rem={} len={}", r.items[0], r.rem, e1.len()),
                (None, _) => format!("ok {} {} rem={} len={}", r.items[0], r.items[1], r.rem, e1.len()),
                (Some(c), 0) => c.to_string(),
                (Some(c), _) => format!("{} after-skip {}", c, r.items[0]),
            }
        }
        "skf" => {
            // decode a struct field by field on one reader instance, skipping field number k (0-based) and reading the others
            let (Some(p), Some(v), Some(k)) = (a(1).and_then(SP::of), items.get(2).and_then(Val::of_sexp), a(3).and_then(|x| x.parse::<usize>().ok())) else { return Some("bad-request".into()) };
            let Val::Struct(fields) = &v else { return Some("bad-request".into()) };
            let e = enc_for(p, &v);
            let r = skip_field(p, &e, k);
            // ---- oracle (C07): the other fields come out as written (ids included), nothing is left, count = bytes moved
            let mut want: Vec<(i16, Val)> = fields.clone();
            if k < want.len() { want.remove(k); }
            let want = Val::Struct(want);
            let want = if p.compact() { want.norm_compact().sexp() } else { want.sexp() };
            match &r {
                Ok((count, moved, got, rem)) => {
                    if *got != want { o.fail("C07", format!("after skipping field {} the struct read as {} expected {}", k, got, want)); }
                    if *rem != 0 { o.fail("C07", format!("{} bytes left after the struct", rem)); }
                    if let (Some(c), Some(m)) = (count, moved) { if c != m { o.fail("C07", format!("skip reported {} but the reader moved {} bytes", c, m)); } }
                    if k < fields.len() && count.is_none() { o.fail("C07", "field was not skipped".into()); }
                }
                Err(c) => o.fail("C07", format!("decoding a well-formed struct while skipping field {} failed: {}", k, c)),
            }
            match r {
                Ok((count, _, got, rem)) => format!("ok {} {} rem={}", count.map(|c| c.to_string()).unwrap_or("-".into()), got, rem),
                Err(c) => c.to_string(),
            }
        }
        "skfx" => {
            // the same on GIVEN bytes (a reference encoding of the struct in any of its legal forms): a reader that knows every field
            // but number k decodes spec-conforming bytes to the value without that field
            let (Some(p), Some(v), Some(k), Some(e)) = (a(1).and_then(SP::of), items.get(2).and_then(Val::of_sexp), a(3).and_then(|x| x.parse::<usize>().ok()), a(4).and_then(unhex)) else { return Some("bad-request".into()) };
            let Val::Struct(fields) = &v else { return Some("bad-request".into()) };
            let r = skip_field(p, &e, k);
            let mut want: Vec<(i16, Val)> = fields.clone();
            if k < want.len() { want.remove(k); }
            let want = Val::Struct(want);
            let want = if p.compact() { want.norm_compact().sexp() } else { want.sexp() };
            match &r {
                Ok((count, moved, got, rem)) => {
                    if *got != want { o.fail("C03,C07", format!("reference bytes, field {} skipped: the struct read as {} expected {}", k, got, want)); }
                    if *rem != 0 { o.fail("C03,C07", format!("{} bytes left after the struct", rem)); }
                    if let (Some(c), Some(m)) = (count, moved) { if c != m { o.fail("C07", format!("skip reported {} but the reader moved {} bytes", c, m)); } }
                }
                Err(c) => o.fail("C03,C07", format!("decoding reference bytes of a struct while skipping field {} failed: {}", k, c)),
            }
            match r {
                Ok((count, _, got, rem)) => format!("ok {} {} rem={}", count.map(|c| c.to_string()).unwrap_or("-".into()), got, rem),
                Err(c) => c.to_string(),
            }
        }
        "sk" => {
            let (Some(p), Some(input)) = (a(1).and_then(SP::of), a(2).and_then(unhex)) else { return Some("bad-request".into()) };
            let Some(script) = steps_of(&items[3..]) else { return Some("bad-request".into()) };
            let t0 = std::time::Instant::now();
            let (r, peak, biggest) = measured(|| run_script(p, &input, &script));
            if t0.elapsed().as_secs() >= 5 { o.fail("C09", format!("took {:?} on {} input bytes", t0.elapsed(), input.len())); }
            if r.hung { o.fail("C09", "async reader stayed pending on a fully delivered stream".into()); }
            if peak > alloc_bound(input.len()) { o.fail("C09", format!("peak allocation {} bytes (largest request {}) on {} input bytes", peak, biggest, input.len())); }
            match r.err { Some(c) => format!("{} after={}", c, r.items.len()), None => format!("ok {} rem={}", r.items.join(" "), r.rem) }
        }
        "pfx" => {
            let (Some(p), Some(v)) = (a(1).and_then(SP::of), items.get(2).and_then(Val::of_sexp)) else { return Some("bad-request".into()) };
            if !p.recursive() { return Some("bad-request".into()) }
            let e = enc_for(p, &v);
            let (mut rd, mut sk) = (0usize, 0usize);
            for k in 0..e.len() {
                let (r, peak, _) = measured(|| run_script(p, &e[..k], &[ReadStep::Read(v.tt())]));
                if r.err.is_some() { rd += 1; } else { o.fail("C09", format!("strict prefix of {} of {} bytes accepted by read: {}", k, e.len(), r.items.join(" "))); }
                if peak > alloc_bound(k) { o.fail("C09", format!("peak allocation {} bytes on a {}-byte prefix", peak, k)); }
                let r = run_script(p, &e[..k], &[ReadStep::Skip(v.tt())]);
                if r.err.is_some() { sk += 1; } else { o.fail("C09,C07", format!("strict prefix of {} of {} bytes accepted by skip", k, e.len())); }
            }
            format!("ok len={} read_rejected={} skip_rejected={}", e.len(), rd, sk)
        }
        _ => return None,
    })
}

// ------------------------------------------------------------------------------------------------
// generators

/// the kinds of `TOutputProtocol` calls `thrift::write_val` makes for a value, in the order of its `mark` calls.
#[derive(Clone, Copy, PartialEq, Debug)]
enum OpK { Leaf, Bytes, StructBegin, FieldBegin, FieldEnd, FieldStop, StructEnd, CollBegin, MapBegin, CollEnd }

fn op_kinds(v: &Val, out: &mut Vec<OpK>) {
    match v {
        Val::Bin(_) => out.push(OpK::Bytes),
        Val::Struct(fs) => {
            out.push(OpK::StructBegin);
            for (_, f) in fs { out.push(OpK::FieldBegin); op_kinds(f, out); out.push(OpK::FieldEnd); }
            out.push(OpK::FieldStop); out.push(OpK::StructEnd);
        }
        Val::List(_, xs) | Val::Set(_, xs) => { out.push(OpK::CollBegin); for x in xs { op_kinds(x, out); } out.push(OpK::CollEnd); }
        Val::Map(_, _, kvs) => { out.push(OpK::MapBegin); for (k, x) in kvs { op_kinds(k, out); op_kinds(x, out); } out.push(OpK::CollEnd); }
        _ => out.push(OpK::Leaf),
    }
}

fn varint(mut n: u64) -> Vec<u8> { let mut o = vec![]; loop { if n < 128 { o.push(n as u8); return o; } o.push((n as u8 & 0x7f) | 0x80); n >>= 7; } }

/// adversarial variants of one valid encoding: (a) overwrite every type byte position, (b) every
/// length / count / field-id position with boundary integers.  Positions come from the per-call byte
/// counts of the real writer (`Written::per_op`).
fn header_mutations(p: SP, v: &Val, all_types: bool, out: &mut Vec<Vec<u8>>) {
    let w = write_all(p.family(), BufK::Bm, StrApi::Bytes, std::slice::from_ref(v)).expect("writer");
    let mut kinds = vec![];
    op_kinds(v, &mut kinds);
    if kinds.len() != w.per_op.len() { return; }
    let e = &w.bytes;
    let type_bytes: Vec<u8> = if all_types { (0..=255u8).collect() } else { vec![0, 1, 2, 3, 4, 5, 8, 11, 12, 13, 14, 15, 16, 17, 0x1c, 0x19, 0x7f, 0x80, 0x83, 0xf0, 0xf1, 0xf3, 0xfc, 0xff] };
    let mut off = 0usize;
    for (k, n) in kinds.iter().zip(w.per_op.iter()) {
        let (k, n) = (*k, *n);
        let rem_after = |pos: usize| (e.len() - pos) as i64;
        let ints = |rem: i64| -> Vec<i64> { vec![-1, 0, 1, rem - 1, rem, rem + 1, i32::MAX as i64, u32::MAX as i64, i32::MIN as i64] };
        let id_ints: Vec<i64> = vec![-1, 0, 1, 15, 16, 32753, 32766, 32767, -32768];
        let put_int = |out: &mut Vec<Vec<u8>>, pos: usize, width: usize| {
            // fixed-width position (binary protocols)
            for x in if width == 2 { id_ints.clone() } else { ints(rem_after(pos + width)) } {
                let mut m = e.clone();
                let b: Vec<u8> = if width == 4 { if p == SP::Le { (x as i32).to_le_bytes().to_vec() } else { (x as i32).to_be_bytes().to_vec() } }
                                 else if p == SP::Le { (x as i16).to_le_bytes().to_vec() } else { (x as i16).to_be_bytes().to_vec() };
                m[pos..pos + width].copy_from_slice(&b);
                out.push(m);
            }
        };
        let put_var = |out: &mut Vec<Vec<u8>>, pos: usize, len: usize, zigzag: bool| {
            // varint position (compact): splice a new varint in
            for x in if zigzag { id_ints.clone() } else { ints(rem_after(pos + len)) } {
                let raw: u64 = if zigzag { (((x as i64) << 1) ^ ((x as i64) >> 63)) as u64 } else { x as u32 as u64 };
                let mut m = e[..pos].to_vec(); m.extend(varint(raw)); m.extend(&e[pos + len..]); out.push(m);
                if x == -1 { let mut m = e[..pos].to_vec(); m.extend([0xff; 10]); m.push(1); m.extend(&e[pos + len..]); out.push(m); }   // over-long varint
            }
        };
        let put_type = |out: &mut Vec<Vec<u8>>, pos: usize| { for t in &type_bytes { if e[pos] != *t { let mut m = e.clone(); m[pos] = *t; out.push(m); } } };
        if n > 0 {
            if !p.compact() {
                match k {
                    OpK::FieldBegin => { put_type(out, off); put_int(out, off + 1, 2); }
                    OpK::FieldStop => put_type(out, off),
                    OpK::CollBegin => { put_type(out, off); put_int(out, off + 1, 4); }
                    OpK::MapBegin => { put_type(out, off); put_type(out, off + 1); put_int(out, off + 2, 4); }
                    OpK::Bytes => put_int(out, off, 4),
                    _ => {}
                }
            } else {
                match k {
                    // field header (for a bool field the header is written by the bool call: a Leaf of >= 1 byte following FieldBegin of 0 bytes)
                    OpK::FieldBegin => { put_type(out, off); if n > 1 { put_var(out, off + 1, n - 1, true); } }
                    OpK::FieldStop => put_type(out, off),
                    OpK::CollBegin => { put_type(out, off); if n > 1 { put_var(out, off + 1, n - 1, false); } else { let mut m = e[..off].to_vec(); m.push(0xf0 | (e[off] & 0x0f)); for x in ints(rem_after(off + 1)) { let mut mm = m.clone(); mm.extend(varint(x as u32 as u64)); mm.extend(&e[off + 1..]); out.push(mm); } } }
                    OpK::MapBegin => { if n > 1 { put_type(out, off + n - 1); put_var(out, off, n - 1, false); } else { put_var(out, off, 1, false); } }
                    OpK::Bytes => { let mut l = 1; while e[off + l - 1] & 0x80 != 0 { l += 1; } put_var(out, off, l, false); }
                    OpK::Leaf => { put_type(out, off); }   // bool byte / bool field header / first byte of a varint or fixed leaf
                    _ => {}
                }
            }
        }
        off += n;
    }
}

fn fixed_values() -> Vec<Val> {
    let leaf = |t: TT| -> Val { match t {
        TT::Bool => Val::Bool(true), TT::I8 => Val::I8(-3), TT::I16 => Val::I16(300), TT::I32 => Val::I32(-70000), TT::I64 => Val::I64(1 << 40),
        TT::Double => Val::Dbl(0x400921fb54442d18), TT::Binary => Val::Bin(b"hello".to_vec()), TT::Uuid => Val::Uuid([0xab; 16]),
        TT::Struct => Val::Struct(vec![(1, Val::Bool(false)), (2, Val::Bin(vec![1, 2, 3])), (20, Val::I16(-1))]),
        TT::List => Val::List(TT::I32, vec![Val::I32(1), Val::I32(-1)]), TT::Set => Val::Set(TT::Binary, vec![Val::Bin(vec![]), Val::Bin(vec![9])]),
        TT::Map => Val::Map(TT::I8, TT::Binary, vec![(Val::I8(1), Val::Bin(vec![7, 7]))]),
        _ => unreachable!() } };
    let mut vs = vec![];
    for t in TT::VALUE { vs.push(leaf(t)); }
    // every element type x {0, 1, 15, 16} elements, lists and sets
    for t in TT::VALUE { for n in [0usize, 1, 15, 16] {
        vs.push(Val::List(t, (0..n).map(|_| leaf(t)).collect()));
        if n <= 1 { vs.push(Val::Set(t, (0..n).map(|_| leaf(t)).collect())); }
    } }
    // maps: fixed/fixed, fixed/variable, variable/fixed, variable/variable, struct keys and values, uuid
    let pairs = [(TT::I8, TT::I64), (TT::Bool, TT::Bool), (TT::I32, TT::Binary), (TT::Binary, TT::I32), (TT::Binary, TT::List), (TT::Struct, TT::I32), (TT::I8, TT::Struct),
                 (TT::Struct, TT::Struct), (TT::Uuid, TT::Uuid), (TT::Uuid, TT::Map), (TT::Double, TT::Set), (TT::List, TT::Bool), (TT::I16, TT::Uuid)];
    for (k, x) in pairs { for n in [0usize, 1, 2, 15, 16] { vs.push(Val::Map(k, x, (0..n).map(|_| (leaf(k), leaf(x))).collect())); } }
    // structs: every field type, fixed after variable, nested struct ending at a high id then a low sibling id, bool fields
    vs.push(Val::Struct(vec![]));
    vs.push(Val::Struct(TT::VALUE.iter().enumerate().map(|(i, t)| (i as i16 * 3 + 1, leaf(*t))).collect()));
    vs.push(Val::Struct(vec![(1, Val::Struct(vec![(5, Val::I32(1)), (400, Val::Bool(true))])), (2, Val::Bool(true)), (3, Val::List(TT::Bool, vec![Val::Bool(true), Val::Bool(false)])), (4, Val::Uuid([1; 16]))]));
    vs.push(Val::Struct(vec![(-5, Val::List(TT::Struct, vec![Val::Struct(vec![]), Val::Struct(vec![(1, Val::Bool(false))])])), (32767, Val::Map(TT::Struct, TT::List, vec![(Val::Struct(vec![(1, Val::I8(1))]), Val::List(TT::Uuid, vec![Val::Uuid([2; 16])]))]))]));
    vs.push(Val::List(TT::List, vec![Val::List(TT::Map, vec![Val::Map(TT::I8, TT::I8, vec![]), Val::Map(TT::I8, TT::I8, vec![(Val::I8(1), Val::I8(2))])]), Val::List(TT::Map, vec![])]));
    vs.push(Val::Struct(vec![(32760, Val::I8(1)), (32767, Val::Bool(true))]));
    vs.push(Val::Struct(vec![(-32768, Val::I16(-1)), (-32767, Val::Bool(false)), (0, Val::I32(0)), (32766, Val::Struct(vec![(32767, Val::I8(0))])), (32767, Val::I8(1))]));
    vs.push(Val::Bin(vec![0x5a; 300]));
    vs
}

fn emit_skv(out: &mut dyn Write, p: SP, d: Option<i32>, v: &Val, v2: Option<&Val>, tr: &[u8]) {
    let d = d.map(|x| x.to_string()).unwrap_or("-".into());
    let _ = writeln!(out, "skv {} {} {} {} {}", p.name(), d, v.sexp(), v2.map(|w| w.sexp()).unwrap_or("-".into()), hex(tr));
}

pub fn gen(stream: &str, tier: &str, seed: u64, out: &mut dyn Write) -> bool {
    let mut r = Rng(seed ^ 0x7412_0007);
    let thorough = tier == "thorough";
    let n = |q: usize, t: usize| if thorough { t } else { q };
    match stream {
        "C07" => {
            let follow = [Val::I16(7), Val::Struct(vec![(1, Val::Bool(true)), (2, Val::I32(5)), (17, Val::Bool(false))]), Val::Map(TT::Bool, TT::Bool, vec![(Val::Bool(true), Val::Bool(false))]), Val::Bin(vec![1, 2, 3])];
            let trails: [&[u8]; 3] = [&[], &[0xaa, 0xbb], &[0x0c, 0x0f, 0xff, 0x00, 0x7f]];
            // fixed: every shape x every skipper, default budget
            for (i, v) in fixed_values().iter().enumerate() {
                for p in SP::ALL { emit_skv(out, p, None, v, Some(&follow[i % follow.len()]), trails[i % 3]); }
            }
            // field context: decode a struct skipping one field, read its siblings (reader state after the skip)
            let mut structs: Vec<Val> = fixed_values().into_iter().filter(|v| matches!(v, Val::Struct(fs) if !fs.is_empty())).collect();
            structs.push(Val::Struct(vec![(1, Val::Struct(vec![(7, Val::I8(1)), (9, Val::Bool(true))])), (2, Val::Bool(true)), (3, Val::I16(5)), (4, Val::Struct(vec![])), (5, Val::Bool(false)), (30, Val::I64(1)), (31, Val::List(TT::Struct, vec![Val::Struct(vec![(3, Val::I32(1))])]))]));
            structs.push(Val::Struct(vec![(10, Val::Map(TT::I32, TT::Struct, vec![(Val::I32(1), Val::Struct(vec![(100, Val::Bool(true))]))])), (11, Val::Bool(false)), (12, Val::Bin(vec![1, 2, 3])), (-3, Val::Uuid([9; 16])), (-2, Val::Dbl(7))]));
            // a struct-valued field under ids at both ends of the i16 range, several short-delta fields inside it
            for carrier in [32760i16, 32767, -32768, 20000, 255] {
                let inner = Val::Struct((1..=9).map(|i| (i as i16, if i % 3 == 0 { Val::Bool(i % 2 == 0) } else { Val::I8(i as i8) })).collect());
                structs.push(Val::Struct(vec![(3, Val::I16(1)), (carrier, inner.clone()), (if carrier == 32767 { -5 } else { carrier.wrapping_add(1) }, Val::I8(9))]));
                structs.push(Val::Struct(vec![(carrier, Val::List(TT::Struct, vec![inner.clone(), inner.clone()])), (7, Val::Bool(true))]));
            }
            for _ in 0..n(60, 1500) { if let v @ Val::Struct(_) = gen::gen_val(&mut r, TT::Struct, 4) { structs.push(v); } }
            for v in &structs {
                let Val::Struct(fs) = v else { continue };
                for k in 0..fs.len().min(n(8, 64)) { for p in SP::ALL { if p != SP::UBinF { let _ = writeln!(out, "skf {} {} {}", p.name(), v.sexp(), k); } } }
            }
            // ladders: nesting 1..80 around the documented limit, all four container kinds
            let depths: Vec<usize> = if thorough { (1..=80).collect() } else { vec![1, 2, 3, 8, 31, 62, 63, 64, 65, 66, 80] };
            for d in &depths { for kind in 0..7 {
                let v = if kind < 4 { gen::ladder(*d, kind) } else { gen::ladder_keys(*d, kind - 4) };      // nesting need = d + 1 (the leaf)
                for p in SP::ALL {
                    emit_skv(out, p, None, &v, Some(&follow[(d + kind) % follow.len()]), trails[d % 3]);
                    if p.recursive() && (thorough || matches!(d, 1 | 3 | 63 | 64 | 80)) {
                        for b in [0i32, 1, *d as i32, *d as i32 + 1, *d as i32 + 2, 127, -1] { if b <= 127 { emit_skv(out, p, Some(b), &v, None, trails[1]); } }
                    }
                }
            } }
            // element counters: containers of non-fixed-size elements around 2^8 and 2^16 elements (2^15 map entries).  The big ones
            // are oracle-only (count reported = bytes moved = encoded length, the value behind is read back): their request lines use
            // the harness's repeat shorthand and the model is not asked
            for cnt in [255usize, 256, 257] { for p in SP::ALL {
                emit_skv(out, p, None, &Val::List(TT::Binary, vec![Val::Bin(vec![]); cnt]), Some(&follow[1]), trails[1]);
                emit_skv(out, p, None, &Val::Map(TT::I8, TT::Struct, vec![(Val::I8(1), Val::Struct(vec![])); cnt]), Some(&follow[0]), trails[0]);
            } }
            for cnt in [65535usize, 65536, 65537] { for p in SP::ALL {
                let _ = writeln!(out, "skv {} - (replist binary {} (bin -)) {} {} oracle-only", p.name(), cnt, follow[1].sexp(), hex(trails[1]));
                let _ = writeln!(out, "skv {} - (replist struct {} (struct)) {} - oracle-only", p.name(), cnt, follow[0].sexp());
                let _ = writeln!(out, "skv {} - (repmap i8 binary {} (i8 1) (bin 61)) {} - oracle-only", p.name(), cnt / 2, follow[0].sexp());
                let _ = writeln!(out, "skv {} - (struct (1 (replist list {} (list bool))) (2 (i32 5))) {} - oracle-only", p.name(), cnt, follow[0].sexp());
            } }
            // leaves with explicit budgets
            for p in SP::ALL { for b in [0, 1, 2, 127] { emit_skv(out, p, Some(b), &Val::I64(5), Some(&follow[0]), trails[1]); emit_skv(out, p, Some(b), &Val::Struct(vec![]), None, trails[0]); } }
            // random values
            for _ in 0..n(500, 12000) {
                let v = gen::gen_any(&mut r, 6);
                let v2 = if r.chance(2, 3) { Some(gen::gen_any(&mut r, 2)) } else { None };
                let tr: Vec<u8> = (0..r.below(6)).map(|_| r.next() as u8).collect();
                let need = v.depth() as i32;
                for p in SP::ALL {
                    if !thorough && !r.chance(3, 4) { continue; }
                    let d = match r.below(6) { 0 => Some(need), 1 => Some(need - 1), 2 => Some(need + 1), _ => None };
                    emit_skv(out, p, d, &v, v2.as_ref(), &tr);
                }
            }
        }
        "C09" => {
            let mut vals = fixed_values();
            vals.retain(|v| enc_for(SP::Bin, v).len() <= 120);
            for _ in 0..n(12, 150) { let v = gen::gen_any(&mut r, 4); if enc_for(SP::Bin, &v).len() <= n(80, 200) { vals.push(v); } }
            let mut emit = |out: &mut dyn Write, p: SP, bytes: &[u8], tt: TT| {
                let _ = writeln!(out, "sk {} {} (read {})", p.name(), hex(bytes), tt.name());
                let _ = writeln!(out, "sk {} {} (skip {})", p.name(), hex(bytes), tt.name());
            };
            // a declared length far beyond the input with a good part of the payload delivered: 4095 / 4096 / 4097 / 10000 bytes behind
            // a string header that announces 2^20, 2^30 or i32::MAX bytes (read and skip, every safe reader: the allocation oracle)
            for declared in [1u32 << 20, 1 << 30, i32::MAX as u32] { for delivered in [4095usize, 4096, 4097, 10000] {
                let mut bin = declared.to_be_bytes().to_vec(); bin.extend(vec![0x61u8; delivered]);
                let mut le = declared.to_le_bytes().to_vec(); le.extend(vec![0x61u8; delivered]);
                let mut cmp = vec![]; let mut n = declared; loop { let b = (n & 0x7f) as u8; n >>= 7; if n == 0 { cmp.push(b); break; } cmp.push(b | 0x80); } cmp.extend(vec![0x61u8; delivered]);
                for p in SP::SAFE {
                    let bytes = if p.compact() { &cmp } else if p == SP::Le { &le } else { &bin };
                    emit(out, p, bytes, TT::Binary);
                    // ... and as a field of a struct (read and skipped in field context)
                    let mut st = if p.compact() { vec![0x18u8] } else { vec![0x0b, 0x00, 0x01] };
                    if p == SP::Le { st = vec![0x0b, 0x01, 0x00]; }
                    st.extend(bytes.iter());
                    emit(out, p, &st, TT::Struct);
                }
            } }
            // every truncation point of valid struct (and other) encodings: all strict prefixes rejected
            for v in &vals { for p in SP::SAFE { let _ = writeln!(out, "pfx {} {}", p.name(), v.sexp()); } }
            // bit flips
            for (i, v) in vals.iter().enumerate() {
                for p in SP::SAFE {
                    if !thorough && (i + p as usize) % 3 != 0 { continue; }
                    let e = enc_for(p, v);
                    if e.len() > n(48, 200) { continue; }
                    for pos in 0..e.len() { for bit in 0..8 {
                        if !thorough && bit != 0 && bit != 7 { continue; }
                        let mut m = e.clone(); m[pos] ^= 1 << bit; emit(out, p, &m, v.tt());
                    } }
                }
            }
            // every length / count / type / field-id position overwritten
            for (i, v) in vals.iter().enumerate() {
                for p in SP::SAFE {
                    if !thorough && (i + p as usize) % 2 != 0 { continue; }
                    if enc_for(p, v).len() > n(64, 200) { continue; }
                    let mut ms = vec![];
                    header_mutations(p, v, thorough, &mut ms);
                    for m in ms { emit(out, p, &m, v.tt()); }
                }
            }
            // unstructured random byte strings, every type
            for _ in 0..n(150, 4000) {
                let len = r.below(40) as usize;
                let small = r.chance(1, 2);
                let b: Vec<u8> = (0..len).map(|_| if small { *r.pick(&[0u8, 1, 2, 3, 4, 6, 8, 10, 11, 12, 13, 14, 15, 16, 0x19, 0x1c, 0x11, 0x7f, 0x80, 0xff]) } else { r.next() as u8 }).collect();
                let tt = *r.pick(&TT::ALL);
                for p in SP::SAFE { emit(out, p, &b, tt); }
            }
            // nesting bombs
            let depths: Vec<usize> = if thorough { (1..=300).collect() } else { vec![1, 2, 10, 63, 64, 65, 66, 100, 200, 300] };
            for d in depths {
                for p in SP::SAFE {
                    let (s, l, m): (Vec<u8>, Vec<u8>, Vec<u8>) = if p.compact() { (vec![0x1c], vec![0x19], vec![0x01, 0x3b]) }
                        else if p == SP::Le { (vec![0x0c, 0x01, 0x00], vec![0x0f, 1, 0, 0, 0], vec![0x03, 0x0d, 1, 0, 0, 0]) }
                        else { (vec![0x0c, 0x00, 0x01], vec![0x0f, 0, 0, 0, 1], vec![0x03, 0x0d, 0, 0, 0, 1]) };
                    emit(out, p, &s.repeat(d), TT::Struct);
                    emit(out, p, &l.repeat(d), TT::List);
                    if d <= 100 || thorough { let mut mm = vec![]; for _ in 0..d { mm.extend(&m); mm.push(1); } emit(out, p, &mm, TT::Map); }
                }
            }
        }
        _ => return false,
    }
    true
}
