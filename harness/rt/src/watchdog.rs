//! Hang watchdog shared by the harness binaries: `tick(i)` is called before request `i` (1-based) is executed; if one request is
//! in flight for more than VERIF_HANG_S seconds (default 30) the process reports `HANG <i>` on stderr and exits with status 97.
//! Answers are flushed line by line, so everything before the hanging request has reached the driver.
use std::sync::atomic::{AtomicU64, Ordering};
static CUR: AtomicU64 = AtomicU64::new(0);
static SINCE_MS: AtomicU64 = AtomicU64::new(0);
fn now_ms() -> u64 { std::time::SystemTime::now().duration_since(std::time::UNIX_EPOCH).map(|d| d.as_millis() as u64).unwrap_or(0) }
pub fn start() {
    let limit_ms = std::env::var("VERIF_HANG_S").ok().and_then(|s| s.parse::<u64>().ok()).unwrap_or(30) * 1000;
    SINCE_MS.store(now_ms(), Ordering::SeqCst);
    if limit_ms == 0 { return; }      // VERIF_HANG_S=0: no watchdog thread (under miri a detached thread alive at exit is an error)
    std::thread::spawn(move || loop {
        std::thread::sleep(std::time::Duration::from_millis(200));
        let cur = CUR.load(Ordering::SeqCst);
        if cur != 0 && now_ms().saturating_sub(SINCE_MS.load(Ordering::SeqCst)) > limit_ms {
            eprintln!("HANG {}", cur);
            std::process::exit(97);
        }
    });
}
pub fn tick(i: u64) { SINCE_MS.store(now_ms(), Ordering::SeqCst); CUR.store(i, Ordering::SeqCst); }
pub fn done() { CUR.store(0, Ordering::SeqCst); }
