//! Thrift IDL parser verbs and streams (C15, C16).
//!
//! Verbs (answers are compared verbatim with `lean/Driver/Idl.lean`):
//!   idl-parse <kind> <hex text>        real `Parser::parse` of that node kind on a 2 MiB thread
//!                                      -> ok <remaining chars> <ast> | err | fail | panic
//!   idl-rt <file-ast> <layout> <hex>   `File::parse`; oracle C15: result == the AST that was printed, rest empty
//!                                      -> <parse answer> render=1 wf=1
//!   idl-alnum <lo> <hi>                `char::is_alphanumeric` over a code-point range -> ok <count> <checksum>
//!   idl-lower                          chars whose `to_lowercase()` is "e" -> ok 69,101
//! Streams: C15 (random descriptor AST x random layout), C16 (mutations, truncations, ladders, random UTF-8),
//! IDLUNICODE (prints lean/PilotaModel/Idl/UnicodeTable.lean).
use std::fmt::Write as _;
use std::io::Write;
use std::sync::Arc;

use pilota_thrift_parser as ptp;
use ptp::parser::Parser as _;
use ptp::{
    Annotation, Annotations, Attribute, ConstValue, Constant, CppInclude, CppType, DoubleConstant, Enum, EnumValue,
    Exception, Field, File, Function, Ident, Include, IntConstant, Item, Literal, Namespace, Path, Scope, Service,
    Struct, StructLike, Ty, Type, Typedef, Union,
};

use crate::val::*;
use crate::Oracle;

// ------------------------------------------------------------------------------------------------
// canonical S-expressions of the descriptor AST (mirror of Driver/Idl.lean)

fn hs(s: &str) -> String { hex(s.as_bytes()) }
fn sx(parts: &[String]) -> String { format!("({})", parts.join(" ")) }

fn path_s(p: &Path) -> String {
    let mut v = vec!["path".to_string()];
    v.extend(p.segments.iter().map(|i| hs(&i.0)));
    sx(&v)
}
fn anns_s(a: &Annotations) -> String {
    let mut v = vec!["anns".to_string()];
    v.extend(a.0.iter().map(|x| sx(&[hs(&x.key), hs(&x.value.0)])));
    sx(&v)
}
fn cpp_s(c: &Option<CppType>) -> String {
    match c { None => "none".into(), Some(c) => sx(&["cpp".into(), hs(&c.0 .0)]) }
}
fn ty_s(t: &Ty) -> String {
    match t {
        Ty::String => "string".into(), Ty::Void => "void".into(), Ty::Byte => "byte".into(), Ty::Bool => "bool".into(),
        Ty::Binary => "binary".into(), Ty::I8 => "i8".into(), Ty::I16 => "i16".into(), Ty::I32 => "i32".into(),
        Ty::I64 => "i64".into(), Ty::Double => "double".into(), Ty::Uuid => "uuid".into(),
        Ty::List { value, cpp_type } => sx(&["list".into(), type_s(value), cpp_s(cpp_type)]),
        Ty::Set { value, cpp_type } => sx(&["set".into(), type_s(value), cpp_s(cpp_type)]),
        Ty::Map { key, value, cpp_type } => sx(&["map".into(), type_s(key), type_s(value), cpp_s(cpp_type)]),
        Ty::Path(p) => path_s(p),
    }
}
fn type_s(t: &Type) -> String { sx(&["type".into(), ty_s(&t.0), anns_s(&t.1)]) }
fn cv_s(c: &ConstValue) -> String {
    match c {
        ConstValue::Bool(b) => sx(&["bool".into(), if *b { "1".into() } else { "0".into() }]),
        ConstValue::Path(p) => path_s(p),
        ConstValue::String(l) => sx(&["str".into(), hs(&l.0)]),
        ConstValue::Int(n) => sx(&["int".into(), n.0.to_string()]),
        ConstValue::Double(d) => sx(&["dbl".into(), hs(&d.0)]),
        ConstValue::List(xs) => { let mut v = vec!["list".to_string()]; v.extend(xs.iter().map(cv_s)); sx(&v) }
        ConstValue::Map(kvs) => { let mut v = vec!["map".to_string()]; v.extend(kvs.iter().map(|(k, x)| sx(&[cv_s(k), cv_s(x)]))); sx(&v) }
    }
}
fn attr_s(a: &Attribute) -> String {
    match a { Attribute::Optional => "optional", Attribute::Required => "required", Attribute::Default => "default" }.into()
}
fn field_s(f: &Field) -> String {
    sx(&["field".into(), f.id.to_string(), hs(&f.name.0), attr_s(&f.attribute), type_s(&f.ty),
         match &f.default { None => "none".into(), Some(c) => cv_s(c) }, anns_s(&f.annotations)])
}
fn fields_s(tag: &str, fs: &[Field]) -> String { let mut v = vec![tag.to_string()]; v.extend(fs.iter().map(field_s)); sx(&v) }
fn struct_like_s(kind: &str, s: &StructLike) -> String {
    sx(&[kind.into(), hs(&s.name.0), fields_s("fields", &s.fields), anns_s(&s.annotations)])
}
fn enum_value_s(v: &EnumValue) -> String {
    sx(&["ev".into(), hs(&v.name.0), match &v.value { None => "none".into(), Some(n) => n.0.to_string() }, anns_s(&v.annotations)])
}
fn fn_s(f: &Function) -> String {
    sx(&["fn".into(), hs(&f.name.0), if f.oneway { "1".into() } else { "0".into() }, type_s(&f.result_type),
         fields_s("args", &f.arguments), fields_s("throws", &f.throws), anns_s(&f.annotations)])
}
fn item_s(i: &Item) -> String {
    match i {
        Item::Include(x) => sx(&["include".into(), hs(&x.path.0)]),
        Item::CppInclude(x) => sx(&["cppinclude".into(), hs(&x.0 .0)]),
        Item::Namespace(n) => sx(&["namespace".into(), hs(&n.scope.0), path_s(&n.name),
                                   match &n.annotations { None => "none".into(), Some(a) => anns_s(a) }]),
        Item::Typedef(t) => sx(&["typedef".into(), type_s(&t.r#type), hs(&t.alias.0), anns_s(&t.annotations)]),
        Item::Constant(c) => sx(&["const".into(), hs(&c.name.0), type_s(&c.r#type), cv_s(&c.value), anns_s(&c.annotations)]),
        Item::Enum(e) => { let mut v = vec!["values".to_string()]; v.extend(e.values.iter().map(enum_value_s));
                           sx(&["enum".into(), hs(&e.name.0), sx(&v), anns_s(&e.annotations)]) }
        Item::Struct(s) => struct_like_s("struct", &s.0),
        Item::Union(s) => struct_like_s("union", &s.0),
        Item::Exception(s) => struct_like_s("exception", &s.0),
        Item::Service(s) => { let mut v = vec!["fns".to_string()]; v.extend(s.functions.iter().map(fn_s));
                              sx(&["service".into(), hs(&s.name.0), match &s.extends { None => "none".into(), Some(p) => path_s(p) },
                                   sx(&v), anns_s(&s.annotations)]) }
    }
}
fn file_s(f: &File) -> String {
    let mut v = vec!["file".to_string(), match &f.package { None => "none".into(), Some(p) => path_s(p) }];
    v.extend(f.items.iter().map(item_s));
    sx(&v)
}

fn sexp_str(x: &Sexp, out: &mut String) {
    match x {
        Sexp::Atom(a) => out.push_str(a),
        Sexp::List(l) => { out.push('('); for (i, y) in l.iter().enumerate() { if i > 0 { out.push(' '); } sexp_str(y, out); } out.push(')'); }
    }
}

// ------------------------------------------------------------------------------------------------
// running the real parser

/// the property's stack clause: every parse runs on a fresh thread with a 2 MiB stack
fn on_2mib<T: Send + 'static>(f: impl FnOnce() -> T + Send + 'static) -> Result<T, String> {
    let h = std::thread::Builder::new().stack_size(2 << 20).spawn(move || std::panic::catch_unwind(std::panic::AssertUnwindSafe(f))).expect("spawn");
    match h.join() {
        Ok(Ok(v)) => Ok(v),
        Ok(Err(p)) | Err(p) => Err(p.downcast_ref::<String>().cloned().or_else(|| p.downcast_ref::<&str>().map(|s| s.to_string())).unwrap_or_default()),
    }
}

fn res_s<T>(r: nom_result::R<T>, show: impl Fn(&T) -> String) -> String {
    match r {
        nom_result::R::Ok(rest, v) => format!("ok {} {}", rest, show(&v)),
        nom_result::R::Err(k) => k.to_string(),
    }
}

mod nom_result {
    /// `IResult` reduced to what is compared: remaining CHAR count + value, or the error class.
    /// (`rt` does not depend on `nom`; the variant is read off the derived `Debug` of `nom::Err`.)
    pub enum R<T> { Ok(usize, T), Err(&'static str) }
    pub fn of<T, E: std::fmt::Debug>(r: Result<(&str, T), E>) -> R<T> {
        match r {
            Ok((rest, v)) => R::Ok(rest.chars().count(), v),
            Err(e) => {
                let d = format!("{:?}", e);
                if d.starts_with("Error(") { R::Err("err") } else if d.starts_with("Failure(") { R::Err("fail") } else { R::Err("incomplete") }
            }
        }
    }
}

fn parse_kind(kind: &str, text: &str) -> Option<String> {
    use nom_result::of;
    Some(match kind {
        "file" => res_s(of(File::parse(text)), file_s),
        "item" => res_s(of(Item::parse(text)), item_s),
        "type" => res_s(of(Type::parse(text)), type_s),
        "cv" => res_s(of(ConstValue::parse(text)), cv_s),
        "field" => res_s(of(Field::parse(text)), field_s),
        "fn" => res_s(of(Function::parse(text)), fn_s),
        "ident" => res_s(of(Ident::parse(text)), |i| sx(&["id".into(), hs(&i.0)])),
        "path" => res_s(of(Path::parse(text)), path_s),
        "lit" => res_s(of(Literal::parse(text)), |l| sx(&["lit".into(), hs(&l.0)])),
        "anns" => res_s(of(Annotations::parse(text)), anns_s),
        "int" => res_s(of(IntConstant::parse(text)), |n| sx(&["int".into(), n.0.to_string()])),
        "dbl" => res_s(of(DoubleConstant::parse(text)), |d| sx(&["dbl".into(), hs(&d.0)])),
        _ => return None,
    })
}

const KINDS: [&str; 12] = ["file", "item", "type", "cv", "field", "fn", "ident", "path", "lit", "anns", "int", "dbl"];

fn run_parse(kind: &str, text: String, o: &mut Oracle) -> Option<String> {
    if !KINDS.contains(&kind) { return None; }
    let k = kind.to_string();
    match on_2mib(move || parse_kind(&k, &text)) {
        Ok(a) => a,
        Err(msg) => { o.fail("C16,PANIC", format!("IDL parser panicked ({}): {}", kind, msg)); Some("panic".into()) }
    }
}

pub fn exec(verb: &str, items: &[Sexp], o: &mut Oracle) -> Option<String> {
    match verb {
        "idl-parse" => {
            let kind = items.get(1)?.atom()?;
            let text = String::from_utf8(unhex(items.get(2)?.atom()?)?).ok()?;
            run_parse(kind, text, o)
        }
        "idl-rt" => {
            let mut expected = String::new();
            sexp_str(items.get(1)?, &mut expected);
            let text = String::from_utf8(unhex(items.get(3)?.atom()?)?).ok()?;
            let ans = run_parse("file", text, o)?;
            let want = format!("ok 0 {}", expected);
            if ans != want {
                let at = ans.bytes().zip(want.bytes()).position(|(a, b)| a != b).unwrap_or(ans.len().min(want.len()));
                o.fail("C15", format!("File::parse of the rendered document is not the printed AST: got `{}` (first difference at answer byte {})",
                                      ans.chars().take(120).collect::<String>(), at));
            }
            Some(format!("{} render=1 wf=1", ans))
        }
        "idl-alnum" => {
            let lo: u32 = items.get(1)?.atom()?.parse().ok()?;
            let hi: u32 = items.get(2)?.atom()?.parse().ok()?;
            let (mut cnt, mut sum) = (0u64, 0u64);
            for cp in lo..hi {
                if let Some(c) = char::from_u32(cp) { if c.is_alphanumeric() { cnt += 1; sum = (sum * 31 + cp as u64) % 1_000_000_007; } }
            }
            Some(format!("ok {} {}", cnt, sum))
        }
        "idl-lower" => {
            let mut v = vec![];
            for cp in 0u32..0x110000 { if let Some(c) = char::from_u32(cp) { if c.to_lowercase().eq("e".chars()) { v.push(cp.to_string()); } } }
            Some(format!("ok {}", v.join(",")))
        }
        _ => None,
    }
}

// ------------------------------------------------------------------------------------------------
// layout + printer (mirror of lean/PilotaModel/Idl/Printer.lean)

#[derive(Clone)]
enum Piece { Ws(String), Line(String), Hash(String), Block(String) }
#[derive(Clone)]
struct Choice { pieces: Vec<Piece>, sep: u64, flag: bool }

fn san_block(cs: &str) -> String {
    let mut out = String::new();
    let mut prev_star = false;
    for c in cs.chars() {
        if prev_star && c == '/' { continue; }
        out.push(c);
        prev_star = c == '*';
    }
    out
}
fn piece_text(p: &Piece) -> String {
    match p {
        Piece::Ws(s) => s.chars().filter(|c| matches!(c, ' ' | '\t' | '\r' | '\n')).collect(),
        Piece::Line(s) => format!("//{}\n", s.chars().filter(|c| *c != '\n').collect::<String>()),
        Piece::Hash(s) => format!("#{}\n", s.chars().filter(|c| *c != '\n').collect::<String>()),
        Piece::Block(s) => format!("/*{}*/", san_block(s)),
    }
}
fn blank_text(ps: &[Piece]) -> String { ps.iter().map(piece_text).collect() }
fn sep_char(n: u64) -> &'static str { match n % 3 { 1 => ",", 2 => ";", _ => "" } }

fn lit_ok(q: char, t: &str) -> bool {
    let cs: Vec<char> = t.chars().collect();
    let mut i = 0;
    while i < cs.len() {
        if cs[i] == '\\' {
            if i + 1 >= cs.len() || !matches!(cs[i + 1], '\'' | '"' | 'n' | '\\') { return false; }
            i += 2;
        } else { if cs[i] == q { return false; } i += 1; }
    }
    true
}
fn quote_for(prefer_double: bool, t: &str) -> char {
    if prefer_double { if lit_ok('"', t) { '"' } else { '\'' } } else if lit_ok('\'', t) { '\'' } else { '"' }
}

const WS: [&str; 8] = [" ", "\n", "\t", "\r\n", "  ", " \n\t ", "\n\n", "\r"];
const CMT: [&str; 14] = ["", " note", "/*", "*/", " a /* b */ c", "#", "//", " \"quoted' text", "é ü 中", " struct X {", "*", " 1: i32 x,", "\\", "\t"];
const BLK: [&str; 14] = ["", " note ", "*", "**", "/", "//", "/*", "* /", "\n * doc\n ", "é中", " \"q' ", "# x\n", "*/ tail", "/ * /"];

/// a layout source: replays nothing, generates choices on demand and records them
struct Lay { rng: Rng, rec: Vec<Choice>, plain: bool }
impl Lay {
    fn pop(&mut self) -> Choice {
        let r = &mut self.rng;
        let pieces = if self.plain { if r.chance(1, 2) { vec![] } else { vec![Piece::Ws(" ".into())] } } else {
            match r.below(10) {
                0..=3 => vec![],
                4..=6 => vec![Piece::Ws(r.pick(&WS).to_string())],
                _ => (0..1 + r.below(3)).map(|_| match r.below(5) {
                    0 | 1 => Piece::Ws(r.pick(&WS).to_string()),
                    2 => Piece::Line(r.pick(&CMT).to_string()),
                    3 => Piece::Hash(r.pick(&CMT).to_string()),
                    _ => Piece::Block(r.pick(&BLK).to_string()),
                }).collect(),
            }
        };
        let c = Choice { pieces, sep: r.below(6), flag: r.chance(1, 2) };
        self.rec.push(c.clone());
        c
    }
    fn sexp(&self) -> String {
        let mut s = String::from("(lay");
        for c in &self.rec {
            let _ = write!(s, " (c {} {}", c.sep, c.flag as u8);
            for p in &c.pieces {
                let (k, t) = match p { Piece::Ws(t) => ("w", t), Piece::Line(t) => ("l", t), Piece::Hash(t) => ("h", t), Piece::Block(t) => ("b", t) };
                let _ = write!(s, " ({} {})", k, hs(t));
            }
            s.push(')');
        }
        s.push(')');
        s
    }
}

struct Pr { out: String, lay: Lay }
impl Pr {
    fn lit(&mut self, s: &str) { self.out.push_str(s); }
    fn b0(&mut self) { let c = self.lay.pop(); self.out.push_str(&blank_text(&c.pieces)); }
    fn b1(&mut self) { let c = self.lay.pop(); let t = blank_text(&c.pieces); if t.is_empty() { self.out.push(' '); } else { self.out.push_str(&t); } }
    fn gap(&mut self, needed: bool) { if needed { self.b1() } else { self.b0() } }
    fn tail(&mut self, ends_open: bool, last: bool) {
        let c = self.lay.pop();
        let s = sep_char(c.sep);
        if s.is_empty() { self.gap(ends_open && !last); } else { self.b0(); self.lit(s); self.b0(); }
    }
    fn tail_adj(&mut self, ends_open: bool, last: bool) {
        let c = self.lay.pop();
        let s = sep_char(c.sep);
        if s.is_empty() { self.gap(ends_open && !last); } else { self.lit(s); self.b0(); }
    }
    fn def_tail(&mut self, a: &Annotations, ends_open: bool, last: bool) {
        if a.0.is_empty() { self.tail(ends_open, last) } else { self.tail_adj(false, last) }
    }
    fn literal(&mut self, t: &str) {
        let c = self.lay.pop();
        let q = quote_for(c.flag, t);
        self.out.push(q); self.out.push_str(t); self.out.push(q);
    }
    fn path(&mut self, p: &Path) {
        for (i, s) in p.segments.iter().enumerate() {
            if i > 0 { self.b0(); self.lit("."); self.b0(); }
            self.lit(&s.0);
        }
    }
    fn anns(&mut self, a: &Annotations) {
        if a.0.is_empty() { return; }
        self.lit("("); self.b0();
        let n = a.0.len();
        for (i, x) in a.0.iter().enumerate() {
            self.lit(&x.key); self.b0(); self.lit("="); self.b0(); self.literal(&x.value.0); self.tail(false, i + 1 == n);
        }
        self.lit(")");
    }
    fn opt_anns(&mut self, a: &Annotations) { if !a.0.is_empty() { self.b0(); self.anns(a); } }
    fn cpp_opt(&mut self, c: &Option<CppType>) {
        if let Some(c) = c { self.b1(); self.lit("cpp_type"); self.b1(); self.literal(&c.0 .0); }
    }
    fn ty(&mut self, t: &Ty) {
        match t {
            Ty::String => self.lit("string"), Ty::Void => self.lit("void"), Ty::Byte => self.lit("byte"), Ty::Bool => self.lit("bool"),
            Ty::Binary => self.lit("binary"), Ty::I8 => self.lit("i8"), Ty::I16 => self.lit("i16"), Ty::I32 => self.lit("i32"),
            Ty::I64 => self.lit("i64"), Ty::Double => self.lit("double"), Ty::Uuid => self.lit("uuid"),
            Ty::List { value, cpp_type } => { self.lit("list"); self.b0(); self.lit("<"); self.b0(); self.type_(value); self.b0(); self.lit(">"); self.cpp_opt(cpp_type); }
            Ty::Set { value, cpp_type } => { self.lit("set"); self.cpp_opt(cpp_type); self.b0(); self.lit("<"); self.b0(); self.type_(value); self.b0(); self.lit(">"); }
            Ty::Map { key, value, cpp_type } => {
                self.lit("map"); self.cpp_opt(cpp_type); self.b0(); self.lit("<"); self.b0(); self.type_(key); self.b0();
                let c = self.lay.pop(); self.lit(if c.sep % 2 == 0 { "," } else { ";" });
                self.b0(); self.type_(value); self.b0(); self.lit(">");
            }
            Ty::Path(p) => self.path(p),
        }
    }
    fn type_(&mut self, t: &Type) { self.ty(&t.0); self.opt_anns(&t.1); }
    fn cv(&mut self, c: &ConstValue) {
        match c {
            ConstValue::Bool(b) => self.lit(if *b { "true" } else { "false" }),
            ConstValue::Path(p) => self.path(p),
            ConstValue::String(l) => self.literal(&l.0),
            ConstValue::Int(n) => self.lit(&n.0.to_string()),
            ConstValue::Double(d) => self.lit(&d.0),
            ConstValue::List(xs) => {
                self.lit("["); self.b0();
                for (i, x) in xs.iter().enumerate() { self.cv(x); self.tail(cv_open(x), i + 1 == xs.len()); }
                self.lit("]");
            }
            ConstValue::Map(kvs) => {
                self.lit("{"); self.b0();
                for (i, (k, v)) in kvs.iter().enumerate() {
                    self.cv(k); self.b0(); self.lit(":"); self.b0(); self.cv(v); self.tail(cv_open(v), i + 1 == kvs.len());
                }
                self.lit("}");
            }
        }
    }
    fn attr(&mut self, arg_mode: bool, a: &Attribute) {
        match a {
            Attribute::Optional => { self.lit("optional"); self.b1(); }
            Attribute::Required => {
                if arg_mode { let c = self.lay.pop(); if !c.flag { self.lit("required"); self.b1(); } } else { self.lit("required"); self.b1(); }
            }
            Attribute::Default => {}
        }
    }
    fn field(&mut self, arg_mode: bool, f: &Field, last: bool) {
        self.lit(&f.id.to_string()); self.b0(); self.lit(":"); self.b0(); self.attr(arg_mode, &f.attribute);
        self.type_(&f.ty); self.gap(type_open(&f.ty)); self.lit(&f.name.0);
        if let Some(v) = &f.default { self.b0(); self.lit("="); self.b0(); self.cv(v); }
        self.opt_anns(&f.annotations);
        self.tail(field_open(f), last);
    }
    fn fields(&mut self, arg_mode: bool, fs: &[Field]) { for (i, f) in fs.iter().enumerate() { self.field(arg_mode, f, i + 1 == fs.len()); } }
    fn struct_like(&mut self, s: &StructLike, last: bool) {
        self.lit(&s.name.0); self.b0(); self.lit("{"); self.b0(); self.fields(false, &s.fields); self.lit("}");
        self.opt_anns(&s.annotations); self.def_tail(&s.annotations, false, last);
    }
    fn enum_value(&mut self, v: &EnumValue, last: bool) {
        self.lit(&v.name.0);
        if let Some(n) = &v.value { self.b0(); self.lit("="); self.b0(); self.lit(&n.0.to_string()); }
        self.opt_anns(&v.annotations); self.def_tail(&v.annotations, true, last);
    }
    fn enum_(&mut self, e: &Enum) {
        self.lit("enum"); self.b1(); self.lit(&e.name.0); self.b0(); self.lit("{"); self.b0();
        for (i, v) in e.values.iter().enumerate() { self.enum_value(v, i + 1 == e.values.len()); }
        self.lit("}"); self.opt_anns(&e.annotations);
    }
    fn function(&mut self, f: &Function, last: bool) {
        if f.oneway { self.lit("oneway"); self.b1(); }
        self.type_(&f.result_type); self.b1(); self.lit(&f.name.0); self.b0(); self.lit("("); self.b0();
        self.fields(true, &f.arguments); self.lit(")");
        if !f.throws.is_empty() { self.b0(); self.lit("throws"); self.b0(); self.lit("("); self.b0(); self.fields(false, &f.throws); self.lit(")"); }
        self.opt_anns(&f.annotations); self.def_tail(&f.annotations, false, last);
    }
    fn service(&mut self, s: &Service, last: bool) {
        self.lit("service"); self.b1(); self.lit(&s.name.0);
        if let Some(p) = &s.extends { self.b1(); self.lit("extends"); self.b1(); self.path(p); }
        self.b0(); self.lit("{"); self.b0();
        for (i, f) in s.functions.iter().enumerate() { self.function(f, i + 1 == s.functions.len()); }
        self.lit("}"); self.opt_anns(&s.annotations); self.def_tail(&s.annotations, false, last);
    }
    fn item(&mut self, it: &Item, last: bool) {
        match it {
            Item::Include(x) => { self.lit("include"); self.b1(); self.literal(&x.path.0); self.tail_adj(false, last); }
            Item::CppInclude(x) => { self.lit("cpp_include"); self.b1(); self.literal(&x.0 .0); self.tail_adj(false, last); }
            Item::Namespace(n) => {
                self.lit("namespace"); self.b1(); self.lit(&n.scope.0); self.b1(); self.path(&n.name);
                if let Some(a) = &n.annotations { self.opt_anns(a); }
                self.tail(n.annotations.is_none(), last);
            }
            Item::Typedef(t) => {
                self.lit("typedef"); self.b1(); self.type_(&t.r#type); self.b1(); self.lit(&t.alias.0);
                self.opt_anns(&t.annotations); self.def_tail(&t.annotations, true, last);
            }
            Item::Constant(c) => {
                self.lit("const"); self.b1(); self.type_(&c.r#type); self.b1(); self.lit(&c.name.0); self.b0(); self.lit("="); self.b0(); self.cv(&c.value);
                self.opt_anns(&c.annotations); self.def_tail(&c.annotations, cv_open(&c.value), last);
            }
            Item::Enum(e) => { self.enum_(e); self.b0(); }
            Item::Struct(s) => { self.lit("struct"); self.b1(); self.struct_like(&s.0, last); }
            Item::Union(s) => { self.lit("union"); self.b1(); self.struct_like(&s.0, last); }
            Item::Exception(s) => { self.lit("exception"); self.b1(); self.struct_like(&s.0, last); }
            Item::Service(s) => self.service(s, last),
        }
    }
    fn file(&mut self, f: &File) {
        self.b0();
        for (i, it) in f.items.iter().enumerate() { self.item(it, i + 1 == f.items.len()); }
    }
}
fn ty_open(t: &Ty) -> bool { !matches!(t, Ty::List { .. } | Ty::Set { .. } | Ty::Map { .. }) }
fn type_open(t: &Type) -> bool { t.1 .0.is_empty() && ty_open(&t.0) }
fn cv_open(c: &ConstValue) -> bool { !matches!(c, ConstValue::String(_) | ConstValue::List(_) | ConstValue::Map(_)) }
fn field_open(f: &Field) -> bool { f.annotations.0.is_empty() && f.default.as_ref().map(cv_open).unwrap_or(true) }

// ------------------------------------------------------------------------------------------------
// random descriptor ASTs (G_thrift restricted to what the parser's AST can hold)

/// identifiers that are safe in every position (none equals a word the grammar reserves)
const IDS: [&str; 44] = [
    "a", "x", "Foo", "bar_baz", "_", "_1", "A_b9", "__files", "ID", "req", "Base", "trueValue", "falsey", "true_", "False",
    "optionalFoo", "required_x", "requiredness", "i32x", "i8_", "i16s", "i64x", "list_of", "lists", "setting", "mapper",
    "voidness", "onewayTicket", "oneway_", "stringify", "boolean", "bytes", "binary2", "doubled", "uuid4", "throwsX",
    "extendsY", "cpp_typex", "cpp_type_", "consts", "typedefs", "includes", "structure", "e5",
];
/// additionally allowed where only a NAME is expected (field, enum value, function, definition names)
const NAMES: [&str; 14] = ["string", "list", "true", "optional", "include", "service", "void", "oneway", "throws", "extends", "map", "i32", "required", "false"];
const SCOPES: [&str; 18] = ["*", "c_glib", "cpp", "delphi", "haxe", "go", "java", "js", "lua", "netstd", "perl", "php", "py.twisted", "py", "rb", "st", "xsd", "rs"];
const LITS: [&str; 22] = ["", "a", "hello world", "base.thrift", "json:\\\"Ids\\\"", "it\\'s", "a\\nb", "back\\\\slash", "say \"hi\"", "it's",
    "line\nbreak", "é中文", "// not a comment", "/* nor this */", "# hash", "{[(<,;:=>)]}", "true", "1.5e3", " ", "\t", "\\\\", "\\n\\n"];
const DBLS: [&str; 20] = ["1.5", "0.0", "-1.5", "+1.5", "-+2.0", "1.", ".5", "-.5", "1e5", "1E5", "1e-5", "1.5e10", "1.5E-3", ".5e-0", "12.e3", "1e0x1F",
    "3.14159", "1e-2", "0.e0", "00.00"];

struct G { r: Rng }
impl G {
    fn id(&mut self) -> Ident {
        let r = &mut self.r;
        if r.chance(5, 6) { Ident(Arc::from(*r.pick(&IDS))) } else {
            let n = 1 + r.below(8) as usize;
            let mut s = String::new();
            let first = b"abcdefghijklmnopqrstuvwxyzABCDEFGHIJKLMNOPQRSTUVWXYZ_";
            let rest = b"abcdefghijklmnopqrstuvwxyzABCDEFGHIJKLMNOPQRSTUVWXYZ_0123456789";
            s.push(*r.pick(first) as char);
            for _ in 1..n { s.push(*r.pick(rest) as char); }
            // a random word may hit a reserved one; the pools above never do
            if RESERVED.contains(&s.as_str()) { s.push('_'); }
            Ident(Arc::from(s.as_str()))
        }
    }
    fn name(&mut self) -> Ident { if self.r.chance(1, 8) { Ident(Arc::from(*self.r.pick(&NAMES))) } else { self.id() } }
    fn path(&mut self) -> Path {
        let n = match self.r.below(6) { 0 => 2, 1 => 3, _ => 1 };
        Path { segments: (0..n).map(|_| self.id()).collect() }
    }
    fn lit(&mut self) -> Literal {
        let r = &mut self.r;
        if r.chance(4, 5) { Literal(r.pick(&LITS).to_string()) } else {
            let n = r.below(12);
            let mut s = String::new();
            for _ in 0..n {
                match r.below(12) {
                    0 => s.push_str("\\\""), 1 => s.push_str("\\'"), 2 => s.push_str("\\n"), 3 => s.push_str("\\\\"),
                    4 => s.push('é'), 5 => s.push(' '), 6 => s.push('\n'),
                    _ => s.push((b'!' + r.below(90) as u8) as char),
                }
            }
            // keep it representable: no lone backslash, not both bare quotes
            let s: String = { let mut t = String::new(); let cs: Vec<char> = s.chars().collect(); let mut i = 0;
                while i < cs.len() { if cs[i] == '\\' { if i + 1 < cs.len() && matches!(cs[i + 1], '\'' | '"' | 'n' | '\\') { t.push(cs[i]); t.push(cs[i + 1]); i += 2; } else { i += 1; } } else { t.push(cs[i]); i += 1; } } t };
            let s = if !lit_ok('"', &s) && !lit_ok('\'', &s) { "both \\\" \\' escaped".to_string() } else { s };
            Literal(s)
        }
    }
    fn anns(&mut self) -> Annotations {
        let n = match self.r.below(10) { 0 => 1, 1 => 2, 2 => 3, _ => 0 };
        Annotations((0..n).map(|_| {
            let key = match self.r.below(5) { 0 => "pilota.name".to_string(), 1 => "go.tag".into(), 2 => "a".into(), 3 => "_x.y.z".into(), _ => format!("{}.k1", self.id().0) };
            Annotation { key, value: self.lit() }
        }).collect())
    }
    fn cpp(&mut self) -> Option<CppType> { if self.r.chance(1, 8) { Some(CppType(self.lit())) } else { None } }
    fn ty(&mut self, depth: usize) -> Ty {
        let r = &mut self.r;
        if depth == 0 || r.chance(3, 5) {
            match r.below(14) {
                0 => Ty::String, 1 => Ty::Void, 2 => Ty::Byte, 3 => Ty::Bool, 4 => Ty::Binary, 5 => Ty::I8, 6 => Ty::I16, 7 => Ty::I32,
                8 => Ty::I64, 9 => Ty::Double, 10 => Ty::Uuid, _ => Ty::Path(self.path()),
            }
        } else {
            match r.below(3) {
                0 => Ty::List { value: Arc::new(self.type_(depth - 1)), cpp_type: self.cpp() },
                1 => Ty::Set { value: Arc::new(self.type_(depth - 1)), cpp_type: self.cpp() },
                _ => Ty::Map { key: Arc::new(self.type_(depth - 1)), value: Arc::new(self.type_(depth - 1)), cpp_type: self.cpp() },
            }
        }
    }
    fn type_(&mut self, depth: usize) -> Type { let t = self.ty(depth); Type(t, self.anns()) }
    fn int(&mut self) -> i64 {
        let r = &mut self.r;
        match r.below(6) {
            0 => *r.pick(&[0, 1, -1, i64::MAX, -i64::MAX, i32::MAX as i64, i32::MIN as i64, 255, -128, 10, 100]),
            1 => r.below(1000) as i64 - 500,
            2 => { let v = r.next() as i64; if v == i64::MIN { 0 } else { v } }
            _ => r.below(20) as i64,
        }
    }
    fn cv(&mut self, depth: usize) -> ConstValue {
        let k = if depth == 0 { self.r.below(5) } else { self.r.below(8) };
        match k {
            0 => ConstValue::Bool(self.r.chance(1, 2)),
            1 => ConstValue::Path(self.path()),
            2 => ConstValue::String(self.lit()),
            3 => ConstValue::Int(IntConstant(self.int())),
            4 => ConstValue::Double(DoubleConstant(Arc::from(*self.r.pick(&DBLS)))),
            5 | 6 => { let n = self.r.below(4); ConstValue::List((0..n).map(|_| self.cv(depth - 1)).collect()) }
            _ => { let n = self.r.below(3); ConstValue::Map((0..n).map(|_| (self.cv(depth - 1), self.cv(depth - 1))).collect()) }
        }
    }
    fn field(&mut self, arg: bool) -> Field {
        let r = &mut self.r;
        let id = match r.below(8) { 0 => *r.pick(&[0, 1, 255, 32767, 65536, i32::MAX]), _ => 1 + r.below(40) as i32 };
        let attribute = match r.below(3) { 0 => Attribute::Optional, 1 => Attribute::Required, _ => if arg { Attribute::Required } else { Attribute::Default } };
        let ty = self.type_(2);
        let name = self.name();
        // after `list<…>` without annotations the parser looks for `cpp_type`: that one name is reserved there
        let name = if &*name.0 == "cpp_type" { Ident(Arc::from("cpp_type_")) } else { name };
        let default = if self.r.chance(1, 3) { Some(self.cv(2)) } else { None };
        Field { id, name, attribute, ty, default, annotations: self.anns() }
    }
    fn fields(&mut self, arg: bool, min: u64) -> Vec<Field> { let n = min + self.r.below(4); (0..n).map(|_| self.field(arg)).collect() }
    fn struct_like(&mut self) -> StructLike { StructLike { name: self.name(), fields: self.fields(false, 0), annotations: self.anns() } }
    fn function(&mut self) -> Function {
        let oneway = self.r.chance(1, 4);
        let result_type = self.type_(2);
        Function { name: self.name(), oneway, result_type, arguments: self.fields(true, 0),
                   throws: if self.r.chance(1, 3) { self.fields(false, 1) } else { vec![] }, annotations: self.anns() }
    }
    fn item(&mut self) -> Item {
        match self.r.below(12) {
            0 => Item::Include(Include { path: self.lit() }),
            1 => Item::CppInclude(CppInclude(self.lit())),
            2 => { let scope = Scope(self.r.pick(&SCOPES).to_string());
                   let annotations = if self.r.chance(1, 4) { let mut a = self.anns(); if a.0.is_empty() { a.0.push(Annotation { key: "k".into(), value: self.lit() }); } Some(a) } else { None };
                   Item::Namespace(Namespace { scope, name: self.path(), annotations }) }
            3 => Item::Typedef(Typedef { r#type: self.type_(3), alias: self.name(), annotations: self.anns() }),
            4 | 5 => Item::Constant(Constant { name: self.name(), r#type: self.type_(2), value: self.cv(3), annotations: self.anns() }),
            6 => { let n = self.r.below(5);
                   let values = (0..n).map(|_| EnumValue { name: self.name(), value: if self.r.chance(2, 3) { Some(IntConstant(self.int())) } else { None }, annotations: self.anns() }).collect();
                   Item::Enum(Enum { name: self.name(), values, annotations: self.anns() }) }
            7 | 8 => Item::Struct(Struct(self.struct_like())),
            9 => if self.r.chance(1, 2) { Item::Union(Union(self.struct_like())) } else { Item::Exception(Exception(self.struct_like())) },
            _ => { let n = self.r.below(4);
                   Item::Service(Service { name: self.name(), extends: if self.r.chance(1, 3) { Some(self.path()) } else { None },
                                           functions: (0..n).map(|_| self.function()).collect(), annotations: self.anns() }) }
        }
    }
    fn file(&mut self, max_items: u64) -> File {
        let n = 1 + self.r.below(max_items.max(1));
        let items: Vec<Item> = (0..n).map(|_| self.item()).collect();
        let package = items.iter().find_map(|i| if let Item::Namespace(n) = i { if n.scope.0 == "rs" { Some(n.name.clone()) } else { None } } else { None });
        File { package, items, ..Default::default() }
    }
}
const RESERVED: [&str; 24] = ["string", "void", "byte", "bool", "binary", "i8", "i16", "i32", "i64", "double", "uuid", "list", "set", "map",
    "true", "false", "required", "optional", "oneway", "throws", "extends", "cpp_type", "const", "typedef"];

fn render(f: &File, seed: u64, plain: bool) -> (String, String) {
    let mut p = Pr { out: String::new(), lay: Lay { rng: Rng(seed), rec: vec![], plain } };
    p.file(f);
    (p.out, p.lay.sexp())
}

fn rt_line(f: &File, seed: u64, plain: bool) -> String {
    let (text, lay) = render(f, seed, plain);
    format!("idl-rt {} {} {}", file_s(f), lay, hs(&text))
}

fn one_item_file(it: Item) -> File {
    let package = if let Item::Namespace(n) = &it { if n.scope.0 == "rs" { Some(n.name.clone()) } else { None } } else { None };
    File { package, items: vec![it], ..Default::default() }
}

fn id(s: &str) -> Ident { Ident(Arc::from(s)) }
fn p1(s: &str) -> Path { Path { segments: Arc::from(vec![id(s)]) } }
fn t0(t: Ty) -> Type { Type(t, Annotations(vec![])) }
fn no_anns() -> Annotations { Annotations(vec![]) }

/// fixed boundary documents of C15: every keyword-prefixed identifier in every position where the keyword is tested
fn c15_fixed(out: &mut dyn Write) {
    let kws = ["true", "false", "optional", "required", "oneway", "string", "void", "byte", "bool", "binary", "i8", "i16", "i32", "i64",
               "double", "uuid", "list", "set", "map", "throws", "extends", "cpp_type", "const", "typedef", "include", "namespace", "struct",
               "enum", "union", "exception", "service"];
    let mut seed = 1000;
    for kw in kws {
        for suffix in ["Value", "_", "1", "x"] {
            let w = format!("{}{}", kw, suffix);
            // as a type, as a constant value, as a field name, as a function result type
            let f = Field { id: 1, name: id(&w), attribute: Attribute::Default, ty: t0(Ty::Path(p1(&w))), default: Some(ConstValue::Path(p1(&w))), annotations: no_anns() };
            let st = Item::Struct(Struct(StructLike { name: id(&w), fields: vec![f.clone()], annotations: no_anns() }));
            let func = || Function { name: id(&w), oneway: false, result_type: t0(Ty::Path(p1(&w))), arguments: vec![Field { attribute: Attribute::Required, ..f.clone() }], throws: vec![], annotations: no_anns() };
            let sv = Item::Service(Service { name: id(&w), extends: Some(p1(&w)), functions: vec![func(), func()], annotations: no_anns() });
            let cn = Item::Constant(Constant { name: id(&w), r#type: t0(Ty::List { value: Arc::new(t0(Ty::Path(p1(&w)))), cpp_type: None }),
                                               value: ConstValue::List(vec![ConstValue::Path(p1(&w)), ConstValue::Path(p1(&w))]), annotations: no_anns() });
            for it in [st, sv, cn] {
                let f = one_item_file(it);
                for plain in [true, false] { seed += 1; let _ = writeln!(out, "{}", rt_line(&f, seed, plain)); }
            }
        }
    }
    // empty document: with the empty layout, and with blanks and comments only (DI1, fixed by 00dcdf5)
    for sd in 1..6 { let _ = writeln!(out, "{}", rt_line(&File::default(), sd, sd < 3)); }
    let mut g = G { r: Rng(77) };
    for _ in 0..40 { let f = one_item_file(g.item()); seed += 1; let _ = writeln!(out, "{}", rt_line(&f, seed, true)); }
}

// ------------------------------------------------------------------------------------------------
// C16: hostile text

fn parse_line(kind: &str, text: &str) -> String { format!("idl-parse {} {}", kind, hs(text)) }

fn ladders(max: usize, out: &mut dyn Write) {
    for d in 1..=max {
        let docs = [
            format!("typedef {}i32{} T", "list<".repeat(d), ">".repeat(d)),
            format!("typedef {}i32{} T", "map<string,".repeat(d), ">".repeat(d)),
            format!("typedef {}i32{} T", "set < ".repeat(d), " > ".repeat(d)),
            format!("const i32 c = {}1{}", "[".repeat(d), "]".repeat(d)),
            format!("const i32 c = {}1{}", "{1:".repeat(d), "}".repeat(d)),
            format!("const i32 c = {}1{}", "{[".repeat(d), "]:2}".repeat(d)),
            format!("struct S {{ 1: {}i32{} f = {}x{} }}", "list<".repeat(d), ">".repeat(d), "[".repeat(d), "]".repeat(d)),
            format!("service S {{ {}i32{} f(1: {}i32{} a) }}", "map<i8,".repeat(d), ">".repeat(d), "list<".repeat(d), ">".repeat(d)),
            // unbalanced: the parser unwinds through every level with an error
            format!("typedef {}i32 T", "list<".repeat(d)),
            format!("const i32 c = {}1", "[".repeat(d)),
        ];
        for doc in docs { let _ = writeln!(out, "{}", parse_line("file", &doc)); }
    }
}

const TOKENS: [&str; 48] = ["struct", "enum", "service", "const", "typedef", "include", "namespace", "union", "exception", "{", "}", "(", ")", "[", "]",
    "<", ">", ",", ";", ":", "=", ".", "-", "+", "0x", "1", "12345678901234567890", "1.5", "e", "\"", "'", "\\", "//", "/*", "*/", "#", "\n", " ",
    "required", "optional", "oneway", "throws", "extends", "list", "map", "cpp_type", "true", "é"];

fn char_bounds(s: &str) -> Vec<usize> { let mut v: Vec<usize> = s.char_indices().map(|(i, _)| i).collect(); v.push(s.len()); v }

fn mutate(r: &mut Rng, doc: &str) -> String {
    let b = char_bounds(doc);
    if b.len() < 3 { return format!("{}{}", doc, r.pick(&TOKENS)); }
    let i = b[r.below(b.len() as u64 - 1) as usize];
    let j = { let k = b.iter().position(|x| *x == i).unwrap(); b[(k + 1 + r.below(6) as usize).min(b.len() - 1)] };
    match r.below(7) {
        0 => format!("{}{}", &doc[..i], &doc[j..]),                                   // delete
        1 => format!("{}{}{}", &doc[..j], &doc[i..j], &doc[j..]),                     // duplicate
        2 => format!("{}{}{}", &doc[..i], r.pick(&TOKENS), &doc[j..]),                // replace
        3 => format!("{}{}{}", &doc[..i], r.pick(&TOKENS), &doc[i..]),                // insert
        4 => {                                                                         // inflate a number to 11-40 digits
            let bytes = doc.as_bytes();
            let starts: Vec<usize> = (0..bytes.len()).filter(|&k| bytes[k].is_ascii_digit() && (k == 0 || !bytes[k - 1].is_ascii_digit())).collect();
            if starts.is_empty() { return format!("{}{}", doc, "9".repeat(20)); }
            let s = *r.pick(&starts);
            let mut e = s; while e < bytes.len() && bytes[e].is_ascii_digit() { e += 1; }
            let n = 11 + r.below(30) as usize;
            let digits: String = (0..n).map(|_| (b'0' + r.below(10) as u8) as char).collect();
            format!("{}{}{}", &doc[..s], digits, &doc[e..])
        }
        5 => doc[..i].to_string(),                                                     // truncate (unterminated string / comment / block)
        _ => { let k = 2 + r.below(40) as usize; format!("{}{}{}", &doc[..i], r.pick(&TOKENS).repeat(k), &doc[i..]) }
    }
}

fn random_utf8(r: &mut Rng, n: usize) -> String {
    let mut s = String::new();
    while s.len() < n {
        match r.below(10) {
            0 => s.push(char::from_u32(0x80 + r.below(0x700) as u32).unwrap_or('é')),
            1 => s.push(char::from_u32(0x800 + r.below(0xD000 - 0x800) as u32).unwrap_or('中')),
            2 => s.push(char::from_u32(0x10000 + r.below(0x10000) as u32).unwrap_or('𝔸')),
            3 | 4 => s.push_str(TOKENS[r.below(TOKENS.len() as u64) as usize]),
            5 => s.push(' '),
            _ => s.push((0x20 + r.below(0x5f) as u8) as char),
        }
    }
    s
}

const HAND: [&str; 40] = [
    "", " ", "// only a comment", "/* c */", "# c\n", "struct", "struct S", "struct S {", "struct S {}", "struct S {},", "enum E {},", "enum E { A = 1, B C }",
    "struct S { 1: i32 a }", "struct S { 99999999999: i32 a }", "struct S { 2147483647: i32 a }", "struct S { 2147483648: i32 a }",
    "const i64 c = 9223372036854775807", "const i64 c = 9223372036854775808", "const i64 c = -9223372036854775808", "const i64 c = 0x7fffffffffffffff",
    "const i64 c = 0x8000000000000000", "const i64 c = 0x", "const i64 c = -0x10", "const i64 c = --5", "const double d = 1e99999999999999999999",
    "const double d = 1.", "const double d = .5e", "const string s = \"unterminated", "const string s = 'a\\tb'", "const string s = \"\\", "/* unterminated",
    "include \"a.thrift\" include 'b.thrift'", "namespace py.twisted a.b", "namespace javascript x", "namespace rs a . b (k = 'v') ;",
    "typedef list < string > ( a = 'b' ) L", "service S extends a.b { oneway void f ( ) throws ( 1 : E e ) }", "service S { onewayx f() }",
    "const bool b = trueé", "struct S { 1: requiredé x }",
];

pub fn gen(stream: &str, tier: &str, seed: u64, out: &mut dyn Write) -> bool {
    let thorough = tier == "thorough";
    match stream {
        "C15" => {
            c15_fixed(out);
            let n = if thorough { 12000 } else { 450 };
            let mut g = G { r: Rng(seed ^ 0xC15) };
            for i in 0..n {
                let f = g.file(if i % 10 == 0 { 8 } else { 3 });
                let ls = g.r.next();
                let _ = writeln!(out, "{}", rt_line(&f, ls, i % 7 == 0));
            }
            true
        }
        "C16" => {
            let _ = writeln!(out, "idl-lower");
            let step = 0x4000u32;
            let mut lo = 0u32;
            while lo < 0x110000 { let _ = writeln!(out, "idl-alnum {} {}", lo, lo + step); lo += step; }
            for h in HAND { for k in ["file", "item"] { let _ = writeln!(out, "{}", parse_line(k, h)); } }
            for (k, t) in [("int", "0x"), ("int", "-"), ("int", "--0x1f"), ("int", "007"), ("dbl", "1.01e10"), ("dbl", "-+.5E-3x"), ("dbl", "1e"), ("cv", "trueValue"),
                           ("cv", "true]"), ("cv", "truE"), ("cv", "0x1Fg"), ("cv", "1.e5e"), ("cv", "[1 2;3,]"), ("cv", "{1:2 3:4}"), ("cv", "{1:2,3}"), ("type", "i32x"),
                           ("type", "i32 (a='b')x"), ("type", "list<i32> cpp_type 'v' r"), ("type", "set cpp_type 'v' <i32>"), ("type", "map<i32;string>"), ("type", "a . b . c d"),
                           ("type", "a . 1"), ("field", "1:i32 a=1(x='y'),"), ("field", "01: optional optionalx y"), ("fn", "oneway void f()"), ("fn", "onewayx f()"),
                           ("fn", "void f(1:i32 a)throws(1:E e)(a='b');"), ("ident", "_"), ("ident", "a-b"), ("path", "a. b .c"), ("path", "a."), ("lit", "'it\\'s'"),
                           ("lit", "\"a\\tb\""), ("lit", "''x"), ("lit", "'\\"), ("anns", "( a = 'b' , c.d = \"e\" ; )"), ("anns", "()"), ("anns", "(a='b'")] {
                let _ = writeln!(out, "{}", parse_line(k, t));
            }
            ladders(if thorough { 128 } else { 64 }, out);
            // every truncation point of two small documents (unterminated strings, comments, blocks)
            for doc in ["struct S { 1: required list<string> xs = [\"a\", 'b'] (k = \"v\"), } // c\n/* d */ const i32 c = -0x1F;",
                        "service S extends b.B { oneway void f(1: i32 a) throws (1: E e) (k='v'); }\nenum E { A = 1 (k='v'), B }"] {
                for b in char_bounds(doc) { let _ = writeln!(out, "{}", parse_line("file", &doc[..b])); }
            }
            let mut g = G { r: Rng(seed ^ 0xC16) };
            let n = if thorough { 12000 } else { 500 };
            for i in 0..n {
                let f = g.file(3);
                let ls = g.r.next();
                let (text, _) = render(&f, ls, i % 3 == 0);
                let mut m = text.clone();
                for _ in 0..1 + g.r.below(3) { m = mutate(&mut g.r, &m); }
                let kind = if i % 5 == 0 { KINDS[g.r.below(KINDS.len() as u64) as usize] } else { "file" };
                let _ = writeln!(out, "{}", parse_line(kind, &m));
            }
            // minus ladders: since 4f1981f at most one sign is accepted; longer runs are parse errors
            for n in [1usize, 2, 3, 64, 65, 500, 2000] { let _ = writeln!(out, "{}", parse_line("file", &format!("const i64 c = {}7", "-".repeat(n)))); }
            let sizes: &[usize] = if thorough { &[16, 200, 4096, 65536] } else { &[16, 200, 2000] };
            for &sz in sizes { for _ in 0..(if thorough { 60 } else { 25 }) {
                let t = random_utf8(&mut g.r, sz);
                let kind = ["file", "file", "cv", "type", "lit", "ident"][g.r.below(6) as usize];
                let _ = writeln!(out, "{}", parse_line(kind, &t));
            } }
            // large valid documents
            for (items, cnt) in if thorough { [(60u64, 6), (400, 3)] } else { [(60u64, 2), (0, 0)] } {
                for _ in 0..cnt { let f = g.file(items); let ls = g.r.next(); let (text, _) = render(&f, ls, false); let _ = writeln!(out, "{}", parse_line("file", &text)); }
            }
            true
        }
        // C16-stack: run by the extra step of bin/props_idl.py in a child process of its own (a stack overflow kills it):
        // regression test of DI2 (fixed by 4f1981f): a document without any bracket nesting that carries a long chain of `-` signs
        "C16-stack" => {
            let n = if thorough { 100000 } else { 40000 };
            let _ = writeln!(out, "{}", parse_line("file", &format!("const i64 c = {}7", "-".repeat(n))));
            // flat documents (bracket nesting <= 2) that are long in ONE direction, each about 64 KiB (thorough: 4x): stack use must
            // not grow with the length of a run of blanks / comments / items / fields / elements / characters
            let k = if thorough { 4 } else { 1 };
            let docs: Vec<String> = vec![
                format!("{}struct S {{ 1: i32 a }}", "// c\n".repeat(13000 * k)),
                format!("{}struct S {{ 1: i32 a }}", "# c\n".repeat(16000 * k)),
                format!("{}struct S {{ 1: i32 a }}", "/**/ ".repeat(13000 * k)),
                format!("struct S {{ 1: i32 a {} 2: i32 b }}", " \t\n/*x*/\n#y\n//z\n".repeat(4000 * k)),
                format!("struct S {{ 1: i32 a }}{}", " \n".repeat(32000 * k)),
                format!("struct S {{ {} }}", (0..4000 * k).map(|i| format!("{}: i32 f{},", i + 1, i)).collect::<String>()),
                format!("enum E {{ {} }}", (0..6000 * k).map(|i| format!("V{} = {},", i, i)).collect::<String>()),
                (0..3000 * k).map(|i| format!("typedef i32 T{}\n", i)).collect::<String>(),
                format!("const list<i32> L = [{}]", "1,".repeat(30000 * k)),
                format!("const map<i32,i32> M = {{{}}}", "1:1,".repeat(15000 * k)),
                format!("const string S = \"{}\"", "x".repeat(64000 * k)),
                format!("const string S = '{}'", "\\\\".repeat(30000 * k)),
                format!("service Svc {{ {} }}", (0..2500 * k).map(|i| format!("void f{}(1: i32 a),", i)).collect::<String>()),
                format!("service Svc {{ void f({}) }}", (0..4000 * k).map(|i| format!("{}: i32 a{},", i + 1, i)).collect::<String>()),
                format!("struct S {{ 1: i32 a ({}) }}", (0..3000 * k).map(|i| format!("k{} = \"v\",", i)).collect::<String>()),
                format!("struct {} {{ 1: i32 a }}", "x".repeat(64000 * k)),
                format!("struct S {{ 1: {} a }}", "a.".repeat(30000 * k) + "T"),
                format!("const double D = {}.5", "9".repeat(60000 * k)),
                format!("const i64 I = {}", "9".repeat(60000 * k)),
                format!("namespace rs {}", "a.".repeat(30000 * k) + "b"),
                (0..2500 * k).map(|i| format!("include \"f{}.thrift\"\n", i)).collect::<String>(),
            ];
            for d in &docs { let _ = writeln!(out, "{}", parse_line("file", d)); }
            true
        }
        "IDLUNICODE" => {
            let mut ranges: Vec<(u32, u32)> = vec![];
            let mut cur: Option<(u32, u32)> = None;
            for cp in 128u32..0x110000 {
                let a = char::from_u32(cp).map(|c| c.is_alphanumeric()).unwrap_or(false);
                match (a, cur) {
                    (true, Some((lo, hi))) if hi + 1 == cp => cur = Some((lo, cp)),
                    (true, _) => { if let Some(r) = cur { ranges.push(r); } cur = Some((cp, cp)); }
                    _ => {}
                }
            }
            if let Some(r) = cur { ranges.push(r); }
            let _ = writeln!(out, "/- GENERATED by `rt gen IDLUNICODE quick 0` (harness/rt/src/idl.rs) from the Rust toolchain's");
            let _ = writeln!(out, "   `char::is_alphanumeric` over all code points >= 128; compared exhaustively with the real function");
            let _ = writeln!(out, "   on every run of C16 (verb `idl-alnum`).  Do not edit. -/");
            let _ = writeln!(out, "namespace Pilota.Idl");
            let _ = writeln!(out, "def alnumRanges : Array (Nat × Nat) := #[");
            for (i, ch) in ranges.chunks(8).enumerate() {
                let line: Vec<String> = ch.iter().map(|(a, b)| format!("({},{})", a, b)).collect();
                let _ = writeln!(out, "  {}{}", line.join(","), if (i + 1) * 8 >= ranges.len() { "" } else { "," });
            }
            let _ = writeln!(out, "]");
            let _ = writeln!(out, "end Pilota.Idl");
            true
        }
        _ => false,
    }
}
