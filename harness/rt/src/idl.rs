//! Thrift IDL parser verbs and streams (C15, C16).
use std::io::Write;

use crate::val::*;
use crate::Oracle;

pub fn exec(_verb: &str, _items: &[Sexp], _o: &mut Oracle) -> Option<String> {
    None
}

pub fn gen(_stream: &str, _tier: &str, _seed: u64, _out: &mut dyn Write) -> bool {
    false
}
