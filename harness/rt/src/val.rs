//! Value trees, S-expressions, PRNG — shared by every verb.
use std::fmt::Write as _;

#[derive(Clone, Copy, Debug, PartialEq, Eq, Hash)]
pub enum TT { Stop, Void, Bool, I8, Double, I16, I32, I64, Binary, Struct, Map, Set, List, Uuid }

impl TT {
    pub const ALL: [TT; 14] = [TT::Stop, TT::Void, TT::Bool, TT::I8, TT::Double, TT::I16, TT::I32, TT::I64, TT::Binary, TT::Struct, TT::Map, TT::Set, TT::List, TT::Uuid];
    pub const VALUE: [TT; 12] = [TT::Bool, TT::I8, TT::Double, TT::I16, TT::I32, TT::I64, TT::Binary, TT::Struct, TT::Map, TT::Set, TT::List, TT::Uuid];
    pub fn name(self) -> &'static str {
        match self { TT::Stop=>"stop",TT::Void=>"void",TT::Bool=>"bool",TT::I8=>"i8",TT::Double=>"double",TT::I16=>"i16",TT::I32=>"i32",TT::I64=>"i64",TT::Binary=>"binary",TT::Struct=>"struct",TT::Map=>"map",TT::Set=>"set",TT::List=>"list",TT::Uuid=>"uuid" }
    }
    pub fn of_name(s: &str) -> Option<TT> { TT::ALL.iter().copied().find(|t| t.name() == s) }
    pub fn to_p(self) -> pilota::thrift::TType {
        use pilota::thrift::TType as P;
        match self { TT::Stop=>P::Stop,TT::Void=>P::Void,TT::Bool=>P::Bool,TT::I8=>P::I8,TT::Double=>P::Double,TT::I16=>P::I16,TT::I32=>P::I32,TT::I64=>P::I64,TT::Binary=>P::Binary,TT::Struct=>P::Struct,TT::Map=>P::Map,TT::Set=>P::Set,TT::List=>P::List,TT::Uuid=>P::Uuid }
    }
    pub fn of_p(p: pilota::thrift::TType) -> TT {
        use pilota::thrift::TType as P;
        match p { P::Stop=>TT::Stop,P::Void=>TT::Void,P::Bool=>TT::Bool,P::I8=>TT::I8,P::Double=>TT::Double,P::I16=>TT::I16,P::I32=>TT::I32,P::I64=>TT::I64,P::Binary=>TT::Binary,P::Struct=>TT::Struct,P::Map=>TT::Map,P::Set=>TT::Set,P::List=>TT::List,P::Uuid=>TT::Uuid }
    }
}

#[derive(Clone, Debug, PartialEq)]
pub enum Val {
    Bool(bool), I8(i8), I16(i16), I32(i32), I64(i64), Dbl(u64), Bin(Vec<u8>), Uuid([u8; 16]),
    Struct(Vec<(i16, Val)>), List(TT, Vec<Val>), Set(TT, Vec<Val>), Map(TT, TT, Vec<(Val, Val)>),
}

impl Val {
    pub fn tt(&self) -> TT {
        match self { Val::Bool(_)=>TT::Bool,Val::I8(_)=>TT::I8,Val::I16(_)=>TT::I16,Val::I32(_)=>TT::I32,Val::I64(_)=>TT::I64,Val::Dbl(_)=>TT::Double,Val::Bin(_)=>TT::Binary,Val::Uuid(_)=>TT::Uuid,Val::Struct(_)=>TT::Struct,Val::List(..)=>TT::List,Val::Set(..)=>TT::Set,Val::Map(..)=>TT::Map }
    }
    pub fn depth(&self) -> usize {
        match self {
            Val::Struct(fs) => 1 + fs.iter().map(|(_, v)| v.depth()).max().unwrap_or(0),
            Val::List(_, xs) | Val::Set(_, xs) => 1 + xs.iter().map(|v| v.depth()).max().unwrap_or(0),
            Val::Map(_, _, kvs) => 1 + kvs.iter().map(|(k, v)| k.depth().max(v.depth())).max().unwrap_or(0),
            _ => 1,
        }
    }
    pub fn nodes(&self) -> usize {
        match self {
            Val::Struct(fs) => 1 + fs.iter().map(|(_, v)| v.nodes()).sum::<usize>(),
            Val::List(_, xs) | Val::Set(_, xs) => 1 + xs.iter().map(|v| v.nodes()).sum::<usize>(),
            Val::Map(_, _, kvs) => 1 + kvs.iter().map(|(k, v)| k.nodes() + v.nodes()).sum::<usize>(),
            _ => 1,
        }
    }
    /// compact: empty maps lose their key/value types on the wire
    pub fn norm_compact(&self) -> Val {
        match self {
            Val::Struct(fs) => Val::Struct(fs.iter().map(|(i, v)| (*i, v.norm_compact())).collect()),
            Val::List(t, xs) => Val::List(*t, xs.iter().map(|v| v.norm_compact()).collect()),
            Val::Set(t, xs) => Val::Set(*t, xs.iter().map(|v| v.norm_compact()).collect()),
            Val::Map(k, v, kvs) => if kvs.is_empty() { Val::Map(TT::Stop, TT::Stop, vec![]) } else {
                Val::Map(*k, *v, kvs.iter().map(|(a, b)| (a.norm_compact(), b.norm_compact())).collect()) },
            v => v.clone(),
        }
    }
    pub fn to_sexp(&self, out: &mut String) {
        match self {
            Val::Bool(b) => { let _ = write!(out, "(bool {})", *b as u8); }
            Val::I8(n) => { let _ = write!(out, "(i8 {})", n); }
            Val::I16(n) => { let _ = write!(out, "(i16 {})", n); }
            Val::I32(n) => { let _ = write!(out, "(i32 {})", n); }
            Val::I64(n) => { let _ = write!(out, "(i64 {})", n); }
            Val::Dbl(b) => { let _ = write!(out, "(dbl {:016x})", b); }
            Val::Bin(b) => { let _ = write!(out, "(bin {})", hex(b)); }
            Val::Uuid(b) => { let _ = write!(out, "(uuid {})", hex(b)); }
            Val::Struct(fs) => { out.push_str("(struct"); for (i, v) in fs { let _ = write!(out, " ({} ", i); v.to_sexp(out); out.push(')'); } out.push(')'); }
            Val::List(t, xs) => { let _ = write!(out, "(list {}", t.name()); for v in xs { out.push(' '); v.to_sexp(out); } out.push(')'); }
            Val::Set(t, xs) => { let _ = write!(out, "(set {}", t.name()); for v in xs { out.push(' '); v.to_sexp(out); } out.push(')'); }
            Val::Map(k, v, kvs) => { let _ = write!(out, "(map {} {}", k.name(), v.name()); for (a, b) in kvs { out.push_str(" ("); a.to_sexp(out); out.push(' '); b.to_sexp(out); out.push(')'); } out.push(')'); }
        }
    }
    pub fn sexp(&self) -> String { let mut s = String::new(); self.to_sexp(&mut s); s }
    pub fn of_sexp(x: &Sexp) -> Option<Val> {
        let l = x.list()?;
        let head = l.first()?.atom()?;
        Some(match head {
            "bool" => Val::Bool(l.get(1)?.atom()?.parse::<u8>().ok()? != 0),
            "i8" => Val::I8(l.get(1)?.atom()?.parse().ok()?),
            "i16" => Val::I16(l.get(1)?.atom()?.parse().ok()?),
            "i32" => Val::I32(l.get(1)?.atom()?.parse().ok()?),
            "i64" => Val::I64(l.get(1)?.atom()?.parse().ok()?),
            "dbl" => Val::Dbl(u64::from_str_radix(l.get(1)?.atom()?, 16).ok()?),
            "bin" => Val::Bin(unhex(l.get(1)?.atom()?)?),
            "uuid" => { let b = unhex(l.get(1)?.atom()?)?; Val::Uuid(b.try_into().ok()?) }
            "struct" => { let mut fs = vec![]; for f in &l[1..] { let f = f.list()?; fs.push((f.first()?.atom()?.parse().ok()?, Val::of_sexp(f.get(1)?)?)); } Val::Struct(fs) }
            "list" | "set" => { let t = TT::of_name(l.get(1)?.atom()?)?; let mut xs = vec![]; for v in &l[2..] { xs.push(Val::of_sexp(v)?); } if head == "list" { Val::List(t, xs) } else { Val::Set(t, xs) } }
            // harness-only shorthands for very large containers (requests that carry them are oracle-only: the model is not asked)
            "replist" => { let t = TT::of_name(l.get(1)?.atom()?)?; let n: usize = l.get(2)?.atom()?.parse().ok()?; Val::List(t, vec![Val::of_sexp(l.get(3)?)?; n]) }
            "repmap" => { let k = TT::of_name(l.get(1)?.atom()?)?; let v = TT::of_name(l.get(2)?.atom()?)?; let n: usize = l.get(3)?.atom()?.parse().ok()?; Val::Map(k, v, vec![(Val::of_sexp(l.get(4)?)?, Val::of_sexp(l.get(5)?)?); n]) }
            "map" => { let k = TT::of_name(l.get(1)?.atom()?)?; let v = TT::of_name(l.get(2)?.atom()?)?; let mut kvs = vec![]; for e in &l[3..] { let e = e.list()?; kvs.push((Val::of_sexp(e.first()?)?, Val::of_sexp(e.get(1)?)?)); } Val::Map(k, v, kvs) }
            _ => return None,
        })
    }
}

pub fn hex(b: &[u8]) -> String {
    if b.is_empty() { return "-".into(); }
    let mut s = String::with_capacity(b.len() * 2);
    for x in b { let _ = write!(s, "{:02x}", x); }
    s
}
pub fn unhex(s: &str) -> Option<Vec<u8>> {
    if s == "-" { return Some(vec![]); }
    if s.len() % 2 != 0 { return None; }
    (0..s.len() / 2).map(|i| u8::from_str_radix(&s[2 * i..2 * i + 2], 16).ok()).collect()
}

#[derive(Clone, Debug)]
pub enum Sexp { Atom(String), List(Vec<Sexp>) }
impl Sexp {
    pub fn atom(&self) -> Option<&str> { if let Sexp::Atom(s) = self { Some(s) } else { None } }
    pub fn list(&self) -> Option<&[Sexp]> { if let Sexp::List(l) = self { Some(l) } else { None } }
    pub fn parse_line(s: &str) -> Option<Vec<Sexp>> {
        let b = s.as_bytes();
        let mut stack: Vec<Vec<Sexp>> = vec![vec![]];
        let mut i = 0;
        while i < b.len() {
            match b[i] {
                b' ' | b'\t' | b'\n' | b'\r' => i += 1,
                b'(' => { stack.push(vec![]); i += 1; }
                b')' => { let l = stack.pop()?; stack.last_mut()?.push(Sexp::List(l)); i += 1; }
                _ => { let st = i; while i < b.len() && !matches!(b[i], b' ' | b'\t' | b'\n' | b'\r' | b'(' | b')') { i += 1; } stack.last_mut()?.push(Sexp::Atom(s[st..i].to_string())); }
            }
        }
        if stack.len() == 1 { stack.pop() } else { None }
    }
}

/// splitmix64 — every random choice derives from one state.
pub struct Rng(pub u64);
impl Rng {
    pub fn next(&mut self) -> u64 {
        self.0 = self.0.wrapping_add(0x9E3779B97F4A7C15);
        let mut z = self.0;
        z = (z ^ (z >> 30)).wrapping_mul(0xBF58476D1CE4E5B9);
        z = (z ^ (z >> 27)).wrapping_mul(0x94D049BB133111EB);
        z ^ (z >> 31)
    }
    pub fn below(&mut self, n: u64) -> u64 { if n == 0 { 0 } else { self.next() % n } }
    pub fn pick<'a, T>(&mut self, xs: &'a [T]) -> &'a T { &xs[self.below(xs.len() as u64) as usize] }
    pub fn chance(&mut self, num: u64, den: u64) -> bool { self.below(den) < num }
}
