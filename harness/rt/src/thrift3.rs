//! Track thrift3: unchecked codec (C11), async decoding (C12), spec conformance (C03) — runtime level.
//!
//! Verbs
//!   uw <bm|lb0|lb1> <b|v|f> <win> <spare> [(msg <name> <mt> <seq>)] <val>...   real unchecked writer in an exact window
//!   ur <hex> <step>...      real unchecked reader; step := (read <tt>) | (get <0|1> <len>) | (msg)
//!   a <bin|le|cmp> (<ev>...) <step>...   real async protocol over a scripted AsyncRead; ev := p | <hex chunk>
//!        step := (read <tt>) | (skip <tt>) | (skipd <tt> <d>) | (msg) | (sb) | (se) | (fb) | (fe)
//!   se <bin|cmp> <val>                 pilota's bytes for the value (compared with the reference's canonical encoding)
//!   sr <bin|cmp> <val> <hex>           a legal alternative encoding (reference encoder + choice bits) fed to the real reader
//!   s  <bin|le|cmp> <hex> <step>...    steps of `a` plus (lb) (setb) (mb) on the in-memory protocol
//!   sm <bin|cmp> <name> <mt> <seq>     pilota's message envelope bytes
//!   ax <bin|cmp> <hex> / axw <bin|cmp> <msg> <kind>   ApplicationException decode / encode
//! Streams: C11, C12, C03
use std::io::Write;

use bytes::{BufMut, Bytes, BytesMut};
use linkedbytes::LinkedBytes;
use pilota::thrift::{
    binary::TBinaryProtocol,
    binary_unsafe::{TBinaryUnsafeInputProtocol, TBinaryUnsafeOutputProtocol},
    TInputProtocol, TLengthProtocol, TMessageIdentifier, TOutputProtocol, ThriftException,
};

use crate::gen;
use crate::thrift::{self, err_class, msg_type, read_val, size_of, write_val, BufK, Proto, ReadStep, StrApi};
use crate::val::*;
use crate::Oracle;

pub const ZC_THRESHOLD: usize = 4096;
const GUARD: usize = 32;

fn csv(v: &[usize]) -> String { if v.is_empty() { "-".into() } else { v.iter().map(|x| x.to_string()).collect::<Vec<_>>().join(",") } }

pub fn exec(verb: &str, items: &[Sexp], o: &mut Oracle) -> Option<String> {
    match verb {
        "uw" => Some(uw(items, o).unwrap_or_else(|| "bad-request".into())),
        "ur" => Some(ur(items, o).unwrap_or_else(|| "bad-request".into())),
        "a" => Some(av(items, o).unwrap_or_else(|| "bad-request".into())),
        "se" | "sr" | "s" | "sm" | "ax" | "axw" => Some(c03(verb, items, o).unwrap_or_else(|| "bad-request".into())),
        "axm" => Some(axm(items, o).unwrap_or_else(|| "bad-request".into())),
        _ => None,
    }
}

// ------------------------------------------------------------------------------------------ C11 writer

#[derive(Clone)]
struct Msg { name: Vec<u8>, mt: u8, seq: i32 }
impl Msg {
    fn ident(&self) -> TMessageIdentifier {
        TMessageIdentifier::new(unsafe { faststr::FastStr::from_bytes_unchecked(Bytes::copy_from_slice(&self.name)) }, msg_type(self.mt).unwrap(), self.seq)
    }
    fn sexp(&self) -> String { format!("(msg {} {} {})", hex(&self.name), self.mt, self.seq) }
}

fn api_of(s: &str) -> Option<StrApi> { StrApi::of(s) }

/// payload bytes that take the zero-copy branch of the unchecked LinkedBytes writer
fn zc_len(v: &Val, zc: bool, api: StrApi) -> usize {
    match v {
        Val::Bin(b) => if zc && api != StrApi::Vec && api != StrApi::Str && b.len() >= ZC_THRESHOLD { b.len() } else { 0 },
        Val::Struct(fs) => fs.iter().map(|(_, x)| zc_len(x, zc, api)).sum(),
        Val::List(_, xs) | Val::Set(_, xs) => xs.iter().map(|x| zc_len(x, zc, api)).sum(),
        Val::Map(_, _, kvs) => kvs.iter().map(|(k, x)| zc_len(k, zc, api) + zc_len(x, zc, api)).sum(),
        _ => 0,
    }
}

/// bytes the unchecked writer copies into its window: reported size minus zero-copied payloads.
/// (the message name is written by `write_faststr`, which has its own zero-copy branch)
fn need_of(msg: &Option<Msg>, vals: &[Val], buf: BufK, api: StrApi) -> (usize, usize, usize) {
    let zc = buf == BufK::Lb1;
    let (mut size, _) = size_of(Proto::UBin, vals);
    let mut z: usize = if buf == BufK::Bm { 0 } else { vals.iter().map(|v| zc_len(v, zc, api)).sum() };
    if let Some(m) = msg {
        let mut lp = TBinaryProtocol::new((), false);
        size += lp.message_begin_len(&m.ident()) + lp.message_end_len();
        if zc && m.name.len() >= ZC_THRESHOLD { z += m.name.len(); }
    }
    (size, z, size - z)
}

fn checked_bytes(msg: &Option<Msg>, vals: &[Val], api: StrApi) -> Result<Vec<u8>, ThriftException> {
    let mut b = BytesMut::new();
    let mut p = TBinaryProtocol::new(&mut b, false);
    if let Some(m) = msg { p.write_message_begin(&m.ident())?; }
    for v in vals { write_val(&mut p, v, api, &mut |_| {})?; }
    if msg.is_some() { p.write_message_end()?; }
    drop(p);
    Ok(b.to_vec())
}

fn uw(items: &[Sexp], o: &mut Oracle) -> Option<String> {
    let a = |i: usize| items.get(i).and_then(|x| x.atom());
    let buf = BufK::of(a(1)?)?;
    let api = api_of(a(2)?)?;
    let win: usize = a(3)?.parse().ok()?;
    let spare: usize = a(4)?.parse().ok()?;
    if win > spare || spare > (1 << 26) { return None; }
    let mut rest = &items[5..];
    let mut msg = None;
    if let Some(l) = rest.first().and_then(|x| x.list()) {
        if l.first().and_then(|x| x.atom()) == Some("msg") {
            let m = Msg { name: unhex(l.get(1)?.atom()?)?, mt: l.get(2)?.atom()?.parse().ok()?, seq: l.get(3)?.atom()?.parse().ok()? };
            msg_type(m.mt)?;
            msg = Some(m);
            rest = &rest[1..];
        }
    }
    let vals: Vec<Val> = rest.iter().map(Val::of_sexp).collect::<Option<_>>()?;
    let (size, zexp, need) = need_of(&msg, &vals, buf, api);
    // the documented contract: the window holds at least the bytes that will be copied.  Outside it the
    // real code has undefined behaviour; it is not run.
    if need > win { return Some("refused".into()); }
    let zc = buf == BufK::Lb1;
    let mut notes: Vec<String> = vec![];
    let (bytes, idx, z, nodes): (Vec<u8>, usize, usize, Vec<usize>);
    let run = |p: &mut dyn FnMut() -> Result<(), ThriftException>| p();
    let _ = run;
    match buf {
        BufK::Bm => {
            let mut b = BytesMut::with_capacity(GUARD + spare);
            b.put_bytes(0xAA, GUARD);
            if b.capacity() - b.len() != spare { return Some("alloc-mismatch".into()); }
            unsafe {
                let base = b.spare_capacity_mut().as_mut_ptr() as *mut u8;   // provenance over the spare capacity
                std::ptr::write_bytes(base, 0xAA, spare);
                let window: &'static mut [u8] = std::slice::from_raw_parts_mut(base, win);
                let mut p = TBinaryUnsafeOutputProtocol::new(&mut b, window, false);
                let r = (|| -> Result<(), ThriftException> {
                    if let Some(m) = &msg { p.write_message_begin(&m.ident())?; }
                    for v in &vals { write_val(&mut p, v, api, &mut |_| {})?; }
                    if msg.is_some() { p.write_message_end()?; }
                    Ok(())
                })();
                if let Err(e) = r { return Some(err_class(&e).into()); }
                idx = p.index();
                z = p.zero_copy_len();
                drop(p);
                if idx > spare { o.fail("C11", format!("index {} beyond the spare capacity {}", idx, spare)); return Some(format!("overrun idx={}", idx)); }
                let tail = std::slice::from_raw_parts(base.add(idx), spare - idx);
                if tail.iter().any(|x| *x != 0xAA) { notes.push("wrote at or beyond the final index (guard bytes changed)".into()); }
                b.advance_mut(idx);
            }
            if b[..GUARD].iter().any(|x| *x != 0xAA) { notes.push("clobbered bytes before the window".into()); }
            bytes = b[GUARD..].to_vec();
            nodes = vec![];
        }
        _ => {
            let mut lb = LinkedBytes::with_capacity(GUARD + spare);
            lb.bytes_mut().put_bytes(0xAA, GUARD);
            if lb.bytes_mut().capacity() - lb.bytes_mut().len() != spare { return Some("alloc-mismatch".into()); }
            let mut ns: Vec<usize>;
            unsafe {
                let base = lb.bytes_mut().spare_capacity_mut().as_mut_ptr() as *mut u8;
                std::ptr::write_bytes(base, 0xAA, spare);
                let window: &'static mut [u8] = std::slice::from_raw_parts_mut(base, win);
                let mut p = TBinaryUnsafeOutputProtocol::new(&mut lb, window, zc);
                let r = (|| -> Result<(), ThriftException> {
                    if let Some(m) = &msg { p.write_message_begin(&m.ident())?; }
                    for v in &vals { write_val(&mut p, v, api, &mut |_| {})?; }
                    if msg.is_some() { p.write_message_end()?; }
                    Ok(())
                })();
                if let Err(e) = r { return Some(err_class(&e).into()); }
                idx = p.index();
                z = p.zero_copy_len();
                drop(p);
                ns = lb.iter_list().map(|n| n.as_ref().len()).collect();
                ns.push(lb.bytes().len());
                ns[0] -= GUARD;
                let l = lb.bytes_mut().len();
                let rem = lb.bytes_mut().capacity() - l;
                if idx > rem { o.fail("C11", format!("index {} beyond the spare capacity {}", idx, rem)); return Some(format!("overrun idx={}", idx)); }
                let _ = l;
                let tail = std::slice::from_raw_parts((lb.bytes_mut().spare_capacity_mut().as_ptr() as *const u8).add(idx), rem - idx);
                if tail.iter().any(|x| *x != 0xAA) { notes.push("wrote at or beyond the final index (guard bytes changed)".into()); }
                lb.bytes_mut().advance_mut(idx);
            }
            let mut all = Vec::new();
            lb.sync_write_all_vectored(&mut all).expect("write to Vec");
            if all.len() < GUARD || all[..GUARD].iter().any(|x| *x != 0xAA) { notes.push("clobbered bytes before the window".into()); }
            bytes = all[GUARD.min(all.len())..].to_vec();
            nodes = ns;
        }
    }
    // ---- the property, on the implementation
    match checked_bytes(&msg, &vals, api) {
        Ok(c) => if c != bytes { notes.push(format!("bytes differ from the checked writer: {} vs {}", hex(&bytes), hex(&c))); },
        Err(_) => notes.push("checked writer failed".into()),
    }
    if z != zexp { notes.push(format!("zero_copy_len {} != {}", z, zexp)); }
    if bytes.len() != size { notes.push(format!("wrote {} bytes, reported size {}", bytes.len(), size)); }
    if buf == BufK::Bm && idx != size { notes.push(format!("final index {} != size {}", idx, size)); }
    for n in notes { o.fail("C11", format!("unchecked writer: {}", n)); }
    Some(format!("ok {} idx={} z={} nodes={}", hex(&bytes), idx, z, csv(&nodes)))
}

// ------------------------------------------------------------------------------------------ C11 reader

enum UStep { Read(TT), Skip(TT), Get(bool, usize), Msg }

fn usteps(xs: &[Sexp]) -> Option<Vec<UStep>> {
    xs.iter().map(|x| {
        let l = x.list()?;
        Some(match l.first()?.atom()? {
            "read" => UStep::Read(TT::of_name(l.get(1)?.atom()?)?),
            "skip" => UStep::Skip(TT::of_name(l.get(1)?.atom()?)?),
            "get" => UStep::Get(l.get(1)?.atom()? == "1", l.get(2)?.atom()?.parse().ok()?),
            "msg" => UStep::Msg,
            _ => return None,
        })
    }).collect()
}

fn ur(items: &[Sexp], o: &mut Oracle) -> Option<String> {
    let input = unhex(items.get(1)?.atom()?)?;
    let last = if matches!(items.last(), Some(Sexp::Atom(a)) if a == "oracle-only") { items.len() - 1 } else { items.len() };
    let steps = usteps(&items[2..last])?;
    let mut b = Bytes::copy_from_slice(&input);
    let total = b.len();
    let mut outs: Vec<String> = vec![];
    let mut p = unsafe { TBinaryUnsafeInputProtocol::new(&mut b) };
    for st in &steps {
        // the contract: the input at the current position is a complete well-formed encoding (decided by
        // the CHECKED reader on a copy); otherwise the real code has undefined behaviour and is not run.
        let idx = p.index();
        let remaining: Vec<u8> = p.buf()[idx..].to_vec();
        let tlen = p.buf().len();
        let pos_before = total - tlen + idx;
        match st {
            UStep::Read(tt) => {
                let chk = thrift::read_script(Proto::Bin, &remaining, &[ReadStep::Read(*tt)]);
                if chk.err.is_some() { drop(p); return Some(format!("refused after={}", outs.len())); }
                match read_val(&mut p, *tt) {
                    Ok(v) => {
                        let s = v.sexp();
                        if s != chk.items[0] { o.fail("C11", format!("unchecked reader value {} != checked {}", s, chk.items[0])); }
                        let pos = total - p.buf().len() + p.index();
                        if pos - pos_before != remaining.len() - chk.rem { o.fail("C11", format!("unchecked reader consumed {} bytes, checked {}", pos - pos_before, remaining.len() - chk.rem)); }
                        outs.push(s);
                    }
                    Err(e) => { o.fail("C11", format!("unchecked reader failed where the checked reader succeeds: {}", e)); drop(p); return Some(format!("{} after={}", err_class(&e), outs.len())); }
                }
            }
            UStep::Skip(tt) => {
                // the skipper's contract is the reader's; its return value is what retention and size bookkeeping rely on
                let chk = thrift::read_script(Proto::Bin, &remaining, &[ReadStep::Skip(*tt)]);
                if chk.err.is_some() { drop(p); return Some(format!("refused after={}", outs.len())); }
                match p.skip_till_depth(tt.to_p(), 64) {      // (`skip` itself requires that a field header was just read: C07's field-context verbs)
                    Ok(nret) => {
                        let pos = total - p.buf().len() + p.index();
                        if pos - pos_before != remaining.len() - chk.rem { o.fail("C11", format!("unchecked skipper consumed {} bytes, checked {}", pos - pos_before, remaining.len() - chk.rem)); }
                        if nret != pos - pos_before { o.fail("C11", format!("unchecked skipper returned {} for {} bytes consumed", nret, pos - pos_before)); }
                        outs.push(format!("(skipped {})", nret));
                    }
                    Err(e) => { o.fail("C11", format!("unchecked skipper failed where the checked one succeeds: {}", e)); drop(p); return Some(format!("{} after={}", err_class(&e), outs.len())); }
                }
            }
            UStep::Get(ptr, len) => {
                let ok = if *ptr { *len <= tlen } else { *len >= idx && *len <= tlen };
                if !ok { drop(p); return Some(format!("refused after={}", outs.len())); }
                let base = p.buf().as_ptr();
                match p.get_bytes(if *ptr { Some(base) } else { None }, *len) {
                    Ok(g) => outs.push(format!("(got {})", hex(&g))),
                    Err(e) => { drop(p); return Some(format!("{} after={}", err_class(&e), outs.len())); }
                }
            }
            UStep::Msg => {
                let chk = thrift::read_msg(Proto::Bin, &remaining);
                let Ok((cn, cmt, cseq, crem)) = chk else { drop(p); return Some(format!("refused after={}", outs.len())); };
                match p.read_message_begin() {
                    Ok(id) => {
                        let got = (id.name.as_bytes().to_vec(), id.message_type as u8, id.sequence_number);
                        if got != (cn, cmt, cseq) { o.fail("C11", format!("unchecked read_message_begin {:?} != checked", got)); }
                        let pos = total - p.buf().len() + p.index();
                        if pos - pos_before != remaining.len() - crem { o.fail("C11", "unchecked read_message_begin consumed a different number of bytes".into()); }
                        outs.push(format!("(msg {} {} {})", hex(&got.0), got.1, got.2));
                    }
                    Err(e) => { o.fail("C11", format!("unchecked read_message_begin failed where the checked one succeeds: {}", e)); drop(p); return Some(format!("{} after={}", err_class(&e), outs.len())); }
                }
            }
        }
    }
    let idx = p.index();
    drop(p);
    let adv = total - b.len();
    Some(format!("ok {} idx={} adv={}", if outs.is_empty() { "-".into() } else { outs.join(" ") }, idx, adv))
}

// ------------------------------------------------------------------------------------------ C12 async

use std::collections::VecDeque;
use std::future::Future;
use std::pin::Pin;
use std::task::{Context, Poll, Waker};

use pilota::thrift::{
    binary::TAsyncBinaryProtocol, binary_le::TAsyncBinaryProtocol as TAsyncBinaryLeProtocol, compact::TAsyncCompactProtocol,
    compact::TCompactInputProtocol, binary_le::TBinaryProtocol as TBinaryLeProtocol, TAsyncInputProtocol, TType,
};
use tokio::io::{AsyncRead, ReadBuf};

#[derive(Clone, Debug)]
enum Ev { Pending, Data(Vec<u8>) }

/// a reader that delivers exactly the scripted poll outcomes and counts the bytes handed out
struct Scripted { events: VecDeque<Ev>, pulled: usize }

impl AsyncRead for Scripted {
    fn poll_read(mut self: Pin<&mut Self>, cx: &mut Context<'_>, buf: &mut ReadBuf<'_>) -> Poll<std::io::Result<()>> {
        let this = &mut *self;
        match this.events.front_mut() {
            None => Poll::Ready(Ok(())),                                   // end of stream
            Some(Ev::Pending) => { this.events.pop_front(); cx.waker().wake_by_ref(); Poll::Pending }
            Some(Ev::Data(d)) => {
                let n = d.len().min(buf.remaining());
                buf.put_slice(&d[..n]);
                d.drain(..n);
                if d.is_empty() { this.events.pop_front(); }
                this.pulled += n;
                Poll::Ready(Ok(()))
            }
        }
    }
}

/// single-thread executor: poll with a no-op waker until ready (tokio's runtime is not available)
fn block_on<F: Future>(f: F) -> F::Output {
    let mut f = Box::pin(f);
    let mut cx = Context::from_waker(Waker::noop());
    let mut spins = 0usize;
    loop {
        if let Poll::Ready(v) = f.as_mut().poll(&mut cx) { return v; }
        spins += 1;
        assert!(spins < 10_000_000, "future never completes");
    }
}

#[derive(Clone, Copy)]
enum AStep { Read(TT), Skip(TT), SkipD(TT, i8), Msg, Sb, Se, Fb, Fe, Lb, Setb, Mb }

fn asteps(xs: &[Sexp]) -> Option<Vec<AStep>> {
    xs.iter().map(|x| {
        let l = x.list()?;
        let tt = |i: usize| l.get(i).and_then(|x| x.atom()).and_then(TT::of_name);
        Some(match l.first()?.atom()? {
            "read" => AStep::Read(tt(1)?),
            "skip" => AStep::Skip(tt(1)?),
            "skipd" => AStep::SkipD(tt(1)?, l.get(2)?.atom()?.parse().ok()?),
            "msg" => AStep::Msg, "sb" => AStep::Sb, "se" => AStep::Se, "fb" => AStep::Fb, "fe" => AStep::Fe,
            "lb" => AStep::Lb, "setb" => AStep::Setb, "mb" => AStep::Mb,
            _ => return None,
        })
    }).collect()
}

/// dynamic reading interpreter over `TAsyncInputProtocol` (the async twin of `thrift::read_val`)
fn read_val_async<'a, P: TAsyncInputProtocol>(p: &'a mut P, tt: TT) -> Pin<Box<dyn Future<Output = Result<Val, ThriftException>> + 'a>> {
    Box::pin(async move {
        Ok(match tt {
            TT::Bool => Val::Bool(p.read_bool().await?),
            TT::I8 => Val::I8(p.read_i8().await?),
            TT::I16 => Val::I16(p.read_i16().await?),
            TT::I32 => Val::I32(p.read_i32().await?),
            TT::I64 => Val::I64(p.read_i64().await?),
            TT::Double => Val::Dbl(p.read_double().await?.to_bits()),
            TT::Binary => Val::Bin(p.read_bytes().await?.to_vec()),
            TT::Uuid => Val::Uuid(p.read_uuid().await?),
            TT::Struct => {
                p.read_struct_begin().await?;
                let mut fs = vec![];
                loop {
                    let f = p.read_field_begin().await?;
                    if f.field_type == TType::Stop { break; }
                    let v = read_val_async(p, TT::of_p(f.field_type)).await?;
                    p.read_field_end().await?;
                    fs.push((f.id.unwrap_or(0), v));
                }
                p.read_struct_end().await?;
                Val::Struct(fs)
            }
            TT::List => {
                let l = p.read_list_begin().await?;
                let et = TT::of_p(l.element_type);
                let mut xs = vec![];
                for _ in 0..l.size { xs.push(read_val_async(p, et).await?); }
                p.read_list_end().await?;
                Val::List(et, xs)
            }
            TT::Set => {
                let l = p.read_set_begin().await?;
                let et = TT::of_p(l.element_type);
                let mut xs = vec![];
                for _ in 0..l.size { xs.push(read_val_async(p, et).await?); }
                p.read_set_end().await?;
                Val::Set(et, xs)
            }
            TT::Map => {
                let m = p.read_map_begin().await?;
                let (kt, vt) = (TT::of_p(m.key_type), TT::of_p(m.value_type));
                let mut kvs = vec![];
                for _ in 0..m.size { let k = read_val_async(p, kt).await?; let v = read_val_async(p, vt).await?; kvs.push((k, v)); }
                p.read_map_end().await?;
                Val::Map(kt, vt, kvs)
            }
            TT::Stop | TT::Void => return Err(pilota::thrift::new_protocol_exception(pilota::thrift::ProtocolExceptionKind::InvalidData, "cannot read stop/void")),
        })
    })
}

async fn run_async<P: TAsyncInputProtocol>(p: &mut P, steps: &[AStep]) -> (Vec<String>, Option<&'static str>) {
    let mut items = vec![];
    for st in steps {
        let r: Result<String, ThriftException> = match *st {
            AStep::Read(tt) => read_val_async(p, tt).await.map(|v| v.sexp()),
            AStep::Skip(tt) => p.skip(tt.to_p()).await.map(|_| "skipped".to_string()),
            AStep::SkipD(tt, d) => p.skip_till_depth(tt.to_p(), d).await.map(|_| "skipped".to_string()),
            AStep::Msg => p.read_message_begin().await.map(|id| format!("(msg {} {} {})", hex(id.name.as_bytes()), id.message_type as u8, id.sequence_number)),
            AStep::Sb => p.read_struct_begin().await.map(|_| "sb".to_string()),
            AStep::Se => p.read_struct_end().await.map(|_| "se".to_string()),
            AStep::Fb => p.read_field_begin().await.map(|f| format!("(field {} {})", TT::of_p(f.field_type).name(), f.id.unwrap_or(0))),
            AStep::Fe => p.read_field_end().await.map(|_| "fe".to_string()),
            AStep::Lb => p.read_list_begin().await.map(|l| format!("(list {} {})", TT::of_p(l.element_type).name(), l.size)),
            AStep::Setb => p.read_set_begin().await.map(|l| format!("(set {} {})", TT::of_p(l.element_type).name(), l.size)),
            AStep::Mb => p.read_map_begin().await.map(|m| format!("(map {} {} {})", TT::of_p(m.key_type).name(), TT::of_p(m.value_type).name(), m.size)),
        };
        match r { Ok(s) => items.push(s), Err(e) => return (items, Some(err_class(&e))) }
    }
    (items, None)
}

/// the same script on the in-memory protocol over the flattened bytes
fn run_sync<P: TInputProtocol>(p: &mut P, steps: &[AStep]) -> (Vec<String>, Option<&'static str>) {
    let mut items = vec![];
    for st in steps {
        let r: Result<String, ThriftException> = match *st {
            AStep::Read(tt) => read_val(p, tt).map(|v| v.sexp()),
            AStep::Skip(tt) => p.skip(tt.to_p()).map(|_| "skipped".to_string()),
            AStep::SkipD(tt, d) => p.skip_till_depth(tt.to_p(), d).map(|_| "skipped".to_string()),
            AStep::Msg => p.read_message_begin().map(|id| format!("(msg {} {} {})", hex(id.name.as_bytes()), id.message_type as u8, id.sequence_number)),
            AStep::Sb => p.read_struct_begin().map(|_| "sb".to_string()),
            AStep::Se => p.read_struct_end().map(|_| "se".to_string()),
            AStep::Fb => p.read_field_begin().map(|f| format!("(field {} {})", TT::of_p(f.field_type).name(), f.id.unwrap_or(0))),
            AStep::Fe => p.read_field_end().map(|_| "fe".to_string()),
            AStep::Lb => p.read_list_begin().map(|l| format!("(list {} {})", TT::of_p(l.element_type).name(), l.size)),
            AStep::Setb => p.read_set_begin().map(|l| format!("(set {} {})", TT::of_p(l.element_type).name(), l.size)),
            AStep::Mb => p.read_map_begin().map(|m| format!("(map {} {} {})", TT::of_p(m.key_type).name(), TT::of_p(m.value_type).name(), m.size)),
        };
        match r { Ok(s) => items.push(s), Err(e) => return (items, Some(err_class(&e))) }
    }
    (items, None)
}

fn events_of(x: &Sexp) -> Option<Vec<Ev>> {
    let mut out = vec![];
    for e in x.list()? {
        let a = e.atom()?;
        if a == "p" { out.push(Ev::Pending); } else { let d = unhex(a)?; if !d.is_empty() { out.push(Ev::Data(d)); } }
    }
    Some(out)
}

fn av(items: &[Sexp], o: &mut Oracle) -> Option<String> {
    let proto = Proto::of(items.get(1)?.atom()?)?;
    if proto == Proto::UBin { return None; }
    let events = events_of(items.get(2)?)?;
    let steps = asteps(&items[3..])?;
    let flat: Vec<u8> = events.iter().flat_map(|e| match e { Ev::Data(d) => d.clone(), _ => vec![] }).collect();
    let mut rd = Scripted { events: events.into(), pulled: 0 };
    let (aitems, aerr) = match proto {
        Proto::Bin => { let mut p = TAsyncBinaryProtocol::new(&mut rd); block_on(run_async(&mut p, &steps)) }
        Proto::Le => { let mut p = TAsyncBinaryLeProtocol::new(&mut rd); block_on(run_async(&mut p, &steps)) }
        _ => { let mut p = TAsyncCompactProtocol::new(&mut rd); block_on(run_async(&mut p, &steps)) }
    };
    let pulled = rd.pulled;
    // ---- the property on the implementation: the in-memory decoder on the same bytes
    let mut b = Bytes::copy_from_slice(&flat);
    let (sitems, serr) = match proto {
        Proto::Bin => { let mut p = TBinaryProtocol::new(&mut b, false); run_sync(&mut p, &steps) }
        Proto::Le => { let mut p = TBinaryLeProtocol::new(&mut b, false); run_sync(&mut p, &steps) }
        _ => { let mut p = TCompactInputProtocol::new(&mut b); run_sync(&mut p, &steps) }
    };
    let consumed = flat.len() - b.len();
    if pulled > flat.len() { o.fail("C12", format!("async reader pulled {} bytes of a {}-byte stream", pulled, flat.len())); }
    match (&aerr, &serr) {
        (None, None) => {
            if aitems != sitems { o.fail("C12", format!("async values {} != in-memory values {}", aitems.join(" "), sitems.join(" "))); }
            if pulled != consumed { o.fail("C12", format!("async pulled {} bytes, in-memory decoder consumed {}", pulled, consumed)); }
        }
        (Some(_), Some(_)) => {
            if aitems.len() != sitems.len() { o.fail("C12", format!("async failed at step {}, in-memory at step {}", aitems.len(), sitems.len())); }
            else if aitems != sitems { o.fail("C12", "values before the failing step differ".into()); }
        }
        (None, Some(c)) => o.fail("C12", format!("async decoder accepts what the in-memory decoder rejects ({} at step {})", c, sitems.len())),
        (Some(c), None) => o.fail("C12", format!("async decoder fails ({} at step {}) where the in-memory decoder succeeds", c, aitems.len())),
    }
    Some(match aerr {
        None => format!("ok {} pulled={}", if aitems.is_empty() { "-".into() } else { aitems.join(" ") }, pulled),
        Some(c) => format!("{} after={}", c, aitems.len()),
    })
}

// ------------------------------------------------------------------------------------------ C03 spec conformance

use pilota::thrift::{ApplicationException, ApplicationExceptionKind, Message};

/// choices of the reference encoder among the legal forms
pub enum Choices { Canon, Rand(Rng), AllLong, AllShort }
impl Choices {
    /// take the non-canonical alternative?
    fn flip(&mut self) -> bool { match self { Choices::Rand(r) => r.chance(1, 2), Choices::AllShort => true, _ => false } }
    fn byte(&mut self) -> u8 { match self { Choices::Rand(r) => r.next() as u8, _ => 0xFF } }
    fn drawing(&self) -> bool { !matches!(self, Choices::Canon) }
}

fn bin_code(t: TT) -> u8 { match t { TT::Bool => 2, TT::I8 => 3, TT::Double => 4, TT::I16 => 6, TT::I32 => 8, TT::I64 => 10, TT::Binary => 11, TT::Struct => 12, TT::Map => 13, TT::Set => 14, TT::List => 15, TT::Uuid => 16, TT::Stop => 0, TT::Void => 1 } }
fn cmp_code(t: TT) -> u8 { match t { TT::Bool => 1, TT::I8 => 3, TT::I16 => 4, TT::I32 => 5, TT::I64 => 6, TT::Double => 7, TT::Binary => 8, TT::List => 9, TT::Set => 10, TT::Map => 11, TT::Struct => 12, TT::Uuid => 13, _ => 0 } }

/// an independent small reference encoder for the binary protocol, written from the spec facts
fn ref_bin(v: &Val, ch: &mut Choices, out: &mut Vec<u8>) {
    match v {
        Val::Bool(b) => out.push(if !*b { 0 } else if ch.flip() { ch.byte().max(1) } else { 1 }),
        Val::I8(n) => out.push(*n as u8),
        Val::I16(n) => out.extend(n.to_be_bytes()),
        Val::I32(n) => out.extend(n.to_be_bytes()),
        Val::I64(n) => out.extend(n.to_be_bytes()),
        Val::Dbl(b) => out.extend(b.to_be_bytes()),
        Val::Bin(b) => { out.extend((b.len() as i32).to_be_bytes()); out.extend(b); }
        Val::Uuid(u) => out.extend(u),
        Val::Struct(fs) => { for (id, x) in fs { out.push(bin_code(x.tt())); out.extend(id.to_be_bytes()); ref_bin(x, ch, out); } out.push(0); }
        Val::List(t, xs) | Val::Set(t, xs) => { out.push(bin_code(*t)); out.extend((xs.len() as i32).to_be_bytes()); for x in xs { ref_bin(x, ch, out); } }
        Val::Map(k, t, kvs) => { out.push(bin_code(*k)); out.push(bin_code(*t)); out.extend((kvs.len() as i32).to_be_bytes()); for (a, b) in kvs { ref_bin(a, ch, out); ref_bin(b, ch, out); } }
    }
}

fn uleb(mut n: u64, out: &mut Vec<u8>) { loop { if n < 128 { out.push(n as u8); return; } out.push((n % 128) as u8 | 0x80); n /= 128; } }
fn zz(n: i64) -> u64 { if n >= 0 { 2 * n as u64 } else { (2 * (-(n as i128)) - 1) as u64 } }

fn ref_cmp_hdr(last: i16, code: u8, id: i16, short_max: i32, ch: &mut Choices, out: &mut Vec<u8>) {
    let d = id as i32 - last as i32;
    let fits = d >= 1 && d <= 15;
    let short = if ch.drawing() { fits && ch.flip() } else { d >= 1 && d <= short_max };
    if short { out.push(((d as u8) << 4) | code); } else { out.push(code); uleb(zz(id as i64), out); }
}
fn ref_cmp_elem(t: TT, ch: &mut Choices) -> u8 { if t == TT::Bool && ch.flip() { 2 } else { cmp_code(t) } }

/// … and for the compact protocol (`short_max`: canonical policy for field headers when no choices are drawn)
fn ref_cmp(v: &Val, short_max: i32, ch: &mut Choices, out: &mut Vec<u8>) {
    match v {
        Val::Bool(b) => out.push(if *b { 1 } else { 2 }),
        Val::I8(n) => out.push(*n as u8),
        Val::I16(n) => uleb(zz(*n as i64), out),
        Val::I32(n) => uleb(zz(*n as i64), out),
        Val::I64(n) => uleb(zz(*n), out),
        Val::Dbl(b) => out.extend(b.to_le_bytes()),
        Val::Bin(b) => { uleb(b.len() as u64, out); out.extend(b); }
        Val::Uuid(u) => out.extend(u),
        Val::Struct(fs) => {
            let mut last = 0i16;
            for (id, x) in fs {
                match x { Val::Bool(b) => ref_cmp_hdr(last, if *b { 1 } else { 2 }, *id, short_max, ch, out),
                          _ => { ref_cmp_hdr(last, cmp_code(x.tt()), *id, short_max, ch, out); ref_cmp(x, short_max, ch, out); } }
                last = *id;
            }
            out.push(0);
        }
        Val::List(t, xs) | Val::Set(t, xs) => {
            let c = ref_cmp_elem(*t, ch);
            if xs.len() <= 14 { out.push(((xs.len() as u8) << 4) | c); } else { out.push(0xF0 | c); uleb(xs.len() as u64, out); }
            for x in xs { ref_cmp(x, short_max, ch, out); }
        }
        Val::Map(k, t, kvs) => {
            if kvs.is_empty() { out.push(0); return; }
            uleb(kvs.len() as u64, out);
            let (a, b) = (ref_cmp_elem(*k, ch), ref_cmp_elem(*t, ch));
            out.push((a << 4) | b);
            for (x, y) in kvs { ref_cmp(x, short_max, ch, out); ref_cmp(y, short_max, ch, out); }
        }
    }
}

pub fn ref_encode(proto: Proto, v: &Val, ch: &mut Choices) -> Vec<u8> {
    let mut out = vec![];
    match proto { Proto::Cmp => ref_cmp(v, 14, ch, &mut out), _ => ref_bin(v, ch, &mut out) }
    out
}

fn app_kind(k: i32) -> ApplicationExceptionKind { ApplicationExceptionKind::from(k) }

/// `axm <proto> <bm|lb1> <msg-hex> <kind> <outer-id|->`: the runtime's own `Message` impl (`ApplicationException`) through the
/// protocol's `Message`-level entry points: `size`, `encode`, `decode`, `decode_async`; with an outer id, nested as field `id`
/// of a struct `{1: i32 7, id: <exception>, id+1: i64 9}` through the `*_field` helpers (`struct_field_len`, `write_struct_field`).
/// Oracle: reported size = bytes written (C04); the bytes are the encoding of the equivalent value (C03); the exception reads
/// back, in memory and from a stream (C01, C12).  Answer: `ok <bytes> size=<n>`.
fn axm(items: &[Sexp], o: &mut Oracle) -> Option<String> {
    use pilota::thrift::{TLengthProtocolExt, TOutputProtocolExt};
    let proto = Proto::of(items.get(1)?.atom()?)?;
    if proto == Proto::UBin { return None; }
    let buf = BufK::of(items.get(2)?.atom()?)?;
    let msg = unhex(items.get(3)?.atom()?)?;
    let kind: i32 = items.get(4)?.atom()?.parse().ok()?;
    let oid: Option<i16> = match items.get(5)?.atom()? { "-" => None, x => Some(x.parse().ok()?) };
    let ex = ApplicationException::new(app_kind(kind), unsafe { faststr::FastStr::from_bytes_unchecked(Bytes::copy_from_slice(&msg)) });
    fn run<P: TOutputProtocol + TLengthProtocol>(p: &mut P, ex: &ApplicationException, oid: Option<i16>) -> Result<usize, ThriftException> {
        match oid {
            None => { let n = ex.size(p); ex.encode(p)?; Ok(n) }
            Some(id) => {
                let n = p.struct_begin_len(&thrift::IDENT) + p.i32_field_len(Some(1), 7) + p.struct_field_len(Some(id), ex) + p.i64_field_len(Some(id + 1), 9)
                    + p.field_stop_len() + p.struct_end_len();
                p.write_struct_begin(&thrift::IDENT)?;
                p.write_i32_field(1, 7)?;
                p.write_struct_field(id, ex, TType::Struct)?;
                p.write_i64_field(id + 1, 9)?;
                p.write_field_stop()?;
                p.write_struct_end()?;
                Ok(n)
            }
        }
    }
    let zc = buf.zc();
    let (r, bytes) = if matches!(buf, BufK::Bm | BufK::Bm1) {
        let mut b = BytesMut::new();
        let r = match proto {
            Proto::Bin => { let mut p = TBinaryProtocol::new(&mut b, zc); run(&mut p, &ex, oid) }
            Proto::Le => { let mut p = TBinaryLeProtocol::new(&mut b, zc); run(&mut p, &ex, oid) }
            _ => { let mut p = pilota::thrift::compact::TCompactOutputProtocol::new(&mut b, zc); run(&mut p, &ex, oid) }
        };
        (r, b.to_vec())
    } else {
        let mut lb = LinkedBytes::new();
        let r = match proto {
            Proto::Bin => { let mut p = TBinaryProtocol::new(&mut lb, zc); run(&mut p, &ex, oid) }
            Proto::Le => { let mut p = TBinaryLeProtocol::new(&mut lb, zc); run(&mut p, &ex, oid) }
            _ => { let mut p = pilota::thrift::compact::TCompactOutputProtocol::new(&mut lb, zc); run(&mut p, &ex, oid) }
        };
        let mut out = Vec::new();
        lb.sync_write_all_vectored(&mut out).ok()?;
        (r, out)
    };
    let size = match r { Ok(n) => n, Err(e) => return Some(err_class(&e).into()) };
    if size != bytes.len() { o.fail("C04", format!("ApplicationException {}: size {} != {} bytes written", if oid.is_some() { "as a struct field" } else { "at top level" }, size, bytes.len())); }
    let exv = Val::Struct(vec![(1, Val::Bin(msg.clone())), (2, Val::I32(kind))]);
    let want = match oid { None => exv.clone(), Some(id) => Val::Struct(vec![(1, Val::I32(7)), (id, exv.clone()), (id + 1, Val::I64(9))]) };
    match thrift::write_all(proto, BufK::Bm, StrApi::Bytes, &[want.clone()]) {
        Ok(w) => if w.bytes != bytes { o.fail("C01,C03,C04", format!("ApplicationException bytes {} differ from the encoding of the equivalent value {}", hex(&bytes), hex(&w.bytes))); },
        Err(_) => {}
    }
    // read back: the whole thing as a value, and (top level) through the exception's own decode, in memory and from a stream
    let rb = thrift::read_script(proto, &bytes, &[ReadStep::Read(TT::Struct)]);
    let want_s = if proto == Proto::Cmp { want.norm_compact().sexp() } else { want.sexp() };
    if rb.err.is_some() || rb.items.first() != Some(&want_s) || rb.rem != 0 { o.fail("C01", format!("ApplicationException bytes read back as {:?} {:?} rem={}", rb.err, rb.items, rb.rem)); }
    if oid.is_none() {
        let mut b = Bytes::copy_from_slice(&bytes);
        let d = match proto {
            Proto::Bin => { let mut p = TBinaryProtocol::new(&mut b, false); ApplicationException::decode(&mut p) }
            Proto::Le => { let mut p = TBinaryLeProtocol::new(&mut b, false); ApplicationException::decode(&mut p) }
            _ => { let mut p = TCompactInputProtocol::new(&mut b); ApplicationException::decode(&mut p) }
        };
        match d { Ok(e2) if e2.message().as_bytes() == &msg[..] && e2.kind().as_i32() == kind && b.is_empty() => {}
                  other => o.fail("C01", format!("ApplicationException decode(encode x): {:?} rem={}", other.map(|e| (hex(e.message().as_bytes()), e.kind().as_i32())).map_err(|e| e.to_string()), b.len())) }
        let mut rd = Scripted { events: vec![Ev::Data(bytes[..bytes.len() / 2].to_vec()), Ev::Pending, Ev::Data(bytes[bytes.len() / 2..].to_vec())].into_iter().filter(|e| !matches!(e, Ev::Data(d) if d.is_empty())).collect(), pulled: 0 };
        let a = match proto {
            Proto::Bin => { let mut p = TAsyncBinaryProtocol::new(&mut rd); block_on(ApplicationException::decode_async(&mut p)) }
            Proto::Le => { let mut p = TAsyncBinaryLeProtocol::new(&mut rd); block_on(ApplicationException::decode_async(&mut p)) }
            _ => { let mut p = TAsyncCompactProtocol::new(&mut rd); block_on(ApplicationException::decode_async(&mut p)) }
        };
        match a { Ok(e2) if e2.message().as_bytes() == &msg[..] && e2.kind().as_i32() == kind && rd.pulled == bytes.len() => {}
                  other => o.fail("C01,C12", format!("ApplicationException decode_async(encode x): {:?} pulled={} of {}", other.map(|e| (hex(e.message().as_bytes()), e.kind().as_i32())).map_err(|e| e.to_string()), rd.pulled, bytes.len())) }
    }
    Some(format!("ok {} size={}", hex(&bytes), size))
}

fn c03(verb: &str, items: &[Sexp], o: &mut Oracle) -> Option<String> {
    let proto = Proto::of(items.get(1)?.atom()?)?;
    if proto == Proto::UBin { return None; }
    Some(match verb {
        "se" => {
            let v = Val::of_sexp(items.get(2)?)?;
            let w = match thrift::write_all(proto, BufK::Bm, StrApi::Bytes, &[v.clone()]) { Ok(w) => w, Err(e) => return Some(err_class(&e).into()) };
            let r = ref_encode(proto, &v, &mut Choices::Canon);
            if proto != Proto::Le && r != w.bytes { o.fail("C03", format!("pilota wrote {} ; the reference encoder gives {}", hex(&w.bytes), hex(&r))); }
            // every writer of the protocol (BytesMut, LinkedBytes with zero-copy off / on) and every string API writes the same bytes
            for (bk, api) in [(BufK::Lb0, StrApi::Bytes), (BufK::Lb1, StrApi::Bytes), (BufK::Bm, StrApi::Vec), (BufK::Lb0, StrApi::FastStr), (BufK::Lb1, StrApi::Vec)] {
                match thrift::write_all(proto, bk, api, &[v.clone()]) {
                    Ok(w2) => if w2.bytes != w.bytes { o.fail("C03", format!("the {} writer wrote {} ; the BytesMut writer {}", bk.name(), hex(&w2.bytes), hex(&w.bytes))); },
                    Err(e) => o.fail("C03", format!("the {} writer failed: {}", bk.name(), e)),
                }
            }
            let rd = thrift::read_script(proto, &w.bytes, &[ReadStep::Read(v.tt())]);
            let want = if proto == Proto::Cmp { v.norm_compact().sexp() } else { v.sexp() };
            if rd.err.is_some() || rd.items.first() != Some(&want) || rd.rem != 0 { o.fail("C03", "pilota does not read back its own bytes".into()); }
            format!("ok {}", hex(&w.bytes))
        }
        "sr" => {
            let v = Val::of_sexp(items.get(2)?)?;
            let bytes = unhex(items.get(3)?.atom()?)?;
            let rd = thrift::read_script(proto, &bytes, &[ReadStep::Read(v.tt())]);
            let want = if proto == Proto::Cmp { v.norm_compact().sexp() } else { v.sexp() };
            match rd.err {
                Some(c) => { o.fail("C03", format!("pilota rejects a legal encoding of {}", want)); format!("{} after=0", c) }
                None => {
                    if rd.items[0] != want { o.fail("C03", format!("pilota reads a legal encoding of {} as {}", want, rd.items[0])); }
                    if rd.rem != 0 { o.fail("C03", format!("{} bytes of a legal encoding left unread", rd.rem)); }
                    format!("ok {} rem={}", rd.items[0], rd.rem)
                }
            }
        }
        "s" => {
            let input = unhex(items.get(2)?.atom()?)?;
            let steps = asteps(&items[3..])?;
            let mut b = Bytes::copy_from_slice(&input);
            let (its, err) = match proto {
                Proto::Bin => { let mut p = TBinaryProtocol::new(&mut b, false); run_sync(&mut p, &steps) }
                Proto::Le => { let mut p = TBinaryLeProtocol::new(&mut b, false); run_sync(&mut p, &steps) }
                _ => { let mut p = TCompactInputProtocol::new(&mut b); run_sync(&mut p, &steps) }
            };
            match err { None => format!("ok {} rem={}", if its.is_empty() { "-".into() } else { its.join(" ") }, b.len()), Some(c) => format!("{} after={}", c, its.len()) }
        }
        "sm" => {
            let name = unhex(items.get(2)?.atom()?)?;
            let mt: u8 = items.get(3)?.atom()?.parse().ok()?;
            let seq: i32 = items.get(4)?.atom()?.parse().ok()?;
            msg_type(mt)?;
            match thrift::write_msg(proto, &name, mt, seq) {
                Ok((b, _)) => {
                    match thrift::read_msg(proto, &b) { Ok((n2, m2, s2, 0)) if n2 == name && m2 == mt && s2 == seq => {}, _ => o.fail("C03", "message envelope does not read back".into()) }
                    format!("ok {}", hex(&b))
                }
                Err(e) => err_class(&e).into(),
            }
        }
        "axw" => {
            let msg = unhex(items.get(2)?.atom()?)?;
            let kind: i32 = items.get(3)?.atom()?.parse().ok()?;
            let ex = ApplicationException::new(app_kind(kind), unsafe { faststr::FastStr::from_bytes_unchecked(Bytes::copy_from_slice(&msg)) });
            let mut b = BytesMut::new();
            let r = match proto {
                Proto::Bin => { let mut p = TBinaryProtocol::new(&mut b, false); ex.encode(&mut p) }
                Proto::Le => { let mut p = TBinaryLeProtocol::new(&mut b, false); ex.encode(&mut p) }
                _ => { let mut p = pilota::thrift::compact::TCompactOutputProtocol::new(&mut b, false); ex.encode(&mut p) }
            };
            if let Err(e) = r { return Some(err_class(&e).into()); }
            let want = Val::Struct(vec![(1, Val::Bin(msg.clone())), (2, Val::I32(kind))]);
            if proto != Proto::Le && ref_encode(proto, &want, &mut Choices::Canon) != b.to_vec() { o.fail("C03", "application exception bytes differ from the reference encoding of {1: message, 2: type}".into()); }
            format!("ok {}", hex(&b))
        }
        "ax" => {
            let input = unhex(items.get(2)?.atom()?)?;
            let mut b = Bytes::copy_from_slice(&input);
            let r = match proto {
                Proto::Bin => { let mut p = TBinaryProtocol::new(&mut b, false); ApplicationException::decode(&mut p) }
                Proto::Le => { let mut p = TBinaryLeProtocol::new(&mut b, false); ApplicationException::decode(&mut p) }
                _ => { let mut p = TCompactInputProtocol::new(&mut b); ApplicationException::decode(&mut p) }
            };
            match r { Ok(ex) => format!("ok {} {} rem={}", hex(ex.message().as_bytes()), ex.kind().as_i32(), b.len()), Err(e) => format!("{}", err_class(&e)) }
        }
        _ => return None,
    })
}

// ------------------------------------------------------------------------------------------ generators

fn payload(n: usize, seed: u64) -> Val { Val::Bin((0..n).map(|i| (seed.wrapping_mul(i as u64 + 3) >> 5) as u8).collect()) }

fn emit_uw(out: &mut dyn Write, buf: BufK, api: &str, slack: usize, tail: usize, msg: &Option<Msg>, vals: &[Val], short: usize) {
    let (_, _, need) = need_of(msg, vals, buf, api_of(api).unwrap());
    let win = (need + slack).saturating_sub(short);
    let mut line = format!("uw {} {} {} {}", buf.name(), api, win, win + tail);
    if let Some(m) = msg { line.push(' '); line.push_str(&m.sexp()); }
    for v in vals { line.push(' '); line.push_str(&v.sexp()); }
    let _ = writeln!(out, "{}", line);
}


/// events text for `bytes` cut at the given positions, with `pend(i)` pending polls before chunk i
fn events_text(bytes: &[u8], cuts: &[usize], pend: &dyn Fn(usize) -> usize) -> String {
    let mut parts: Vec<String> = vec![];
    let mut last = 0usize;
    let mut idx = 0usize;
    let mut cs: Vec<usize> = cuts.iter().copied().filter(|c| *c > 0 && *c < bytes.len()).collect();
    cs.sort(); cs.dedup();
    cs.push(bytes.len());
    for c in cs {
        for _ in 0..pend(idx) { parts.push("p".into()); }
        if c > last { parts.push(hex(&bytes[last..c])); }
        last = c; idx += 1;
    }
    for _ in 0..pend(idx) { parts.push("p".into()); }
    format!("({})", parts.join(" "))
}

fn random_events(r: &mut Rng, bytes: &[u8]) -> String {
    let n = bytes.len();
    let mode = r.below(5);
    let cuts: Vec<usize> = match mode {
        0 => vec![],                                                   // one chunk
        1 => (1..n).collect(),                                         // one byte at a time
        2 => (0..1 + r.below(3)).map(|_| r.below(n.max(1) as u64) as usize).collect(),
        _ => (1..n).filter(|_| r.chance(1, 3)).collect(),
    };
    let pm = r.below(3);
    let seed = r.next();
    events_text(bytes, &cuts, &|i| match pm { 0 => 0, 1 => ((seed >> (i % 60)) & 1) as usize, _ => ((seed.wrapping_mul(i as u64 + 1) >> 13) % 3) as usize })
}

fn enc_with(proto: Proto, vals: &[Val]) -> Vec<u8> { thrift::write_all(proto, BufK::Bm, StrApi::Bytes, vals).map(|w| w.bytes).unwrap_or_default() }

/// a script that reads a struct field by field, skipping some fields with the async skipper
fn struct_script(r: &mut Rng, fs: &[(i16, Val)], skip_all: bool) -> String {
    let mut s = String::from("(sb)");
    for (_, v) in fs {
        s.push_str(" (fb)");
        if skip_all || r.chance(1, 2) { s.push_str(&format!(" (skip {})", v.tt().name())); } else { s.push_str(&format!(" (read {})", v.tt().name())); }
        s.push_str(" (fe)");
    }
    s.push_str(" (fb) (se)");
    s
}

fn gen_c12(r: &mut Rng, thorough: bool, out: &mut dyn Write) {
    let n = |q: usize, t: usize| if thorough { t } else { q };
    let protos = [Proto::Bin, Proto::Le, Proto::Cmp];
    let uuid = Val::Uuid(*b"0123456789abcdef");
    // ---- fixed small messages: every split point (thorough: every pair), byte-at-a-time with pendings
    let small: Vec<Val> = vec![
        Val::Struct(vec![(1, Val::I32(-2)), (2, Val::Bool(true)), (3, Val::Bin(b"hey".to_vec())), (20, Val::Bool(false))]),
        Val::Struct(vec![(1, Val::Struct(vec![(5, Val::I64(1 << 40))])), (2, Val::I16(-300)), (3, Val::Dbl(0x400921fb54442d18))]),
        Val::Struct(vec![(7, uuid.clone()), (8, Val::List(TT::Bool, vec![Val::Bool(true), Val::Bool(false)]))]),
        Val::Map(TT::I8, TT::Binary, vec![(Val::I8(1), Val::Bin(vec![9, 9])), (Val::I8(-1), Val::Bin(vec![]))]),
        Val::Map(TT::I32, TT::I32, vec![]),
        Val::List(TT::I16, (0..16).map(|i| Val::I16(i * 1000 - 8000)).collect()),
        Val::Set(TT::Struct, vec![Val::Struct(vec![]), Val::Struct(vec![(1, Val::I8(3))])]),
        Val::I64(i64::MIN), Val::I32(i32::MAX), Val::I16(-1), Val::Bool(true), Val::Dbl(0x7ff8000000000001), Val::Bin(vec![]),
    ];
    for v in &small { for p in protos {
        let b = enc_with(p, &[v.clone()]);
        if b.len() > 48 { continue; }
        let script = format!("(read {})", v.tt().name());
        for c in 0..b.len() { let _ = writeln!(out, "a {} {} {}", p.name(), events_text(&b, &[c], &|_| 0), script); }
        if thorough { for c1 in 1..b.len() { for c2 in c1 + 1..b.len() { let _ = writeln!(out, "a {} {} {}", p.name(), events_text(&b, &[c1, c2], &|i| i % 2), script); } } }
        let all: Vec<usize> = (1..b.len()).collect();
        let _ = writeln!(out, "a {} {} {}", p.name(), events_text(&b, &all, &|i| 1 + i % 2), script);
        // trailing bytes belong to the next message: they must not be pulled
        let mut b2 = b.clone(); b2.extend_from_slice(&[0xde, 0xad, 0xbe, 0xef]);
        let _ = writeln!(out, "a {} {} {}", p.name(), events_text(&b2, &[b.len() / 2], &|_| 1), script);
        // every truncation point: end of stream in the middle of the value
        let step = if thorough || b.len() <= 12 { 1 } else { 3 };
        for cut in (0..b.len()).step_by(step) { let _ = writeln!(out, "a {} {} {}", p.name(), events_text(&b[..cut], &[cut / 2], &|i| i % 2), script); }
        // the async skipper on the same bytes; depth budgets around the value's nesting
        let _ = writeln!(out, "a {} {} (skip {})", p.name(), events_text(&b2, &all, &|_| 0), v.tt().name());
        for d in [0usize, v.depth() - 1, v.depth(), v.depth() + 1] { let _ = writeln!(out, "a {} {} (skipd {} {})", p.name(), events_text(&b, &[3], &|_| 0), v.tt().name(), d); }
        if let Val::Struct(fs) = v {
            let _ = writeln!(out, "a {} {} {}", p.name(), events_text(&b, &all, &|i| i % 2), struct_script(r, fs, true));
            for _ in 0..3 { let _ = writeln!(out, "a {} {} {}", p.name(), random_events(r, &b), struct_script(r, fs, false)); }
        }
    } }
    // ---- two values on one stream, the first skipped or read, the second read or skipped: what the first leaves behind in the
    // reader (compact: a bool carried by a field header) must not leak into the second
    let firsts: Vec<Val> = vec![
        Val::Struct(vec![(1, Val::Bool(true)), (2, Val::I32(5))]),
        Val::Struct(vec![(1, Val::Struct(vec![(1, Val::Bool(false))])), (2, Val::Bool(true))]),
        Val::List(TT::Struct, vec![Val::Struct(vec![(3, Val::Bool(true))])]),
        Val::Map(TT::I8, TT::Struct, vec![(Val::I8(1), Val::Struct(vec![(1, Val::Bool(true)), (2, Val::Bool(false))]))]),
        Val::Bool(true), Val::I16(300),
    ];
    let seconds: Vec<Val> = vec![
        Val::List(TT::Bool, vec![Val::Bool(false), Val::Bool(true), Val::Bool(false)]),
        Val::Map(TT::Bool, TT::Bool, vec![(Val::Bool(false), Val::Bool(true))]),
        Val::Set(TT::Bool, vec![Val::Bool(false)]),
        Val::Struct(vec![(1, Val::Bool(false)), (2, Val::List(TT::Bool, vec![Val::Bool(true)]))]),
        Val::Bool(false), Val::I64(-1),
    ];
    for v in &firsts { for w in &seconds { for p in protos {
        let b = enc_with(p, &[v.clone(), w.clone()]);
        let all: Vec<usize> = (1..b.len()).collect();
        for (a1, a2) in [("skip", "read"), ("read", "read"), ("skip", "skip"), ("read", "skip")] {
            let script = format!("({} {}) ({} {})", a1, v.tt().name(), a2, w.tt().name());
            let _ = writeln!(out, "a {} {} {}", p.name(), events_text(&b, &[], &|_| 0), script);
            let _ = writeln!(out, "a {} {} {}", p.name(), events_text(&b, &all, &|i| i % 2), script);
        }
        if let Val::Struct(fs) = v {
            let _ = writeln!(out, "a {} {} {} (read {})", p.name(), random_events(r, &b), struct_script(r, fs, false), w.tt().name());
        }
    } } }
    // ---- adversarial headers: both decoders must reject (the in-memory one at the header since f7447f5, the async one at end of stream)
    for (p, h, t) in [
        ("bin", "0f08ffffffff", "list"), ("bin", "0f087fffffff00000001", "list"), ("bin", "0b0800000003000000010000000200", "map"),
        ("bin", "ffffffff", "binary"), ("bin", "80000000", "binary"), ("bin", "00000005616263", "binary"), ("le", "05000000616263", "binary"),
        ("bin", "0f0500000000", "list"), ("bin", "0f0000000000", "list"), ("bin", "0f0100000000", "list"), ("bin", "0f0100000001", "list"),
        ("bin", "050001", "struct"), ("bin", "0c00010c00010c000100", "struct"),
        ("cmp", "f5ffffffff0f", "list"), ("cmp", "f5ffffffff07", "list"), ("cmp", "35020406", "list"), ("cmp", "3502", "list"), ("cmp", "e1", "list"), ("cmp", "0f", "list"), ("cmp", "1e", "list"),
        ("cmp", "ffffffff0f", "binary"), ("cmp", "05616263", "binary"), ("cmp", "ffffffff0f55", "map"), ("cmp", "0155", "map"), ("cmp", "01f5", "map"),
        ("cmp", "03", "bool"), ("cmp", "00", "bool"), ("cmp", "808080", "i16"), ("cmp", "80808080808080808080", "i64"), ("cmp", "ffffffffffffffffff7f", "i64"), ("cmp", "ffffff07", "i16"),
        ("cmp", "f5", "struct"), ("cmp", "150e00", "struct"), ("cmp", "f100", "struct"), ("cmp", "1100", "struct"), ("cmp", "2100", "struct"),
        ("bin", "05", "bool"), ("bin", "ff", "bool"), ("le", "0200010005", "struct"),
    ] {
        let b = unhex(h).unwrap();
        let _ = writeln!(out, "a {} {} (read {})", p, events_text(&b, &[1], &|_| 1), t);
        let _ = writeln!(out, "a {} {} (skip {})", p, events_text(&b, &[2], &|_| 0), t);
    }
    // ---- message envelopes
    for p in protos { for (name, mt, seq) in [("", 1u8, 0i32), ("ping", 2, -1), ("a-rather-long-method-name", 4, i32::MIN), ("x", 3, i32::MAX)] {
        let (mut b, _) = thrift::write_msg(p, name.as_bytes(), mt, seq).unwrap();
        b.extend(enc_with(p, &[Val::Struct(vec![(1, Val::I32(7))])]));
        let all: Vec<usize> = (1..b.len()).collect();
        let _ = writeln!(out, "a {} {} (msg) (read struct)", p.name(), events_text(&b, &all, &|i| i % 2));
        let _ = writeln!(out, "a {} {} (msg) (read struct)", p.name(), random_events(r, &b));
        let _ = writeln!(out, "a {} {} (msg)", p.name(), events_text(&b[..b.len().min(5)], &[2], &|_| 0));
    } }
    for (p, h) in [("bin", "00000001"), ("bin", "80010005000000000000000000"), ("bin", "80020001000000000000000000"), ("le", "01008888000000000000000000"), ("le", "01000180"),
                   ("cmp", "8221"), ("cmp", "8321010061"), ("cmp", "82a1010061"), ("cmp", "8201010061"), ("cmp", "82220061"), ("cmp", "8221ffffffff0f0161")] {
        let _ = writeln!(out, "a {} {} (msg)", p, events_text(&unhex(h).unwrap(), &[1], &|_| 1));
    }
    // ---- random values, sequences, chunkings
    for _ in 0..n(260, 9000) {
        let p = *r.pick(&protos);
        let k = 1 + r.below(3) as usize;
        let vals: Vec<Val> = (0..k).map(|_| gen::gen_any(r, 4)).collect();
        let mut b = enc_with(p, &vals);
        if b.len() > 6000 { continue; }
        let mut script: Vec<String> = vec![];
        for v in &vals {
            script.push(match (v, r.below(4)) {
                (Val::Struct(fs), 0) => struct_script(r, fs, false),
                (_, 1) => format!("(skip {})", v.tt().name()),
                _ => format!("(read {})", v.tt().name()),
            });
        }
        match r.below(6) {
            0 => { let cut = r.below(b.len() as u64 + 1) as usize; b.truncate(cut); }          // end of stream mid-value
            1 => { for _ in 0..r.below(5) { b.push(r.next() as u8); } }                          // bytes of the next message
            2 => { if !b.is_empty() { let i = r.below(b.len() as u64) as usize; b[i] ^= 1 << r.below(8); } }   // one flipped bit
            _ => {}
        }
        let _ = writeln!(out, "a {} {} {}", p.name(), random_events(r, &b), script.join(" "));
    }
}

fn gen_c03(r: &mut Rng, thorough: bool, out: &mut dyn Write) {
    let n = |q: usize, t: usize| if thorough { t } else { q };
    let protos = [Proto::Bin, Proto::Cmp];
    let emit_val = |out: &mut dyn Write, r: &mut Rng, v: &Val, alts: usize| {
        for p in protos {
            let _ = writeln!(out, "se {} {}", p.name(), v.sexp());
            let mut pols: Vec<Choices> = vec![Choices::Canon, Choices::AllLong, Choices::AllShort];
            for _ in 0..alts { pols.push(Choices::Rand(Rng(r.next()))); }
            let mut seen: Vec<Vec<u8>> = vec![];
            for mut pol in pols {
                let b = ref_encode(p, v, &mut pol);
                if seen.contains(&b) { continue; }
                let _ = writeln!(out, "sr {} {} {}", p.name(), v.sexp(), hex(&b));
                // a reader that knows all fields but one: reference bytes, field k skipped, the others read (thrift2's `skfx`)
                if let Val::Struct(fs) = v { if fs.len() <= 12 && v.depth() <= 60 { for k in 0..fs.len() { let _ = writeln!(out, "skfx {} {} {} {}", p.name(), v.sexp(), k, hex(&b)); } } }
                seen.push(b);
            }
        }
    };
    // ---- fixed shapes: every alternative the reference admits
    let fixed: Vec<Val> = vec![
        Val::Struct(vec![(1, Val::Bool(true)), (16, Val::List(TT::Bool, vec![Val::Bool(false), Val::Bool(true)])), (17, Val::Map(TT::I8, TT::Binary, vec![])),
                         (-5, Val::Bin(b"hi".to_vec())), (20000, Val::I64(-9_000_000_000)), (20015, Val::Uuid([0xAB; 16]))]),
        Val::Struct(vec![(15, Val::I8(1)), (30, Val::I8(2)), (31, Val::Bool(false)), (16, Val::I8(4)), (32767, Val::Bool(true)), (-32768, Val::I16(-1))]),
        Val::Struct(vec![(1, Val::Struct(vec![(5, Val::I32(1))])), (2, Val::Struct(vec![(1, Val::Bool(false))])), (3, Val::Dbl(0x400921fb54442d18))]),
        Val::Struct(vec![(1, Val::Bool(true)), (2, Val::List(TT::Bool, vec![Val::Bool(true), Val::Bool(false), Val::Bool(true)])), (3, Val::I32(5)), (4, Val::Struct(vec![(1, Val::Bool(false))])),
                         (5, Val::Set(TT::Bool, vec![Val::Bool(false)])), (6, Val::Map(TT::Bool, TT::Bool, vec![(Val::Bool(false), Val::Bool(true))])), (7, Val::Bool(false)), (8, Val::List(TT::Struct, vec![Val::Struct(vec![(2, Val::Bool(true))])]))]),
        Val::Map(TT::Bool, TT::Bool, vec![(Val::Bool(true), Val::Bool(false)), (Val::Bool(false), Val::Bool(true))]),
        Val::Map(TT::Bool, TT::Bool, vec![]), Val::Map(TT::Binary, TT::Struct, vec![(Val::Bin(vec![1]), Val::Struct(vec![]))]),
        Val::Set(TT::Bool, vec![Val::Bool(true)]), Val::List(TT::Uuid, vec![Val::Uuid([7; 16])]),
        Val::Dbl(0), Val::Dbl(0x8000000000000000), Val::Dbl(0x7ff0000000000000), Val::Dbl(0x7ff8000000000001), Val::Dbl(1), Val::Dbl(0x3ff0000000000000),
        Val::Bin(vec![]), Val::Bin(vec![0; 127]), Val::Bin(vec![0x61; 128]), Val::Bin(vec![0x7a; 16384]),
    ];
    for v in &fixed { emit_val(out, r, v, 6); }
    // deep chains with a sibling after the nested struct at every level (the field-id context must come back at every depth)
    for d in [3usize, 23, 24, 25, 40, 70] {
        let mut v = Val::Struct(vec![(1, Val::I8(1)), (2, Val::Bool(true))]);
        for k in 0..d { v = Val::Struct(vec![(1, Val::I8(k as i8)), (2, v), (3, Val::I16(7)), (4, Val::Bool(k % 2 == 0))]); }
        emit_val(out, r, &v, 1);
    }
    for k in [0usize, 1, 14, 15, 16, 127, 128, 300] {
        emit_val(out, r, &Val::List(TT::I8, (0..k).map(|i| Val::I8(i as i8)).collect()), 0);
        emit_val(out, r, &Val::Set(TT::Bool, (0..k).map(|i| Val::Bool(i % 3 == 0)).collect()), 2);
        emit_val(out, r, &Val::Map(TT::I16, TT::Bool, (0..k).map(|i| (Val::I16((i as i32 * 129 - 300) as i16), Val::Bool(i % 2 == 0))).collect()), 2);
    }
    // ---- integers: all i8; all i16 (thorough) or boundaries + a stride (quick); i32 / i64 / varint boundary classes
    for i in i8::MIN..=i8::MAX { let v = Val::I8(i); for p in protos { let _ = writeln!(out, "se {} {}", p.name(), v.sexp()); } }
    let mut i16s: Vec<i16> = vec![];
    if thorough { i16s.extend(i16::MIN..=i16::MAX); } else {
        for k in 0..16 { for d in [-1i32, 0, 1] { for s in [1i32, -1] { let x = s * ((1 << k) + d); if x >= -32768 && x <= 32767 { i16s.push(x as i16); } } } }
        i16s.extend([i16::MIN, i16::MAX, 63, 64, -64, -65, 8191, 8192, -8192, -8193]);
        i16s.extend((i16::MIN..=i16::MAX).step_by(257));
    }
    for i in i16s { let v = Val::I16(i); for p in protos { let _ = writeln!(out, "se {} {}", p.name(), v.sexp()); } if i % 64 == 0 { let _ = writeln!(out, "sr cmp {} {}", v.sexp(), hex(&ref_encode(Proto::Cmp, &v, &mut Choices::Canon))); } }
    let mut i64s: Vec<i64> = vec![i64::MIN, i64::MAX, i32::MIN as i64, i32::MAX as i64, 0];
    for k in 0..64u32 { for d in [-1i64, 0, 1] { for s in [1i64, -1] { i64s.push(s.wrapping_mul((1i64 << k.min(62)).wrapping_add(d))); } } }
    for k in 1..10u32 { let b = 1i64 << (7 * k - 1).min(62); for d in [-1i64, 0, 1] { i64s.push(b + d); i64s.push(-(b + d)); } }   // zig-zag varint length boundaries
    i64s.sort(); i64s.dedup();
    for x in &i64s {
        emit_val(out, r, &Val::I64(*x), 0);
        if *x >= i32::MIN as i64 && *x <= i32::MAX as i64 { emit_val(out, r, &Val::I32(*x as i32), 0); emit_val(out, r, &Val::Struct(vec![(3, Val::I32(*x as i32))]), 1); }
    }
    // ---- every type byte in every header position (256 each)
    for b in 0..=255u8 {
        let _ = writeln!(out, "s bin {:02x}0001 (fb)", b);
        let _ = writeln!(out, "s bin {:02x}00000000 (lb)", b);
        let _ = writeln!(out, "s bin {:02x}00000000 (setb)", b);
        let _ = writeln!(out, "s bin {:02x}0800000000 (mb)", b);
        let _ = writeln!(out, "s bin 08{:02x}00000000 (mb)", b);
        let _ = writeln!(out, "s bin {:02x}00000000 (read list)", b);          // empty container with that element type
        let _ = writeln!(out, "s bin {:02x}0000000100 (read list)", b);        // one element
        let _ = writeln!(out, "s cmp {:02x}02 (sb) (fb)", b);                   // all (delta, type) field header bytes
        let _ = writeln!(out, "s cmp 15{:02x}02 (sb) (fb) (read i32) (fb)", b); // … after a field with id 1
        let _ = writeln!(out, "s cmp {:02x}0500 (lb)", b);
        let _ = writeln!(out, "s cmp {:02x}0500 (setb)", b);
        let _ = writeln!(out, "s cmp 01{:02x}0000 (mb)", b);
        let _ = writeln!(out, "s cmp {:02x}0000 (read list)", b);
        let _ = writeln!(out, "s cmp {:02x} (read bool)", b);
        let _ = writeln!(out, "s bin {:02x} (read bool)", b);
    }
    // ---- message envelopes: both directions
    for p in protos { for (name, mt, seq) in [("", 1u8, 0i32), ("ping", 2, -1), ("a-rather-long-method-name", 4, i32::MIN), ("x", 3, i32::MAX), ("n", 1, 127), ("n", 2, 128), ("n", 3, 16384)] {
        let _ = writeln!(out, "sm {} {} {} {}", p.name(), hex(name.as_bytes()), mt, seq);
        if let Ok((b, _)) = thrift::write_msg(p, name.as_bytes(), mt, seq) { let _ = writeln!(out, "s {} {}ff (msg)", p.name(), hex(&b)); }
    } }
    for b in 0..=255u8 {
        let _ = writeln!(out, "s bin 800100{:02x}0000000000000007 (msg)", b);      // type byte of the version word
        let _ = writeln!(out, "s bin 80{:02x}00010000000000000007 (msg)", b);      // version bits
        let _ = writeln!(out, "s cmp 82{:02x}0700 (msg)", b);                      // ttt vvvvv
        let _ = writeln!(out, "s cmp {:02x}210700 (msg)", b);                      // protocol id
    }
    for h in ["00000004706963670000000001", "7fffffff", "80010001ffffffff", "8001000100000002", "8001000100000000"] { let _ = writeln!(out, "s bin {} (msg)", h); }
    for h in ["8221ffffffff0f00", "8221808080808000", "822105", "8221050261"] { let _ = writeln!(out, "s cmp {} (msg)", h); }
    // ---- TApplicationException
    for p in protos { for (m, k) in [("", 0i32), ("boom", 6), ("general remote error", 1), ("x", -1), ("y", i32::MAX), ("z", i32::MIN)] {
        let _ = writeln!(out, "axw {} {} {}", p.name(), hex(m.as_bytes()), k);
        let v = Val::Struct(vec![(1, Val::Bin(m.as_bytes().to_vec())), (2, Val::I32(k))]);
        for mut pol in [Choices::Canon, Choices::AllLong, Choices::Rand(Rng(r.next()))] { let _ = writeln!(out, "ax {} {}", p.name(), hex(&ref_encode(p, &v, &mut pol))); }
        // field order swapped, fields missing, unknown fields (skipped), trailing bytes
        let sw = Val::Struct(vec![(2, Val::I32(k)), (1, Val::Bin(m.as_bytes().to_vec()))]);
        let _ = writeln!(out, "ax {} {}", p.name(), hex(&ref_encode(p, &sw, &mut Choices::Canon)));
        let _ = writeln!(out, "ax {} {}", p.name(), hex(&ref_encode(p, &Val::Struct(vec![(2, Val::I32(k))]), &mut Choices::Canon)));
        let _ = writeln!(out, "ax {} {}", p.name(), hex(&ref_encode(p, &Val::Struct(vec![]), &mut Choices::Canon)));
        let unk = Val::Struct(vec![(1, Val::Bin(m.as_bytes().to_vec())), (3, Val::List(TT::I16, vec![Val::I16(7)])), (2, Val::I32(k)), (9, Val::Bool(true)), (10, Val::Struct(vec![(1, Val::Uuid([1; 16]))]))]);
        let mut b = ref_encode(p, &unk, &mut Choices::Rand(Rng(r.next()))); b.extend([1, 2, 3]);
        let _ = writeln!(out, "ax {} {}", p.name(), hex(&b));
        let tr = ref_encode(p, &v, &mut Choices::Canon);
        for cut in 0..tr.len() { let _ = writeln!(out, "ax {} {}", p.name(), hex(&tr[..cut])); }
    } }
    // ---- random value trees
    for _ in 0..n(160, 5000) { let v = gen::gen_any(r, 5); emit_val(out, r, &v, 3); }
}

pub fn gen(stream: &str, tier: &str, seed: u64, out: &mut dyn Write) -> bool {
    let mut r = Rng(seed ^ 0x7133);
    let thorough = tier == "thorough";
    let n = |q: usize, t: usize| if thorough { t } else { q };
    let bufs = [BufK::Bm, BufK::Lb0, BufK::Lb1];
    let apis = ["b", "v", "f", "r", "s"];
    match stream {
        "C11" => {
            // ---- fixed: payloads on both sides of the zero-copy threshold, in every position
            for len in [0usize, 1, 4095, 4096, 4097, 16384] {
                let shapes: Vec<Vec<Val>> = vec![
                    vec![payload(len, 7)],
                    vec![Val::Struct(vec![(1, payload(len, 9)), (2, Val::I32(5)), (3, payload(len, 11)), (4, Val::Bool(true))])],
                    vec![Val::I64(-2), payload(len, 13), payload(len, 17), Val::Uuid([0x5A; 16])],
                    vec![Val::List(TT::Binary, vec![payload(len, 1), payload(3, 2), payload(len, 3)])],
                    vec![Val::Map(TT::Binary, TT::Binary, vec![(payload(len, 4), payload(len, 5))])],
                ];
                for vals in &shapes { for b in bufs { for api in apis { for (slack, tail) in [(0usize, 0usize), (0, 9), (3, 0)] {
                    emit_uw(out, b, api, slack, tail, &None, vals, 0);
                } } } }
            }
            // message envelopes (LinkedBytes: advance_mut after the header; a long name takes write_faststr's zero-copy branch)
            for nl in [0usize, 5, 4096] { for b in bufs {
                let m = Msg { name: vec![b'm'; nl], mt: 1 + (nl % 4) as u8, seq: if nl == 5 { i32::MIN } else { 77 } };
                emit_uw(out, b, "b", 0, 0, &Some(m.clone()), &[Val::Struct(vec![(1, Val::I16(-3))])], 0);
                emit_uw(out, b, "f", 0, 5, &Some(m), &[Val::Struct(vec![(1, payload(4096, 21))]), Val::Bool(false)], 0);
            } }
            // one byte short of the contract: refused by the harness, `oob` in the model
            for b in bufs { for short in [1usize, 3] {
                emit_uw(out, b, "b", 0, 0, &None, &[Val::Struct(vec![(1, Val::I32(7)), (2, payload(4096, 3))])], short);
                emit_uw(out, b, "v", 0, 4, &None, &[Val::I8(1), Val::Dbl(1)], short);
            } }
            // nesting ladders and empty things
            for d in [1usize, 9, 40] { for b in bufs { emit_uw(out, b, "b", 0, 0, &None, &[gen::ladder(d, d)], 0); } }
            for b in bufs { emit_uw(out, b, "b", 0, 0, &None, &[], 0); emit_uw(out, b, "b", 0, 0, &None, &[Val::Struct(vec![])], 0); }
            // every header kind as the LAST thing written into an exact-size window: empty containers, one-byte elements
            for b in bufs {
                let lasts = [Val::Map(TT::I32, TT::Binary, vec![]), Val::List(TT::I64, vec![]), Val::Set(TT::Binary, vec![]), Val::Map(TT::Bool, TT::I8, vec![(Val::Bool(true), Val::I8(1))]),
                             Val::List(TT::Bool, vec![Val::Bool(true)]), Val::Set(TT::I8, vec![Val::I8(5)]), Val::Struct(vec![]), Val::Bool(false), Val::Bin(vec![]), Val::I16(1)];
                for l in &lasts {
                    emit_uw(out, b, "b", 0, 0, &None, &[l.clone()], 0);
                    emit_uw(out, b, "b", 0, 0, &None, &[Val::Struct(vec![(1, Val::I32(7)), (2, l.clone())])], 0);
                    emit_uw(out, b, "b", 0, 0, &None, &[Val::Struct(vec![(1, Val::Struct(vec![(3, l.clone())]))])], 0);
                }
            }
            // ---- random
            for _ in 0..n(220, 6000) {
                let k = 1 + r.below(3) as usize;
                let vals: Vec<Val> = (0..k).map(|_| gen::gen_any(&mut r, 4)).collect();
                let b = *r.pick(&bufs);
                let api = *r.pick(&apis);
                let slack = if r.chance(3, 4) { 0 } else { r.below(20) as usize };
                let tail = if r.chance(1, 2) { 0 } else { r.below(40) as usize };
                let msg = if r.chance(1, 6) { Some(Msg { name: (0..r.below(9)).map(|_| b'a' + r.below(26) as u8).collect(), mt: 1 + r.below(4) as u8, seq: r.next() as i32 }) } else { None };
                emit_uw(out, b, api, slack, tail, &msg, &vals, 0);
            }
            // ---- reader: well-formed inputs only (checked encoder output, optional trailing bytes)
            let enc = |vals: &[Val], msg: &Option<Msg>| checked_bytes(msg, vals, StrApi::Bytes).unwrap();
            let _ = writeln!(out, "ur 00 (read bool)");
            let _ = writeln!(out, "ur 02 (read bool)");
            let _ = writeln!(out, "ur ff (read bool)");
            let _ = writeln!(out, "ur 0b00010000000161000c (read struct) (read i8)");
            let _ = writeln!(out, "ur 0b000100000001 (read struct)");            // truncated: refused
            let _ = writeln!(out, "ur 0b0001000000016108000200000007000c (skip struct) (read i8)");
            let _ = writeln!(out, "ur 0c00070b0001000000026869080002000000010000 (skip struct)");   // strings inside a skipped nested struct
            let _ = writeln!(out, "ur 0f0100000003 (read list)");                // void elements: refused
            let _ = writeln!(out, "ur 0102030405060708 (read i16) (get 0 5) (read i8)");
            let _ = writeln!(out, "ur 0102030405060708 (read i16) (get 1 5) (read i8)");
            let _ = writeln!(out, "ur 0102030405060708 (read i32) (get 0 3)");     // len < index: refused
            let _ = writeln!(out, "ur 0102030405060708 (get 1 9)");               // beyond the buffer: refused
            for nl in [0usize, 3, 200] {
                let m = Some(Msg { name: vec![b'n'; nl], mt: 2, seq: -5 });
                let b = enc(&[Val::Struct(vec![(1, Val::I32(1))])], &m);
                let _ = writeln!(out, "ur {} (msg) (read struct)", hex(&b));
            }
            let _ = writeln!(out, "ur 8001000500000000000000 (msg)");             // bad message type: refused
            // element counters of the iterative skipper: containers of non-fixed-size elements around 2^8 and 2^16 elements (2^15 map
            // entries), alone and inside a skipped struct.  The big ones are judged by the oracle only (checked skipper on the same
            // bytes: same count, same position, the value behind reads back); the model is not asked
            for cnt in [255usize, 256, 257, 65535, 65536, 65537] {
                let tail = if cnt > 1000 { " oracle-only" } else { "" };
                let l = Val::List(TT::Binary, vec![Val::Bin(vec![]); cnt]);
                let m = Val::Map(TT::I8, TT::Binary, vec![(Val::I8(1), Val::Bin(vec![0x61])); cnt / 2]);
                let ll = Val::Set(TT::List, vec![Val::List(TT::Bool, vec![]); cnt]);
                for v in [l, m, ll] {
                    let b = enc(&[v.clone(), Val::I8(7)], &None);
                    let _ = writeln!(out, "ur {} (skip {}) (read i8){}", hex(&b), v.tt().name(), tail);
                    let b = enc(&[Val::Struct(vec![(1, v.clone()), (2, Val::I32(5))]), Val::I8(7)], &None);
                    let _ = writeln!(out, "ur {} (skip struct) (read i8){}", hex(&b), tail);
                }
            }
            for len in [0usize, 1, 4095, 4096, 4097] {
                let b = enc(&[Val::Struct(vec![(1, payload(len, 5)), (2, Val::I16(9))]), Val::I8(3)], &None);
                let _ = writeln!(out, "ur {} (read struct) (read i8)", hex(&b));
            }
            // nesting of a skipped value around the checked skipper's budget (64 levels): chains of directly nested structs / lists
            // with three innermost shapes; whatever the checked skipper accepts the unchecked one must skip, to the same position
            for depth in [1usize, 2, 3, 61, 62, 63, 64, 65, 66] {
                for inner in [Val::Struct(vec![]), Val::Struct(vec![(1, Val::Bin(b"s".to_vec()))]), Val::Struct(vec![(1, Val::I32(7))])] {
                    let mut v = inner.clone();
                    for _ in 1..depth { v = Val::Struct(vec![(1, v)]); }
                    let b = enc(&[v, Val::I8(7)], &None);
                    let _ = writeln!(out, "ur {} (skip struct) (read i8)", hex(&b));
                    let mut v = inner.clone();
                    for i in 1..depth { v = if i % 2 == 0 { Val::Struct(vec![(2, v)]) } else { Val::List(v.tt(), vec![v]) }; }
                    let b = enc(&[v.clone(), Val::I8(7)], &None);
                    let _ = writeln!(out, "ur {} (skip {}) (read i8)", hex(&b), v.tt().name());
                }
            }
            for _ in 0..n(220, 6000) {
                let k = 1 + r.below(3) as usize;
                let vals: Vec<Val> = (0..k).map(|_| gen::gen_any(&mut r, 4)).collect();
                let mut b = enc(&vals, &None);
                let trailing = if r.chance(1, 3) { r.below(6) as usize } else { 0 };
                for _ in 0..trailing { b.push(r.next() as u8); }
                // any non-zero byte is `true` for both readers
                if r.chance(1, 5) { if let Some(Val::Bool(true)) = vals.first() { b[0] = 2 + r.below(254) as u8; } }
                let mut line = format!("ur {}", hex(&b));
                let upto = if r.chance(1, 8) { r.below(k as u64) as usize } else { k };
                for v in &vals[..upto] { line.push_str(&format!(" ({} {})", if r.chance(1, 3) { "skip" } else { "read" }, v.tt().name())); }
                if upto < k && r.chance(1, 2) { line.push_str(&format!(" (get {} {})", r.below(2), r.below(12))); }
                let _ = writeln!(out, "{}", line);
            }
        }
        "C12" => gen_c12(&mut r, thorough, out),
        "C03" => gen_c03(&mut r, thorough, out),
        _ => return false,
    }
    true
}
