//! Track thrift3: unchecked codec (C11), async decoding (C12), spec conformance (C03) — runtime level.
//!
//! Verbs
//!   uw <bm|lb0|lb1> <b|v|f> <win> <spare> [(msg <name> <mt> <seq>)] <val>...   real unchecked writer in an exact window
//!   ur <hex> <step>...      real unchecked reader; step := (read <tt>) | (get <0|1> <len>) | (msg)
//! Streams: C11
use std::io::Write;

use bytes::{BufMut, Bytes, BytesMut};
use linkedbytes::LinkedBytes;
use pilota::thrift::{
    binary::TBinaryProtocol,
    binary_unsafe::{TBinaryUnsafeInputProtocol, TBinaryUnsafeOutputProtocol},
    TInputProtocol, TLengthProtocol, TMessageIdentifier, TOutputProtocol, ThriftException,
};

use crate::gen;
use crate::thrift::{self, err_class, msg_type, read_val, size_of, write_val, BufK, Proto, ReadStep, StrApi};
use crate::val::*;
use crate::Oracle;

pub const ZC_THRESHOLD: usize = 4096;
const GUARD: usize = 32;

fn csv(v: &[usize]) -> String { if v.is_empty() { "-".into() } else { v.iter().map(|x| x.to_string()).collect::<Vec<_>>().join(",") } }

pub fn exec(verb: &str, items: &[Sexp], o: &mut Oracle) -> Option<String> {
    match verb {
        "uw" => Some(uw(items, o).unwrap_or_else(|| "bad-request".into())),
        "ur" => Some(ur(items, o).unwrap_or_else(|| "bad-request".into())),
        _ => None,
    }
}

// ------------------------------------------------------------------------------------------ C11 writer

#[derive(Clone)]
struct Msg { name: Vec<u8>, mt: u8, seq: i32 }
impl Msg {
    fn ident(&self) -> TMessageIdentifier {
        TMessageIdentifier::new(unsafe { faststr::FastStr::from_bytes_unchecked(Bytes::copy_from_slice(&self.name)) }, msg_type(self.mt).unwrap(), self.seq)
    }
    fn sexp(&self) -> String { format!("(msg {} {} {})", hex(&self.name), self.mt, self.seq) }
}

fn api_of(s: &str) -> Option<StrApi> { Some(match s { "b" => StrApi::Bytes, "v" => StrApi::Vec, "f" => StrApi::FastStr, _ => return None }) }

/// payload bytes that take the zero-copy branch of the unchecked LinkedBytes writer
fn zc_len(v: &Val, zc: bool, api: StrApi) -> usize {
    match v {
        Val::Bin(b) => if zc && api != StrApi::Vec && b.len() >= ZC_THRESHOLD { b.len() } else { 0 },
        Val::Struct(fs) => fs.iter().map(|(_, x)| zc_len(x, zc, api)).sum(),
        Val::List(_, xs) | Val::Set(_, xs) => xs.iter().map(|x| zc_len(x, zc, api)).sum(),
        Val::Map(_, _, kvs) => kvs.iter().map(|(k, x)| zc_len(k, zc, api) + zc_len(x, zc, api)).sum(),
        _ => 0,
    }
}

/// bytes the unchecked writer copies into its window: reported size minus zero-copied payloads.
/// (the message name is written by `write_faststr`, which has its own zero-copy branch)
fn need_of(msg: &Option<Msg>, vals: &[Val], buf: BufK, api: StrApi) -> (usize, usize, usize) {
    let zc = buf == BufK::Lb1;
    let (mut size, _) = size_of(Proto::UBin, vals);
    let mut z: usize = if buf == BufK::Bm { 0 } else { vals.iter().map(|v| zc_len(v, zc, api)).sum() };
    if let Some(m) = msg {
        let mut lp = TBinaryProtocol::new((), false);
        size += lp.message_begin_len(&m.ident()) + lp.message_end_len();
        if zc && m.name.len() >= ZC_THRESHOLD { z += m.name.len(); }
    }
    (size, z, size - z)
}

fn checked_bytes(msg: &Option<Msg>, vals: &[Val], api: StrApi) -> Result<Vec<u8>, ThriftException> {
    let mut b = BytesMut::new();
    let mut p = TBinaryProtocol::new(&mut b, false);
    if let Some(m) = msg { p.write_message_begin(&m.ident())?; }
    for v in vals { write_val(&mut p, v, api, &mut |_| {})?; }
    if msg.is_some() { p.write_message_end()?; }
    drop(p);
    Ok(b.to_vec())
}

fn uw(items: &[Sexp], o: &mut Oracle) -> Option<String> {
    let a = |i: usize| items.get(i).and_then(|x| x.atom());
    let buf = BufK::of(a(1)?)?;
    let api = api_of(a(2)?)?;
    let win: usize = a(3)?.parse().ok()?;
    let spare: usize = a(4)?.parse().ok()?;
    if win > spare || spare > (1 << 26) { return None; }
    let mut rest = &items[5..];
    let mut msg = None;
    if let Some(l) = rest.first().and_then(|x| x.list()) {
        if l.first().and_then(|x| x.atom()) == Some("msg") {
            let m = Msg { name: unhex(l.get(1)?.atom()?)?, mt: l.get(2)?.atom()?.parse().ok()?, seq: l.get(3)?.atom()?.parse().ok()? };
            msg_type(m.mt)?;
            msg = Some(m);
            rest = &rest[1..];
        }
    }
    let vals: Vec<Val> = rest.iter().map(Val::of_sexp).collect::<Option<_>>()?;
    let (size, zexp, need) = need_of(&msg, &vals, buf, api);
    // the documented contract: the window holds at least the bytes that will be copied.  Outside it the
    // real code has undefined behaviour; it is not run.
    if need > win { return Some("refused".into()); }
    let zc = buf == BufK::Lb1;
    let mut notes: Vec<String> = vec![];
    let (bytes, idx, z, nodes): (Vec<u8>, usize, usize, Vec<usize>);
    let run = |p: &mut dyn FnMut() -> Result<(), ThriftException>| p();
    let _ = run;
    match buf {
        BufK::Bm => {
            let mut b = BytesMut::with_capacity(GUARD + spare);
            b.put_bytes(0xAA, GUARD);
            if b.capacity() - b.len() != spare { return Some("alloc-mismatch".into()); }
            unsafe {
                let base = b.as_mut_ptr().add(GUARD);
                std::ptr::write_bytes(base, 0xAA, spare);
                let window: &'static mut [u8] = std::slice::from_raw_parts_mut(base, win);
                let mut p = TBinaryUnsafeOutputProtocol::new(&mut b, window, false);
                let r = (|| -> Result<(), ThriftException> {
                    if let Some(m) = &msg { p.write_message_begin(&m.ident())?; }
                    for v in &vals { write_val(&mut p, v, api, &mut |_| {})?; }
                    if msg.is_some() { p.write_message_end()?; }
                    Ok(())
                })();
                if let Err(e) = r { return Some(err_class(&e).into()); }
                idx = p.index();
                z = p.zero_copy_len();
                drop(p);
                if idx > spare { o.fail("C11", format!("index {} beyond the spare capacity {}", idx, spare)); return Some(format!("overrun idx={}", idx)); }
                let tail = std::slice::from_raw_parts(base.add(idx), spare - idx);
                if tail.iter().any(|x| *x != 0xAA) { notes.push("wrote at or beyond the final index (guard bytes changed)".into()); }
                b.advance_mut(idx);
            }
            if b[..GUARD].iter().any(|x| *x != 0xAA) { notes.push("clobbered bytes before the window".into()); }
            bytes = b[GUARD..].to_vec();
            nodes = vec![];
        }
        _ => {
            let mut lb = LinkedBytes::with_capacity(GUARD + spare);
            lb.bytes_mut().put_bytes(0xAA, GUARD);
            if lb.bytes_mut().capacity() - lb.bytes_mut().len() != spare { return Some("alloc-mismatch".into()); }
            let mut ns: Vec<usize>;
            unsafe {
                let base = lb.bytes_mut().as_mut_ptr().add(GUARD);
                std::ptr::write_bytes(base, 0xAA, spare);
                let window: &'static mut [u8] = std::slice::from_raw_parts_mut(base, win);
                let mut p = TBinaryUnsafeOutputProtocol::new(&mut lb, window, zc);
                let r = (|| -> Result<(), ThriftException> {
                    if let Some(m) = &msg { p.write_message_begin(&m.ident())?; }
                    for v in &vals { write_val(&mut p, v, api, &mut |_| {})?; }
                    if msg.is_some() { p.write_message_end()?; }
                    Ok(())
                })();
                if let Err(e) = r { return Some(err_class(&e).into()); }
                idx = p.index();
                z = p.zero_copy_len();
                drop(p);
                ns = lb.iter_list().map(|n| n.as_ref().len()).collect();
                ns.push(lb.bytes().len());
                ns[0] -= GUARD;
                let l = lb.bytes_mut().len();
                let rem = lb.bytes_mut().capacity() - l;
                if idx > rem { o.fail("C11", format!("index {} beyond the spare capacity {}", idx, rem)); return Some(format!("overrun idx={}", idx)); }
                let tail = std::slice::from_raw_parts(lb.bytes_mut().as_ptr().add(l + idx), rem - idx);
                if tail.iter().any(|x| *x != 0xAA) { notes.push("wrote at or beyond the final index (guard bytes changed)".into()); }
                lb.bytes_mut().advance_mut(idx);
            }
            let mut all = Vec::new();
            lb.sync_write_all_vectored(&mut all).expect("write to Vec");
            if all.len() < GUARD || all[..GUARD].iter().any(|x| *x != 0xAA) { notes.push("clobbered bytes before the window".into()); }
            bytes = all[GUARD.min(all.len())..].to_vec();
            nodes = ns;
        }
    }
    // ---- the property, on the implementation
    match checked_bytes(&msg, &vals, api) {
        Ok(c) => if c != bytes { notes.push(format!("bytes differ from the checked writer: {} vs {}", hex(&bytes), hex(&c))); },
        Err(_) => notes.push("checked writer failed".into()),
    }
    if z != zexp { notes.push(format!("zero_copy_len {} != {}", z, zexp)); }
    if bytes.len() != size { notes.push(format!("wrote {} bytes, reported size {}", bytes.len(), size)); }
    if buf == BufK::Bm && idx != size { notes.push(format!("final index {} != size {}", idx, size)); }
    for n in notes { o.fail("C11", format!("unchecked writer: {}", n)); }
    Some(format!("ok {} idx={} z={} nodes={}", hex(&bytes), idx, z, csv(&nodes)))
}

// ------------------------------------------------------------------------------------------ C11 reader

enum UStep { Read(TT), Get(bool, usize), Msg }

fn usteps(xs: &[Sexp]) -> Option<Vec<UStep>> {
    xs.iter().map(|x| {
        let l = x.list()?;
        Some(match l.first()?.atom()? {
            "read" => UStep::Read(TT::of_name(l.get(1)?.atom()?)?),
            "get" => UStep::Get(l.get(1)?.atom()? == "1", l.get(2)?.atom()?.parse().ok()?),
            "msg" => UStep::Msg,
            _ => return None,
        })
    }).collect()
}

fn ur(items: &[Sexp], o: &mut Oracle) -> Option<String> {
    let input = unhex(items.get(1)?.atom()?)?;
    let steps = usteps(&items[2..])?;
    let mut b = Bytes::copy_from_slice(&input);
    let total = b.len();
    let mut outs: Vec<String> = vec![];
    let mut p = unsafe { TBinaryUnsafeInputProtocol::new(&mut b) };
    for st in &steps {
        // the contract: the input at the current position is a complete well-formed encoding (decided by
        // the CHECKED reader on a copy); otherwise the real code has undefined behaviour and is not run.
        let idx = p.index();
        let remaining: Vec<u8> = p.buf()[idx..].to_vec();
        let tlen = p.buf().len();
        let pos_before = total - tlen + idx;
        match st {
            UStep::Read(tt) => {
                let chk = thrift::read_script(Proto::Bin, &remaining, &[ReadStep::Read(*tt)]);
                if chk.err.is_some() { drop(p); return Some(format!("refused after={}", outs.len())); }
                match read_val(&mut p, *tt) {
                    Ok(v) => {
                        let s = v.sexp();
                        if s != chk.items[0] { o.fail("C11", format!("unchecked reader value {} != checked {}", s, chk.items[0])); }
                        let pos = total - p.buf().len() + p.index();
                        if pos - pos_before != remaining.len() - chk.rem { o.fail("C11", format!("unchecked reader consumed {} bytes, checked {}", pos - pos_before, remaining.len() - chk.rem)); }
                        outs.push(s);
                    }
                    Err(e) => { o.fail("C11", format!("unchecked reader failed where the checked reader succeeds: {}", e)); drop(p); return Some(format!("{} after={}", err_class(&e), outs.len())); }
                }
            }
            UStep::Get(ptr, len) => {
                let ok = if *ptr { *len <= tlen } else { *len >= idx && *len <= tlen };
                if !ok { drop(p); return Some(format!("refused after={}", outs.len())); }
                let base = p.buf().as_ptr();
                match p.get_bytes(if *ptr { Some(base) } else { None }, *len) {
                    Ok(g) => outs.push(format!("(got {})", hex(&g))),
                    Err(e) => { drop(p); return Some(format!("{} after={}", err_class(&e), outs.len())); }
                }
            }
            UStep::Msg => {
                let chk = thrift::read_msg(Proto::Bin, &remaining);
                let Ok((cn, cmt, cseq, crem)) = chk else { drop(p); return Some(format!("refused after={}", outs.len())); };
                match p.read_message_begin() {
                    Ok(id) => {
                        let got = (id.name.as_bytes().to_vec(), id.message_type as u8, id.sequence_number);
                        if got != (cn, cmt, cseq) { o.fail("C11", format!("unchecked read_message_begin {:?} != checked", got)); }
                        let pos = total - p.buf().len() + p.index();
                        if pos - pos_before != remaining.len() - crem { o.fail("C11", "unchecked read_message_begin consumed a different number of bytes".into()); }
                        outs.push(format!("(msg {} {} {})", hex(&got.0), got.1, got.2));
                    }
                    Err(e) => { o.fail("C11", format!("unchecked read_message_begin failed where the checked one succeeds: {}", e)); drop(p); return Some(format!("{} after={}", err_class(&e), outs.len())); }
                }
            }
        }
    }
    let idx = p.index();
    drop(p);
    let adv = total - b.len();
    Some(format!("ok {} idx={} adv={}", if outs.is_empty() { "-".into() } else { outs.join(" ") }, idx, adv))
}

// ------------------------------------------------------------------------------------------ generators

fn payload(n: usize, seed: u64) -> Val { Val::Bin((0..n).map(|i| (seed.wrapping_mul(i as u64 + 3) >> 5) as u8).collect()) }

fn emit_uw(out: &mut dyn Write, buf: BufK, api: &str, slack: usize, tail: usize, msg: &Option<Msg>, vals: &[Val], short: usize) {
    let (_, _, need) = need_of(msg, vals, buf, api_of(api).unwrap());
    let win = (need + slack).saturating_sub(short);
    let mut line = format!("uw {} {} {} {}", buf.name(), api, win, win + tail);
    if let Some(m) = msg { line.push(' '); line.push_str(&m.sexp()); }
    for v in vals { line.push(' '); line.push_str(&v.sexp()); }
    let _ = writeln!(out, "{}", line);
}

pub fn gen(stream: &str, tier: &str, seed: u64, out: &mut dyn Write) -> bool {
    let mut r = Rng(seed ^ 0x7133);
    let thorough = tier == "thorough";
    let n = |q: usize, t: usize| if thorough { t } else { q };
    let bufs = [BufK::Bm, BufK::Lb0, BufK::Lb1];
    let apis = ["b", "v", "f"];
    match stream {
        "C11" => {
            // ---- fixed: payloads on both sides of the zero-copy threshold, in every position
            for len in [0usize, 1, 4095, 4096, 4097, 16384] {
                let shapes: Vec<Vec<Val>> = vec![
                    vec![payload(len, 7)],
                    vec![Val::Struct(vec![(1, payload(len, 9)), (2, Val::I32(5)), (3, payload(len, 11)), (4, Val::Bool(true))])],
                    vec![Val::I64(-2), payload(len, 13), payload(len, 17), Val::Uuid([0x5A; 16])],
                    vec![Val::List(TT::Binary, vec![payload(len, 1), payload(3, 2), payload(len, 3)])],
                    vec![Val::Map(TT::Binary, TT::Binary, vec![(payload(len, 4), payload(len, 5))])],
                ];
                for vals in &shapes { for b in bufs { for api in apis { for (slack, tail) in [(0usize, 0usize), (0, 9), (3, 0)] {
                    emit_uw(out, b, api, slack, tail, &None, vals, 0);
                } } } }
            }
            // message envelopes (LinkedBytes: advance_mut after the header; a long name takes write_faststr's zero-copy branch)
            for nl in [0usize, 5, 4096] { for b in bufs {
                let m = Msg { name: vec![b'm'; nl], mt: 1 + (nl % 4) as u8, seq: if nl == 5 { i32::MIN } else { 77 } };
                emit_uw(out, b, "b", 0, 0, &Some(m.clone()), &[Val::Struct(vec![(1, Val::I16(-3))])], 0);
                emit_uw(out, b, "f", 0, 5, &Some(m), &[Val::Struct(vec![(1, payload(4096, 21))]), Val::Bool(false)], 0);
            } }
            // one byte short of the contract: refused by the harness, `oob` in the model
            for b in bufs { for short in [1usize, 3] {
                emit_uw(out, b, "b", 0, 0, &None, &[Val::Struct(vec![(1, Val::I32(7)), (2, payload(4096, 3))])], short);
                emit_uw(out, b, "v", 0, 4, &None, &[Val::I8(1), Val::Dbl(1)], short);
            } }
            // nesting ladders and empty things
            for d in [1usize, 9, 40] { for b in bufs { emit_uw(out, b, "b", 0, 0, &None, &[gen::ladder(d, d)], 0); } }
            for b in bufs { emit_uw(out, b, "b", 0, 0, &None, &[], 0); emit_uw(out, b, "b", 0, 0, &None, &[Val::Struct(vec![])], 0); }
            // ---- random
            for _ in 0..n(220, 6000) {
                let k = 1 + r.below(3) as usize;
                let vals: Vec<Val> = (0..k).map(|_| gen::gen_any(&mut r, 4)).collect();
                let b = *r.pick(&bufs);
                let api = *r.pick(&apis);
                let slack = if r.chance(3, 4) { 0 } else { r.below(20) as usize };
                let tail = if r.chance(1, 2) { 0 } else { r.below(40) as usize };
                let msg = if r.chance(1, 6) { Some(Msg { name: (0..r.below(9)).map(|_| b'a' + r.below(26) as u8).collect(), mt: 1 + r.below(4) as u8, seq: r.next() as i32 }) } else { None };
                emit_uw(out, b, api, slack, tail, &msg, &vals, 0);
            }
            // ---- reader: well-formed inputs only (checked encoder output, optional trailing bytes)
            let enc = |vals: &[Val], msg: &Option<Msg>| checked_bytes(msg, vals, StrApi::Bytes).unwrap();
            let _ = writeln!(out, "ur 00 (read bool)");
            let _ = writeln!(out, "ur 02 (read bool)");
            let _ = writeln!(out, "ur ff (read bool)");
            let _ = writeln!(out, "ur 0b00010000000161000c (read struct) (read i8)");
            let _ = writeln!(out, "ur 0b000100000001 (read struct)");            // truncated: refused
            let _ = writeln!(out, "ur 0f0100000003 (read list)");                // void elements: refused
            let _ = writeln!(out, "ur 0102030405060708 (read i16) (get 0 5) (read i8)");
            let _ = writeln!(out, "ur 0102030405060708 (read i16) (get 1 5) (read i8)");
            let _ = writeln!(out, "ur 0102030405060708 (read i32) (get 0 3)");     // len < index: refused
            let _ = writeln!(out, "ur 0102030405060708 (get 1 9)");               // beyond the buffer: refused
            for nl in [0usize, 3, 200] {
                let m = Some(Msg { name: vec![b'n'; nl], mt: 2, seq: -5 });
                let b = enc(&[Val::Struct(vec![(1, Val::I32(1))])], &m);
                let _ = writeln!(out, "ur {} (msg) (read struct)", hex(&b));
            }
            let _ = writeln!(out, "ur 8001000500000000000000 (msg)");             // bad message type: refused
            for len in [0usize, 1, 4095, 4096, 4097] {
                let b = enc(&[Val::Struct(vec![(1, payload(len, 5)), (2, Val::I16(9))]), Val::I8(3)], &None);
                let _ = writeln!(out, "ur {} (read struct) (read i8)", hex(&b));
            }
            for _ in 0..n(220, 6000) {
                let k = 1 + r.below(3) as usize;
                let vals: Vec<Val> = (0..k).map(|_| gen::gen_any(&mut r, 4)).collect();
                let mut b = enc(&vals, &None);
                let trailing = if r.chance(1, 3) { r.below(6) as usize } else { 0 };
                for _ in 0..trailing { b.push(r.next() as u8); }
                // any non-zero byte is `true` for both readers
                if r.chance(1, 5) { if let Some(Val::Bool(true)) = vals.first() { b[0] = 2 + r.below(254) as u8; } }
                let mut line = format!("ur {}", hex(&b));
                let upto = if r.chance(1, 8) { r.below(k as u64) as usize } else { k };
                for v in &vals[..upto] { line.push_str(&format!(" (read {})", v.tt().name())); }
                if upto < k && r.chance(1, 2) { line.push_str(&format!(" (get {} {})", r.below(2), r.below(12))); }
                let _ = writeln!(out, "{}", line);
            }
        }
        _ => return false,
    }
    true
}
