// counting allocator of the C09 allocation oracle (defined in thrift2.rs; a library must not install one)
#[global_allocator]
static GLOBAL: rt::thrift2::CountingAlloc = rt::thrift2::CountingAlloc;

fn main() {
    rt::run_main(rt::MODULES);
}
