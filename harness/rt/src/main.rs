fn main() {
    rt::run_main(rt::MODULES);
}
