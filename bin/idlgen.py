#!/usr/bin/env python3
"""G_thrift: Thrift documents for the emitted-code properties (C02 C08 C13 C19 C20, and the
emitted halves of C04 C11 C12), their IDL rendering, their schema for the Lean model, value
generators, and an independent Python oracle (`project`) of what a generated decoder must return.

A document is {'name': str, 'items': [item]}.
item := {'kind': 'struct'|'exception', 'name', 'fields': [{'id','name','ty','req': 'required'|'optional'|'default','default': lit|None}]}
      | {'kind': 'union', 'name', 'fields': [...]}
      | {'kind': 'enum', 'name', 'members': [(name, number)]}
      | {'kind': 'typedef', 'name', 'ty'}
      | {'kind': 'service', 'name', 'methods': [{'name','ret': ty|None,'oneway': bool,'args': [field],'throws': [field]}]}
ty   := ('bool',) ('i8',) ('i16',) ('i32',) ('i64',) ('double',) ('string',) ('binary',) ('uuid',)
      | ('list', ty) ('set', ty) ('map', ty, ty) ('ref', name)
lit  := ('int', n) ('dbl', text) ('str', text) ('bool', b) ('list', [lit]) ('map', [(lit, lit)]) ('enum', Enum, Member)
value (TVal) := ('bool', b) ('i8', n) ('i16', n) ('i32', n) ('i64', n) ('dbl', bits) ('bin', bytes) ('uuid', bytes)
      | ('struct', [(id, value)]) ('list', tt, [value]) ('set', tt, [value]) ('map', kt, vt, [(value, value)])
"""
import random, struct

BASE = ["bool", "i8", "i16", "i32", "i64", "double", "string", "binary", "uuid"]
TT_OF_BASE = {"bool": "bool", "i8": "i8", "i16": "i16", "i32": "i32", "i64": "i64", "double": "double",
              "string": "binary", "binary": "binary", "uuid": "uuid"}


# ----------------------------------------------------------------------------- documents
def items_by_name(doc):
    return {it["name"]: it for it in doc["items"] if it["kind"] != "service"}


def camel(s):
    return "".join(p[:1].upper() + p[1:] for p in s.split("_"))


def synthesized(doc):
    """the Args/Result/Exception types pilota-build synthesises for service methods, as ordinary items"""
    out = []
    for it in doc["items"]:
        if it["kind"] != "service":
            continue
        for m in it["methods"]:
            base = it["name"] + camel(m["name"])
            args = [dict(f, req="required", default=None) for f in m["args"]]
            for suffix in ("ArgsSend", "ArgsRecv"):
                out.append({"kind": "struct", "name": base + suffix, "fields": args, "synth": True})
            ok = {"id": 0, "name": "Ok", "ty": m["ret"], "req": "default", "default": None}
            res = [ok] + [dict(f) for f in m["throws"]]
            if not m["oneway"] or True:
                for suffix in ("ResultSend", "ResultRecv"):
                    out.append({"kind": "union", "name": base + suffix, "fields": res, "synth": True, "result": True})
            if m["throws"]:
                out.append({"kind": "union", "name": base + "Exception", "fields": [dict(f) for f in m["throws"]], "synth": True})
    return out


def all_items(doc):
    d = items_by_name(doc)
    for it in synthesized(doc):
        d[it["name"]] = it
    return d


def ttype(items, ty):
    k = ty[0]
    if k in TT_OF_BASE:
        return TT_OF_BASE[k]
    if k in ("list", "set", "map"):
        return k
    it = items[ty[1]]
    if it["kind"] == "enum":
        return "i32"
    if it["kind"] == "typedef":
        return ttype(items, it["ty"])
    return "struct"


# ----------------------------------------------------------------------------- rendering
def render_ty(ty):
    k = ty[0]
    if k == "list":
        return f"list<{render_ty(ty[1])}>"
    if k == "set":
        return f"set<{render_ty(ty[1])}>"
    if k == "map":
        return f"map<{render_ty(ty[1])}, {render_ty(ty[2])}>"
    if k == "ref":
        return ty[1]
    return k


def render_lit(l):
    k = l[0]
    if k == "int":
        if len(l) > 2 and l[2] == "hex":          # `0x..` / `-0x..` spelling of the same integer
            return ("-" if l[1] < 0 else "") + hex(abs(l[1]))
        return str(l[1])
    if k == "dbl":
        return l[1]
    if k == "str":
        q = "'" if len(l) > 2 and l[2] == "sq" else '"'
        return q + l[1] + q
    if k == "bool":
        return "true" if l[1] else "false"
    if k == "list":
        return "[" + ", ".join(render_lit(x) for x in l[1]) + "]"
    if k == "map":
        return "{" + ", ".join(f"{render_lit(a)}: {render_lit(b)}" for a, b in l[1]) + "}"
    if k == "enum":
        return f"{l[1]}.{l[2]}"
    if k == "const":
        return l[1]
    raise ValueError(l)


def render_field(f):
    req = {"required": "required ", "optional": "optional ", "default": ""}[f["req"]]
    d = f" = {render_lit(f['default'])}" if f.get("default") is not None else ""
    ann = ""
    if f.get("ann"):
        ann = " (" + ", ".join(f'{k} = "{v}"' for k, v in f["ann"].items()) + ")"
    return f"  {f['id']}: {req}{render_ty(f['ty'])} {f['name']}{d}{ann},"


# constants are not items of a document's type universe: they live in doc["consts"] = [(name, ty, literal)] and, for the lowering
# of a default that names one, in this registry (names are unique across the documents of a run)
CONSTS = {}


def unescape(s):
    """what rustc makes of the escapes the IDL grammar admits inside a literal (the generator pastes the raw text into a Rust
    string literal): \\ \" \' \n"""
    out, i = [], 0
    while i < len(s):
        if s[i] == "\\" and i + 1 < len(s) and s[i + 1] in "\\\"'n":
            out.append({"\\": "\\", '"': '"', "'": "'", "n": "\n"}[s[i + 1]])
            i += 2
        else:
            out.append(s[i])
            i += 1
    return "".join(out)


def render(doc):
    out = []
    for name, ty, lit in doc.get("consts", []):
        CONSTS[name] = (ty, lit)
        out.append(f"const {render_ty(ty)} {name} = {render_lit(lit)}")
    if doc.get("consts"):
        out.append("")
    for it in doc["items"]:
        k = it["kind"]
        if k in ("struct", "exception", "union"):
            out.append(f"{k} {it['name']} {{")
            out += [render_field(f) for f in it["fields"]]
            out.append("}")
        elif k == "enum":
            out.append(f"enum {it['name']} {{")
            out += [f"  {n} = {v}," for n, v in it["members"]]
            out.append("}")
        elif k == "typedef":
            out.append(f"typedef {render_ty(it['ty'])} {it['name']}")
        elif k == "service":
            out.append(f"service {it['name']} {{")
            for m in it["methods"]:
                ret = "void" if m["ret"] is None else render_ty(m["ret"])
                args = ", ".join(f"{f['id']}: {render_ty(f['ty'])} {f['name']}" for f in m["args"])
                thr = ""
                if m["throws"]:
                    thr = " throws (" + ", ".join(f"{f['id']}: {render_ty(f['ty'])} {f['name']}" for f in m["throws"]) + ")"
                out.append(f"  {'oneway ' if m['oneway'] else ''}{ret} {m['name']}({args}){thr},")
            out.append("}")
        out.append("")
    return "\n".join(out)


# ----------------------------------------------------------------------------- values
def dbl_bits(x):
    return struct.unpack(">Q", struct.pack(">d", x))[0]


def sexp(v):
    k = v[0]
    if k == "bool":
        return f"(bool {int(v[1])})"
    if k in ("i8", "i16", "i32", "i64"):
        return f"({k} {v[1]})"
    if k == "dbl":
        return f"(dbl {v[1]:016x})"
    if k in ("bin", "uuid"):
        return f"({k} {v[1].hex() or '-'})"
    if k == "struct":
        return "(struct" + "".join(f" ({i} {sexp(x)})" for i, x in v[1]) + ")"
    if k in ("list", "set"):
        return f"({k} {v[1]}" + "".join(" " + sexp(x) for x in v[2]) + ")"
    if k == "map":
        return f"(map {v[1]} {v[2]}" + "".join(f" ({sexp(a)} {sexp(b)})" for a, b in v[3]) + ")"
    raise ValueError(v)


def canon(v):
    """map entries / set elements sorted by their text (hash containers have no order)"""
    k = v[0]
    if k == "struct":
        return ("struct", [(i, canon(x)) for i, x in v[1]])
    if k == "list":
        return ("list", v[1], [canon(x) for x in v[2]])
    if k == "set":
        return ("set", v[1], sorted((canon(x) for x in v[2]), key=sexp))
    if k == "map":
        return ("map", v[1], v[2], sorted(((canon(a), canon(b)) for a, b in v[3]), key=lambda p: sexp(p[0])))
    return v


def lower_default(items, ty, lit):
    """IDL default literal -> the value it denotes for a field of type ty (independent of pilota's lit_into_ty)"""
    k = ty[0]
    if lit[0] == "const":
        return lower_default(items, ty, CONSTS[lit[1]][1])
    if k == "ref":
        it = items[ty[1]]
        if it["kind"] == "typedef":
            return lower_default(items, it["ty"], lit)
        if it["kind"] == "enum":
            if lit[0] == "enum":
                return ("i32", dict(items[lit[1]]["members"])[lit[2]])
            if lit[0] == "int":
                return ("i32", lit[1])
        if it["kind"] in ("struct", "exception") and lit[0] == "map":
            fs = []
            given = {a[1]: b for a, b in lit[1]}
            for f in it["fields"]:
                if f["name"] in given:
                    fs.append((f["id"], lower_default(items, f["ty"], given[f["name"]])))
                elif f["req"] != "optional" and f["req"] != "default":
                    fs.append((f["id"], zero(items, f["ty"])))
            return ("struct", fs)
        raise ValueError((ty, lit))
    if k == "bool":
        return ("bool", bool(lit[1]))
    if k in ("i8", "i16", "i32", "i64"):
        if lit[0] == "enum":
            return (k, dict(items[lit[1]]["members"])[lit[2]])
        return (k, lit[1])
    if k == "double":
        return ("dbl", dbl_bits(float(lit[1])))
    if k in ("string", "binary"):
        return ("bin", unescape(lit[1]).encode())
    if k in ("list", "set"):
        return (k, ttype(items, ty[1]), [lower_default(items, ty[1], x) for x in lit[1]])
    if k == "map":
        ents = [] if lit[0] == "list" else [(lower_default(items, ty[1], a), lower_default(items, ty[2], b)) for a, b in lit[1]]
        return ("map", ttype(items, ty[1]), ttype(items, ty[2]), ents)
    raise ValueError((ty, lit))


def zero(items, ty):
    """Rust Default of the field type, as a wire value"""
    k = ty[0]
    if k == "bool":
        return ("bool", False)
    if k in ("i8", "i16", "i32", "i64"):
        return (k, 0)
    if k == "double":
        return ("dbl", 0)
    if k in ("string", "binary"):
        return ("bin", b"")
    if k == "uuid":
        return ("uuid", bytes(16))
    if k in ("list", "set"):
        return (k, ttype(items, ty[1]), [])
    if k == "map":
        return ("map", ttype(items, ty[1]), ttype(items, ty[2]), [])
    it = items[ty[1]]
    if it["kind"] == "enum":
        return ("i32", 0)
    if it["kind"] == "typedef":
        return zero(items, it["ty"])
    if it["kind"] == "union":
        f = it["fields"][0]
        return ("struct", [(f["id"], zero(items, f["ty"]))])
    return default_of(items, it)


def default_of(items, it):
    """what `T::default()` of a generated struct must encode to (C20)"""
    fs = []
    for f in it["fields"]:
        if f.get("default") is not None:
            fs.append((f["id"], lower_default(items, f["ty"], f["default"])))
        elif f["req"] == "required":
            fs.append((f["id"], zero(items, f["ty"])))
    return ("struct", fs)


SAFE_DBL = [0x3ff0000000000000, 0x4000000000000000, 0xc008000000000000, 0x7ff0000000000000, 0x0000000000000001, 0x402abd70a3d70a3d]
I_EDGES = [0, 1, -1, 2, 63, 64, -64, -65, 127, -128, 128, 255, 8191, 8192, -8193, 32767, -32768, 65535, 2 ** 31 - 1, -2 ** 31, 2 ** 31, 2 ** 63 - 1, -2 ** 63]


def gen_int(r, bits):
    m = 1 << (bits - 1)
    c = r.randrange(3)
    if c == 0:
        n = r.choice(I_EDGES)
    elif c == 1:
        n = r.randrange(-150, 150)
    else:
        n = r.getrandbits(bits) - m
    return ((n + m) % (2 * m)) - m


def gen_value(items, ty, r, depth, key=False):
    k = ty[0]
    if k == "bool":
        return ("bool", r.random() < 0.5)
    if k in ("i8", "i16", "i32", "i64"):
        return (k, gen_int(r, int(k[1:])))
    if k == "double":
        return ("dbl", r.choice(SAFE_DBL) if key or r.random() < 0.5 else r.getrandbits(64) if not key else r.choice(SAFE_DBL))
    if k == "string":
        n = r.choice([0, 1, 2, 3, 5, 9, 30]) if key or r.random() > 0.02 else r.choice([4095, 4096, 4097, 9000])
        return ("bin", bytes(r.choice(b"abcxyz09_ -") for _ in range(n)))
    if k == "binary":
        n = r.choice([0, 1, 2, 4, 7, 40]) if key or r.random() > 0.02 else r.choice([4095, 4096, 4097, 9000])
        return ("bin", bytes(r.getrandbits(8) for _ in range(n)))
    if k == "uuid":
        return ("uuid", bytes(r.getrandbits(8) for _ in range(16)))
    if k in ("list", "set"):
        n = 0 if depth <= 0 else r.choice([0, 1, 2, 3, 15, 16] if ty[1][0] in ("i8", "bool", "i32") else [0, 1, 2, 3])
        xs = [gen_value(items, ty[1], r, depth - 1, key=(k == "set")) for _ in range(n)]
        if k == "set":
            xs = dedup(xs)
        return (k, ttype(items, ty[1]), xs)
    if k == "map":
        n = 0 if depth <= 0 else r.choice([0, 1, 2, 3])
        ents = [(gen_value(items, ty[1], r, depth - 1, key=True), gen_value(items, ty[2], r, depth - 1)) for _ in range(n)]
        seen, out = set(), []
        for a, b in ents:
            if sexp(canon(a)) not in seen:
                seen.add(sexp(canon(a)))
                out.append((a, b))
        return ("map", ttype(items, ty[1]), ttype(items, ty[2]), out)
    it = items[ty[1]]
    if it["kind"] == "enum":
        nums = [n for _, n in it["members"]]
        return ("i32", r.choice(nums) if r.random() < 0.8 else gen_int(r, 32))
    if it["kind"] == "typedef":
        return gen_value(items, it["ty"], r, depth, key)
    return gen_item_value(items, it, r, depth)


def dedup(xs):
    seen, out = set(), []
    for x in xs:
        s = sexp(canon(x))
        if s not in seen:
            seen.add(s)
            out.append(x)
    return out


def gen_item_value(items, it, r, depth):
    if it["kind"] == "union":
        fs = [f for f in it["fields"] if f["ty"] is not None]
        if not fs:
            return ("struct", [])
        f = r.choice(fs)
        return ("struct", [(f["id"], gen_value(items, f["ty"], r, depth - 1))])
    fs = []
    for f in it["fields"]:
        if f["req"] == "required" or (depth > 0 and r.random() < 0.7):
            if depth <= 0 and f["ty"][0] == "ref" and items[f["ty"][1]]["kind"] in ("struct", "exception", "union") and f["req"] != "required":
                continue
            fs.append((f["id"], gen_value(items, f["ty"], r, depth - 1)))
    return ("struct", fs)


# ----------------------------------------------------------------------------- the oracle
class Reject(Exception):
    pass


def conforms(items, ty, v):
    """does wire value v have the shape a decoder for ty reads without losing sync?  (element types are not
    checked by generated decoders, so a container whose element type differs is NOT something this oracle
    predicts: callers only pass values whose containers match their declared element types.)"""
    return v[0] == {"binary": "bin", "double": "dbl"}.get(ttype(items, ty), ttype(items, ty))


def project_ty(items, ty, v, keep=False):
    """the value a decoder for declared type ty returns for wire value v (which has ty's wire type)"""
    k = ty[0]
    if keep:
        return project_ty_keep(items, ty, v)
    if k in ("list", "set"):
        xs = [project_ty(items, ty[1], x) for x in v[2]]
        if k == "set":
            xs = dedup(xs)
        return (k, ttype(items, ty[1]), xs)
    if k == "map":
        d = {}
        for a, b in v[3]:
            pa = project_ty(items, ty[1], a)
            d[sexp(canon(pa))] = (pa, project_ty(items, ty[2], b))
        return ("map", ttype(items, ty[1]), ttype(items, ty[2]), list(d.values()))
    if k == "ref":
        it = items[ty[1]]
        if it["kind"] == "enum":
            return v
        if it["kind"] == "typedef":
            return project_ty(items, it["ty"], v)
        return project_item(items, it, v)
    return v


def project_ty_keep(items, ty, v):
    k = ty[0]
    if k in ("list", "set"):
        xs = [project_ty_keep(items, ty[1], x) for x in v[2]]
        if k == "set":
            xs = dedup(xs)
        return (k, ttype(items, ty[1]), xs)
    if k == "map":
        d = {}
        for a, b in v[3]:
            pa = project_ty_keep(items, ty[1], a)
            d[sexp(canon(pa))] = (pa, project_ty_keep(items, ty[2], b))
        return ("map", ttype(items, ty[1]), ttype(items, ty[2]), list(d.values()))
    if k == "ref":
        it = items[ty[1]]
        if it["kind"] == "enum":
            return v
        if it["kind"] == "typedef":
            return project_ty_keep(items, it["ty"], v)
        return project_item_keep(items, it, v)
    return v


def project_item_keep(items, it, v):
    """with keep_unknown_fields: unknown fields are retained, in wire order, after the known ones (C13)"""
    known = {f["id"]: f for f in it["fields"]}

    def is_known(i, x):
        return i in known and known[i]["ty"] is not None and wire_tt(x) == ttype(items, known[i]["ty"])
    if it["kind"] == "union":
        hit = [(i, x) for i, x in v[1] if is_known(i, x)]
        unk = [(i, x) for i, x in v[1] if not is_known(i, x)]
        if len(hit) > 1:
            raise Reject("multiple")
        if hit:
            # retention never changes how known fields decode: the known variant, unknown fields ignored
            i, x = hit[0]
            return ("struct", [(i, project_ty_keep(items, known[i]["ty"], x))])
        if len(unk) == 1:
            return ("struct", unk)
        if not unk and it["fields"] and it["fields"][0]["ty"] is None and it["fields"][0]["name"] == "Ok":
            return ("struct", [])
        raise Reject("empty or several unknown")
    out = []
    for f in it["fields"]:
        got = [x for i, x in v[1] if i == f["id"] and wire_tt(x) == ttype(items, f["ty"])]
        if got:
            out.append((f["id"], project_ty_keep(items, f["ty"], got[-1])))
        elif f.get("default") is not None:
            out.append((f["id"], lower_default(items, f["ty"], f["default"])))
        elif f["req"] == "required":
            raise Reject(f"required {f['name']}")
    out += [(i, x) for i, x in v[1] if not is_known(i, x)]
    return ("struct", out)


def expected_keep(items, name, v):
    try:
        return sexp(canon(project_item_keep(items, items[name], v)))
    except Reject:
        return "err"


def arg_types(doc):
    out = set()
    for it in doc["items"]:
        if it["kind"] == "service":
            for m in it["methods"]:
                # resolve.rs lowers method arguments, the return type and the exception types with is_args = true (direct
                # references only: container elements are lowered with false)
                for f in list(m["args"]) + list(m["throws"]) + ([{"ty": m["ret"]}] if m["ret"] is not None else []):
                    if f["ty"][0] == "ref":
                        out.add(f["ty"][1])
    return out


def inject_unknowns(items, ty, v, r, p=0.5):
    """insert fields no reader declares into v and into every struct nested in it"""
    k = ty[0]
    if k in ("list", "set"):
        return (v[0], v[1], [inject_unknowns(items, ty[1], x, r, p) for x in v[2]])
    if k == "map":
        return ("map", v[1], v[2], [(a, inject_unknowns(items, ty[2], b, r, p)) for a, b in v[3]])
    if k != "ref":
        return v
    it = items[ty[1]]
    if it["kind"] == "typedef":
        return inject_unknowns(items, it["ty"], v, r, p)
    if it["kind"] == "enum":
        return v
    known = {f["id"]: f for f in it["fields"]}
    fs = [(i, inject_unknowns(items, known[i]["ty"], x, r, p) if i in known and known[i]["ty"] is not None else x) for i, x in v[1]]
    if r.random() < p:
        for _ in range(r.randrange(1, 3)):
            i = r.choice([x for x in [r.randrange(40, 90), 999, 32000, -1, -200] if x not in known] or [9999])
            fs.insert(r.randrange(len(fs) + 1), (i, unknown_value(r)))
    return ("struct", fs)


def reaches(items, name, pred, seen=None):
    """does the declared type `name` reach an item satisfying pred (itself, or through fields, containers, typedefs)?"""
    seen = seen if seen is not None else set()
    if name in seen:
        return False
    seen.add(name)
    it = items[name]

    def ty_reaches(ty):
        if ty is None:
            return False
        k = ty[0]
        if k in ("list", "set"):
            return ty_reaches(ty[1])
        if k == "map":
            return ty_reaches(ty[1]) or ty_reaches(ty[2])
        return k == "ref" and reaches(items, ty[1], pred, seen)
    if pred(it):
        return True
    if it["kind"] == "typedef":
        return ty_reaches(it["ty"])
    if it["kind"] == "enum":
        return False
    return any(ty_reaches(f["ty"]) for f in it["fields"])


def reaches_union(items, name):
    return reaches(items, name, lambda it: it["kind"] == "union")


def reaches_list(items, name, seen=None):
    """does the declared type `name` contain a list anywhere (known finding D13 lives in the synchronous list arm)?"""
    seen = seen if seen is not None else set()
    if name in seen:
        return False
    seen.add(name)
    it = items[name]

    def ty_has(ty):
        if ty is None:
            return False
        k = ty[0]
        if k == "list":
            return True
        if k == "set":
            return ty_has(ty[1])
        if k == "map":
            return ty_has(ty[1]) or ty_has(ty[2])
        return k == "ref" and reaches_list(items, ty[1], seen)
    if it["kind"] == "typedef":
        return ty_has(it["ty"])
    if it["kind"] == "enum":
        return False
    return any(ty_has(f["ty"]) for f in it["fields"])


def with_long_payload(v, n, r):
    """v with its first string / binary leaf (searched through struct fields) replaced by n bytes; None if there is none"""
    if v[0] == "bin":
        return ("bin", bytes(r.choice(b"abcdefgh") for _ in range(n)))
    if v[0] == "struct":
        for idx, (i, x) in enumerate(v[1]):
            y = with_long_payload(x, n, r)
            if y is not None:
                return ("struct", v[1][:idx] + [(i, y)] + v[1][idx + 1:])
    return None


def contains_type(items, ty, v, names):
    """does value v (of declared type ty) contain a struct value of one of the named types?"""
    k = ty[0]
    if k in ("list", "set"):
        return any(contains_type(items, ty[1], x, names) for x in v[2])
    if k == "map":
        return any(contains_type(items, ty[1], a, names) or contains_type(items, ty[2], b, names) for a, b in v[3])
    if k != "ref":
        return False
    it = items[ty[1]]
    if it["kind"] == "typedef":
        return contains_type(items, it["ty"], v, names)
    if it["kind"] == "enum":
        return False
    if ty[1] in names:
        return True
    known = {f["id"]: f for f in it["fields"]}
    return any(i in known and known[i]["ty"] is not None and wire_tt(x) == ttype(items, known[i]["ty"]) and contains_type(items, known[i]["ty"], x, names) for i, x in v[1])


def d12_fires(items, ty, v, args):
    """D12: somewhere in v an argument-type struct value carries at least as many known fields as the type declares,
    so the retention decoder's `__pilota_fields_num == 0` shortcut takes the rest of the buffer"""
    k = ty[0]
    if k in ("list", "set"):
        return any(d12_fires(items, ty[1], x, args) for x in v[2])
    if k == "map":
        return any(d12_fires(items, ty[1], a, args) or d12_fires(items, ty[2], b, args) for a, b in v[3])
    if k != "ref":
        return False
    it = items[ty[1]]
    if it["kind"] == "typedef":
        return d12_fires(items, it["ty"], v, args)
    if it["kind"] == "enum":
        return False
    known = {f["id"]: f for f in it["fields"]}
    kn = [(i, x) for i, x in v[1] if i in known and known[i]["ty"] is not None and wire_tt(x) == ttype(items, known[i]["ty"])]
    if ty[1] in args and it["kind"] in ("struct", "exception") and len(kn) >= len(it["fields"]):
        return True
    return any(d12_fires(items, known[i]["ty"], x, args) for i, x in kn)


def union_known_plus_unknown(items, ty, v):
    """D31: somewhere in v a union value carries a known variant together with an unknown field"""
    k = ty[0]
    if k in ("list", "set"):
        return any(union_known_plus_unknown(items, ty[1], x) for x in v[2])
    if k == "map":
        return any(union_known_plus_unknown(items, ty[2], b) for _, b in v[3])
    if k != "ref":
        return False
    it = items[ty[1]]
    if it["kind"] == "typedef":
        return union_known_plus_unknown(items, it["ty"], v)
    if it["kind"] == "enum":
        return False
    known = {f["id"]: f for f in it["fields"]}
    kn = [(i, x) for i, x in v[1] if i in known and known[i]["ty"] is not None and wire_tt(x) == ttype(items, known[i]["ty"])]
    if it["kind"] == "union" and kn and len(kn) < len(v[1]):
        return True
    return any(union_known_plus_unknown(items, known[i]["ty"], x) for i, x in kn)


def wire_tt(v):
    return {"bin": "binary", "dbl": "double"}.get(v[0], v[0])


def project_item(items, it, v):
    if it["kind"] == "union":
        known = {f["id"]: f for f in it["fields"]}
        hit = [(i, x) for i, x in v[1] if i in known and known[i]["ty"] is not None and wire_tt(x) == ttype(items, known[i]["ty"])]
        # fields whose wire type differs from the declared type must be ignored (C08); a void `Ok` is never read
        if len(hit) > 1:
            raise Reject("multiple")
        if not hit:
            if it["fields"] and it["fields"][0]["ty"] is None and it["fields"][0]["name"] == "Ok":
                return ("struct", [])
            raise Reject("empty union")
        i, x = hit[0]
        return ("struct", [(i, project_ty(items, known[i]["ty"], x))])
    out = []
    for f in it["fields"]:
        got = [x for i, x in v[1] if i == f["id"] and wire_tt(x) == ttype(items, f["ty"])]
        if got:
            out.append((f["id"], project_ty(items, f["ty"], got[-1])))
        elif f.get("default") is not None:
            out.append((f["id"], lower_default(items, f["ty"], f["default"])))
        elif f["req"] == "required":
            raise Reject(f"required {f['name']}")
    return ("struct", out)


def enc_bin(v):
    """big-endian binary protocol encoding (only used to print non-struct top-level values the way the harness does)"""
    k = v[0]
    TT = {"bool": 2, "i8": 3, "double": 4, "i16": 6, "i32": 8, "i64": 10, "binary": 11, "struct": 12, "map": 13, "set": 14, "list": 15, "uuid": 16}
    if k == "bool":
        return bytes([1 if v[1] else 0])
    if k in ("i8", "i16", "i32", "i64"):
        w = int(k[1:]) // 8
        return (v[1] % (1 << (8 * w))).to_bytes(w, "big")
    if k == "dbl":
        return v[1].to_bytes(8, "big")
    if k == "bin":
        return len(v[1]).to_bytes(4, "big") + v[1]
    if k == "uuid":
        return v[1]
    if k == "struct":
        return b"".join(bytes([TT[wire_tt(x)]]) + (i % 65536).to_bytes(2, "big") + enc_bin(x) for i, x in v[1]) + b"\x00"
    if k in ("list", "set"):
        return bytes([TT[v[1]]]) + len(v[2]).to_bytes(4, "big") + b"".join(enc_bin(x) for x in v[2])
    return bytes([TT[v[1]], TT[v[2]]]) + len(v[3]).to_bytes(4, "big") + b"".join(enc_bin(a) + enc_bin(b) for a, b in v[3])


def enc_le(v):
    """little-endian binary protocol encoding"""
    k = v[0]
    TT = {"bool": 2, "i8": 3, "double": 4, "i16": 6, "i32": 8, "i64": 10, "binary": 11, "struct": 12, "map": 13, "set": 14, "list": 15, "uuid": 16}
    if k == "bool":
        return bytes([1 if v[1] else 0])
    if k in ("i8", "i16", "i32", "i64"):
        w = int(k[1:]) // 8
        return (v[1] % (1 << (8 * w))).to_bytes(w, "little")
    if k == "dbl":
        return v[1].to_bytes(8, "little")
    if k == "bin":
        return len(v[1]).to_bytes(4, "little") + v[1]
    if k == "uuid":
        return v[1]
    if k == "struct":
        return b"".join(bytes([TT[wire_tt(x)]]) + (i % 65536).to_bytes(2, "little") + enc_le(x) for i, x in v[1]) + b"\x00"
    if k in ("list", "set"):
        return bytes([TT[v[1]]]) + len(v[2]).to_bytes(4, "little") + b"".join(enc_le(x) for x in v[2])
    return bytes([TT[v[1]], TT[v[2]]]) + len(v[3]).to_bytes(4, "little") + b"".join(enc_le(a) + enc_le(b) for a, b in v[3])


def _varint(n):
    out = bytearray()
    while n >= 0x80:
        out.append((n & 0x7F) | 0x80)
        n >>= 7
    out.append(n)
    return bytes(out)


def _zz(n, bits=64):
    return ((n << 1) ^ (n >> (bits - 1))) & ((1 << bits) - 1)


CT = {"bool": 1, "i8": 3, "i16": 4, "i32": 5, "i64": 6, "double": 7, "binary": 8, "list": 9, "set": 10, "map": 11, "struct": 12, "uuid": 13}


def enc_cmp(v):
    """compact protocol encoding (as Thrift/Compact.lean `enc`)"""
    k = v[0]
    if k == "bool":
        return bytes([1 if v[1] else 2])
    if k == "i8":
        return bytes([v[1] % 256])
    if k in ("i16", "i32", "i64"):
        return _varint(_zz(v[1]))
    if k == "dbl":
        return v[1].to_bytes(8, "little")
    if k == "bin":
        return _varint(len(v[1])) + v[1]
    if k == "uuid":
        return v[1]
    if k == "struct":
        out, last = bytearray(), 0
        for i, x in v[1]:
            ct = (1 if x[1] else 2) if x[0] == "bool" else CT[wire_tt(x)]
            d = i - last
            out += bytes([d * 16 + ct]) if 0 < d < 15 else bytes([ct]) + _varint(_zz(i))
            if x[0] != "bool":
                out += enc_cmp(x)
            last = i
        return bytes(out) + b"\x00"
    if k in ("list", "set"):
        n = len(v[2])
        hd = bytes([n * 16 + CT[v[1]]]) if n <= 14 else bytes([0xF0 + CT[v[1]]]) + _varint(n)
        return hd + b"".join(enc_cmp(x) for x in v[2])
    if not v[3]:
        return b"\x00"
    return _varint(len(v[3])) + bytes([CT[v[1]] * 16 + CT[v[2]]]) + b"".join(enc_cmp(a) + enc_cmp(b) for a, b in v[3])


ENC = {"bin": enc_bin, "le": enc_le, "cmp": enc_cmp}


def shown(v):
    """how the harness shows a decoded value: its canonical tree (the harness reads the value's binary re-encoding back by the wire
    type the IDL gives the declared type)"""
    return sexp(canon(v))


def expected(items, name, v):
    try:
        it = items[name]
        if it["kind"] in ("typedef", "enum"):
            return shown(project_ty(items, ("ref", name), v))
        return sexp(canon(project_item(items, it, v)))
    except Reject:
        return "err"


# ----------------------------------------------------------------------------- schema for the Lean model
def schema_ty(ty):
    k = ty[0]
    if k in ("list", "set"):
        return f"({k} {schema_ty(ty[1])})"
    if k == "map":
        return f"(map {schema_ty(ty[1])} {schema_ty(ty[2])})"
    if k == "ref":
        return f"(ref {ty[1]})"
    return k


def schema_sexp(doc):
    items = all_items(doc)
    out = []
    for it in items.values():
        k = it["kind"]
        if k in ("struct", "exception"):
            fs = []
            for f in it["fields"]:
                d = f" {sexp(lower_default(items, f['ty'], f['default']))}" if f.get("default") is not None else ""
                fs.append(f"(fld {f['id']} {schema_ty(f['ty'])} {'req' if f['req'] == 'required' else 'opt'}{d})")
            out.append(f"(struct {it['name']} {' '.join(fs)})")
        elif k == "union":
            vs = " ".join(f"(var {f['id']} {'void' if f['ty'] is None else schema_ty(f['ty'])})" for f in it["fields"])
            out.append(f"(union {it['name']} {vs})")
        elif k == "enum":
            out.append(f"(enum {it['name']})")
        elif k == "typedef":
            out.append(f"(typedef {it['name']} {schema_ty(it['ty'])})")
    return "(doc " + " ".join(out) + ")"


def lit_sexp(items, ty, lit):
    """an IDL default literal for a field of type ty, in the form the Lean model of lit_into_ty reads (Build/Lower.lean).  Resolved
    here and NOT modelled there: the text of a double and int -> double, string escapes, an enum member's number, a constant's
    declaration, struct-literal keys -> field ids.  Everything else (which arm, int -> bool, ranges, enum `as` casts, container
    recursion and hash-container construction, typedef chains, field filling of struct literals) is decided by the model."""
    k = ty[0]
    if lit[0] == "const":
        cty, clit = CONSTS[lit[1]]
        return f"(c {schema_ty(cty)} {lit_sexp(items, cty, clit)})"
    if k == "ref":
        it = items[ty[1]]
        if it["kind"] == "typedef":
            return lit_sexp(items, it["ty"], lit)
        if it["kind"] == "enum":
            if lit[0] == "enum":
                return f"(v {dict(items[lit[1]]['members'])[lit[2]]})"
            if lit[0] == "int":
                return f"(i {lit[1]})"
        if it["kind"] in ("struct", "exception") and lit[0] == "map":
            ents = []
            for a, b in lit[1]:
                f = next(f for f in it["fields"] if f["name"] == a[1])
                ents.append(f"({f['id']} {lit_sexp(items, f['ty'], b)})")
            return "(r" + "".join(" " + e for e in ents) + ")"
        raise ValueError((ty, lit))
    if lit[0] == "enum":
        return f"(v {dict(items[lit[1]]['members'])[lit[2]]})"
    if k == "double":
        return f"(d {dbl_bits(float(lit[1])):016x})"
    if lit[0] == "bool":
        return f"(b {int(lit[1])})"
    if lit[0] == "int":
        return f"(i {lit[1]})"
    if lit[0] == "str":
        return f"(s {unescape(lit[1]).encode().hex() or '-'})"
    if lit[0] == "list":
        inner = ty[1] if k in ("list", "set") else ("bool",)
        return "(l" + "".join(" " + lit_sexp(items, inner, x) for x in lit[1]) + ")"
    if lit[0] == "map":
        return "(m" + "".join(f" ({lit_sexp(items, ty[1], a)} {lit_sexp(items, ty[2], b)})" for a, b in lit[1]) + ")"
    raise ValueError((ty, lit))


def lits_sexp(doc):
    """(lits (Struct id literal) ...): every field default of the document as a literal, for the model's own lowering"""
    items = all_items(doc)
    out = []
    for it in items.values():
        if it["kind"] in ("struct", "exception"):
            for f in it["fields"]:
                if f.get("default") is not None:
                    out.append(f"({it['name']} {f['id']} {lit_sexp(items, f['ty'], f['default'])})")
    return "(lits" + "".join(" " + x for x in out) + ")"


# ----------------------------------------------------------------------------- corpus
def F(i, name, ty, req="default", default=None, ann=None):
    return {"id": i, "name": name, "ty": ty, "req": req, "default": default, "ann": ann}


def R(n):
    return ("ref", n)


def fixed_docs():
    docs = []
    docs.append({"name": "da", "items": [
        {"kind": "enum", "name": "Color", "members": [("Red", 1), ("Blue", 5)]},
        {"kind": "typedef", "name": "Ints", "ty": ("list", ("i32",))},
        {"kind": "typedef", "name": "Colour", "ty": R("Color")},
        # chains of aliases (alias of alias of a base type / enum / container / struct): the wire type of a field is that of the end of the chain
        {"kind": "typedef", "name": "UserId", "ty": ("i64",)}, {"kind": "typedef", "name": "AccountId", "ty": R("UserId")},
        {"kind": "typedef", "name": "DeepId", "ty": R("AccountId")}, {"kind": "typedef", "name": "Colour2", "ty": R("Colour")},
        {"kind": "typedef", "name": "Ints2", "ty": R("Ints")}, {"kind": "typedef", "name": "Flag", "ty": ("bool",)}, {"kind": "typedef", "name": "Flag2", "ty": R("Flag")},
        {"kind": "typedef", "name": "Name", "ty": ("string",)}, {"kind": "typedef", "name": "Name2", "ty": R("Name")},
        {"kind": "struct", "name": "Inner", "fields": [F(1, "a", ("i32",), "required"), F(2, "s", ("string",), "optional", ("str", "hi")), F(3, "flag", ("bool",), "default", ("int", 1))]},
        {"kind": "union", "name": "Un", "fields": [F(1, "x", ("i32",)), F(2, "y", ("string",)), F(3, "z", R("Inner")), F(4, "b", ("bool",))]},
        {"kind": "typedef", "name": "InnerAlias", "ty": R("Inner")}, {"kind": "typedef", "name": "InnerAlias2", "ty": R("InnerAlias")},
        {"kind": "struct", "name": "Chain", "fields": [
            F(1, "acct", R("AccountId"), "required"), F(2, "deep", R("DeepId"), "optional"), F(3, "col", R("Colour2"), "optional"),
            F(4, "ints", R("Ints2"), "default", ("list", [("int", 4)])), F(5, "inner", R("InnerAlias2"), "optional"), F(6, "flag", R("Flag2"), "required"),
            F(7, "name", R("Name2"), "optional", ("str", "n")), F(8, "by_acct", ("map", R("AccountId"), R("Colour2")), "optional"),
            F(9, "deeps", ("list", R("DeepId")), "optional"), F(10, "flags", ("list", R("Flag2")), "optional"), F(11, "user", R("UserId"), "optional", ("int", 7))]},
        {"kind": "union", "name": "ChainU", "fields": [F(1, "acct", R("AccountId")), F(2, "flag", R("Flag2")), F(3, "inner", R("InnerAlias2")), F(4, "ints", R("Ints2"))]},
        {"kind": "struct", "name": "Outer", "fields": [
            F(1, "inner", R("Inner"), "required"), F(2, "inners", ("list", R("Inner")), "optional"), F(3, "us", ("map", ("string",), R("Un"))),
            F(4, "c", R("Color"), "optional", ("enum", "Color", "Blue")), F(5, "ints", R("Ints"), "default", ("list", [("int", 1), ("int", 2)])),
            F(6, "ids", ("set", ("i64",)), "optional"), F(7, "blob", ("binary",), "optional"), F(8, "id", ("uuid",), "optional"),
            F(9, "d", ("double",), "optional", ("int", 1)), F(10, "rec", R("Outer"), "optional"), F(11, "col", R("Colour")),
            F(12, "ok", ("bool",), "required"), F(13, "small", ("i8",), "optional"), F(14, "mid", ("i16",), "optional"), F(20, "big", ("i64",), "optional"),
            F(21, "bools", ("list", ("bool",)), "optional"), F(22, "bm", ("map", ("bool",), ("bool",)), "optional"),
            F(23, "raw", ("binary",), "optional", ann={"pilota.rust_type": "vec"}), F(24, "owned", ("string",), "optional", ann={"pilota.rust_type": "string"}),
            F(25, "sorted_ids", ("set", ("i32",)), "optional", ann={"pilota.rust_type": "btree"}), F(26, "sorted_map", ("map", ("string",), ("i32",)), "optional", ann={"pilota.rust_type": "btree"}),
            F(27, "shared", R("Inner"), "optional", ann={"pilota.rust_wrapper_arc": "true"}), F(28, "raw_req", ("binary",), "default", ann={"pilota.rust_type": "vec"}),
            F(29, "sorted_names", ("set", ("string",)), "optional", ann={"pilota.rust_type": "btree"}), F(30, "sorted_blobs", ("set", ("binary",)), "optional", ann={"pilota.rust_type": "btree"}),
            F(31, "sorted_inners", ("set", R("Inner")), "optional", ann={"pilota.rust_type": "btree"}), F(32, "named", ("map", ("string",), R("Inner")), "optional", ann={"pilota.rust_type": "btree"})]},
        {"kind": "exception", "name": "Oops", "fields": [F(1, "why", ("string",))]},
        {"kind": "service", "name": "Svc", "methods": [
            {"name": "get", "ret": R("Outer"), "oneway": False, "args": [F(1, "req", R("Inner")), F(2, "n", ("i32",))], "throws": [F(1, "e", R("Oops"))]},
            {"name": "ping", "ret": None, "oneway": False, "args": [], "throws": []},
            {"name": "fire", "ret": None, "oneway": True, "args": [F(1, "s", ("string",))], "throws": []}]},
    ]})
    docs.append({"name": "db", "items": [
        {"kind": "enum", "name": "Kind", "members": [("A", 0), ("B", 1), ("C", -3)]},
        {"kind": "struct", "name": "Leaf", "fields": [F(32767, "hi", ("i64",), "optional"), F(1, "lo", ("double",), "required"), F(16, "m", ("map", ("i32",), ("list", ("string",))), "optional"),
                                                      F(300, "k", R("Kind"), "default", ("int", 1)), F(17, "bin", ("binary",), "default", ("str", "")), F(18, "dd", ("double",), "optional", ("dbl", "1.5"))]},
        {"kind": "struct", "name": "Tree", "fields": [F(1, "kids", ("list", R("Tree")), "optional"), F(2, "leaf", R("Leaf"), "optional"), F(3, "by_name", ("map", ("string",), R("Tree")), "optional"),
                                                      F(4, "tags", ("set", ("string",)), "default", ("list", [("str", "x")])), F(5, "nested", ("list", ("list", ("map", ("i16",), ("set", ("i8",))))), "optional"),
                                                      F(6, "dm", ("map", ("string",), ("string",)), "default", ("map", [(("str", "k"), ("str", "v"))])), F(7, "b3", ("bool",), "default", ("int", 0)), F(8, "en", R("Kind"), "optional", ("enum", "Kind", "C"))]},
        {"kind": "union", "name": "Either", "fields": [F(1, "l", R("Leaf")), F(2, "t", R("Tree")), F(5, "n", ("i64",)), F(6, "u", ("uuid",)), F(7, "xs", ("list", ("i32",)))]},
        {"kind": "struct", "name": "Holder", "fields": [F(1, "e", R("Either"), "required"), F(2, "es", ("list", R("Either")), "optional"), F(3, "after", ("i32",), "required")]},
        # structs that reach a method signature only inside containers are NOT argument types
        {"kind": "service", "name": "Bulk", "methods": [
            {"name": "put", "ret": ("list", R("Leaf")), "oneway": False, "args": [F(1, "leaves", ("list", R("Leaf"))), F(2, "by", ("map", ("string",), R("Holder"))), F(3, "ids", ("set", ("i32",)))], "throws": []}]},
    ]})
    # defaults of every literal kind, chosen so that a lossy lowering shows: integers beyond f32 / at the f64 rounding
    # boundary for doubles, lists with adjacent equal elements, struct literals whose keys change under Rust naming
    docs.append({"name": "dc", "items": [
        {"kind": "enum", "name": "Lvl", "members": [("Low", 0), ("Mid", 5), ("High", 9)]},
        {"kind": "struct", "name": "Pt", "fields": [F(1, "xCoord", ("i32",)), F(2, "UserName", ("string",), "optional"), F(3, "plain", ("i32",), "default", ("int", 4)),
                                                    F(4, "RetryCount", ("i64",), "required"), F(5, "lvl", R("Lvl"), "optional")]},
        {"kind": "struct", "name": "Dflt", "fields": [
            F(1, "d1", ("double",), "default", ("int", 16777217)), F(2, "d2", ("double",), "optional", ("int", 1700000001)),
            F(3, "d3", ("double",), "default", ("int", -9007199254740993)), F(4, "d4", ("double",), "optional", ("dbl", "0.1")),
            F(5, "l1", ("list", ("i32",)), "default", ("list", [("int", 0), ("int", 0), ("int", 7)])),
            F(6, "l2", ("list", ("string",)), "optional", ("list", [("str", "a"), ("str", "a"), ("str", "b")])),
            F(7, "l3", ("list", ("bool",)), "default", ("list", [("int", 1), ("int", 1), ("int", 0)])),
            F(8, "l4", ("list", R("Lvl")), "optional", ("list", [("enum", "Lvl", "Mid"), ("int", 5), ("enum", "Lvl", "Low")])),
            F(9, "p", R("Pt"), "default", ("map", [(("str", "xCoord"), ("int", 5)), (("str", "UserName"), ("str", "n")), (("str", "RetryCount"), ("int", 9))])),
            F(10, "q", R("Pt"), "optional", ("map", [(("str", "RetryCount"), ("int", 1)), (("str", "lvl"), ("enum", "Lvl", "High"))])),
            F(11, "i8max", ("i8",), "default", ("int", 127)), F(12, "i64min", ("i64",), "optional", ("int", -9223372036854775807)),
            F(13, "s1", ("set", ("i32",)), "default", ("list", [("int", 3), ("int", 1), ("int", 2)])),
            F(14, "m1", ("map", ("i32",), ("list", ("i32",))), "optional", ("map", [(("int", 1), ("list", [("int", 2), ("int", 2)]))])),
            F(15, "b1", ("bool",), "default", ("int", 2)), F(16, "bin", ("binary",), "optional", ("str", "a b")),
            F(17, "h1", ("i32",), "default", ("int", -128, "hex")), F(18, "h2", ("i64",), "optional", ("int", 255, "hex")),
            F(19, "h3", ("list", ("i16",)), "default", ("list", [("int", -1, "hex"), ("int", 16, "hex"), ("int", -17)])), F(20, "h4", ("double",), "optional", ("int", -32, "hex")),
        ]},
    ]})
    # defaults given through constants, escapes inside string literals (both quote styles), and structs all of whose defaults are
    # zero values (0, false, "", an enum's zero) on required, optional and default-requiredness fields
    docs.append({"name": "dd", "consts": [
        ("GREETING", ("string",), ("str", 'say \\"hi\\"\\n')), ("PLAIN", ("string",), ("str", "plain")), ("BACK", ("string",), ("str", "a\\\\b")),
        ("ANSWER", ("i32",), ("int", 42)), ("BIG", ("i64",), ("int", -9000000000)), ("RATIO", ("double",), ("dbl", "2.5")), ("YES", ("bool",), ("bool", True)),
        ("ZERO", ("i32",), ("int", 0)), ("EMPTY", ("string",), ("str", "")),
    ], "items": [
        {"kind": "enum", "name": "Mode", "members": [("Off", 0), ("On", 1)]},
        {"kind": "struct", "name": "Esc", "fields": [
            F(1, "a", ("string",), "default", ("str", "back\\\\slash")), F(2, "b", ("string",), "default", ("str", "it\\'s", "sq")),
            F(3, "c", ("string",), "optional", ("str", 'q\\"q')), F(4, "d", ("binary",), "default", ("str", "x\\ny")),
            F(5, "e", ("string",), "default", ("const", "GREETING")), F(6, "f", ("string",), "optional", ("const", "PLAIN")),
            F(7, "g", ("i32",), "default", ("const", "ANSWER")), F(8, "h", ("double",), "optional", ("const", "RATIO")),
            F(9, "i", ("i64",), "required", ("const", "BIG")), F(10, "j", ("bool",), "default", ("const", "YES")),
            F(11, "k", ("string",), "required", ("const", "BACK")), F(12, "l", ("list", ("string",)), "default", ("list", [("str", 'a\\"'), ("const", "GREETING")]))]},
        {"kind": "struct", "name": "Zeros", "fields": [
            F(1, "a", ("i32",), "default", ("int", 0)), F(2, "b", ("bool",), "optional", ("int", 0)), F(3, "c", ("string",), "default", ("str", "")),
            F(4, "d", ("double",), "optional", ("int", 0)), F(5, "e", ("i64",), "required", ("int", 0)), F(6, "m", R("Mode"), "optional", ("enum", "Mode", "Off")),
            F(7, "z", ("i32",), "optional", ("const", "ZERO")), F(8, "s", ("string",), "optional", ("const", "EMPTY")), F(9, "n", ("i16",), "optional")]},
        {"kind": "struct", "name": "ZerosReq", "fields": [F(1, "a", ("i32",), "required", ("int", 0)), F(2, "b", ("bool",), "required", ("bool", False)), F(3, "c", ("string",), "default", ("str", ""))]},
        {"kind": "struct", "name": "UsesZeros", "fields": [F(1, "z", R("Zeros"), "required"), F(2, "zs", ("list", R("Zeros")), "optional"), F(3, "e", R("Esc"), "optional")]},
        # field ids whose distances are congruent to a short compact delta modulo 2^8 / 2^16 without being one, declared out of order
        {"kind": "struct", "name": "Sparse", "fields": [F(1, "a", ("i32",), "required"), F(258, "b", ("i32",), "required"), F(259, "c", ("string",), "optional"), F(250, "d", ("bool",), "optional"),
                                                        F(5, "e", ("i64",), "optional"), F(517, "f", ("i16",), "optional"), F(4, "g", ("bool",), "required"), F(32767, "h", ("i8",), "optional"), F(16, "i", ("double",), "optional")]},
        {"kind": "exception", "name": "NotFound", "fields": [F(1, "what", ("string",))]},
        {"kind": "exception", "name": "Denied", "fields": [F(1, "who", ("string",)), F(2, "code", ("i32",), "optional")]},
        # exception ids that are not 1..n in order, on value-returning and void methods
        {"kind": "service", "name": "Vault", "methods": [
            {"name": "open", "ret": R("Sparse"), "oneway": False, "args": [F(3, "key", ("string",)), F(1, "z", R("Zeros"))], "throws": [F(2, "nf", R("NotFound")), F(4, "dn", R("Denied"))]},
            {"name": "shut", "ret": None, "oneway": False, "args": [F(7, "key", ("string",))], "throws": [F(3, "dn", R("Denied"))]},
            {"name": "swap", "ret": ("list", ("i32",)), "oneway": False, "args": [], "throws": [F(9, "dn", R("Denied")), F(2, "nf", R("NotFound"))]}]},
    ]})
    return docs


def random_doc(r, name):
    items, names = [], []
    n_enum = r.randrange(0, 2)
    for i in range(n_enum):
        nm = f"E{i}"
        items.append({"kind": "enum", "name": nm, "members": [(f"M{j}", v) for j, v in enumerate(sorted(r.sample(range(-5, 40), r.randrange(1, 4))))]})
        names.append(nm)
    structs = [f"S{i}" for i in range(r.randrange(2, 5))]

    def rty(depth, allow_ref=True):
        c = r.random()
        if depth > 0 and c < 0.3:
            k = r.choice(["list", "set", "map"])
            if k == "map":
                return ("map", rkey(), rty(depth - 1))
            if k == "set":
                return ("set", rkey())
            return ("list", rty(depth - 1))
        if allow_ref and c < 0.5 and (names or structs):
            return R(r.choice(names + structs))
        return (r.choice(BASE),)

    def rkey():
        return (r.choice(["i8", "i16", "i32", "i64", "string", "bool", "double"]),)

    def rdefault(ty):
        k = ty[0]
        if r.random() < 0.6:
            return None
        if k == "bool":
            return ("int", r.choice([0, 1, 7])) if r.random() < 0.5 else ("bool", r.random() < 0.5)
        if k in ("i8", "i16", "i32", "i64"):
            return ("int", r.randrange(-100, 100))
        if k == "double":
            return ("int", r.choice([r.randrange(-3, 9), 16777217, 33554433, 2 ** 53 + 1, -(2 ** 31) - 1])) if r.random() < 0.5 else ("dbl", r.choice(["0.5", "-2.25", "1e3", "3.0", "0.1"]))
        if k in ("string", "binary"):
            return ("str", r.choice(["", "a", "hello world", "x_y-z"]))
        if k == "list" and ty[1][0] in ("i32", "string", "bool"):
            xs = [d for d in (rdefault(ty[1]) for _ in range(r.randrange(0, 3))) if d is not None]
            if xs and r.random() < 0.5:
                xs.insert(0, xs[0])          # adjacent equal elements
            return ("list", xs)
        if k == "ref":
            it = next((x for x in items if x["name"] == ty[1]), None)
            if it and it["kind"] == "enum":
                m, v = r.choice(it["members"])
                return ("enum", ty[1], m) if r.random() < 0.5 else ("int", v)
        return None

    for s in structs:
        ids = sorted(r.sample(list(range(1, 40)) + [100, 250, 255, 256, 257, 258, 270, 271, 513, 4000, 32767], r.randrange(1, 7)))
        if r.random() < 0.3:
            r.shuffle(ids)
        fields = []
        for j, i in enumerate(ids):
            ty = rty(2)
            req = r.choice(["required", "optional", "default"])
            if ty[0] == "ref" and ty[1] in structs and req == "required":
                req = "optional"       # keep the type inhabited
            fields.append(F(i, f"f{j}", ty, req, rdefault(ty) if req != "required" or r.random() < 0.3 else None))
        items.append({"kind": r.choice(["struct", "struct", "struct", "exception"]), "name": s, "fields": fields})
    if r.random() < 0.7:
        vs = [F(i, f"v{j}", rty(1)) for j, i in enumerate(sorted(r.sample(range(1, 30), r.randrange(1, 5))))]
        items.append({"kind": "union", "name": "U0", "fields": vs})
        structs.append("U0")
    if r.random() < 0.5:
        items.append({"kind": "typedef", "name": "T0", "ty": rty(1, allow_ref=False)})
    return {"name": name, "items": items}


# ----------------------------------------------------------------------------- evolved writers (C08)
OTHER = {"bool": ("i32", 7), "i8": ("i16", 300), "i16": ("i64", 1), "i32": ("bin", b"zz"), "i64": ("i32", 5), "dbl": ("i64", 9),
         "bin": ("bool", True), "uuid": ("bin", b"0123456789abcdef"), "struct": ("i32", 1), "list": ("bin", b"q"), "set": ("list", "i8", [("i8", 1)]),
         "map": ("struct", [])}


def deep_unknown(r):
    """unknown values with the shapes skippers special-case: a map whose VALUES are structs that hold a struct-typed field, a list of
    such maps, a struct holding an empty map next to strings, a long payload (both sides of 4096)"""
    inner = ("struct", [(1, ("i32", 7)), (2, ("struct", [(1, ("bin", b"in")), (3, ("i64", -1))])), (4, ("bin", b"after"))])
    inner2 = ("struct", [(2, ("struct", [])), (9, ("bool", True))])
    m = ("map", "i32", "struct", [(("i32", 1), inner), (("i32", 2), inner2)])
    c = r.randrange(7)
    if c == 5:      # many small structs: whatever a skipper keeps per element adds up (2400 x field 14, 2400 x fields 1..3)
        return ("list", "struct", [("struct", [(14, ("i8", 1))])] * 2400)
    if c == 6:
        return ("set", "struct", [("struct", [(1, ("bool", True)), (2, ("i8", 2)), (3, ("bool", False))])] * 2400)
    if c == 0:
        return m
    if c == 1:
        return ("list", "map", [m, ("map", "i32", "struct", [(("i32", 5), inner2)])])
    if c == 2:
        return ("struct", [(1, ("map", "binary", "struct", [(("bin", b"k"), inner)])), (2, ("bin", b"s")), (3, ("map", "i32", "i32", []))])
    if c == 3:
        return ("bin", bytes(r.getrandbits(8) for _ in range(r.choice([4088, 4089, 4096, 6000]))))
    return ("set", "struct", [inner, inner2])


def unknown_value(r, depth=2):
    if depth == 2 and r.random() < 0.12:
        return deep_unknown(r)
    k = r.choice(["bool", "i8", "i16", "i32", "i64", "dbl", "bin", "uuid", "struct", "list", "set", "map"] if depth > 0 else ["bool", "i32", "bin", "uuid", "dbl"])
    if k == "bool":
        return ("bool", r.random() < 0.5)
    if k in ("i8", "i16", "i32", "i64"):
        return (k, gen_int(r, int(k[1:])))
    if k == "dbl":
        return ("dbl", r.getrandbits(64))
    if k == "bin":
        return ("bin", bytes(r.getrandbits(8) for _ in range(r.choice([0, 1, 5, 20]) if r.random() > 0.03 else r.choice([4089, 4096, 5000]))))
    if k == "uuid":
        return ("uuid", bytes(r.getrandbits(8) for _ in range(16)))
    if k == "struct":
        return ("struct", [(r.randrange(1, 50), unknown_value(r, depth - 1)) for _ in range(r.randrange(0, 3))])

    def more_like(e, n):
        """n values of e's wire type: e itself, then (for structs) other structs, so that elements differ"""
        out = [e]
        while len(out) < n:
            out.append(("struct", [(r.randrange(1, 50), unknown_value(r, max(depth - 2, 0))) for _ in range(r.randrange(0, 3))]) if e[0] == "struct" else e)
        return out[:n]
    if k in ("list", "set"):
        e = unknown_value(r, depth - 1)
        return (k, wire_tt(e), more_like(e, r.randrange(0, 4)))
    a, b = unknown_value(r, 0), unknown_value(r, depth - 1)
    n = r.randrange(0, 3)
    keys = [a] if n else []
    if n == 2 and a[0] in ("i8", "i16", "i32", "i64"):
        keys.append((a[0], (a[1] + 1) if a[1] < 100 else 0))
    return ("map", wire_tt(a), wire_tt(b), list(zip(keys, more_like(b, len(keys)))))


def retype_elems(v):
    """the same container with another element type on the wire (writer declared list<i64>, reader list<i32>)"""
    k = v[0]
    swap = {"i32": ("i64", lambda x: ("i64", x[1])), "i64": ("i32", lambda x: ("i32", x[1] % 1000)), "i8": ("i16", lambda x: ("i16", x[1])),
            "i16": ("i32", lambda x: ("i32", x[1])), "binary": ("i32", lambda x: ("i32", len(x[1]))), "bool": ("i8", lambda x: ("i8", int(x[1])))}
    if k in ("list", "set") and v[1] in swap and v[2]:
        t, f = swap[v[1]]
        return (k, t, [f(x) for x in v[2]])
    if k == "map" and v[2] in swap and v[3]:
        t, f = swap[v[2]]
        return ("map", v[1], t, [(a, f(b)) for a, b in v[3]])
    return None


def hazards(items, it, w):
    """known defects a writer-side value can run into (see known_findings.json): D29 a union variant whose wire
    type differs from the declared type is decoded anyway; D26 container element types are not checked"""
    hz = set()
    known = {f["id"]: f for f in it["fields"]}
    for i, x in w[1]:
        f = known.get(i)
        if f is None or f["ty"] is None:
            continue
        if wire_tt(x) != ttype(items, f["ty"]):
            if it["kind"] == "union":
                hz.add("D29")
        elif x[0] in ("list", "set", "map"):
            ty = f["ty"]
            while ty[0] == "ref" and items[ty[1]]["kind"] == "typedef":
                ty = items[ty[1]]["ty"]
            if x[0] in ("list", "set") and x[1] != ttype(items, ty[1]):
                hz.add("D26")
            if x[0] == "map" and (x[1] != ttype(items, ty[1]) or x[2] != ttype(items, ty[2])) and x[3]:
                hz.add("D26")
    return hz


def evolve(items, it, v, r):
    """rewrite a conforming struct value as a writer with a different schema would have sent it"""
    fs = list(v[1])
    declared = {f["id"] for f in it["fields"]}
    if r.random() < 0.6:
        # an unknown bool field immediately before a container of bools (compact: the skipped field's value lives in its header)
        for j, (i, x) in enumerate(fs):
            if (x[0] in ("list", "set") and x[1] == "bool" and x[2]) or (x[0] == "map" and "bool" in (x[1], x[2]) and x[3]):
                fs.insert(j, (r.choice([u for u in (77, 1234, -7) if u not in declared]), ("bool", r.random() < 0.5)))
                break
    for _ in range(r.randrange(1, 4)):
        c = r.randrange(6)
        if c == 5 and fs:     # same field, same container kind, another element type
            j = r.randrange(len(fs))
            nv = retype_elems(fs[j][1])
            if nv is not None:
                fs[j] = (fs[j][0], nv)
            continue
        if c == 0:      # unknown field inserted anywhere
            i = r.choice([x for x in [r.randrange(1, 60), 999, 32000, -1] if x not in declared] or [9999])
            fs.insert(r.randrange(len(fs) + 1), (i, unknown_value(r)))
        elif c == 1 and fs:   # field removed
            fs.pop(r.randrange(len(fs)))
        elif c == 2 and fs:   # field retyped: same id, another wire type
            j = r.randrange(len(fs))
            fs[j] = (fs[j][0], OTHER[fs[j][1][0]])
        elif c == 3:
            r.shuffle(fs)
        elif c == 4 and fs:   # the same field twice (last one wins)
            j = r.randrange(len(fs))
            fs.append(fs[j])
    return ("struct", fs)
