"""Per-property configuration of bin/check."""

TB_COMMON = [
    "Lean 4.33.0 kernel (thorough tier: re-checked by leanchecker)",
    "axioms allowed in property theorems: propext, Classical.choice, Quot.sound (audited by #print axioms on every run)",
    "hand-written Lean model tied to /repo by the T1 differential stream of this run and the T2 table theorems (PilotaModel/Props/Tables.lean over Gen/Tables.lean regenerated from source)",
    "bin/tables.py (regex extraction by item name), the line-protocol glue in Rust (harness/rt), Python (bin/check) and Lean (Driver/)",
    "modelled, not verified: bytes::{Bytes,BytesMut}, linkedbytes::LinkedBytes, integer_encoding::VarInt, tokio AsyncReadExt; f64 only as its 64-bit pattern",
]

PROPS = {}


def prop(pid, **kw):
    kw["id"] = pid
    kw.setdefault("level", "proof")
    kw.setdefault("bins", ["rt"])
    kw.setdefault("oracle_tags", [pid])
    kw.setdefault("trusted_base", TB_COMMON)
    kw.setdefault("streams", [{"name": pid}])
    PROPS[pid] = kw


prop("C01", lean_props=["C01", "Tables"])
# C04 speaks of hand-written AND generated types: the second stream drives the emitted `size()` / `encode` of every generated type
# (genrun; the request set of C02), whose oracle compares the reported size with the bytes written under all four protocols
prop("C04", lean_props=["C04", "Tables", "Templates"], bins=["rt", "gentool"],
     streams=[{"name": "C04"}, {"name": "C04gen", "bin": "genrun", "pygen": "requests_C02", "drop_hazard": True}])

# tracks register their properties in their own files (bin/props_<track>.py: `def register(prop, TB_COMMON)`)
import importlib, os, sys
for _t in ("thrift2", "thrift3", "pb", "idl", "gen"):
    if os.path.exists(os.path.join(os.path.dirname(os.path.abspath(__file__)), f"props_{_t}.py")):
        importlib.import_module(f"props_{_t}").register(prop, TB_COMMON)
