"""C14, T1 for the boxing decision: the type graph of a Thrift document (as middle/type_graph.rs builds it) goes to the Lean model
(`pmodel`, verb `boxed`, Build/Graph.lean), the `Box<…>` fields of the emitted Rust are read off the generated file, and the two
sets of (struct, field) positions must be equal."""
import os, re, subprocess

VERIF = os.path.dirname(os.path.dirname(os.path.abspath(__file__)))
PMODEL = os.path.join(VERIF, "lean", ".lake", "build", "bin", "pmodel")

ITEM = re.compile(r"\b(struct|union|exception|typedef)\s+(\w+)\s*\{([^}]*)\}|\btypedef\s+([^;\n]+?)\s+(\w+)\s*[;\n]")
FIELD = re.compile(r"(\d+)\s*:\s*(required\s+|optional\s+)?(.+?)\s+(\w+)\s*(?:=[^,;]*)?\s*(?:[,;]|$)")


def split_fields(body):
    """fields of a struct / union body; separators inside <...> do not count"""
    out, depth, cur = [], 0, ""
    for ch in body:
        if ch == "<":
            depth += 1
        elif ch == ">":
            depth -= 1
        if ch in ",;\n" and depth == 0:
            if cur.strip():
                out.append(cur.strip())
            cur = ""
        else:
            cur += ch
    if cur.strip():
        out.append(cur.strip())
    return out


def parse_items(text):
    """[(kind, name, [(field name, type text)])] in declaration order; kind in m / u / n"""
    text = re.sub(r"//[^\n]*|#[^\n]*|/\*.*?\*/", "", text, flags=re.S)
    items = []
    for m in ITEM.finditer(text):
        if m.group(1) in ("struct", "union", "exception"):
            fields = []
            for f in split_fields(m.group(3)):
                fm = FIELD.match(f)
                if fm:
                    fields.append((fm.group(4), fm.group(3).strip()))
            items.append(("u" if m.group(1) == "union" else "m", m.group(2), fields))
        elif m.group(4):
            items.append(("n", m.group(5), [("0", m.group(4).strip())]))
    return items


def graph_request(items):
    index = {name: i for i, (_, name, _) in enumerate(items)}
    parts = []
    for kind, _, fields in items:
        tys = [f"p{index[t]}" if t in index else "o" for _, t in fields]
        parts.append("(" + " ".join([kind] + tys) + ")")
    return "boxed " + " ".join(parts)


def emitted_boxes(rs_text, items):
    """positions (item index, field index) whose emitted field type is Box<…> or Option<Box<…>>; None if a struct is not found"""
    out = []
    flat = re.sub(r"\s+", " ", rs_text)
    for s, (kind, name, fields) in enumerate(items):
        if kind != "m":
            continue
        m = re.search(r"pub struct " + re.escape(name) + r" \{(.*?)\} impl ", flat)
        if not m:
            return None, f"struct {name} not found in the emitted code"
        body = m.group(1).strip()
        decls = re.findall(r"pub ((?:r#)?\w+): (.*?),(?= pub (?:r#)?\w+: | ?$)", body + " ")
        decls = [(n, t) for n, t in decls if not n.startswith("_unknown")]
        if len(decls) != len(fields):
            return None, f"struct {name}: {len(decls)} emitted fields for {len(fields)} declared"
        for i, (n, t) in enumerate(decls):
            t = t.replace(" ", "")
            if t.startswith("::std::boxed::Box<") or t.startswith("::std::option::Option<::std::boxed::Box<"):
                out.append((s, i))
    return out, ""


def compare(idl_text, rs_path):
    """-> (request, implementation answer, model answer)"""
    items = parse_items(idl_text)
    req = graph_request(items)
    p = subprocess.run([PMODEL], input=req + "\n", stdout=subprocess.PIPE, stderr=subprocess.DEVNULL, text=True, timeout=600)
    model = p.stdout.strip().split("\n")[0] if p.stdout.strip() else f"no answer (rc={p.returncode})"
    boxes, why = emitted_boxes(open(rs_path).read(), items)
    impl = " ".join(f"{s}.{i}" for s, i in boxes) if boxes is not None else "unreadable: " + why
    return req, impl, model, len(items)


# ------------------------------------------------------------------ automatic derives (PartialOrd; Hash, Eq, Ord)
def derive_class(t, index):
    """a field type as the AutoDerive predicate and its path collector see it (Vec layers stripped)"""
    t = t.strip()
    while t.startswith("list<") and t.endswith(">"):
        t = t[5:-1].strip()
    if t.startswith(("map<", "set<")):
        return "ms"
    if t == "double":
        return "fl"
    if t in index:
        return f"p{index[t]}"
    return "o"


def derive_request(items):
    index = {name: i for i, (_, name, _) in enumerate(items)}
    return "derives " + " ".join("(" + " ".join(derive_class(t, index) for _, t in fields) + ")" for _, _, fields in items)


def emitted_derives(rs_text, items):
    """-> (items whose emitted type carries PartialOrd, items that carry Hash), by the derive line in front of the type"""
    flat = re.sub(r"\s+", " ", rs_text)
    po, h = [], []
    for i, (kind, name, _) in enumerate(items):
        m = re.search(r"#\[derive\(([^)]*)\)\] pub (?:struct|enum) " + re.escape(name) + r"[ ({]", flat)
        if not m:
            return None, f"type {name} not found in the emitted code"
        ds = [d.strip() for d in m.group(1).split(",")]
        if "PartialOrd" in ds:
            po.append(i)
        if "Hash" in ds:
            h.append(i)
    fmt = lambda l: ",".join(map(str, l)) if l else "-"
    return f"po={fmt(po)} h={fmt(h)}", ""


def compare_derives(idl_text, rs_path):
    items = parse_items(idl_text)
    req = derive_request(items)
    p = subprocess.run([PMODEL], input=req + "\n", stdout=subprocess.PIPE, stderr=subprocess.DEVNULL, text=True, timeout=600)
    model = p.stdout.strip().split("\n")[0] if p.stdout.strip() else f"no answer (rc={p.returncode})"
    impl, why = emitted_derives(open(rs_path).read(), items)
    if impl is None:
        impl = "unreadable: " + why
    return req, impl, model, len(items)
