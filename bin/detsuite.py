"""C17: run the real generator repeatedly in fresh processes (fresh hash seeds) with different rayon pool sizes and
compare every emitted file byte for byte; check the emitted module order and split-mode file names against the model."""
import hashlib, os, random, re, shutil, subprocess

import idlgen

VERIF = os.path.dirname(os.path.dirname(os.path.abspath(__file__)))
REPO = os.environ.get("VERIF_REPO", "/repo")
TARGET = os.path.join(VERIF, "target")
GENTOOL = os.path.join(TARGET, "cargo", "debug", "gentool")
PMODEL = os.path.join(VERIF, "lean", ".lake", "build", "bin", "pmodel")
THREADS = [1, 2, 3, 8, 16]

MULTI_A = """namespace rs zeta.alpha
include "multi_b.thrift"
struct Top { 1: multi_b.Mid m, 2: list<multi_b.Leaf> ls, 3: optional Top again }
union Pick { 1: i32 a, 2: multi_b.Leaf b }
enum Tone { Lo = 1, Hi = 2 }
service Front { Top get(1: multi_b.Mid m), void ping() }
"""
MULTI_B = """namespace rs beta
struct Leaf { 1: string name, 2: map<string, i64> counts }
struct Mid { 1: Leaf leaf, 2: set<i32> ids, 3: testService ts, 4: TestService ts2 }
struct testService { 1: i32 a }
struct TestService { 1: i32 b }
struct Testservice { 1: i32 c }
enum testservice { A = 1 }
typedef list<Leaf> Leaves
const i32 LIMIT = 7
"""
NESTED_PROTO = """syntax = "proto3";
package det.pkg;
message Outer {
  message A { int32 x = 1; message A1 { string s = 1; } A1 a1 = 2; }
  message B { sint32 y = 1; }
  message C { repeated fixed64 z = 1; }
  message D { map<string, B> m = 1; }
  enum E { E0 = 0; E1 = 1; }
  A a = 1; B b = 2; C c = 3; D d = 4; E e = 5;
  oneof pick { string s = 6; B bb = 7; }
}
message Other { Outer.A.A1 deep = 1; repeated Outer os = 2; }
service Svc { rpc Get(Outer) returns (Other); }
"""


SHOP_NS = ["alpha", "beta", "gamma", "delta", "eps", "zeta", "eta"]


def shop_thrift(put):
    """many sibling modules below one first segment (shop.alpha ... shop.eta), the same `Common` in each of them"""
    incs = []
    for n in SHOP_NS:
        put(f"shop_{n}.thrift", f"namespace rs shop.{n}\nstruct Common {{ 1: i32 id, 2: string name }}\nstruct User_{n} {{ 1: Common c, 2: list<Common> cs }}\n"
                                f"enum Kind_{n} {{ A = 1, B = 2 }}\nconst set<string> TAGS_{n} = [\"a\", \"b\", \"c\", \"d\", \"e\"]\n"
                                f"struct Conf_{n} {{ 1: set<i32> ids = [5, 4, 3, 2, 1], 2: map<string, i32> m = {{\"x\": 1, \"y\": 2, \"z\": 3}}, 3: set<string> tags = [\"q\", \"r\", \"s\", \"t\"] }}\n")
        incs.append(f'include "shop_{n}.thrift"')
    body = "\n".join(incs) + "\nnamespace rs shop.main\nstruct All {\n" + "\n".join(f"  {i + 1}: shop_{n}.User_{n} u{i}," for i, n in enumerate(SHOP_NS)) + "\n}\n"
    body += "service Shop { All get(1: shop_alpha.Common c) }\n"
    return put("shop_main.thrift", body)


def shop_proto(put):
    incs = []
    for n in SHOP_NS[:5]:
        put(f"shopp_{n}.proto", f'syntax = "proto3";\npackage shop.{n};\nmessage Common {{ int32 id = 1; string name = 2; }}\n'
                                f'message User {{ Common c = 1; repeated Common cs = 2; map<string, Common> by = 3; }}\nenum Kind {{ A = 0; B = 1; }}\n')
        incs.append(f'import "shopp_{n}.proto";')
    body = 'syntax = "proto3";\n' + "\n".join(incs) + "\npackage shop.main;\nmessage All {\n" + "\n".join(f"  shop.{n}.User u{i} = {i + 1};" for i, n in enumerate(SHOP_NS[:5])) + "\n}\n"
    body += "service Shop { rpc Get(shop.alpha.Common) returns (All); }\n"
    return put("shopp_main.proto", body)


def corpus(workdir, seed, tier):
    """-> list of (name, kind, [idl paths], [flag sets])"""
    src = os.path.join(workdir, "src")
    os.makedirs(src, exist_ok=True)
    out = []

    def put(name, text):
        p = os.path.join(src, name)
        open(p, "w").write(text)
        return p
    a = put("multi_a.thrift", MULTI_A)
    put("multi_b.thrift", MULTI_B)
    out.append(("multi", "thrift", [a]))
    out.append(("nested", "protobuf", [put("nested.proto", NESTED_PROTO)]))
    out.append(("shop", "thrift", [shop_thrift(put)]))
    import compilesuite
    out.append(("cycles", "thrift", [put("cycles.thrift", compilesuite.cycles_doc(random.Random(seed * 7 + 1), 45 if tier == "quick" else 160))]))
    out.append(("shopp", "protobuf", [shop_proto(put)]))
    # services that inherit across files, with a struct that several files use (in workspace mode it moves to the common crate and
    # every crate re-exports what it needs from the others)
    sb = put("svc_b.thrift", "namespace rs svc.b\nstruct Shared { 1: i32 id, 2: optional string note }\nstruct OnlyB { 1: Shared s, 2: list<Shared> more }\n"
                             "exception Oops { 1: string why }\nservice B { Shared base(1: OnlyB b) throws (1: Oops o), void ping() }\n")
    sc = put("svc_c.thrift", "namespace rs svc.c\ninclude \"svc_b.thrift\"\nstruct OnlyC { 1: svc_b.Shared s, 2: map<string, svc_b.OnlyB> m }\n"
                             "service C extends svc_b.B { OnlyC third(1: svc_b.Shared s) }\n")
    sa = put("svc_a.thrift", "namespace rs svc.a\ninclude \"svc_b.thrift\"\ninclude \"svc_c.thrift\"\nstruct OnlyA { 1: svc_b.Shared s, 2: svc_c.OnlyC c }\n"
                             "service A extends svc_c.C { OnlyA get(1: svc_b.Shared s, 2: svc_c.OnlyC c) throws (1: svc_b.Oops o) }\n")
    out.append(("svc", "thrift", [sa, sb, sc]))
    # one module with many items (more than any batch size a parallel writer might use): the order of items inside a module
    big = "namespace rs big.one\n" + "".join(f"struct Item{i:04} {{ 1: i32 a, 2: optional string s }}\n" if i % 7 else f"enum Kind{i:04} {{ A = 1, B = 2 }}\n" for i in range(126 if tier == "quick" else 1400))
    # ... with items whose names differ only by case from an item far away in the same module (split mode gives the later one a
    # numbered file name: which one is "later" must not depend on how the items are divided among workers)
    big += "".join(f"struct ITEM{i:04} {{ 1: i32 a }}\n" for i in ((3, 60, 110) if tier == "quick" else (3, 250, 601))) + "enum KIND0007 { A = 1 }\nstruct item0002 { 1: i32 a }\n"
    out.append(("big", "thrift", [put("big.thrift", big)]))
    for d in idlgen.fixed_docs():
        out.append((d["name"], "thrift", [put(d["name"] + ".thrift", idlgen.render(d))]))
    r = random.Random(seed * 17 + 5)
    for i in range(1 if tier == "quick" else 4):
        d = idlgen.random_doc(r, f"rd{i}")
        out.append((d["name"], "thrift", [put(d["name"] + ".thrift", idlgen.render(d))]))
    # a few of the repository's own test documents (larger, with services and constants)
    for rel, kind in (("pilota-build/test_data/thrift/normal.thrift", "thrift"), ("pilota-build/test_data/thrift/apache.thrift", "thrift"),
                      ("pilota-build/test_data/protobuf/nested_message.proto", "protobuf"), ("pilota-build/test_data/protobuf/oneof.proto", "protobuf")):
        p = os.path.join(REPO, rel)
        if os.path.exists(p):
            q = os.path.join(src, "repo_" + os.path.basename(rel))
            shutil.copy(p, q)
            out.append(("repo_" + os.path.basename(rel).split(".")[0], kind, [q]))
    return out


def tree_hash(root):
    h = {}
    for dp, _, files in os.walk(root):
        for fn in sorted(files):
            p = os.path.join(dp, fn)
            h[os.path.relpath(p, root)] = hashlib.sha256(open(p, "rb").read()).hexdigest()
    return h


def run_gen(kind, idls, outdir, flags, threads, env):
    shutil.rmtree(outdir, ignore_errors=True)
    os.makedirs(outdir)
    out = os.path.join(outdir, "gen.rs")
    if "--workspace" in flags:
        out = os.path.join(outdir, "ws")
        os.makedirs(out)
        open(os.path.join(out, "Cargo.toml"), "w").close()
    e = dict(env, RAYON_NUM_THREADS=str(threads))
    p = subprocess.run([GENTOOL, kind, out] + flags + ["--"] + idls, env=e, stdout=subprocess.PIPE, stderr=subprocess.STDOUT, text=True, timeout=600)
    return p.returncode, p.stdout[-600:]


def module_tokens(path):
    """pre-order token list of the emitted file: ('open', name) / ('text',) once per module that has direct items / ('close',)"""
    toks, stack, depth, has_text = [], [], 0, []
    for line in open(path):
        s = line.strip()
        m = re.match(r"pub mod (r#)?(\w+) \{$", s)
        if m:
            toks.append(("open", m.group(2)))
            stack.append(depth)
            has_text.append(False)
        elif stack and not has_text[-1] and re.match(r"(pub (struct|enum|trait|const|static|type)|impl |#\[derive|include!)", s) and depth == stack[-1] + 1:
            has_text[-1] = True
            toks.append(("text",))
        depth += line.count("{") - line.count("}")
        while stack and depth <= stack[-1]:
            stack.pop()
            has_text.pop()
            toks.append(("close",))
    return toks


def model_order(toks, r):
    """ask the model for the canonical order of the same module set, delivered in a random order"""
    names = sorted({t[1] for t in toks if t[0] == "open"}, key=lambda s: s.encode())
    rank = {n: i for i, n in enumerate(names)}
    keys, path = [], []
    all_paths = []
    for t in toks:
        if t[0] == "open":
            path.append(rank[t[1]])
            all_paths.append(list(path))
        elif t[0] == "close":
            path.pop()
        else:
            keys.append(list(path))
    if not keys:
        keys = all_paths
    # every leaf module must be a key (a module exists only because something lies at or below it)
    shuffled = keys[:]
    r.shuffle(shuffled)
    req = f"emitorder {len(names)} " + " ".join("(" + " ".join(map(str, k)) + ")" for k in shuffled)
    p = subprocess.run([PMODEL], input=req + "\n", stdout=subprocess.PIPE, text=True, timeout=120)
    want = []
    for t in toks:
        if t[0] == "open":
            want.append(f"o{rank[t[1]]}")
        elif t[0] == "close":
            want.append("c")
        else:
            want.append("t")
    return req, " ".join(want), p.stdout.strip()


def split_names(outdir, r):
    """(request, real file names, model answer) for every mod.rs of a split build"""
    res = []
    for dp, _, files in os.walk(outdir):
        if "mod.rs" not in files:
            continue
        incs = re.findall(r'include!\("([^"]+)\.rs"\)', open(os.path.join(dp, "mod.rs")).read())
        if not incs:
            continue
        simple = [re.sub(r"_\d+$", "", n) if re.search(r"_\d+$", n) and (re.sub(r"_\d+$", "", n).lower() in [x.lower() for x in incs]) else n for n in incs]
        req = "splitnames " + " ".join(s.encode().hex() for s in simple)
        p = subprocess.run([PMODEL], input=req + "\n", stdout=subprocess.PIPE, text=True, timeout=120)
        res.append((req, " ".join(n.encode().hex() for n in incs), p.stdout.strip()))
    return res


def step(cfg, tier, seed, workdir, env):
    """extra step of bin/check for C17"""
    r = random.Random(seed)
    runs = 4 if tier == "quick" else 12
    work = os.path.join(workdir, "det")
    shutil.rmtree(work, ignore_errors=True)
    os.makedirs(work)
    evaluations, distinct, samples, oracle_fails, disagreements = 0, [], [], [], []
    for name, kind, idls in corpus(work, seed, tier):
        modes = [("single", []), ("split", ["--split"])]
        if name in ("shop", "multi"):
            modes += [("dedup", ["--dedup=Common", "--dedup=Leaf"]), ("dedup-split", ["--split", "--dedup=Common"])]
        if name in ("shop", "shopp", "multi", "nested", "svc") or tier == "thorough":
            modes += [("workspace", ["--workspace"]), ("workspace-split", ["--workspace", "--split"])]
        for mode, flags in modes:
            hashes = []
            for k in range(runs):
                outdir = os.path.join(work, f"{name}-{mode}-{k}")
                rc, msg = run_gen(kind, idls, outdir, flags, THREADS[k % len(THREADS)], env)
                evaluations += 1
                if rc != 0:
                    oracle_fails.append(("C17", f"gentool {kind} {' '.join(flags)} {idls[0]}", "C17,C14", f"generator failed: {msg}", "abort"))
                    break
                hashes.append(tree_hash(outdir))
            if len(hashes) == runs:
                distinct.append(f"{name}/{mode}/" + hashlib.sha256(repr(sorted(hashes[0].items())).encode()).hexdigest()[:12])
                for k in range(1, runs):
                    if hashes[k] != hashes[0]:
                        diff = sorted(set(hashes[k].items()) ^ set(hashes[0].items()))[:4]
                        oracle_fails.append(("C17", f"gentool {kind} {' '.join(flags)} -- {' '.join(idls)}  (runs 0 and {k}, RAYON_NUM_THREADS {THREADS[0]} / {THREADS[k % len(THREADS)]})", "C17",
                                             f"emitted files differ between two runs on the same input: {diff}", "differs"))
                        break
                # model tie: canonical module order / split file names
                gen0 = os.path.join(work, f"{name}-{mode}-0", "gen.rs")
                if mode in ("single", "dedup"):
                    toks = module_tokens(gen0)
                    req, want, got = model_order(toks, r)
                    evaluations += 1
                    if want != got:
                        disagreements.append(("C17", req, want, got))
                    samples.append({"input": name, "mode": mode, "files": len(hashes[0]), "module_tokens": want[:200]})
                elif mode in ("split", "dedup-split"):
                    for req, want, got in split_names(os.path.join(work, f"{name}-{mode}-0"), r):
                        evaluations += 1
                        if want != got:
                            disagreements.append(("C17", req, want, got))
            for k in range(runs):
                shutil.rmtree(os.path.join(work, f"{name}-{mode}-{k}"), ignore_errors=True)
    return dict(evaluations=evaluations, distinct=distinct, samples=samples, oracle_fails=oracle_fails, disagreements=disagreements,
                extra={"processes_per_input": runs, "thread_counts": THREADS})
