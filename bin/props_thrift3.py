"""Track thrift3: C03 (spec conformance), C11 (unchecked codec), C12 (async decoding) — runtime level."""


def register(prop, TB_COMMON):
    prop("C11", lean_props=["C11", "Tables"],
         trusted_base=TB_COMMON + [
             "C11: every unchecked access of binary_unsafe.rs is modelled as a guarded access (Thrift/Unsafe.lean); real out-of-bounds behaviour is observed only by the harness (exact-size windows, 0xAA guard bytes before the window and from the final index to the end of the capacity)",
             "C11: bytes::BytesMut::{advance_mut, split, capacity}, linkedbytes 0.1.8 LinkedBytes::insert are modelled (spare capacity conserved by split), compared through node lengths / index / zero_copy_len on every request",
         ],
         explanation="uw: real TBinaryUnsafeOutputProtocol over BytesMut / LinkedBytes (zero-copy off/on) in a window of exactly the copied size (+slack), compared with the Lean window machine (bytes, final index, zero_copy_len, node lengths) and, by the oracle, with the checked writer; ur: real TBinaryUnsafeInputProtocol on inputs the checked reader accepts, compared with the Lean (advanced, index) machine and, by the oracle, with the checked reader's values and consumption.")
