"""Track thrift3: C03 (spec conformance), C11 (unchecked codec), C12 (async decoding) — runtime level."""


def register(prop, TB_COMMON):
    prop("C11", lean_props=["C11", "Tables"],
         trusted_base=TB_COMMON + [
             "C11: every unchecked access of binary_unsafe.rs is modelled as a guarded access (Thrift/Unsafe.lean); real out-of-bounds behaviour is observed only by the harness (exact-size windows, 0xAA guard bytes before the window and from the final index to the end of the capacity)",
             "C11: bytes::BytesMut::{advance_mut, split, capacity}, linkedbytes 0.1.8 LinkedBytes::insert are modelled (spare capacity conserved by split), compared through node lengths / index / zero_copy_len on every request",
         ],
         explanation="uw: real TBinaryUnsafeOutputProtocol over BytesMut / LinkedBytes (zero-copy off/on) in a window of exactly the copied size (+slack), compared with the Lean window machine (bytes, final index, zero_copy_len, node lengths) and, by the oracle, with the checked writer; ur: real TBinaryUnsafeInputProtocol on inputs the checked reader accepts, compared with the Lean (advanced, index) machine and, by the oracle, with the checked reader's values and consumption.")
    prop("C12", lean_props=["C12", "Tables"],
         trusted_base=TB_COMMON + [
             "C12: tokio AsyncReadExt::{read_exact, read_u8, read_i8, read_iNN[_le], read_f64[_le]}, Take + read_to_end are modelled as 'gather exactly n bytes or UnexpectedEof, never asking the reader for more than is still wanted' (Thrift/Async.lean readExact / takeReadToEnd); an async fn is a resumable program whose only contact with the reader is such a pull",
             "C12: the harness executor (no-op waker, busy poll) and the scripted AsyncRead stand for every executor and transport; wake-up protocol, cancellation and drop mid-poll are not modelled",
             "C12: a Rust slice holds at most isize::MAX bytes (hypothesis bs.length < 2^63 of the theorems)",
         ],
         explanation="a: real TAsyncBinaryProtocol / binary_le / TAsyncCompactProtocol over a scripted AsyncRead (chunks + injected Pending) polled by a hand-written executor; dynamic reading interpreter over TAsyncInputProtocol, async skipper in and out of struct context, message envelopes; the answer (values, bytes pulled, failing step) is compared with the Lean stream semantics, and the oracle compares it with the in-memory protocol on the flattened bytes.")
