"""Track thrift3: C03 (spec conformance), C11 (unchecked codec), C12 (async decoding) — runtime level."""


import os, subprocess, time

_V = os.path.dirname(os.path.dirname(os.path.abspath(__file__)))


def miri_step(cfg, tier, seed, workdir, env):
    """thorough tier of C11: run a small corpus of unchecked-codec requests under miri (a model cannot
    exhibit a real out-of-bounds access; guard bytes and miri can).  Skipped, and said so in the
    evidence, when no nightly toolchain with miri is installed."""
    if tier != "thorough":
        return {"extra": {"miri": "not run (quick tier)"}}
    reqs = [l.rstrip("\n") for l in open(os.path.join(_V, "corpus", "C11.miri.txt")) if l.strip() and not l.startswith("#")]
    e = dict(env, CARGO_TARGET_DIR=os.path.join(_V, "target", "miri"), MIRIFLAGS="-Zmiri-disable-isolation -Zmiri-tree-borrows",
             VERIF_HANG_S="0")      # no watchdog thread: miri reports a detached thread that is alive at exit as an error (the run has its own timeout)
    t0 = time.time()
    try:
        p = subprocess.run(["cargo", "+nightly", "miri", "run", "--offline", "-p", "rt", "--", "exec"], cwd=os.path.join(_V, "harness"),
                           env=e, input="\n".join(reqs) + "\n", stdout=subprocess.PIPE, stderr=subprocess.PIPE, text=True, timeout=1500)
    except (subprocess.TimeoutExpired, FileNotFoundError) as ex:
        return {"extra": {"miri": "not completed: %s" % type(ex).__name__}}
    if "error: toolchain" in p.stderr or "no such command" in p.stderr or "is not installed" in p.stderr:
        return {"extra": {"miri": "unavailable: " + p.stderr.strip()[-200:]}}
    native = subprocess.run([os.path.join(_V, "target", "cargo", "debug", "rt"), "exec"], input="\n".join(reqs) + "\n",
                            stdout=subprocess.PIPE, stderr=subprocess.DEVNULL, text=True).stdout.split("\n")[:len(reqs)]
    got = p.stdout.split("\n")[:len(reqs)]
    fails = []
    if p.returncode != 0 or "Undefined Behavior" in p.stderr:
        i = min(len([x for x in got if x]), len(reqs) - 1)
        fails.append(("C11-miri", reqs[i], "C11", ("miri (exit %d): " % p.returncode) + (" ".join(l.strip() for l in p.stderr.splitlines() if "Undefined Behavior" in l or "-->" in l)[:300] or p.stderr.strip()[-200:]), "abort"))
    elif got != native:
        i = [a != b for a, b in zip(got, native)].index(True)
        fails.append(("C11-miri", reqs[i], "C11", "answer under miri differs from the native run", got[i]))
    return {"evaluations": len(reqs), "distinct": reqs, "oracle_fails": fails,
            "extra": {"miri": {"requests": len(reqs), "undefined_behavior": bool(fails), "wall_s": round(time.time() - t0, 1), "flags": e["MIRIFLAGS"]}}}


def register(prop, TB_COMMON):
    # second stream: emitted code with unknown-field retention (the request set of C13): retained chunks re-emitted through the
    # unchecked writers (BytesMut and LinkedBytes, zero-copy on and off) must give the bytes of the checked writers
    prop("C11", lean_props=["C11", "Tables"], extra_steps=[miri_step], bins=["rt", "gentool"],
         streams=[{"name": "C11"}, {"name": "C11gen", "bin": "genrun", "pygen": "requests_C13", "drop_hazard": True}],
         trusted_base=TB_COMMON + [
             "C11: every unchecked access of binary_unsafe.rs is modelled as a guarded access (Thrift/Unsafe.lean); real out-of-bounds behaviour is observed only by the harness (exact-size windows, 0xAA guard bytes before the window and from the final index to the end of the capacity)",
             "C11: bytes::BytesMut::{advance_mut, split, capacity}, linkedbytes 0.1.8 LinkedBytes::insert are modelled (spare capacity conserved by split), compared through node lengths / index / zero_copy_len on every request",
         ],
         explanation="uw: real TBinaryUnsafeOutputProtocol over BytesMut / LinkedBytes (zero-copy off/on) in a window of exactly the copied size (+slack), compared with the Lean window machine (bytes, final index, zero_copy_len, node lengths) and, by the oracle, with the checked writer; ur: real TBinaryUnsafeInputProtocol on inputs the checked reader accepts, compared with the Lean (advanced, index) machine and, by the oracle, with the checked reader's values and consumption.")
    prop("C12", lean_props=["C12", "Tables"],
         trusted_base=TB_COMMON + [
             "C12: tokio AsyncReadExt::{read_exact, read_u8, read_i8, read_iNN[_le], read_f64[_le]}, Take + read_to_end are modelled as 'gather exactly n bytes or UnexpectedEof, never asking the reader for more than is still wanted' (Thrift/Async.lean readExact / takeReadToEnd); an async fn is a resumable program whose only contact with the reader is such a pull",
             "C12: the harness executor (no-op waker, busy poll) and the scripted AsyncRead stand for every executor and transport; wake-up protocol, cancellation and drop mid-poll are not modelled",
             "C12: a Rust slice holds at most isize::MAX bytes (hypothesis bs.length < 2^63 of the theorems)",
         ],
         explanation="a: real TAsyncBinaryProtocol / binary_le / TAsyncCompactProtocol over a scripted AsyncRead (chunks + injected Pending) polled by a hand-written executor; dynamic reading interpreter over TAsyncInputProtocol, async skipper in and out of struct context, message envelopes; the answer (values, bytes pulled, failing step) is compared with the Lean stream semantics, and the oracle compares it with the in-memory protocol on the flattened bytes.")
    prop("C03", lean_props=["C03", "Tables"],
         trusted_base=TB_COMMON + [
             "C03: the Apache documents are not in the sandbox; Thrift/Spec.lean is written from the spec facts listed in DESIGN.md section 8/C03 (to be reviewed against thrift-binary-protocol.md / thrift-compact-protocol.md; in particular 'bools inside compact containers are one byte 1/2')",
             "C03: Base/Varint.lean's arithmetic definitions of LEB128 and zig-zag are shared between the reference and the model (their inverses are proved in Lemmas/Varint.lean)",
             "C03: the Rust reference encoder with choice bits in harness/rt/src/thrift3.rs (every encoding it produces is re-checked for membership in the Lean relation by the driver on the same request)",
         ],
         explanation="se: pilota's bytes vs the reference's canonical encoding (and, by the oracle, vs an independent Rust reference encoder); sr: alternative legal encodings (long/short field headers, delta 15, non-zero bool bytes, bool nibble 1/2) drawn by the Rust reference encoder, checked for membership in SpecBin/SpecCmp.Enc and decoded by the reference decoder in Lean, fed to the REAL readers; s: every type byte in every header position, message headers byte by byte; sm / ax / axw: envelopes and TApplicationException both ways.")
