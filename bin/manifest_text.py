"""Texts for MANIFEST.json (level_claimed.text, level_note, technique) per property."""
ALL = ["C%02d" % i for i in range(1, 21)]

TEXT = {
 "C01": dict(
  text="Machine-checked proof, for every well-typed value tree, every trailing byte string and every starting state without a deferred bool: binary/LE round trip (binary_roundtrip), compact round trip with writer and reader state restored (compact_roundtrip), sequences of values on one buffer with one protocol instance (binary_seq_roundtrip, compact_seq_roundtrip), LinkedBytes output = contiguous output for every zero-copy setting and threshold (linked_concat). The model is tied to the Rust by the T1 stream (per-call bytes of every writer, values and remaining length of every reader, BytesMut / LinkedBytes zc on/off / unchecked) and the T2 table theorems.",
  note="Theorems are about the Lean model (PilotaModel/Thrift/{Binary,Compact,Linked}.lean); fidelity to /repo is checked on the generated and corpus inputs of each run only. Unchecked-binary writer/reader bytes are compared with the checked codec by T1 and proved in C11.",
  technique="Lean 4 theorem (mutual structural induction on the value tree) + differential correspondence"),
 "C04": dict(
  text="Machine-checked proof: lock-step simulation between the compact writer and the compact length machine over the same state (len_sim: same next state, length = bytes appended, for every state and every call), lifted to every accepted call sequence (compact_len_eq_write), to every well-typed value (compact_value_len, binary_value_len) and to message envelopes (msg_len_eq). T1 compares each *_len call with the bytes of the matching write_* call on the real protocols.",
  note="Model-level theorem; tie by T1 (per-call numbers) and T2. Generated types' size() is covered through C02's emitted-code stream.",
  technique="Lean 4 theorem (simulation + induction over the call list) + differential correspondence"),
}

NOT_APPLICABLE = []

import importlib, os
for _t in ("thrift2", "thrift3", "pb", "idl", "gen"):
    if os.path.exists(os.path.join(os.path.dirname(os.path.abspath(__file__)), f"manifest_text_{_t}.py")):
        _m = importlib.import_module(f"manifest_text_{_t}")
        TEXT.update(_m.TEXT)

# every property not claimed is listed with its reason (kept current by the tracks)
_REASONS = {}
for _t in ("thrift2", "thrift3", "pb", "idl", "gen"):
    if os.path.exists(os.path.join(os.path.dirname(os.path.abspath(__file__)), f"manifest_text_{_t}.py")):
        _REASONS.update(getattr(importlib.import_module(f"manifest_text_{_t}"), "NOT_APPLICABLE_REASONS", {}))
