"""Track idl: the Thrift IDL parser (pilota-thrift-parser) — C15, C16."""


def register(prop, TB_COMMON):
    tb = [t for t in TB_COMMON if not t.startswith("modelled, not verified")] + [
        "modelled, not verified: nom 7.1.3 combinators (tag tag_no_case alt tuple many0 many1 opt map map_res recognize peek not "
        "separated_list1 take_till take_until take_while escaped one_of none_of satisfy digit1 hex_digit1 multispace1 preceded "
        "terminated delimited permutation many_till eof) as Lean definitions over List Char (PilotaModel/Idl/Nom.lean); "
        "char::is_alphanumeric as a range table generated from the toolchain and compared exhaustively on every C16 run; "
        "i64::from_str / from_str_radix / str::parse::<i32> on digit runs as value <= MAX",
        "the harness printer (harness/rt/src/idl.rs) is compared with the Lean `render` on every C15 request (render=1)",
        "real stack consumption is measured (2 MiB worker thread per parse), not modelled",
    ]
    prop("C15", lean_props=["C15"], trusted_base=tb,
         explanation="T1: random descriptor AST x random layout stream, rendered by the harness printer (mirror of Idl/Printer.lean), "
                     "parsed by the real File::parse and by the model; oracle: real result == printed AST with nothing left.")
    prop("C16", lean_props=["C16"], trusted_base=tb, extra_steps=[stack_probe],
         explanation="T1: hand-written edge documents, every truncation point of two documents, token mutations of rendered documents "
                     "(delete / duplicate / replace / insert / inflate a number / truncate / repeat), nesting ladders 1..64 (thorough 128) "
                     "of types and constants, minus ladders, random UTF-8, large documents; every parse on a fresh 2 MiB thread under "
                     "catch_unwind; sub-parsers (item type cv field fn ident path lit anns int dbl) compared with remaining length.")


def stack_probe(cfg, tier, seed, workdir, env):
    """C16, stack clause, impl only: documents with bracket nesting <= 2 that are long in ONE direction (about 64 KiB each: runs of
    comments of the three styles, blanks, items, fields, enum values, list / map elements, string characters, annotations, path
    segments, digits; and the chain of `-` signs of finding DI2, fixed by 4f1981f).  Stack use must not grow with such a length.
    Each runs in a process of its own; a death is an oracle failure."""
    import os, subprocess
    verif = os.path.dirname(os.path.dirname(os.path.abspath(__file__)))
    rt = os.path.join(verif, "target", "cargo", "debug", "rt")
    reqs = [l for l in subprocess.run([rt, "gen", "C16-stack", tier, str(seed)], stdout=subprocess.PIPE, text=True, env=env).stdout.split("\n") if l.strip()]
    fails, samples = [], []
    for q in reqs:
        p = subprocess.run([rt, "exec"], input=q + "\n", stdout=subprocess.PIPE, stderr=subprocess.DEVNULL, text=True, env=env)
        ans = p.stdout.strip().split("\n")[0] if p.returncode == 0 else "abort"
        samples.append({"request": q[:120] + "…", "impl": ans[:80]})
        if p.returncode != 0:
            fails.append(("C16-stack", q, "C16,PANIC", "process died (rc=%d): a 2 MiB thread is exhausted by a document that is long in one direction only (bracket nesting <= 2)" % p.returncode, ans))
    extra = {"stack_probe": {"requests": len(reqs), "deaths": len(fails)}}
    return dict(evaluations=len(reqs), distinct=reqs, samples=samples, oracle_fails=fails, extra=extra)
