"""Track pb: protobuf properties C05, C06, C10, C18."""


def register(prop, TB):
    tb = TB + [
        "protobuf: the model is for contiguous buffers (`Bytes`, `&[u8]`); `decode_varint` over chunked `Buf`s is compared with the contiguous result by the T1 oracle only",
        "protobuf error messages are not compared; the class `depth` is recognised by prost's fixed text \"recursion limit reached\"",
        "emitted code: harness/pbrun/build.rs runs the real pilota_build::Builder::protobuf() over harness/pbcorpus/*.proto on every build; the request schemas are derived from the protobuf-parse descriptors by the protobuf spec, independently of pilota-build's lowering; values are built and read field by field through generated glue",
        "hash-map iteration order: encodings of values with a map of two or more entries are compared by length and by decoding, not byte for byte",
    ]
    bins = ["rt", "pbrun"]
    prop("C05", lean_props=["C05", "PbTables"], trusted_base=tb, bins=bins,
         streams=[{"name": "C05"}, {"name": "C05e", "bin": "pbrun"}])
    prop("C06", lean_props=["C06", "PbTables"], trusted_base=tb + [
             "C06: the reference (Proto/Spec.lean, harness/pbshared/refcodec.rs) is written from the protobuf encoding guide, which is not in the sandbox; the facts used are listed at the top of Proto/Spec.lean",
         ], bins=bins, streams=[{"name": "C06"}, {"name": "C06e", "bin": "pbrun"}])
    prop("C10", lean_props=["C10", "PbTables"], trusted_base=tb, bins=bins,
         streams=[{"name": "C10"}, {"name": "C10e", "bin": "pbrun"}])
    prop("C18", lean_props=["C18", "PbTables"], trusted_base=tb, bins=bins,
         streams=[{"name": "C18"}, {"name": "C18e", "bin": "pbrun"}])
