"""Track pb: protobuf properties C05, C06, C10, C18."""


def register(prop, TB):
    tb = TB + [
        "protobuf: the model is for contiguous buffers (`Bytes`, `&[u8]`); `decode_varint` over chunked `Buf`s is compared with the contiguous result by the T1 oracle only",
        "protobuf error messages are not compared; the class `depth` is recognised by prost's fixed text \"recursion limit reached\"",
    ]
    prop("C05", lean_props=["C05", "PbTables"], trusted_base=tb)
    prop("C10", lean_props=["C10", "PbTables"], trusted_base=tb)
