"""Track pb: protobuf properties C05, C06, C10, C18."""


import os, shutil, subprocess

_V = os.path.dirname(os.path.dirname(os.path.abspath(__file__)))


def flag_on(streams, tags):
    """extra step: the same streams against the harness built with pilota's feature `pb-encode-default-value` ON
    (harness/on: its own workspace and target dir, because cargo unifies features within one build)."""
    def hook(cfg, tier, seed, workdir, ENV):
        H = os.path.join(_V, "harness", "on")
        T = os.path.join(_V, "target", "cargo-on")
        env = dict(ENV, CARGO_TARGET_DIR=T)
        lock = os.path.join(os.environ.get("VERIF_REPO", "/repo"), "Cargo.lock")
        if os.path.exists(lock):
            shutil.copy(lock, os.path.join(H, "Cargo.lock"))
        p = subprocess.run(["cargo", "build", "--offline", "-p", "rt", "-p", "pbrun"], cwd=H, env=env, stdout=subprocess.PIPE,
                           stderr=subprocess.STDOUT, text=True, timeout=3000)
        if p.returncode != 0:
            return dict(disagreements=[("flag-on", "cargo build (harness/on)", "failed", p.stdout[-400:])])
        pm = os.path.join(_V, "lean", ".lake", "build", "bin", "pmodel")
        out = dict(evaluations=0, distinct=[], samples=[], oracle_fails=[], disagreements=[], extra={})
        for name, binary in streams:
            b = os.path.join(T, "debug", binary)
            g = subprocess.run([b, "gen", name, tier, str(seed)], env=env, stdout=subprocess.PIPE, text=True, timeout=1200)
            if g.returncode != 0:
                out["disagreements"].append(("flag-on:" + name, "gen", "failed", ""))
                continue
            reqs = [l for l in g.stdout.split("\n") if l.strip()]
            orc = os.path.join(workdir, name + ".on.oracle")
            e = subprocess.run([b, "exec", "--oracle", orc], input="\n".join(reqs) + "\n", env=env, stdout=subprocess.PIPE,
                               stderr=subprocess.DEVNULL, text=True, timeout=3000)
            impl = e.stdout.split("\n")[:len(reqs)]
            m = subprocess.run([pm], input="\n".join(reqs) + "\n", stdout=subprocess.PIPE, text=True, timeout=3000)
            model = m.stdout.split("\n")[:len(reqs)]
            if e.returncode != 0 or len(impl) != len(reqs) or len(model) != len(reqs):
                out["disagreements"].append(("flag-on:" + name, "exec", f"rc={e.returncode} {len(impl)}/{len(model)}/{len(reqs)}", ""))
                continue
            out["evaluations"] += len(reqs)
            out["distinct"] += [q for q in reqs if len(q) >= 24]
            out["samples"].append({"request": reqs[len(reqs) // 2][:300], "impl": impl[len(reqs) // 2][:200]})
            for q, a, b2 in zip(reqs, impl, model):
                if a != b2 and " oracle-only" not in q and " hazard=" not in q:
                    out["disagreements"].append(("flag-on:" + name, q, a, b2))
            if os.path.exists(orc):
                for l in open(orc):
                    parts = l.rstrip("\n").split("\t", 2)
                    if len(parts) == 3 and (set(tags) | {"PANIC"}) & set(parts[1].split(",")):
                        i = int(parts[0]) - 1
                        out["oracle_fails"].append(("flag-on:" + name, reqs[i], parts[1], parts[2], impl[i]))
        out["extra"]["flag_on_requests"] = out["evaluations"]
        return out
    return hook


def register(prop, TB):
    tb = TB + [
        "protobuf: the model is for contiguous buffers (`Bytes`, `&[u8]`); `decode_varint` over chunked `Buf`s is compared with the contiguous result by the T1 oracle only",
        "protobuf error messages are not compared; the class `depth` is recognised by prost's fixed text \"recursion limit reached\"",
        "emitted code: harness/pbrun/build.rs runs the real pilota_build::Builder::protobuf() over harness/pbcorpus/*.proto on every build; the request schemas are derived from the protobuf-parse descriptors by the protobuf spec, independently of pilota-build's lowering; values are built and read field by field through generated glue",
        "hash-map iteration order: encodings of values with a map of two or more entries are compared by length and by decoding, not byte for byte",
    ]
    bins = ["rt", "pbrun"]
    prop("C05", lean_props=["C05", "PbTables"], trusted_base=tb, bins=bins,
         streams=[{"name": "C05"}, {"name": "C05e", "bin": "pbrun"}],
         extra_steps=[flag_on([("C05", "rt"), ("C05e", "pbrun")], ["C05"])])
    prop("C06", lean_props=["C06", "PbTables"], trusted_base=tb + [
             "C06: the reference (Proto/Spec.lean, harness/pbshared/refcodec.rs) is written from the protobuf encoding guide, which is not in the sandbox; the facts used are listed at the top of Proto/Spec.lean",
         ], bins=bins, streams=[{"name": "C06"}, {"name": "C06e", "bin": "pbrun"}],
         extra_steps=[flag_on([("C06", "rt"), ("C06e", "pbrun")], ["C06"])])
    prop("C10", lean_props=["C10", "PbTables"], trusted_base=tb, bins=bins,
         streams=[{"name": "C10"}, {"name": "C10e", "bin": "pbrun"}])
    prop("C18", lean_props=["C18", "PbTables"], trusted_base=tb, bins=bins,
         streams=[{"name": "C18"}, {"name": "C18e", "bin": "pbrun"}],
         extra_steps=[flag_on([("C18", "rt"), ("C18e", "pbrun")], ["C18"])])
