"""MANIFEST texts of track idl (C15, C16)."""

TEXT = {
 "C15": dict(
  text="Machine-checked proof over the Lean model of pilota-thrift-parser (one definition per `impl Parser`, same nom combinator "
       "structure and alt order): for every descriptor document that the text syntax can represent (decidable File.wf, each clause "
       "justified by the Rust line that makes the excluded value unrepresentable) and EVERY layout — arbitrary whitespace runs and "
       "`//` `#` `/* */` comments wherever a blank is accepted, `,` `;` or nothing at every optional separator, single or double "
       "quotes, `required` printed or omitted on arguments — File.parse (render layout f) returns exactly f (declarations in order, "
       "recomputed package) with nothing left unparsed (file_rt, the full statement: no hypothesis besides File.wf; the whole grammar: include, cpp_include, namespace, typedef, "
       "const with nested list/map literals and doubles, enum, struct/union/exception with ids/requiredness/defaults/annotations, "
       "service with extends/oneway/throws). Supporting tower: blank_any, ident_rt, literal_rt (both quote styles), int_rt, double_rt, "
       "path_rt, annotations_rt, type_rt, const_rt, field_rt, structlike_rt, enum_rt, function_rt, service_rt, item_rt; "
       "keyword_prefix_ident / _type / _const: a word that merely begins with a keyword is read as an identifier; "
       "blank_only_document_parses: a document of blanks and comments only parses to the empty document (was finding DI1, fixed in "
       "/repo by 00dcdf5; the model follows the fixed code). T1: random AST x random layout, real File::parse vs model vs printed AST; the harness "
       "printer is compared with the Lean render and the generator's ASTs with File.wf on every request.",
  note="Theorems are about the Lean model (PilotaModel/Idl/{Nom,Parser,Printer,WF}.lean); fidelity to /repo is the T1 stream of each run "
       "(model-vs-impl disagreements = 0 on ~1250 quick / ~12800 thorough documents per seed). nom combinators are modelled, not verified. "
       "WF over-approximates in three documented places (a type name spelled list/set/map, the name cpp_type directly after list<…>, "
       "a result type spelled throws).",
  technique="Lean 4 theorem (round-trip tower by structural / well-founded induction over the AST, generic lemma for many0 loops over "
            "rendered element lists, inductive characterisation of blank text) + differential correspondence"),
 "C16": dict(
  text="Machine-checked proof over the same model: File.parse never takes a panic branch on any text (parse_total; the model carries "
       "`IntConstant(-d.0)` debug overflow, nom escaped's unwrap, tag_no_case's byte split as explicit panic branches and map_res "
       "conversions as errors; the same for the eleven sub-parsers, subparsers_total), the model's recursion budget is never exhausted "
       "and never changes an answer (parse_no_fuel, budget_irrelevant), a successful parse consumes the whole text "
       "(parse_ok_consumes_all), and d nested recursive frames of Ty::parse / ConstValue::parse — the only recursive parsers since fix "
       "4f1981f — suffice for every text with fewer than d opening brackets `<` `[` `{` (parse_depth_partial); a run of two or more `-` "
       "is rejected without recursion and needs no depth (minus_run_rejected, minus_run_needs_no_depth; was finding DI2). PARTIAL: "
       "(i) the depth bound is in the NUMBER of opening brackets, which dominates the bracket nesting depth (equal on the nesting "
       "ladders); (ii) the 2 MiB clause itself is measured, not proved: every parse of the T1 stream runs on a fresh 2 MiB thread under "
       "catch_unwind, including nesting ladders of types and constants to depth 64 (thorough 128), and a stack probe parses 40 000 "
       "(thorough 100 000) minus signs in a process of its own as the regression test of DI2 — all pass.",
  note="Model-level theorems; tie by T1 on hand-written edge documents, every truncation point of two documents, token mutations "
       "(delete/duplicate/replace/insert/inflate a number to 11-40 digits/truncate/repeat), ladders, random UTF-8 up to 64 KiB "
       "(thorough), sub-parsers with remaining CHAR count, Error vs Failure, and an exhaustive comparison of the model's "
       "Unicode is_alphanumeric table with the toolchain's over all code points on every run.",
  technique="Lean 4 theorem (invariant `Good` preserved by every combinator: suffix results, no panic, budget bounded by nesting characters; "
            "monotonicity of the budget) + differential correspondence + measured stack ladders"),
}

NOT_APPLICABLE_REASONS = {}
