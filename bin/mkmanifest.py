#!/usr/bin/env python3
"""Regenerate MANIFEST.json from bin/props.py + the per-property texts below."""
import json, os, sys
sys.path.insert(0, os.path.dirname(os.path.abspath(__file__)))
from props import PROPS
from manifest_text import TEXT, ALL, _REASONS

V = os.path.dirname(os.path.dirname(os.path.abspath(__file__)))
checks = []
for pid, cfg in sorted(PROPS.items()):
    t = TEXT[pid]
    checks.append({
        "property_id": pid,
        "quick_cmd": f"bin/check {pid} --tier quick",
        "thorough_cmd": f"bin/check {pid} --tier thorough",
        "evidence_file": f"/verif/evidence/{pid}.json",
        "replay_cmd_template": "bin/check --replay {path}",
        "engine": "lean4-model+t1",
        "level_claimed": {"category": cfg["level"], "text": t["text"], "design_ref": t.get("design_ref", "DESIGN.md section 8, " + pid)},
        "level_note": t["note"],
        "technique": t["technique"],
    })
m = {
    "version": 1,
    "setup_cmd": "bin/setup",
    "hooks": {
        "guard": "cloudwego_pilota_verif",
        "enable": "RUSTFLAGS='--cfg cloudwego_pilota_verif' (set by bin/check; no hook is currently needed: everything observed is public API)",
        "baseline_off_cmd": "cd /repo && cargo test --workspace --no-fail-fast --offline",
        "source_commits": [],
        "add_only": True,
    },
    "engines": [{
        "name": "lean4-model+t1", "path": "/verif/lean",
        "serves_properties": sorted(PROPS.keys()),
        "kind_free_text": "hand-written Lean 4 model with machine-checked property theorems (lake build + #print axioms audit), tied to /repo on every run by a differential line-protocol stream (Rust harness calling the real code in-process vs. the compiled model driver pmodel) and by decide-theorems over constant tables re-extracted from the source",
    }],
    "checks": checks,
    "not_applicable": [{"property_id": p, "reason": _REASONS.get(p, "not yet claimed: its model, theorems and correspondence stream are under construction in this framework (see DESIGN.md section 8 for the plan); it will be claimed once its first theorem and T1 stream exist")} for p in ALL if p not in PROPS],
    "notes": "See DESIGN.md. Fix commits in /repo are listed in known_findings.json (status fixed).",
}
json.dump(m, open(os.path.join(V, "MANIFEST.json"), "w"), indent=1)
print("MANIFEST.json:", len(checks), "checks")
