"""Document set, emitted-code build and request streams for the emitted-Thrift-code properties."""
import hashlib, os, random, subprocess, sys

import idlgen

VERIF = os.path.dirname(os.path.dirname(os.path.abspath(__file__)))
TARGET = os.path.join(VERIF, "target")
HARNESS = os.path.join(VERIF, "harness")
CARGO_TARGET = os.path.join(TARGET, "cargo")
GEN_DIR = os.path.join(TARGET, "gen", "cur")
PROTOS = ["bin", "le", "cmp", "ubin"]


class BuildError(Exception):
    pass


def doc_set(seed, tier):
    docs = idlgen.fixed_docs()
    r = random.Random(seed * 7919 + 13)
    for i in range(2 if tier == "quick" else 6):
        docs.append(idlgen.random_doc(r, f"r{i}"))
    return docs


def prepare(seed, tier, env, log):
    """render the documents, run the real generator on each (plain and, for the fixed ones, keep_unknown_fields),
    write the dispatch table and build genrun.  Returns (docs, variants) where variants maps doc name -> emitted names."""
    docs = doc_set(seed, tier)
    os.makedirs(GEN_DIR, exist_ok=True)
    gentool = os.path.join(CARGO_TARGET, "debug", "gentool")
    emitted = []
    failures = []
    for d in docs:
        idl = os.path.join(GEN_DIR, d["name"] + ".thrift")
        text = idlgen.render(d)
        if not os.path.exists(idl) or open(idl).read() != text:
            open(idl, "w").write(text)
        variants = [(d["name"], [])]
        if not d["name"].startswith("r") or d["name"] == "r0":
            variants.append((d["name"] + "k", ["--keep"]))
        for vname, flags in variants:
            vidl = os.path.join(GEN_DIR, vname + ".thrift")
            if vname != d["name"]:
                if not os.path.exists(vidl) or open(vidl).read() != text:
                    open(vidl, "w").write(text)
            out = os.path.join(GEN_DIR, vname + ".rs")
            tmp = out + ".new"
            p = subprocess.run([gentool, "thrift", tmp] + flags + ["--", vidl], env=env, stdout=subprocess.PIPE, stderr=subprocess.STDOUT, text=True, timeout=600)
            if p.returncode != 0 or not os.path.exists(tmp):
                failures.append((vname, p.stdout[-800:]))
                continue
            new = open(tmp).read()
            if not os.path.exists(out) or open(out).read() != new:
                os.replace(tmp, out)
            else:
                os.remove(tmp)
            emitted.append(vname)
    if failures:
        raise BuildError("pilota-build failed on " + "; ".join(f"{n}: {m}" for n, m in failures))
    import gendispatch
    # the wire type of a value of each typedef / enum newtype (the harness reads a decoded value's binary re-encoding back by it
    # and shows the canonical tree; decided from the IDL, not by what the bytes happen to parse as)
    wire_tt = {}
    for d in docs:
        items = idlgen.all_items(d)
        for it in items.values():
            if it["kind"] in ("typedef", "enum"):
                tt = idlgen.ttype(items, ("ref", it["name"]))
                for vn in (d["name"], d["name"] + "k"):
                    wire_tt[(vn, it["name"])] = tt
    gendispatch.write(GEN_DIR, emitted, wire_tt)
    e = dict(env, GEN_DIR=GEN_DIR)
    p = subprocess.run(["cargo", "build", "--offline", "-p", "genrun"], cwd=HARNESS, env=e, stdout=subprocess.PIPE, stderr=subprocess.STDOUT, text=True, timeout=3000)
    log.append(("cargo genrun", p.returncode, "\n".join(l for l in p.stdout.splitlines() if l.startswith("error"))[:600]))
    if p.returncode != 0:
        raise BuildError("emitted code does not compile: " + p.stdout[-1500:])
    return docs, emitted


def doc_lines(docs, emitted):
    out = []
    for d in docs:
        s = idlgen.schema_sexp(d)
        ls = idlgen.lits_sexp(d)      # the default literals: the model lowers them itself (Build/Lower.lean) and must agree with idlgen.lower_default
        for v in (d["name"], d["name"] + "k"):
            if v in emitted:
                out.append(f"doc {v} {s} {ls}")
    return out


def data_types(d):
    items = idlgen.all_items(d)
    return items, [it for it in items.values() if it["kind"] in ("struct", "exception", "union")]


def alias_types(d):
    """typedefs and enums: emitted as newtypes with their own Message impl, decodable stand-alone"""
    items = idlgen.all_items(d)
    return items, [it for it in items.values() if it["kind"] in ("typedef", "enum")]


def async_lines(r, d, it, v, want, tag, every):
    out = []
    for p in ("bin", "le", "cmp"):
        if every or r.random() < 0.34:
            chunks = ",".join(str(r.choice([0, 1, 1, 2, 3, 7, 64])) for _ in range(r.randrange(0, 12))) or "-"
            out.append(f"ga {d['name']} {it['name']} {p} {chunks} {idlgen.sexp(v)} => {want} {tag}")
    return out


def requests_C02(docs, emitted, seed, tier):
    """conforming values of every declared type, every protocol, sync and async, + Default"""
    r = random.Random(seed * 31 + 2)
    out = doc_lines(docs, emitted)
    per = 6 if tier == "quick" else 40
    for d in docs:
        items, types = data_types(d)
        for it in types:
            for _ in range(per):
                v = idlgen.gen_item_value(items, it, r, r.randrange(0, 4))
                want = idlgen.expected(items, it["name"], v)
                for p in PROTOS:
                    if r.random() < (0.6 if tier == "quick" else 1.0):
                        out.append(f"gd {d['name']} {it['name']} {p} {idlgen.sexp(v)} => {want} C02")
                out += async_lines(r, d, it, v, want, "C02", every=not d["name"].startswith("r"))
        # payloads on both sides of the 4096-byte thresholds (zero-copy insertion of the writers, pre-allocation cap of the async readers)
        longs = 0
        for it in types:
            if longs >= (4 if tier == "quick" else 16):
                break
            v0 = idlgen.gen_item_value(items, it, r, 2)
            for n in (4096, 4097, 70000):
                v = idlgen.with_long_payload(v0, n, r)
                if v is None:
                    break
                want = idlgen.expected(items, it["name"], v)
                if want == "err":
                    break
                longs += 1
                for p in PROTOS:
                    out.append(f"gd {d['name']} {it['name']} {p} {idlgen.sexp(v)} => {want} C02")
                out += async_lines(r, d, it, v, want, "C02", every=True)
        # typedef / enum newtypes stand-alone (nothing follows them in the buffer)
        items, aliases = alias_types(d)
        for it in aliases:
            for _ in range(max(2, per // 2)):
                v = idlgen.gen_value(items, ("ref", it["name"]), r, r.randrange(0, 3))
                want = idlgen.expected(items, it["name"], v)
                for p in PROTOS:
                    out.append(f"gd {d['name']} {it['name']} {p} {idlgen.sexp(v)} => {want} C02")
                out += async_lines(r, d, it, v, want, "C02", every=True)
    return out


def requests_C20(docs, emitted, seed, tier):
    out = doc_lines(docs, emitted)
    for d in docs:
        items, types = data_types(d)
        for it in types:
            if it["kind"] == "union":
                continue
            want = idlgen.sexp(idlgen.canon(idlgen.default_of(items, it)))
            out.append(f"gf {d['name']} {it['name']} => {want}")
            # the value a decoder produces from an empty struct, whenever that decode succeeds
            for p in PROTOS:
                out.append(f"gd {d['name']} {it['name']} {p} (struct) => {idlgen.expected(items, it['name'], ('struct', []))} C20")
    return out


def requests_C08(docs, emitted, seed, tier):
    r = random.Random(seed * 131 + 8)
    out = doc_lines(docs, emitted)
    per = 10 if tier == "quick" else 60
    for d in docs:
        items, types = data_types(d)
        for it in types:
            for _ in range(per):
                v = idlgen.gen_item_value(items, it, r, r.randrange(0, 4))
                w = idlgen.evolve(items, it, v, r)
                want = idlgen.expected(items, it["name"], w)
                hz = idlgen.hazards(items, it, w)
                mark = "".join(f" hazard={h}" for h in sorted(hz))
                for p in PROTOS:
                    if hz and p == "ubin":
                        continue      # the unchecked reader has no bounds checks: a misread value is undefined behaviour, not an answer
                    directed = any(i in (77, 1234, -7) and x[0] == "bool" for i, x in w[1])
                    if directed or r.random() < (0.5 if tier == "quick" else 1.0):
                        out.append(f"gd {d['name']} {it['name']} {p} {idlgen.sexp(w)}{mark} => {want} C08")
                if not hz:
                    out += async_lines(r, d, it, w, want, "C08", every=not d["name"].startswith("r"))
                # the same reader built with keep_unknown_fields (checked and unchecked binary): what surrounds a known field - an
                # unknown scalar right behind a known one in particular - must not change how it decodes
                if not hz and d["name"] + "k" in emitted and not it.get("synth") and r.random() < 0.5:
                    args = idlgen.arg_types(d)
                    if (args and idlgen.d12_fires(items, ("ref", it["name"]), w, args)) or idlgen.union_known_plus_unknown(items, ("ref", it["name"]), w):
                        continue
                    wantk = idlgen.expected_keep(items, it["name"], w)
                    nort = ""
                    if args and wantk != "err":
                        try:
                            if idlgen.d12_fires(items, ("ref", it["name"]), idlgen.project_item_keep(items, it, w), args):
                                nort = " nort"
                        except idlgen.Reject:
                            pass
                    for p in ("bin", "ubin"):
                        out.append(f"gd {d['name']}k {it['name']} {p} {idlgen.sexp(w)} => {wantk}{nort} C08")
    return out


def requests_C13(docs, emitted, seed, tier):
    """documents compiled with keep_unknown_fields: writer values with extra fields of every wire type at every
    struct level; checked and unchecked binary"""
    r = random.Random(seed * 977 + 13)
    out = doc_lines(docs, emitted)
    per = 12 if tier == "quick" else 80
    for d in docs:
        if d["name"] + "k" not in emitted:
            continue
        items, types = data_types(d)
        args = idlgen.arg_types(d)
        for it in types:
            if it.get("synth"):
                continue      # the Args/Result types pilota-build synthesises are not retention-enabled (same as the plain build: C02/C08)
            for _ in range(per):
                v = idlgen.gen_item_value(items, it, r, r.randrange(0, 4))
                w = idlgen.inject_unknowns(items, ("ref", it["name"]), v, r, 0.6)
                want = idlgen.expected_keep(items, it["name"], w)
                hz = []
                if args and idlgen.d12_fires(items, ("ref", it["name"]), w, args):
                    hz.append("D12")
                if idlgen.union_known_plus_unknown(items, ("ref", it["name"]), w):
                    hz.append("D31")
                mark = "".join(f" hazard={h}" for h in hz)
                # the harness re-decodes what it decoded (defaults filled in): where only THAT second decode would meet the D12
                # shortcut the request stays in T1 and under the expected-value oracle and only the re-decode is left out
                nort = ""
                if args and not hz and want != "err":
                    try:
                        if idlgen.d12_fires(items, ("ref", it["name"]), idlgen.project_item_keep(items, it, w), args):
                            nort = " nort"
                    except idlgen.Reject:
                        pass
                for p in ("bin", "ubin"):
                    if hz and p == "ubin":
                        continue
                    out.append(f"gd {d['name']}k {it['name']} {p} {idlgen.sexp(w)}{mark} => {want}{nort} C13")
                # retention never changes how known fields decode: the plain build of the same document
                out.append(f"gd {d['name']} {it['name']} bin {idlgen.sexp(w)} => {idlgen.expected(items, it['name'], w)} C13")
    return out


def requests_C19(docs, emitted, seed, tier):
    """every truncation point of valid encodings of every type: live heap before == after a failed decode"""
    r = random.Random(seed * 389 + 19)
    out = doc_lines(docs, emitted)
    per = 4 if tier == "quick" else 12
    for d in docs:
        items, types = data_types(d)
        for it in types:
            for _ in range(per):
                v = idlgen.gen_item_value(items, it, r, r.randrange(1, 4))
                # every cut of the encoding is decoded by model and code: quadratic in the length; the rare multi-kilobyte payloads
                # of the value generator add nothing here (they are C01 / C02 / C11 material)
                for _retry in range(6):
                    if len(idlgen.sexp(v)) <= 1600:
                        break
                    v = idlgen.gen_item_value(items, it, r, r.randrange(1, 3))
                if len(idlgen.sexp(v)) > 1600:
                    continue
                for p in ("bin", "cmp"):
                    out.append(f"gl {d['name']} {it['name']} {p} {idlgen.sexp(v)}")
    # retention builds (their decoders keep copies of unknown fields while decoding): types without any list, so that the known
    # list-arm leak cannot occur and every leak is a violation; no ledger model of retention: oracle only
    for d in docs:
        if d["name"] + "k" not in emitted:
            continue
        items, types = data_types(d)
        args = idlgen.arg_types(d)
        for it in types:
            if it.get("synth") or idlgen.reaches_list(items, it["name"]):
                continue
            if idlgen.reaches(items, it["name"], lambda x: x["name"] in args and x["kind"] in ("struct", "exception")):
                continue          # D12 territory (C13 marks the exact inputs)
            for _ in range(per):
                v = idlgen.gen_item_value(items, it, r, r.randrange(1, 3))
                w = idlgen.inject_unknowns(items, ("ref", it["name"]), v, r, 0.9)
                if idlgen.union_known_plus_unknown(items, ("ref", it["name"]), w):
                    continue
                if len(idlgen.sexp(w)) > 1600:
                    continue          # (every cut is decoded: the 2400-element unknown values belong to C08 / C09 / C11)
                # (binary only: retention under compact is known finding D37)
                out.append(f"gl {d['name']}k {it['name']} bin {idlgen.sexp(w)} oracle-only")
    # the witness of Props/C19.list_arm_leaks, on the real emitted code
    out.append("gl da Outer bin (struct (1 (struct (1 (i32 5)))) (12 (bool 1)) (7 (bin 00)) (2 (list struct (struct (1 (i32 1)) (2 (bin 6161616161616161616161616161616161616161616161616161616161))) (struct (1 (i32 2))))))")
    return out


def mutate_bytes(b, r, tier):
    """adversarial variants of a valid binary encoding: bit flips, boundary values over every aligned 4-byte and 2-byte window"""
    out = []
    n = len(b)
    flips = range(n) if tier == "thorough" else r.sample(range(n), min(n, 24))
    for i in flips:
        for bit in ((0, 7) if tier == "quick" else range(8)):
            m = bytearray(b); m[i] ^= 1 << bit; out.append(bytes(m))
    vals4 = [0xFFFFFFFF, 0, 1, 0x7FFFFFFF, 0x80000000, n, n + 1, max(n - 1, 0), 0x00FFFFFF]
    for i in (range(0, n - 3) if tier == "thorough" else r.sample(range(0, max(n - 3, 1)), min(max(n - 3, 1), 16))):
        for v in (vals4 if tier == "thorough" else r.sample(vals4, 3)):
            m = bytearray(b); m[i:i + 4] = v.to_bytes(4, "big"); out.append(bytes(m))
    for i in (r.sample(range(n), min(n, 8))):
        for tb in (0, 1, 5, 7, 9, 17, 255):
            m = bytearray(b); m[i] = tb; out.append(bytes(m))
    out += [bytes(r.getrandbits(8) for _ in range(r.randrange(0, 40))) for _ in range(10)]
    return out


def requests_C09gen(docs, emitted, seed, tier):
    """emitted decoders on adversarial bytes: every safe protocol, in-memory and asynchronous, plain and retention builds:
    never panic / abort / allocate out of proportion; nesting bombs on a 2 MiB stack"""
    r = random.Random(seed * 733 + 9)
    out = doc_lines(docs, emitted)
    per = 1 if tier == "quick" else 4
    for d in docs:
        items, types = data_types(d)
        variants = [d["name"]] + ([d["name"] + "k"] if d["name"] + "k" in emitted else [])
        args = idlgen.arg_types(d)
        for it in types:
            for vn in variants:
                keep = vn.endswith("k")
                if keep and it.get("synth"):
                    continue
                for p in ("bin", "le", "cmp"):
                    # the model of retention decoding is binary only: other protocols on a retention build are oracle-only
                    # (and what they retain is not binary: the harness's re-encode / re-decode steps make no sense on it)
                    oo = " nort oracle-only" if keep and p != "bin" else ""
                    if keep and p == "bin" and args and idlgen.reaches(items, it["name"], lambda x: x["name"] in args and x["kind"] in ("struct", "exception")):
                        oo = " oracle-only"       # D12 territory (the C13 stream marks the exact inputs; byte strings cannot be)
                    if idlgen.reaches_union(items, it["name"]):
                        oo += " has-union"    # (known finding D29 is told apart by this and the panic site)
                    for _ in range(per):
                        v = idlgen.gen_item_value(items, it, r, r.randrange(1, 4))
                        # a newer writer: unknown fields of every wire type in every position (valid input, must decode)
                        w = idlgen.inject_unknowns(items, ("ref", it["name"]), v, r, 0.5)
                        if not keep or p == "bin":
                            out.append(f"gd {vn} {it['name']} {p} {idlgen.sexp(w)} nort{oo}")
                        else:
                            out.append(f"gb {vn} {it['name']} {p} {idlgen.ENC[p](w).hex() or '-'}{oo}")
                        b = idlgen.ENC[p](v)
                        if len(b) > 400:
                            continue      # (a multi-kilobyte payload times every byte position: the valid message above is enough)
                        ms = mutate_bytes(b, r, tier)
                        if tier == "quick":
                            ms = r.sample(ms, min(len(ms), 40))
                        # (no re-encode / re-decode step on adversarial bytes: what a retention build keeps of them need not be a valid
                        # encoding, and the harness must not hand that to the unchecked decoder, whose contract requires valid input)
                        nr = "" if " nort" in oo else " nort"
                        for m in ms:
                            out.append(f"gb {vn} {it['name']} {p} {m.hex() or '-'}{nr}{oo}")
                        if not keep:
                            for m in r.sample(ms, min(len(ms), 12 if tier == "quick" else 60)):
                                chunks = ",".join(str(r.choice([0, 1, 1, 2, 3, 7, 64])) for _ in range(r.randrange(0, 12))) or "-"
                                out.append(f"gab {vn} {it['name']} {p} {chunks} {m.hex() or '-'}{oo}")
    # nesting bombs for the recursive types of the fixed documents, decoded on a 2 MiB stack (D10)
    for depth in ((50, 500, 3000, 6000) if tier == "quick" else (10, 50, 100, 500, 1000, 2000, 3000, 5000, 10000, 20000)):
        # Tree { 1: list<Tree> kids }: field 1 list<struct> with one element, `depth` times, around an empty struct
        b = b"\x0f\x00\x01\x0c\x00\x00\x00\x01" * depth + b"\x00" + b"\x00" * depth
        hz = " hazard=D10" if depth >= 1000 else ""
        out.append(f"gbs db Tree bin 2048 {b.hex()}{hz}")
    return out
