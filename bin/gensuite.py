"""Document set, emitted-code build and request streams for the emitted-Thrift-code properties."""
import hashlib, os, random, subprocess, sys

import idlgen

VERIF = os.path.dirname(os.path.dirname(os.path.abspath(__file__)))
TARGET = os.path.join(VERIF, "target")
HARNESS = os.path.join(VERIF, "harness")
CARGO_TARGET = os.path.join(TARGET, "cargo")
GEN_DIR = os.path.join(TARGET, "gen", "cur")
PROTOS = ["bin", "le", "cmp", "ubin"]


class BuildError(Exception):
    pass


def doc_set(seed, tier):
    docs = idlgen.fixed_docs()
    r = random.Random(seed * 7919 + 13)
    for i in range(2 if tier == "quick" else 6):
        docs.append(idlgen.random_doc(r, f"r{i}"))
    return docs


def prepare(seed, tier, env, log):
    """render the documents, run the real generator on each (plain and, for the fixed ones, keep_unknown_fields),
    write the dispatch table and build genrun.  Returns (docs, variants) where variants maps doc name -> emitted names."""
    docs = doc_set(seed, tier)
    os.makedirs(GEN_DIR, exist_ok=True)
    gentool = os.path.join(CARGO_TARGET, "debug", "gentool")
    emitted = []
    failures = []
    for d in docs:
        idl = os.path.join(GEN_DIR, d["name"] + ".thrift")
        text = idlgen.render(d)
        if not os.path.exists(idl) or open(idl).read() != text:
            open(idl, "w").write(text)
        variants = [(d["name"], [])]
        if not d["name"].startswith("r") or d["name"] == "r0":
            variants.append((d["name"] + "k", ["--keep"]))
        for vname, flags in variants:
            vidl = os.path.join(GEN_DIR, vname + ".thrift")
            if vname != d["name"]:
                if not os.path.exists(vidl) or open(vidl).read() != text:
                    open(vidl, "w").write(text)
            out = os.path.join(GEN_DIR, vname + ".rs")
            tmp = out + ".new"
            p = subprocess.run([gentool, "thrift", tmp] + flags + ["--", vidl], env=env, stdout=subprocess.PIPE, stderr=subprocess.STDOUT, text=True, timeout=600)
            if p.returncode != 0 or not os.path.exists(tmp):
                failures.append((vname, p.stdout[-800:]))
                continue
            new = open(tmp).read()
            if not os.path.exists(out) or open(out).read() != new:
                os.replace(tmp, out)
            else:
                os.remove(tmp)
            emitted.append(vname)
    if failures:
        raise BuildError("pilota-build failed on " + "; ".join(f"{n}: {m}" for n, m in failures))
    import gendispatch
    gendispatch.write(GEN_DIR, emitted)
    e = dict(env, GEN_DIR=GEN_DIR)
    p = subprocess.run(["cargo", "build", "--offline", "-p", "genrun"], cwd=HARNESS, env=e, stdout=subprocess.PIPE, stderr=subprocess.STDOUT, text=True, timeout=3000)
    log.append(("cargo genrun", p.returncode, "\n".join(l for l in p.stdout.splitlines() if l.startswith("error"))[:600]))
    if p.returncode != 0:
        raise BuildError("emitted code does not compile: " + p.stdout[-1500:])
    return docs, emitted


def doc_lines(docs, emitted):
    out = []
    for d in docs:
        s = idlgen.schema_sexp(d)
        for v in (d["name"], d["name"] + "k"):
            if v in emitted and not v.endswith("k"):
                out.append(f"doc {v} {s}")
    return out


def data_types(d):
    items = idlgen.all_items(d)
    return items, [it for it in items.values() if it["kind"] in ("struct", "exception", "union")]


def requests_C02(docs, emitted, seed, tier):
    """conforming values of every declared type, every protocol, sync and async, + Default"""
    r = random.Random(seed * 31 + 2)
    out = doc_lines(docs, emitted)
    per = 6 if tier == "quick" else 40
    for d in docs:
        items, types = data_types(d)
        for it in types:
            for _ in range(per):
                v = idlgen.gen_item_value(items, it, r, r.randrange(0, 4))
                want = idlgen.expected(items, it["name"], v)
                for p in PROTOS:
                    if r.random() < (0.6 if tier == "quick" else 1.0):
                        out.append(f"gd {d['name']} {it['name']} {p} {idlgen.sexp(v)} => {want} C02")
                if r.random() < 0.5:
                    p = r.choice(["bin", "le", "cmp"])
                    chunks = ",".join(str(r.choice([0, 1, 1, 2, 3, 7, 64])) for _ in range(r.randrange(0, 12))) or "-"
                    out.append(f"ga {d['name']} {it['name']} {p} {chunks} {idlgen.sexp(v)} => {want} C02")
    return out


def requests_C20(docs, emitted, seed, tier):
    out = doc_lines(docs, emitted)
    for d in docs:
        items, types = data_types(d)
        for it in types:
            if it["kind"] == "union":
                continue
            want = idlgen.sexp(idlgen.canon(idlgen.default_of(items, it)))
            out.append(f"gf {d['name']} {it['name']} => {want}")
            # the value a decoder produces from an empty struct, whenever that decode succeeds
            for p in PROTOS:
                out.append(f"gd {d['name']} {it['name']} {p} (struct) => {idlgen.expected(items, it['name'], ('struct', []))} C20")
    return out


def requests_C08(docs, emitted, seed, tier):
    r = random.Random(seed * 131 + 8)
    out = doc_lines(docs, emitted)
    per = 10 if tier == "quick" else 60
    for d in docs:
        items, types = data_types(d)
        for it in types:
            for _ in range(per):
                v = idlgen.gen_item_value(items, it, r, r.randrange(0, 4))
                w = idlgen.evolve(items, it, v, r)
                want = idlgen.expected(items, it["name"], w)
                for p in PROTOS:
                    if r.random() < (0.5 if tier == "quick" else 1.0):
                        out.append(f"gd {d['name']} {it['name']} {p} {idlgen.sexp(w)} => {want} C08")
    return out
