"""C14: documents of G_thrift with hostile identifiers, recursion, containers, defaults and annotations, every builder
configuration; the real generator must terminate without panicking and its output must type-check (cargo check)."""
import os, random, re, shutil, subprocess

import idlgen
import boxsuite

VERIF = os.path.dirname(os.path.dirname(os.path.abspath(__file__)))
TARGET = os.path.join(VERIF, "target")
HARNESS = os.path.join(VERIF, "harness")
GENTOOL = os.path.join(TARGET, "cargo", "debug", "gentool")
CHECK_DIR = os.path.join(TARGET, "gen", "check")

KEYWORDS = ["type", "self", "Self", "super", "crate", "match", "async", "await", "gen", "try", "box", "dyn", "move", "ref", "loop", "fn",
            "impl", "mod", "use", "where", "yield", "macro", "abstract", "final", "override", "do", "in", "as", "pub", "static", "let", "mut",
            "trait", "unsafe", "extern", "while", "for", "if", "else", "return", "break", "continue", "become", "priv", "typeof", "unsized", "virtual"]
# names of std / pilota items the templates refer to by fully qualified path (prelude names used bare by the templates —
# Some, None, Option, Ok, Err, Result, Default — are outside G_thrift: a struct named `Some` shadows the constructor)
STD_NAMES = ["Vec", "String", "Box", "Debug", "Clone", "Message", "Bytes", "FastStr", "HashMap", "Arc"]
COLLIDE = [["fooBar", "foo_bar", "FooBar"], ["ID", "Id", "id"], ["userID", "user_id", "UserId"], ["HTTPServer", "HttpServer", "http_server"], ["_lead", "__lead", "lead"], ["a1b", "a_1b", "A1B"]]
THRIFT_RESERVED = {"true", "false", "include", "namespace", "struct", "union", "exception", "enum", "service", "typedef", "const", "required", "optional",
                   "oneway", "void", "throws", "extends", "list", "set", "map", "bool", "byte", "i8", "i16", "i32", "i64", "double", "string", "binary", "uuid"}


def nasty_doc(r, name):
    """a document whose identifiers are Rust keywords, std names and case-conversion collisions"""
    items = []
    used_types = set()

    def tname():
        pool = [k for k in KEYWORDS + STD_NAMES + sum(COLLIDE, []) if k not in THRIFT_RESERVED]
        for _ in range(50):
            n = r.choice(pool)
            if n.lower() not in {u.lower() for u in used_types}:
                used_types.add(n)
                return n
        n = f"T{len(used_types)}"
        used_types.add(n)
        return n

    def fnames(k):
        pool = [x for x in KEYWORDS + sum(COLLIDE, []) + ["value", "data", "protocol", "stream", "buf", "__protocol", "var_1", "field_ident", "ret"] if x not in THRIFT_RESERVED]
        out = []
        if r.random() < 0.5:
            out += r.choice(COLLIDE)[:k]
        while len(out) < k:
            n = r.choice(pool)
            if n not in out:
                out.append(n)
        return out[:k]

    enum = tname()
    items.append({"kind": "enum", "name": enum, "members": [(n, i) for i, n in enumerate(fnames(r.randrange(1, 4)))]})
    structs = [tname() for _ in range(r.randrange(2, 5))]

    def rty(depth):
        c = r.random()
        if depth > 0 and c < 0.35:
            k = r.choice(["list", "set", "map"])
            if k == "map":
                return ("map", (r.choice(["i32", "string", "i64", "bool"]),), rty(depth - 1))
            if k == "set":
                return ("set", (r.choice(["i32", "string", "i64", "uuid"]),))
            return ("list", rty(depth - 1))
        if c < 0.6:
            return ("ref", r.choice(structs + [enum]))
        return (r.choice(idlgen.BASE),)

    for s in structs:
        k = r.randrange(1, 6)
        fields = []
        for j, fn in enumerate(fnames(k)):
            ty = rty(3)
            req = r.choice(["required", "optional", "default"])
            fields.append(idlgen.F(j + 1, fn, ty, req))
        items.append({"kind": r.choice(["struct", "struct", "exception", "union"]), "name": s, "fields": fields})
    items.append({"kind": "typedef", "name": tname(), "ty": rty(2)})
    svc = tname()
    items.append({"kind": "service", "name": svc, "methods": [
        {"name": fn, "ret": r.choice([None, rty(1)]), "oneway": False,
         "args": [idlgen.F(i + 1, an, rty(1)) for i, an in enumerate(fnames(r.randrange(0, 3)))],
         "throws": [idlgen.F(1, "e", ("ref", s))] if (s := next((x["name"] for x in items if x["kind"] == "exception"), None)) and r.random() < 0.5 else []}
        for fn in fnames(r.randrange(1, 3))]})
    # unions and required self-references would make the type uninhabited / the decode recursion unbounded: make refs optional
    for it in items:
        if it["kind"] in ("struct", "exception", "union"):
            for f in it["fields"]:
                if f["ty"][0] == "ref" and f["ty"][1] in structs:
                    f["req"] = "optional" if it["kind"] != "union" else "default"
    return {"name": name, "items": items}


CONFIGS = [("plain", []), ("split", ["--split"]), ("keep", ["--keep"]), ("nocase", ["--no-change-case"]), ("unused", ["--ignore-unused"]),
           ("all", ["--split", "--keep", "--no-change-case"])]

EXTRA = {
    # a constant and a type whose names meet after case conversion (SHOUTY_SNAKE for the constant, UpperCamel for the type): enums
    # and typedefs are emitted as tuple structs, which also live in the value namespace
    "nsclash": """enum E { A = 1 }
const i32 e = 1
typedef i64 K
const string k = "x"
struct V2 { 1: i32 x }
const i32 v2 = 2
typedef list<i32> Q7
const i64 q7 = 7
enum Mode { On = 1 }
const Mode mode = Mode.On
exception X1 { 1: string why }
const i16 x1 = 3
service Svc { i32 f(1: E a, 2: K b, 3: V2 c, 4: Q7 d, 5: Mode m) throws (1: X1 x) }
""",
    "setconst": """const set<string> TAGS = ["a", "b"]
const set<i32> SI = [1, 2]
const set<double> SD = [1.5]
const set<string> EMPTY = []
const set<list<i32>> SL = [[1, 2], [3]]
const list<set<i32>> LS = [[1, 2], [3]]
const map<string, set<i32>> MS = {"k": [1, 2]}
struct S { 1: i32 x, 2: set<string> t = ["a"], 3: set<i32> u = [] }
""",
    "mutual": """struct A { 1: optional B b, 2: list<A> as, 3: map<string, B> bs }
struct B { 1: optional A a, 2: optional B again, 3: set<i32> s }
union U { 1: A a, 2: U u, 3: list<U> us }
service S { A f(1: B b, 2: U u) }
""",
    "boxzoo": """typedef Node Alias
struct Node { 1: optional Alias next, 2: optional Leaf leaf, 3: list<Node> kids, 4: required Leaf must }
struct Leaf { 1: i32 x }
typedef list<Ring> RingList
struct Ring { 1: optional RingList rs, 2: optional Hop hop, 3: map<string, Ring> named }
struct Hop { 1: optional Skip skip, 2: optional Leaf leaf }
typedef Ring Skip2
typedef Skip2 Skip
exception Boom { 1: optional Boom cause, 2: optional Wrap w, 3: optional Leaf leaf }
union Wrap { 1: Boom b, 2: i32 n }
struct Far { 1: optional Node n, 2: optional Ring r }
service Z { Node f(1: Ring r, 2: Wrap w) }
""",
    "annot": """struct Inner { 1: i32 x }
struct Annot {
  1: required map<i32, list<Inner>> m(pilota.rust_type = "btree", pilota.rust_wrapper_arc = "true"),
  2: required set<i32> s(pilota.rust_type = "btree"),
  3: required string str(pilota.rust_type = "string"),
  4: required binary v(pilota.rust_type = "vec"),
  5: required list<list<Inner>> ll(pilota.rust_wrapper_arc = "true"),
  6: optional Inner boxed(pilota.rust_wrapper_arc = "true"),
}(pilota.name = "Renamed")
typedef map<set<i32>, string> TypeA(pilota.rust_type = "btree")
const map<i32, list<string>> CM = { 1: ["a"] }
const list<Inner> CL = [ {"x": 1} ]
service AS { Annot(pilota.rust_wrapper_arc = "true") f(1: Annot a(pilota.rust_wrapper_arc = "true")) }
""",
    "defaults": """enum E { A = 1, B = 2 }
const string CS = "cs"
const i32 CI = 7
struct P { 1: i32 x = 1, 2: string s = "p" }
struct D {
  1: optional bool b1 = 1, 2: bool b2 = false, 3: optional double d1 = 3, 4: double d2 = 2.5, 5: optional string s1 = 'single', 6: string s2 = CS,
  7: optional binary bin = "bytes", 8: E e1 = E.B, 9: optional E e2 = 1, 10: list<i32> l = [1, 2, 3], 11: optional set<string> ss = ["a", "b"],
  12: map<string, i32> m = {"k": 1}, 13: optional i64 big = 9223372036854775807, 14: i8 small = -128, 15: optional P p = {"x": 5, "s": "q"},
  16: i32 ci = CI, 17: optional map<string, string> em = {}, 18: list<string> el = [],
}
""",
}


PROTO_RESERVED = {"syntax", "import", "weak", "public", "package", "option", "repeated", "optional", "required", "group", "oneof", "map", "extensions",
                  "to", "max", "reserved", "enum", "message", "extend", "service", "rpc", "stream", "returns", "true", "false", "inf", "nan",
                  "double", "float", "int32", "int64", "uint32", "uint64", "sint32", "sint64", "fixed32", "fixed64", "sfixed32", "sfixed64",
                  "bool", "string", "bytes"}
PROTO_SCALARS = ["double", "float", "int32", "int64", "uint32", "uint64", "sint32", "sint64", "fixed32", "fixed64", "sfixed32", "sfixed64", "bool", "string", "bytes"]
PROTO_KEYS = ["int32", "int64", "uint32", "uint64", "sint32", "sint64", "fixed32", "fixed64", "sfixed32", "sfixed64", "bool", "string"]


def nasty_proto(r, name):
    """a G_proto document (DESIGN.md section 7): proto2 or proto3, package, messages nested to depth 3 with enums, the 15 scalar
    kinds, message / enum fields, singular / optional / repeated / required, maps, oneofs, a service; identifiers drawn from Rust
    keywords and case-conversion collisions; recursion through singular, repeated, map and oneof members"""
    syntax = r.choice(["proto3", "proto3", "proto2"])
    lines = [f'syntax = "{syntax}";', f"package {r.choice(['pk', 'pk.inner', 'type_.v1', 'r.mod_.x'])}{name};", ""]
    msg_pool = [k for k in KEYWORDS + STD_NAMES + sum(COLLIDE, []) if k not in PROTO_RESERVED and k not in ("self", "Self", "super", "crate")]
    fld_pool = [k for k in KEYWORDS + sum(COLLIDE, []) + ["value", "data", "buf", "ctx", "wire_type", "tag", "msg", "len"] if k not in PROTO_RESERVED]
    counter = [0]

    def pick(pool, used, cap=False):
        for _ in range(40):
            n = r.choice(pool)
            if cap:
                n = n[0].upper() + n[1:] if n[0].isalpha() else "M" + n
            if re.sub("_", "", n).lower() not in used:
                used.add(re.sub("_", "", n).lower())
                return n
        counter[0] += 1
        n = ("M" if cap else "f") + str(counter[0])
        used.add(n.lower())
        return n
    top_used = set()
    top_msgs = [pick(msg_pool, top_used, cap=True) for _ in range(r.randrange(3, 6))]
    top_enums = [pick(msg_pool, top_used, cap=True) for _ in range(r.randrange(1, 3))]

    def enum_text(n, ind):
        used = set()
        # enum values live in the enclosing scope in protobuf: prefix with the enum name to keep them unique
        vals = [f"{n}_{pick(fld_pool, used)}".upper() if r.random() < 0.5 else f"{n}_{pick(fld_pool, used)}" for _ in range(r.randrange(1, 4))]
        return [f"{ind}enum {n} {{"] + [f"{ind}  {v} = {i};" for i, v in enumerate(vals)] + [f"{ind}}}"]

    def message_text(n, path, depth, ind):
        out = [f"{ind}message {n} {{"]
        used, nested_used = set(), set()
        nested_msgs, nested_enums = [], []
        if depth < 3 and r.random() < 0.6:
            for _ in range(r.randrange(1, 3)):
                nested_msgs.append(pick(msg_pool, nested_used, cap=True))
            if r.random() < 0.5:
                nested_enums.append(pick(msg_pool, nested_used, cap=True))
        for e in nested_enums:
            out += enum_text(e, ind + "  ")
        for m in nested_msgs:
            out += message_text(m, path + [n], depth + 1, ind + "  ")
        msg_refs = top_msgs + nested_msgs + ([".".join(path[1:] + [n])] if len(path) > 1 else [])
        enum_refs = top_enums + nested_enums
        tag = [0]

        def nt():
            tag[0] += r.choice([1, 1, 1, 2, 15, 2000])
            return tag[0]

        def fty(allow_msg=True):
            c = r.random()
            if allow_msg and c < 0.3:
                return r.choice(msg_refs)
            if c < 0.42:
                return r.choice(enum_refs)
            return r.choice(PROTO_SCALARS)
        for _ in range(r.randrange(2, 7)):
            c = r.random()
            fname = pick(fld_pool, used)
            if c < 0.18:
                vt = fty()
                out.append(f"{ind}  map<{r.choice(PROTO_KEYS)}, {vt}> {fname} = {nt()};")
            elif c < 0.36:
                out.append(f"{ind}  repeated {fty()} {fname} = {nt()};")
            elif c < 0.5:
                lab = "optional" if syntax == "proto3" or r.random() < 0.7 else "required"
                t = fty()
                if lab == "required" and t in msg_refs:
                    lab = "optional"      # a required self-reference has no finite value
                out.append(f"{ind}  {lab} {t} {fname} = {nt()};")
            else:
                out.append(f"{ind}  {'optional ' if syntax == 'proto2' else ''}{fty()} {fname} = {nt()};")
        if r.random() < 0.5:
            # (a oneof named like a nested message that has nested items of its own: known finding D38, fixed witness below)
            oname = next((c for c in (pick(fld_pool, used) for _ in range(8)) if re.sub("_", "", c).lower() not in nested_used), f"o{len(used)}")
            out.append(f"{ind}  oneof {oname} {{")
            for _ in range(r.randrange(1, 4)):
                t = fty(allow_msg=True)
                out.append(f"{ind}    {t} {pick(fld_pool, used)} = {nt()};")
            out.append(f"{ind}  }}")
        out.append(f"{ind}}}")
        return out
    for e in top_enums:
        lines += enum_text(e, "")
    for m in top_msgs:
        lines += message_text(m, [""], 1, "")
    if r.random() < 0.7:
        lines.append(f"service {pick(msg_pool, top_used, cap=True)} {{")
        used = set()
        for _ in range(r.randrange(1, 4)):
            a, b = r.choice(top_msgs), r.choice(top_msgs)
            lines.append(f"  rpc {pick(msg_pool, used, cap=True)}({r.choice(['', 'stream '])}{a}) returns ({r.choice(['', 'stream '])}{b});")
        lines.append("}")
    return "\n".join(lines) + "\n"


def cycles_doc(r, n):
    """type-graph zoo: n small clusters of mutually recursive structs in shuffled declaration order - cycles through optional
    fields, lists, sets of i32-keyed maps and map values; closed cycles next to cycles through the cluster's root; a member that
    cannot be Hash / Eq / Ord (double, map, set) sitting in a different place each time.  (derive decisions, boxing)"""
    out = ["struct ZLeaf { 1: required double value }", "struct ZKey { 1: required i32 k, 2: string s }"]
    for i in range(n):
        shape = r.randrange(6)
        bad = r.choice(["ZLeaf", "double", "map<string, double>", "set<double>", "list<ZLeaf>"])
        edge = lambda t: r.choice([f"optional {t}", f"list<{t}>", f"map<string, {t}>", f"optional list<{t}>", f"map<i32, list<{t}>>"])
        if shape == 0:      # pair through containers, only one member holds the leaf
            decls = [f"struct Node{i} {{ 1: required list<Group{i}> groups }}",
                     f"struct Group{i} {{ 1: required list<Node{i}> nodes, 2: required {bad} leaf }}"]
        elif shape == 1:    # root T with a closed cycle A<->B below it, a cycle U<->T through it, and the leaf
            decls = [f"struct T{i} {{ 1: optional A{i} a, 2: optional U{i} u, 3: required {bad} n }}",
                     f"struct A{i} {{ 1: {edge(f'B{i}')} b }}", f"struct B{i} {{ 1: {edge(f'A{i}')} a }}",
                     f"struct U{i} {{ 1: {edge(f'T{i}')} t }}"]
        elif shape == 2:    # triangle, leaf in one corner
            decls = [f"struct P{i} {{ 1: {edge(f'Q{i}')} q }}", f"struct Q{i} {{ 1: {edge(f'R{i}')} r, 2: ZKey key }}",
                     f"struct R{i} {{ 1: {edge(f'P{i}')} p, 2: optional {bad} x }}"]
        elif shape == 3:    # self recursion in several ways plus a hashable use as set element / map key
            decls = [f"struct Self{i} {{ 1: optional Self{i} next, 2: list<Self{i}> kids, 3: map<string, Self{i}> named, 4: set<ZKey> keys, 5: optional {bad} w }}",
                     f"struct Use{i} {{ 1: set<ZKey> ks, 2: map<ZKey, Self{i}> m }}"]
        elif shape == 5:    # the same with plain optional edges and a private non-hashable struct
            decls = [f"struct Tp{i} {{ 1: optional Ap{i} a, 2: optional Up{i} u, 3: required Np{i} n }}",
                     f"struct Ap{i} {{ 1: optional Bp{i} b }}", f"struct Bp{i} {{ 1: optional Ap{i} a }}",
                     f"struct Up{i} {{ 1: optional Tp{i} t }}", f"struct Np{i} {{ 1: required double d }}"]
        else:               # union in the cycle
            decls = [f"union Alt{i} {{ 1: Wrap{i} w, 2: i32 n, 3: list<Alt{i}> more }}", f"struct Wrap{i} {{ 1: {edge(f'Alt{i}')} a, 2: optional {bad} z }}"]
        r.shuffle(decls)
        out += decls
    return "\n".join(out) + "\n"


def nesting_doc(r, tier):
    """every container nesting to depth 2 (quick: plus a sample of depth 3; thorough: all of depth 3) over the leaves double / i64 /
    string / struct / enum, each as list element, set element, map key and map value"""
    # (type text, usable as a hash key).  Rust's hash containers are not themselves hashable, so a set / map inside a set element or
    # map key needs the `pilota.rust_type = "btree"` annotation (golden btree.thrift); without it the document is outside G_thrift.
    leaves = [(t, True) for t in ["double", "i64", "string", "Leaf", "Kind"]]
    levels = [leaves]
    for d in range(3):
        prev = [t for lv in levels for t in lv]
        keys = [t for t in prev if t[1]]
        cur = []
        for i, (t, h) in enumerate(levels[-1]):
            other, oh = prev[(i * 7 + d) % len(prev)]
            key = keys[(i * 5 + d) % len(keys)][0]
            cur.append((f"list<{t}>", h))
            cur.append((f"map<{key}, {t}>", False))
            if h:
                cur.append((f"set<{t}>", False))
                cur.append((f"map<{t}, {other}>", False))
        levels.append(cur)
    levels = [[t for t, _ in lv] for lv in levels]
    types = levels[1] + levels[2] + (levels[3] if tier == "thorough" else r.sample(levels[3], min(60, len(levels[3]))))
    out = ["enum Kind { A = 0, B = 1 }", "struct Leaf { 1: i32 a, 2: string b }"]
    for k in range(0, len(types), 40):
        chunk = types[k:k + 40]
        out.append(f"struct Nest{k // 40} {{")
        for i, t in enumerate(chunk):
            out.append(f"  {i + 1}: {r.choice(['optional', 'required', ''])} {t} f{i},")
        out.append("}")
        if k == 0:
            out.append("union NestU {")
            for i, t in enumerate(chunk[:12]):
                out.append(f"  {i + 1}: {t} v{i},")
            out.append("}")
    out.append("typedef list<list<set<i32>>> Grid")
    out.append("typedef map<list<double>, set<list<double>>> Vecs")
    out.append("service NestSvc { Grid f(1: Vecs v, 2: Nest0 n) }")
    return "\n".join(out) + "\n"


def write_docs(workdir, seed, tier):
    src = os.path.join(workdir, "src")
    shutil.rmtree(src, ignore_errors=True)
    os.makedirs(src)
    docs = []
    for k, text in EXTRA.items():
        open(os.path.join(src, k + ".thrift"), "w").write(text)
        docs.append((k, os.path.join(src, k + ".thrift"), text, "thrift"))
    # cross-file includes and namespaces: harness/inclcorpus (include names that are prefixes of one another, two includes with one
    # file stem, a diamond, qualified types / enum members / constants as defaults, exceptions and service inheritance across files,
    # two services whose names differ only in case in a file that has includes)
    inc_src = os.path.join(HARNESS, "inclcorpus")
    if os.path.isdir(inc_src):
        inc_dst = os.path.join(src, "incl")
        shutil.copytree(inc_src, inc_dst)
        main = os.path.join(inc_dst, "main.thrift")
        docs.append(("incl", main, "\n".join(f"// ---- {os.path.relpath(os.path.join(dp, f), inc_dst)}\n" + open(os.path.join(dp, f)).read()
                                             for dp, _, fs in sorted(os.walk(inc_dst)) for f in sorted(fs)), "thrift"))
    r = random.Random(seed * 101 + 14)
    text = nesting_doc(r, tier)
    open(os.path.join(src, "nesting.thrift"), "w").write(text)
    docs.append(("nesting", os.path.join(src, "nesting.thrift"), text, "thrift"))
    text = cycles_doc(r, 60 if tier == "quick" else 160)
    open(os.path.join(src, "cycles.thrift"), "w").write(text)
    docs.append(("cycles", os.path.join(src, "cycles.thrift"), text, "thrift"))
    for i in range(3 if tier == "quick" else 16):
        d = nasty_doc(r, f"n{i}")
        text = idlgen.render(d)
        open(os.path.join(src, d["name"] + ".thrift"), "w").write(text)
        docs.append((d["name"], os.path.join(src, d["name"] + ".thrift"), text, "thrift"))
    # G_proto: the fixed protobuf corpus of the pb track, the repository's own protobuf test documents, generated documents
    fixed = sorted(os.listdir(os.path.join(HARNESS, "pbcorpus"))) if os.path.isdir(os.path.join(HARNESS, "pbcorpus")) else []
    for f in fixed:
        if f.endswith(".proto"):
            text = open(os.path.join(HARNESS, "pbcorpus", f)).read()
            q = os.path.join(src, "pc_" + f)
            open(q, "w").write(text)
            docs.append(("pc_" + f[:-6], q, text, "protobuf"))
    # known finding D38: the oneof's enum keeps the oneof's own name and collides with the module of a nested message of that name
    text = 'syntax = "proto3";\npackage onc;\nmessage Outer {\n  message Pick { message In { int32 a = 1; } In i = 1; }\n  Pick p = 1;\n  oneof pick { int32 x = 2; string y = 3; }\n}\n'
    q = os.path.join(src, "oneof_name_collision.proto")
    open(q, "w").write(text)
    docs.append(("oneof_name_collision", q, text, "protobuf"))
    for i in range(3 if tier == "quick" else 16):
        text = nasty_proto(r, f"q{i}")
        q = os.path.join(src, f"q{i}.proto")
        open(q, "w").write(text)
        docs.append((f"q{i}", q, text, "protobuf"))
    return docs


def step(cfg, tier, seed, workdir, env):
    docs = write_docs(workdir, seed, tier)
    configs = CONFIGS if tier == "thorough" else CONFIGS[:4]
    os.makedirs(CHECK_DIR, exist_ok=True)
    for f in os.listdir(CHECK_DIR):
        p = os.path.join(CHECK_DIR, f)
        shutil.rmtree(p) if os.path.isdir(p) else os.remove(p)
    oracle_fails, samples, distinct, mods, evaluations = [], [], [], [], 0
    origin = {}
    for name, idl, text, kind in docs:
        for cname, flags in configs:
            if kind == "protobuf" and "--keep" in flags:
                continue      # unknown-field retention is a Thrift option
            mod = f"{name}_{cname}"
            outdir = os.path.join(CHECK_DIR, mod)
            os.makedirs(outdir, exist_ok=True)
            out = os.path.join(outdir, "gen.rs")
            p = subprocess.run([GENTOOL, kind, out] + flags + ["--", idl], env=env, stdout=subprocess.PIPE, stderr=subprocess.STDOUT, text=True, timeout=600)
            evaluations += 1
            distinct.append(mod + ":" + str(len(text)))
            if p.returncode != 0 or not os.path.exists(out):
                msg = [l for l in p.stdout.splitlines() if "panicked" in l or "Error" in l or "error" in l][:3]
                oracle_fails.append(("C14", f"gentool {kind} {' '.join(flags)} -- {idl}\n{text}", "C14", f"pilota-build did not terminate normally on {name} [{cname}]: {' | '.join(msg) or p.stdout[-300:]}", "abort"))
                continue
            mods.append(mod)
            origin[mod] = (name, cname, idl, text, flags, kind)
    e = dict(env, GEN_CHECK_DIR=CHECK_DIR)
    live = list(mods)
    rounds = 0
    # rustc does not reach its later phases (borrow check, ...) for any module while one module has a type error: modules found
    # bad are reported and taken out, and what is left is checked again until it is clean
    while live and rounds < 6:
        rounds += 1
        lib = "\n".join(f'pub mod m_{m} {{ include!("{os.path.join(CHECK_DIR, m, "gen.rs")}"); }}' for m in live) + "\n"
        open(os.path.join(CHECK_DIR, "lib.rs"), "w").write(lib)
        p = subprocess.run(["cargo", "check", "--offline", "-p", "gencheck", "--message-format=short"], cwd=HARNESS, env=e, stdout=subprocess.PIPE, stderr=subprocess.STDOUT, text=True, timeout=3000)
        evaluations += 1
        if p.returncode == 0:
            break
        bad = {}
        for l in p.stdout.splitlines():
            m = re.search(r"gen/check/([^/]+)/[^:]*:(\d+):\d+: error(\[E\d+\])?: (.*)", l)
            if m and m.group(1) in origin:
                bad.setdefault(m.group(1), []).append(f"{m.group(3) or ''} {m.group(4)} (line {m.group(2)})")
        if not bad:
            oracle_fails.append(("C14", "cargo check -p gencheck", "C14", "emitted code does not type-check: " + p.stdout[-600:], "error"))
            break
        for mod, errs in bad.items():
            name, cname, idl, text, flags, kind = origin[mod]
            oracle_fails.append(("C14", f"gentool {kind} {' '.join(flags)} -- {idl}\n{text}", "C14",
                                 f"emitted code for {name} [{cname}] does not type-check: {errs[0]}" + (f" (+{len(errs) - 1} more)" if len(errs) > 1 else ""), "error"))
        live = [m for m in live if m not in bad]
    for m in mods[:3]:
        samples.append({"document": origin[m][0], "config": origin[m][1], "idl_head": origin[m][3][:200]})
    # T1 for the boxing decision (Build/Graph.lean vs the `Box<…>` fields of the emitted structs): every generated Thrift document
    # whose output is a single file, under every configuration
    disagreements, boxed_positions, box_docs, derive_items = [], 0, 0, 0
    for m in mods:
        name, cname, idl, text, flags, kind = origin[m]
        if kind != "thrift" or "--split" in flags or name not in ("cycles", "mutual", "boxzoo"):
            continue
        try:
            req, impl, model, nitems = boxsuite.compare(text, os.path.join(CHECK_DIR, m, "gen.rs"))
        except Exception as ex:      # an unreadable emitted file is a broken correspondence, not a crash of the check
            req, impl, model, nitems = f"boxed <{name}>", f"unreadable: {ex}", "?", 0
        evaluations += 1
        box_docs += 1
        boxed_positions += len(model.split()) if model and not model.startswith(("unsaturated", "no answer", "bad")) else 0
        if impl != model:
            disagreements.append(("C14box", f"{req[:4000]}   # document {name} [{cname}]", impl[:600], model[:600]))
        # ... and for the automatic derives (Build/Derive.lean vs the derive line in front of every emitted type)
        try:
            req, impl, model, nitems = boxsuite.compare_derives(text, os.path.join(CHECK_DIR, m, "gen.rs"))
        except Exception as ex:
            req, impl, model = f"derives <{name}>", f"unreadable: {ex}", "?"
        evaluations += 1
        derive_items += nitems
        if impl != model:
            disagreements.append(("C14derive", f"{req[:4000]}   # document {name} [{cname}]", impl[:600], model[:600]))
    return dict(evaluations=evaluations, distinct=distinct, samples=samples, oracle_fails=oracle_fails, disagreements=disagreements,
                extra={"documents": len(docs), "configurations": [c for c, _ in configs], "modules_type_checked": len(mods), "rustc_rounds": rounds,
                       "boxing_documents_compared": box_docs, "boxed_positions_in_model": boxed_positions, "derive_decisions_compared": 2 * derive_items})
