"""C14: documents of G_thrift with hostile identifiers, recursion, containers, defaults and annotations, every builder
configuration; the real generator must terminate without panicking and its output must type-check (cargo check)."""
import os, random, re, shutil, subprocess

import idlgen

VERIF = os.path.dirname(os.path.dirname(os.path.abspath(__file__)))
TARGET = os.path.join(VERIF, "target")
HARNESS = os.path.join(VERIF, "harness")
GENTOOL = os.path.join(TARGET, "cargo", "debug", "gentool")
CHECK_DIR = os.path.join(TARGET, "gen", "check")

KEYWORDS = ["type", "self", "Self", "super", "crate", "match", "async", "await", "gen", "try", "box", "dyn", "move", "ref", "loop", "fn",
            "impl", "mod", "use", "where", "yield", "macro", "abstract", "final", "override", "do", "in", "as", "pub", "static", "let", "mut",
            "trait", "unsafe", "extern", "while", "for", "if", "else", "return", "break", "continue", "become", "priv", "typeof", "unsized", "virtual"]
# names of std / pilota items the templates refer to by fully qualified path (prelude names used bare by the templates —
# Some, None, Option, Ok, Err, Result, Default — are outside G_thrift: a struct named `Some` shadows the constructor)
STD_NAMES = ["Vec", "String", "Box", "Debug", "Clone", "Message", "Bytes", "FastStr", "HashMap", "Arc"]
COLLIDE = [["fooBar", "foo_bar", "FooBar"], ["ID", "Id", "id"], ["userID", "user_id", "UserId"], ["HTTPServer", "HttpServer", "http_server"], ["_lead", "__lead", "lead"], ["a1b", "a_1b", "A1B"]]
THRIFT_RESERVED = {"true", "false", "include", "namespace", "struct", "union", "exception", "enum", "service", "typedef", "const", "required", "optional",
                   "oneway", "void", "throws", "extends", "list", "set", "map", "bool", "byte", "i8", "i16", "i32", "i64", "double", "string", "binary", "uuid"}


def nasty_doc(r, name):
    """a document whose identifiers are Rust keywords, std names and case-conversion collisions"""
    items = []
    used_types = set()

    def tname():
        pool = [k for k in KEYWORDS + STD_NAMES + sum(COLLIDE, []) if k not in THRIFT_RESERVED]
        for _ in range(50):
            n = r.choice(pool)
            if n.lower() not in {u.lower() for u in used_types}:
                used_types.add(n)
                return n
        n = f"T{len(used_types)}"
        used_types.add(n)
        return n

    def fnames(k):
        pool = [x for x in KEYWORDS + sum(COLLIDE, []) + ["value", "data", "protocol", "stream", "buf", "__protocol", "var_1", "field_ident", "ret"] if x not in THRIFT_RESERVED]
        out = []
        if r.random() < 0.5:
            out += r.choice(COLLIDE)[:k]
        while len(out) < k:
            n = r.choice(pool)
            if n not in out:
                out.append(n)
        return out[:k]

    enum = tname()
    items.append({"kind": "enum", "name": enum, "members": [(n, i) for i, n in enumerate(fnames(r.randrange(1, 4)))]})
    structs = [tname() for _ in range(r.randrange(2, 5))]

    def rty(depth):
        c = r.random()
        if depth > 0 and c < 0.35:
            k = r.choice(["list", "set", "map"])
            if k == "map":
                return ("map", (r.choice(["i32", "string", "i64", "bool"]),), rty(depth - 1))
            if k == "set":
                return ("set", (r.choice(["i32", "string", "i64", "uuid"]),))
            return ("list", rty(depth - 1))
        if c < 0.6:
            return ("ref", r.choice(structs + [enum]))
        return (r.choice(idlgen.BASE),)

    for s in structs:
        k = r.randrange(1, 6)
        fields = []
        for j, fn in enumerate(fnames(k)):
            ty = rty(3)
            req = r.choice(["required", "optional", "default"])
            fields.append(idlgen.F(j + 1, fn, ty, req))
        items.append({"kind": r.choice(["struct", "struct", "exception", "union"]), "name": s, "fields": fields})
    items.append({"kind": "typedef", "name": tname(), "ty": rty(2)})
    svc = tname()
    items.append({"kind": "service", "name": svc, "methods": [
        {"name": fn, "ret": r.choice([None, rty(1)]), "oneway": False,
         "args": [idlgen.F(i + 1, an, rty(1)) for i, an in enumerate(fnames(r.randrange(0, 3)))],
         "throws": [idlgen.F(1, "e", ("ref", s))] if (s := next((x["name"] for x in items if x["kind"] == "exception"), None)) and r.random() < 0.5 else []}
        for fn in fnames(r.randrange(1, 3))]})
    # unions and required self-references would make the type uninhabited / the decode recursion unbounded: make refs optional
    for it in items:
        if it["kind"] in ("struct", "exception", "union"):
            for f in it["fields"]:
                if f["ty"][0] == "ref" and f["ty"][1] in structs:
                    f["req"] = "optional" if it["kind"] != "union" else "default"
    return {"name": name, "items": items}


CONFIGS = [("plain", []), ("split", ["--split"]), ("keep", ["--keep"]), ("nocase", ["--no-change-case"]), ("unused", ["--ignore-unused"]),
           ("all", ["--split", "--keep", "--no-change-case"])]

EXTRA = {
    "mutual": """struct A { 1: optional B b, 2: list<A> as, 3: map<string, B> bs }
struct B { 1: optional A a, 2: optional B again, 3: set<i32> s }
union U { 1: A a, 2: U u, 3: list<U> us }
service S { A f(1: B b, 2: U u) }
""",
    "annot": """struct Inner { 1: i32 x }
struct Annot {
  1: required map<i32, list<Inner>> m(pilota.rust_type = "btree", pilota.rust_wrapper_arc = "true"),
  2: required set<i32> s(pilota.rust_type = "btree"),
  3: required string str(pilota.rust_type = "string"),
  4: required binary v(pilota.rust_type = "vec"),
  5: required list<list<Inner>> ll(pilota.rust_wrapper_arc = "true"),
  6: optional Inner boxed(pilota.rust_wrapper_arc = "true"),
}(pilota.name = "Renamed")
typedef map<set<i32>, string> TypeA(pilota.rust_type = "btree")
const map<i32, list<string>> CM = { 1: ["a"] }
const list<Inner> CL = [ {"x": 1} ]
service AS { Annot(pilota.rust_wrapper_arc = "true") f(1: Annot a(pilota.rust_wrapper_arc = "true")) }
""",
    "defaults": """enum E { A = 1, B = 2 }
const string CS = "cs"
const i32 CI = 7
struct P { 1: i32 x = 1, 2: string s = "p" }
struct D {
  1: optional bool b1 = 1, 2: bool b2 = false, 3: optional double d1 = 3, 4: double d2 = 2.5, 5: optional string s1 = 'single', 6: string s2 = CS,
  7: optional binary bin = "bytes", 8: E e1 = E.B, 9: optional E e2 = 1, 10: list<i32> l = [1, 2, 3], 11: optional set<string> ss = ["a", "b"],
  12: map<string, i32> m = {"k": 1}, 13: optional i64 big = 9223372036854775807, 14: i8 small = -128, 15: optional P p = {"x": 5, "s": "q"},
  16: i32 ci = CI, 17: optional map<string, string> em = {}, 18: list<string> el = [],
}
""",
}


def write_docs(workdir, seed, tier):
    src = os.path.join(workdir, "src")
    shutil.rmtree(src, ignore_errors=True)
    os.makedirs(src)
    docs = []
    for k, text in EXTRA.items():
        open(os.path.join(src, k + ".thrift"), "w").write(text)
        docs.append((k, os.path.join(src, k + ".thrift"), text))
    r = random.Random(seed * 101 + 14)
    for i in range(3 if tier == "quick" else 16):
        d = nasty_doc(r, f"n{i}")
        text = idlgen.render(d)
        open(os.path.join(src, d["name"] + ".thrift"), "w").write(text)
        docs.append((d["name"], os.path.join(src, d["name"] + ".thrift"), text))
    return docs


def step(cfg, tier, seed, workdir, env):
    docs = write_docs(workdir, seed, tier)
    configs = CONFIGS if tier == "thorough" else CONFIGS[:4]
    os.makedirs(CHECK_DIR, exist_ok=True)
    for f in os.listdir(CHECK_DIR):
        p = os.path.join(CHECK_DIR, f)
        shutil.rmtree(p) if os.path.isdir(p) else os.remove(p)
    oracle_fails, samples, distinct, mods, evaluations = [], [], [], [], 0
    origin = {}
    for name, idl, text in docs:
        for cname, flags in configs:
            mod = f"{name}_{cname}"
            outdir = os.path.join(CHECK_DIR, mod)
            os.makedirs(outdir, exist_ok=True)
            out = os.path.join(outdir, "gen.rs")
            p = subprocess.run([GENTOOL, "thrift", out] + flags + ["--", idl], env=env, stdout=subprocess.PIPE, stderr=subprocess.STDOUT, text=True, timeout=600)
            evaluations += 1
            distinct.append(mod + ":" + str(len(text)))
            if p.returncode != 0 or not os.path.exists(out):
                msg = [l for l in p.stdout.splitlines() if "panicked" in l or "Error" in l or "error" in l][:3]
                oracle_fails.append(("C14", f"gentool thrift {' '.join(flags)} -- {idl}\n{text}", "C14", f"pilota-build did not terminate normally on {name} [{cname}]: {' | '.join(msg) or p.stdout[-300:]}", "abort"))
                continue
            mods.append(mod)
            origin[mod] = (name, cname, idl, text, flags)
    lib = "#![allow(warnings, clippy::all)]\n" + "\n".join(f'pub mod m_{m} {{ include!("{os.path.join(CHECK_DIR, m, "gen.rs")}"); }}' for m in mods) + "\n"
    open(os.path.join(CHECK_DIR, "lib.rs"), "w").write(lib)
    e = dict(env, GEN_CHECK_DIR=CHECK_DIR)
    p = subprocess.run(["cargo", "check", "--offline", "-p", "gencheck", "--message-format=short"], cwd=HARNESS, env=e, stdout=subprocess.PIPE, stderr=subprocess.STDOUT, text=True, timeout=3000)
    evaluations += 1
    if p.returncode != 0:
        bad = {}
        for l in p.stdout.splitlines():
            m = re.search(r"gen/check/([^/]+)/[^:]*:(\d+):\d+: error(\[E\d+\])?: (.*)", l)
            if m and m.group(1) in origin:
                bad.setdefault(m.group(1), []).append(f"{m.group(3) or ''} {m.group(4)} (line {m.group(2)})")
        if not bad:
            oracle_fails.append(("C14", "cargo check -p gencheck", "C14", "emitted code does not type-check: " + p.stdout[-600:], "error"))
        for mod, errs in bad.items():
            name, cname, idl, text, flags = origin[mod]
            oracle_fails.append(("C14", f"gentool thrift {' '.join(flags)} -- {idl}\n{text}", "C14",
                                 f"emitted code for {name} [{cname}] does not type-check: {errs[0]}" + (f" (+{len(errs) - 1} more)" if len(errs) > 1 else ""), "error"))
    for m in mods[:3]:
        samples.append({"document": origin[m][0], "config": origin[m][1], "idl_head": origin[m][3][:200]})
    return dict(evaluations=evaluations, distinct=distinct, samples=samples, oracle_fails=oracle_fails, disagreements=[],
                extra={"documents": len(docs), "configurations": [c for c, _ in configs], "modules_type_checked": len(mods)})
