#!/usr/bin/env python3
"""Scan emitted Rust files and write mods.rs + dispatch.rs for harness/genrun.

usage: gendispatch.py GEN_DIR doc1 doc2 ...   (GEN_DIR/<doc>.rs must exist)
A type is every `impl ::pilota::thrift::Message for X` with the module path at that point.
"""
import os, re, sys


def scan(path):
    """-> list of (module_path, type_name, has_default)"""
    mods, depth_of, depth, out, defaults, msgs = [], [], 0, [], set(), []
    pending_derive_default = False
    for line in open(path):
        s = line.strip()
        m = re.match(r"pub mod (r#)?(\w+) \{$", s)
        if m:
            mods.append((m.group(1) or "") + m.group(2))
            depth_of.append(depth)
        if s.startswith("#[derive("):
            pending_derive_default = "Default" in s
        m = re.match(r"pub (struct|enum) (r#)?(\w+)", s)
        if m:
            if pending_derive_default:
                defaults.add(("::".join(mods), m.group(3)))
            pending_derive_default = False
        m = re.match(r"impl (?:::std::default::)?Default for (r#)?(\w+) \{", s)
        if m:
            defaults.add(("::".join(mods), m.group(2)))
        m = re.match(r"impl ::pilota::thrift::Message for (r#)?(\w+) \{", s)
        if m:
            msgs.append(("::".join(mods), (m.group(1) or "") + m.group(2)))
        depth += line.count("{") - line.count("}")
        while depth_of and depth <= depth_of[-1]:
            depth_of.pop()
            mods.pop()
    return [(mp, t, (mp, t.replace("r#", "")) in defaults) for mp, t in msgs]


def write_if_changed(path, text):
    if not os.path.exists(path) or open(path).read() != text:
        open(path, "w").write(text)


def write(gen_dir, docs, wire_tt=None):
    """wire_tt: {(doc, type) -> wire type name of a value of the type (from the IDL)}; default: struct"""
    wire_tt = wire_tt or {}
    mods, arms, listing = [], [], []
    for d in docs:
        path = os.path.join(gen_dir, d + ".rs")
        mods.append(f'#[allow(warnings, clippy::all)]\npub mod gen_{d} {{ include!("{path}"); }}')
        for mp, t, has_default in scan(path):
            full = f"gen_{d}::{mp}::{t}" if mp else f"gen_{d}::{t}"
            dflt = f"Some(<{full} as ::std::default::Default>::default)" if has_default else "None"
            key = t.replace("r#", "")
            ws = wire_tt.get((d, key), "struct")
            arms.append(f'        ("{d}", "{key}") => {{ a.run::<{full}>({dflt}, "{ws}"); true }}')
            listing.append(f"{d} {key} {int(has_default)}")
    write_if_changed(os.path.join(gen_dir, "mods.rs"), "\n".join(mods) + "\n")
    write_if_changed(os.path.join(gen_dir, "dispatch.rs"),
        "pub fn dispatch<A: Action>(doc: &str, ty: &str, a: &mut A) -> bool {\n    match (doc, ty) {\n" + "\n".join(arms) +
        "\n        _ => false,\n    }\n}\n")
    write_if_changed(os.path.join(gen_dir, "types.txt"), "\n".join(listing) + "\n")


def main():
    write(sys.argv[1], sys.argv[2:])


if __name__ == "__main__":
    main()
