"""Track pb: MANIFEST texts for C05, C06, C10, C18."""

TEXT = {
 "C05": dict(
  text="Machine-checked proof at the runtime level of pilota's prost fork: varint round trip and encoded_len_varint for every u64 (varint_rt, varint_len; the model's decode_varint is the code's three-path function, proved equal to a reference reading), keys for every tag in 1..2^29-1 and every wire type (key_rt), every codec module (bool, int32, int64, uint32, uint64, sint32, sint64, float, double, fixed32, fixed64, sfixed32, sfixed64, string, faststr, bytes) for every tag and every value of its Rust type: value read back, exact consumption, encoded_len = bytes written (scalar_rt); encode_repeated / encode_packed read back through merge_repeated by the Message::merge loop, with encoded_len_repeated / encoded_len_packed (repeated_rt, packed_rt, packed_appends). T1 compares each of these functions with pilota::prost::encoding::* on boundary and random values, tags across the whole range.",
  note="Theorems are about the Lean model (PilotaModel/Proto/{Wire,Scalar}.lean); fidelity to /repo is checked on the generated inputs of each run and by the T2 constants (PbTables). Message level (generated code, maps, oneofs, nested messages) is under construction and not yet claimed here.",
  technique="Lean 4 theorem (induction over varint bytes and value lists) + differential correspondence"),
}

NOT_APPLICABLE_REASONS = {}
