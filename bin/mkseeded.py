#!/usr/bin/env python3
"""mkseeded.py <prop> <k> <src-mutant-dir> <needs> <caught-by> <notes>: copy a confirmed seeded change into /verif/seeded/<prop>-<k>/"""
import json, os, shutil, sys
prop, k, src, needs, caught, notes = sys.argv[1:7]
dst = os.path.join(os.path.dirname(os.path.dirname(os.path.abspath(__file__))), "seeded", f"{prop}-{k}")
shutil.rmtree(dst, ignore_errors=True)
os.makedirs(dst)
shutil.copy(os.path.join(src, "patch.diff"), os.path.join(dst, "patch.diff"))
if os.path.isdir(os.path.join(src, "demo")):
    shutil.copytree(os.path.join(src, "demo"), os.path.join(dst, "demo"), ignore=shutil.ignore_patterns("target", "Cargo.lock"))
if os.path.exists(os.path.join(src, "notes.md")):
    shutil.copy(os.path.join(src, "notes.md"), os.path.join(dst, "notes.md"))
meta = {"property": prop, "needs_to_manifest": needs, "detected_by": caught.split(","), "what_was_run": notes,
        "origin": "written by a fresh sub-agent that saw only the property text and a scratch worktree of /repo; confirmed in that worktree: "
                  "the suite passes with the change (same two offline failures as the unchanged tree at most), the demonstration fails with it and passes without it"}
json.dump(meta, open(os.path.join(dst, "meta.json"), "w"), indent=1)
print(dst)
