"""Emitted-Thrift-code properties (track gen)."""

TB_GEN = [
    "the emitted-code model (PilotaModel/TGen) is hand-written from pilota-build's templates; it is compared on every run with the code the REAL pilota_build::Builder emits for the run's document set (compiled into harness/genrun), through decode -> re-encode -> canonical value",
    "T2 for the templates: the per-type arms of codegen_encode_ty / codegen_encode_field / codegen_ty_size / codegen_field_size / codegen_decode_ty / ttype (pilota-build/src/codegen/thrift/ty.rs) and the write_field! / field_len! instantiations (pilota/src/thrift/mod.rs) are re-extracted into Gen/Templates.lean on every run; Props/Templates.lean proves over them that the five templates call the twins of one primitive per type and that the declared wire type is the one the runtime's field helper announces",
    "bin/idlgen.py: document generator, IDL renderer, and the independent Python oracle `project` (what a decoder must return)",
    "observation of emitted values is through their binary re-encoding read back by the dynamic reader (hash-container order canonicalised); an emitted decoder bug cancelled exactly by an emitted encoder bug would not be seen",
    "requests marked hazard=D26 / hazard=D29 (inputs that run into those known findings) are checked by the oracle only, not by T1",
]


def register(prop, TB):
    tb = TB + TB_GEN
    gen = lambda name: [{"name": name, "bin": "genrun", "pygen": "requests_" + name}]
    prop("C02", lean_props=["C02", "C02b", "C01", "Templates"], bins=["rt", "gentool"], streams=gen("C02"), oracle_tags=["C02", "C04", "C11", "C12"], trusted_base=tb)
    prop("C08", lean_props=["C08", "C08b", "Templates"], bins=["rt", "gentool"], streams=gen("C08"), oracle_tags=["C08"], trusted_base=tb)
    prop("C20", lean_props=["C20", "C20b", "C20c"], bins=["rt", "gentool"], streams=gen("C20"), oracle_tags=["C20", "C02"], trusted_base=tb)
    prop("C13", lean_props=["C13"], bins=["rt", "gentool"], streams=gen("C13"), oracle_tags=["C13", "C04", "C11"], trusted_base=tb + [
        "retained chunks are represented in the model by the field value they encode (Binary.readVal of the same bytes); the pointer/offset bookkeeping of the emitted code (__pilota_begin_ptr, __pilota_offset, get_bytes) is covered by T1 only",
        "requests marked hazard=D12 / hazard=D31 are checked by the oracle only"])
    prop("C19", level="other", lean_props=["C19"], bins=["rt", "gentool", "pbrun"], streams=gen("C19") + [{"name": "C19e", "bin": "pbrun"}], oracle_tags=["C19", "C09"], trusted_base=tb + [
        "emitted protobuf types (the pb track's corpus, harness/pbrun): observed only - every truncation and a fixed set of single-byte corruptions of valid encodings, live heap before/after each failing decode; the ledger model covers the Thrift templates only",
        "Rust's drop elaboration is not modelled; the ledger (TGen/Mem.lean) encodes its consequence for the templates: locals are released on early return, raw-pointer writes before set_len are not",
        "the counting global allocator of harness/genrun (live bytes before/after each failing decode, input buffer included)"],
        explanation="Ownership-ledger model of the emitted decode templates with machine-checked theorems (asynchronous decoders never leak, for all documents / inputs / protocol readers; the synchronous list arm leaks on a concrete witness), tied to the real emitted code by comparing, for every truncation point of valid encodings of every generated type, WHICH cuts leave live heap bytes behind (counting allocator) with the cuts the ledger predicts. The decisive runtime fact (what Rust actually frees) is observed, not proved: level other.")
    import detsuite
    prop("C17", lean_props=["C17"], bins=["rt", "gentool"], streams=[], oracle_tags=["C17"], extra_steps=[detsuite.step], trusted_base=TB + [
        "the assembly model (PilotaModel/Build/Emit.lean) is an equivalent reformulation of write_items / pkg_tree / write_stream / generate_unique_name, not a structural copy; its canonical order and split-mode names are compared with real output on every run",
        "module names are ranked in byte order by the harness (bin/detsuite.py) before they reach the model",
        "rayon and per-process hash seeds are represented by an arbitrary-order parameter in the theorems and exercised by repeated fresh processes with RAYON_NUM_THREADS in {1,2,3,8,16}; shared mutable caches inside write_item are covered by the byte comparison only",
        "workspace mode: generated into a directory holding an empty Cargo.toml, as the repository's own workspace tests do (their cargo build step, which needs the network, is not run)"])
    import compilesuite
    prop("C14", level="other", lean_props=["C14", "C14Graph"], bins=["rt", "gentool"], streams=[], oracle_tags=["C14"], extra_steps=[compilesuite.step], trusted_base=TB + [
        "rustc (cargo check) is the judge of 'type-checks'; nothing about rustc is modelled",
        "heck's case conversion is not modelled; sibling-name collisions are exercised by the generator of bin/compilesuite.py only",
        "the T2 extraction of KEYWORDS_SET and the path-segment keyword list from symbol.rs (bin/tables.py)"],
        explanation="The decisive predicate (rustc accepts what pilota-build emits) cannot be a theorem. Checked instead: (1) machine-checked theorems about pilota-build's naming logic over tables re-extracted from symbol.rs on every run — the keyword table covers every Rust 2024 keyword, escaped forms are never keywords, Display prints path-segment keywords with a trailing underscore and other keywords as raw identifiers, and the relative path printed from any module to any item resolves under Rust's super:: rules to exactly that item; (2) the real generator is run over documents with keyword / std-name / case-colliding identifiers, mutual recursion, nested containers, every kind of default literal, pilota annotations and services, under every builder configuration (plain, split, keep_unknown_fields, change_case off, ignore_unused, all combined); it must exit normally and everything it emits must pass cargo check against /repo's pilota.")
