"""Track thrift2: C07 (skip) and C09 (totality of the in-memory readers and the skippers)."""


def register(prop, TB_COMMON):
    tb_skip = TB_COMMON + [
        "modelled, not verified: bytes::Buf::{remaining,advance} under the default skipper, SmallVec push/pop/last_mut of the iterative skipper, "
        "async-recursion boxing and tokio AsyncReadExt::{read_exact,read_u8,read_iNN,take,read_to_end} on a fully delivered stream "
        "(the async reader primitives are modelled as the in-memory reads; chunked delivery is C12's subject)",
        "the unchecked reader (binary_unsafe.rs) is driven only inside its contract (the buffer holds the whole value): every out-of-contract "
        "read or index move is one explicit panic class of the model and is never exercised by T1",
        "depth budgets are non-negative (skip() passes MAXIMUM_SKIP_DEPTH; a negative i8 budget would reach the modelled `depth - 1` overflow after 128 levels)",
    ]
    prop("C07", lean_props=["C07", "Tables"], trusted_base=tb_skip, oracle_tags=["C07"],
         explanation="skv: encode value (+ following value + trailing bytes) with the real writer, skip with each of the seven skipper entry points "
                     "(bin, le, cmp, ubin skip_till_depth, ubinf skip-after-read_field_begin, abin, acmp), read the following value on the same reader instance; "
                     "oracle: count == encoded length, remaining == trailing length, following value equal, nesting > budget refused with DepthLimit on the recursive skippers")
    tb_tot = TB_COMMON + [
        "covered: the dynamic reading interpreter of the harness (thrift.rs::read_val) over the in-memory binary, LE and compact readers, and all skippers "
        "(the async skippers and async reads only on fully delivered streams); NOT covered here: emitted decoders (C02/C08 track) and chunked async delivery (C12)",
        "allocation is observed by a counting global allocator in harness/rt/src/thrift2.rs (peak live bytes per request <= 512 x input + 256 KiB); "
        "the model-level statement is read_weight_linear (ok path only)",
        "modelled, not verified: bytes::Bytes::split_to / Buf::advance / copy_to_slice, integer_encoding::VarInt::decode_var",
    ]
    tb_tot = tb_tot + [
        "emitted decoders (second stream, C09gen): adversarial variants of valid binary encodings of every generated type through the compiled emitted code and the "
        "template model (TGen/Decode.lean); nesting bombs of a recursive type decoded on a 2 MiB thread; the emitted half is proved in Props/C09Gen.lean "
        "(gen_total_*, gen_no_hang_*, gen_value_or_error_*: every closed document, every byte string, every reader state) about the template model, which the "
        "C09gen stream compares with the compiled emitted code on adversarial inputs; the known findings D10 D12 D29 D34 D37 are where the real emitted code leaves the model",
    ]
    prop("C09", lean_props=["C09", "C09Gen", "C09Async", "Tables"], trusted_base=tb_tot, oracle_tags=["C09"], bins=["rt", "gentool"],
         streams=[{"name": "C09"}, {"name": "C09gen", "bin": "genrun", "pygen": "requests_C09gen"}],
         explanation="sk: raw bytes (every truncation, bit flips, every type / length / count / field-id position overwritten with boundary values, random strings, "
                     "nesting bombs) through read and skip of every safe reader; pfx: every strict prefix of a valid encoding rejected by read and by skip; "
                     "oracle: no panic / abort, < 5 s, peak allocation bound, async future never left pending")
