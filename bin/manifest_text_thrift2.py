"""MANIFEST texts of track thrift2."""

TEXT = {
 "C07": dict(
  text="Machine-checked proof over the model of all five skippers (Thrift/Skip.lean: default recursive skipper of mod.rs on the binary and LE readers incl. its *_len bookkeeping and i8 depth budget; "
       "the compact reader's own skip_till_depth; the generic async skipper over the async binary and async compact reader primitives on a fully delivered stream; the unchecked reader's iterative "
       "skipper as an explicit stack machine using the T2 table BINARY_BASIC_TYPE_FIXED_SIZE). Proved for ALL inputs: wherever the reading interpreter accepts a byte string (canonical or not) and returns "
       "value v and rest r, skip with a budget >= nesting(v) returns r, the reader state the reader would have, and reports exactly the bytes in between; with a smaller budget it returns DepthLimit "
       "(skip_consumes_what_read_consumes, compact_skip_consumes_what_read_consumes); the reported count always equals the bytes consumed (skip_count_exact). For every well-typed value, every trailing "
       "bytes and every budget >= nesting: skip_exact, compact_skip_exact (writer and reader state restored), async_binary_skip_exact, async_compact_skip_exact, iter_skip_exact (iterative machine, every nesting "
       "depth, full refinement proof); skip_depth / compact_skip_depth / async_*_skip_depth and skip_default_limit (MAXIMUM_SKIP_DEPTH from source); skip_then_read, compact_skip_then_read, iter_skip_then_read; "
       "fixed_size_table_used + fixed_width_is_written_width (T2). T1 runs the seven real skipper entry points on the same requests (skv: skip then read the next value; skf: skip one field of a struct and read its siblings on the same reader).",
  note="Theorems are about the Lean model; fidelity to /repo is the T1 stream of each run (values of every wire type, containers of 0/1/15/16 elements, maps with fixed and variable entries, nesting ladders 1..80 around the limit, "
       "explicit budgets 0, 1, need-1, need, need+1, 127, -1, random trees) and the T2 tables. Reading of the depth clause: it binds the skippers that recurse; the iterative skipper keeps pending containers on a heap stack, ignores "
       "its depth argument and is proved exact at every depth (DESIGN.md D19). async_binary_skip_* carry the hypothesis that fewer than 2^63 bytes are delivered. Async skippers are modelled over a fully delivered stream only "
       "(chunk independence is C12). Negative depth budgets are outside the theorems (the model keeps the i8 `depth - 1` overflow as a panic branch).",
  technique="Lean 4 theorems: fuel induction over the mutual skip/read blocks relating each skipper to the reading interpreter on every input; mutual structural induction for the refinement of the iterative stack machine; + differential correspondence"),
 "C09": dict(
  text="Machine-checked proof, for the runtime in-memory decoders (the dynamic reading interpreter over the binary, LE and compact readers — Binary.readVal / Compact.readVal, which T1 compares with thrift.rs::read_val on the real "
       "TInputProtocol implementations — and all skippers), for EVERY byte string, type, fuel and reader state: the explicit panic branches of the model (split_to past the end, i16 field-id add, i8 depth subtract, slice index) "
       "are unreachable (read_total, compact_read_total, skip_total, compact_skip_total, async_*_skip_total); the top-level budget 3*len+3 (len+1 for the iterative skipper) is never exhausted on any input, valid or not "
       "(no_fuel, compact_no_fuel, skip_no_fuel, compact_skip_no_fuel, async_*_skip_no_fuel, iter_skip_no_fuel), hence read_value_or_error / compact_read_value_or_error / skip_count_or_error; every successful sub-read "
       "consumes input (read_progress); what a successful read builds is bounded by 3 x input length (+1) (read_weight_linear, compact_read_weight_linear); a successful read never depends on bytes after those it consumed "
       "(read_extends, compact_read_extends) and therefore every strict prefix of the encoding of any well-typed value, structs included, is rejected with an error by the readers (prefix_rejected, compact_prefix_rejected) and by the in-memory skippers (skip_extends, skip_prefix_rejected, compact_skip_prefix_rejected).",
  note="Theorems: the runtime readers and skippers (Props/C09.lean) and the EMITTED decoders as modelled by TGen/Decode.lean (Props/C09Gen.lean): for every closed document, declared type, byte string, reader state and fuel the "
       "template model never reaches a panic branch under the checked binary / LE readers and the compact reader (gen_total_binary, gen_total_compact, gen_decode_total_*), a budget linear in the input times the longest typedef chain is never "
       "exhausted (gen_no_hang_binary, gen_no_hang_compact; the modelled decode entry point's own budget for typedef-free documents: gen_decode_no_hang_binary), hence value or error (gen_value_or_error_*); a successful decode consumes input "
       "(gen_ok_consumes), does not depend on what follows (gen_extends), and every strict prefix of an accepted encoding is rejected with an error (gen_prefix_rejected_binary). Where the real emitted code leaves this model on arbitrary bytes is exactly the list of known findings below. "
       "The second stream of this check (C09gen) ties that model to the compiled emitted code: "
       "adversarial mutations of valid encodings and injected unknown fields under binary, LE and compact, in memory and asynchronously with random chunking, on plain and keep_unknown_fields builds, with a peak-allocation "
       "oracle and nesting bombs on a 2 MiB stack. Known findings there (reported as KNOWN-FINDING, each identified by its panic site / abort call site): D10 no depth bound in emitted recursive decode, D34 async decoders "
       "pre-allocate from the wire count, D37 retention under compact reads out of bounds, and D12 / D29 as they appear on byte strings. Allocation: read_weight_linear is an ok-path, model-level bound on the value the interpreter builds (one Vec slot per node, one copy per payload byte; pilota's "
       "readers themselves only split the input); allocation on error paths and the Vec growth factor are only observed, by the counting allocator of the T1 stream (peak live bytes per request <= 512 x input + 256 KiB) — partial, "
       "named alloc_linear_partial. Stack: the model bounds recursion depth by 3*len+3; real stack frames are not modelled; nesting bombs up to depth 300 run in T1 on the harness's worker thread. The unchecked reader is not a safe "
       "decoder and is excluded (its contract violations are an explicit panic class of the model). Strict-prefix rejection is also proved for the in-memory skippers (skip_prefix_rejected, compact_skip_prefix_rejected); for the async skippers it is checked by T1 (pfx verb) only.",
  technique="Lean 4 theorems: invariants by fuel induction over the mutual reader / skipper blocks with explicit panic and fuel outcomes; prefix rejection from extension-stability + round trip + totality; + adversarial differential correspondence with a counting allocator"),
}

NOT_APPLICABLE_REASONS = {}
