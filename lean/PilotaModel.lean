-- Root of the `PilotaModel` library.  bin/setup and bin/check build the property modules
-- registered in bin/props*.py by name; this file only gathers the ones that are always present.
import PilotaModel.Props.Tables
import PilotaModel.Props.C01
import PilotaModel.Props.C04
