-- This module serves as the root of the `PilotaModel` library.
-- Import modules here that should be built as part of the library.
import PilotaModel.Basic
