import PilotaModel.Build.Emit
import PilotaModel.Base.Sexp
/-  Line-protocol verbs for pilota-build's output assembly (C17). -/
namespace Driver.Build
open Pilota Pilota.Build

def tokStr : Tok → String
  | .openMod c => s!"o{c}"
  | .closeMod => "c"
  | .text _ => "t"

def hexToCodes (s : String) : Option (List Nat) := (ofHex s).map (·.map UInt8.toNat)

def answer (items : List Sexp) : Option String := do
  let verb ← items.head? >>= Sexp.asAtom
  match verb with
  | "emitorder" =>
    let b ← items[1]? >>= Sexp.asNat
    let keys ← (items.drop 2).mapM fun k => match k with
      | .list xs => xs.mapM Sexp.asNat
      | _ => none
    let depth := (keys.map List.length).foldl max 0
    pure (" ".intercalate ((emit b keys (depth + 1) []).map tokStr))
  | "splitnames" =>
    let names ← (items.drop 1).mapM fun x => x.asAtom >>= hexToCodes
    let out := splitNames [] names
    pure (" ".intercalate (out.map fun n => toHex (n.map UInt8.ofNat)))
  | _ => none

end Driver.Build
