import PilotaModel.Base.Sexp
/-  Line-protocol verbs of track Pb (stub: answers nothing yet). -/
namespace Driver.Pb
open Pilota

def answer (_items : List Sexp) : Option String := none

end Driver.Pb
