import PilotaModel.Base.Sexp
import PilotaModel.Proto.Wire
import PilotaModel.Proto.Scalar
/-  Line-protocol verbs of track Pb: the model's answer to each request of harness/pbshared. -/
namespace Driver.Pb
open Pilota Pilota.Proto

def svSexp : SVal → String
  | .int n => s!"(i {n})"
  | .bool b => if b then "(b 1)" else "(b 0)"
  | .f32 x => s!"(f32 {toHex (natToBE 4 x)})"
  | .f64 x => s!"(f64 {toHex (natToBE 8 x)})"
  | .bs b => s!"(bs {hexOrDash b})"

def svOf : Sexp → Option SVal
  | .list [.atom "i", x] => .int <$> x.asInt
  | .list [.atom "b", x] => do let n ← x.asNat; pure (.bool (n != 0))
  | .list [.atom "f32", x] => do let b ← x.asHex; pure (.f32 (beToNat b))
  | .list [.atom "f64", x] => do let b ← x.asHex; pure (.f64 (beToNat b))
  | .list [.atom "bs", x] => .bs <$> x.asHex
  | _ => none

def svs (vs : List SVal) : String := if vs.isEmpty then "-" else " ".intercalate (vs.map svSexp)

def answer (items : List Sexp) : Option String := do
  let verb ← items.head? >>= Sexp.asAtom
  match verb with
  | "pbvarenc" =>
    let n ← items[1]? >>= Sexp.asNat
    pure s!"ok {hexOrDash (encodeVarint n)} len={encodedLenVarint n}"
  | "pbvardec" =>
    let bs ← items[1]? >>= Sexp.asHex
    match decodeVarint bs with
    | .ok (v, r) => pure s!"ok {v} rem={r.length}"
    | o => pure o.cls
  | "pbkeyenc" =>
    let tag ← items[1]? >>= Sexp.asNat
    let wt ← items[2]? >>= Sexp.asAtom >>= WireType.ofName
    match encodeKey tag wt with
    | .ok b => pure s!"ok {hexOrDash b} len={keyLen tag}"
    | o => pure o.cls
  | "pbkeydec" =>
    let bs ← items[1]? >>= Sexp.asHex
    match decodeKey bs with
    | .ok ((t, w), r) => pure s!"ok {t} {w.name} rem={r.length}"
    | o => pure o.cls
  | "pbskip" =>
    let wt ← items[1]? >>= Sexp.asAtom >>= WireType.ofName
    let tag ← items[2]? >>= Sexp.asNat
    let bs ← items[3]? >>= Sexp.asHex
    match skipField recursionLimit wt tag bs with
    | .ok r => pure s!"ok rem={r.length}"
    | o => pure o.cls
  | "pbsc" =>
    let c ← items[1]? >>= Sexp.asAtom >>= Codec.ofName
    let tag ← items[2]? >>= Sexp.asNat
    let v ← items[3]? >>= svOf
    let b := c.encode tag v
    let back := match decodeKey b with
      | .ok ((_, w), r) => c.merge w r
      | .err k => .err k | .panic m => .panic m | .fuel => .fuel
    match back with
    | .ok (v2, r) => pure s!"ok {hexOrDash b} len={c.encodedLen tag v} | {svSexp v2} rem={r.length}"
    | o => pure s!"ok {hexOrDash b} len={c.encodedLen tag v} | {o.cls}"
  | "pbscm" =>
    let c ← items[1]? >>= Sexp.asAtom >>= Codec.ofName
    let wt ← items[2]? >>= Sexp.asAtom >>= WireType.ofName
    let bs ← items[3]? >>= Sexp.asHex
    match c.merge wt bs with
    | .ok (v, r) => pure s!"ok {svSexp v} rem={r.length}"
    | o => pure o.cls
  | "pbrep" | "pbpk" =>
    let c ← items[1]? >>= Sexp.asAtom >>= Codec.ofName
    let tag ← items[2]? >>= Sexp.asNat
    let vs ← (items.drop 3).mapM svOf
    let (b, l) := if verb == "pbrep" then (c.encodeRepeated tag vs, c.encodedLenRepeated tag vs)
      else (c.encodePacked tag vs, c.encodedLenPacked tag vs)
    match c.mergeAll (b.length + 1) [] b with
    | .ok acc => pure s!"ok {hexOrDash b} len={l} | {svs acc} rem=0"
    | o => pure s!"ok {hexOrDash b} len={l} | {o.cls}"
  | "pbrepm" =>
    let c ← items[1]? >>= Sexp.asAtom >>= Codec.ofName
    let bs ← items[2]? >>= Sexp.asHex
    match c.mergeAll (bs.length + 1) [] bs with
    | .ok acc => pure s!"ok {svs acc}"
    | o => pure o.cls
  | "pblend" =>
    let bs ← items[1]? >>= Sexp.asHex
    match decodeVarint bs with
    | .ok (v, _) => pure s!"ok {v}"
    | o => pure o.cls
  | _ => none

end Driver.Pb
