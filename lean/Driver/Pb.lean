import PilotaModel.Base.Sexp
import PilotaModel.Proto.Wire
import PilotaModel.Proto.Scalar
import PilotaModel.Proto.Schema
import PilotaModel.Proto.SpecExec
import PilotaModel.Proto.Group
/-  Line-protocol verbs of track Pb: the model's answer to each request of harness/pbshared. -/
namespace Driver.Pb
open Pilota Pilota.Proto

def svSexp : SVal → String
  | .int n => s!"(i {n})"
  | .bool b => if b then "(b 1)" else "(b 0)"
  | .f32 x => s!"(f32 {toHex (natToBE 4 x)})"
  | .f64 x => s!"(f64 {toHex (natToBE 8 x)})"
  | .bs b => s!"(bs {hexOrDash b})"

def svOf : Sexp → Option SVal
  | .list [.atom "i", x] => .int <$> x.asInt
  | .list [.atom "b", x] => do let n ← x.asNat; pure (.bool (n != 0))
  | .list [.atom "f32", x] => do let b ← x.asHex; pure (.f32 (beToNat b))
  | .list [.atom "f64", x] => do let b ← x.asHex; pure (.f64 (beToNat b))
  | .list [.atom "bs", x] => .bs <$> x.asHex
  | _ => none

def svs (vs : List SVal) : String := if vs.isEmpty then "-" else " ".intercalate (vs.map svSexp)

/-! ### schemas and message values -/

def ftyOf : Sexp → Option FTy
  | .atom a => FTy.scalar <$> Codec.ofName a
  | .list [.atom "msg", i] => FTy.msg <$> i.asNat
  | _ => none

def declOf : Sexp → Option FieldDecl
  | .list [.atom "f", t, ty, .atom "req"] => do pure (.single (← t.asNat) (← ftyOf ty) false)
  | .list [.atom "f", t, ty, .atom "opt"] => do pure (.single (← t.asNat) (← ftyOf ty) true)
  | .list [.atom "r", t, ty] => do pure (.rep (← t.asNat) (← ftyOf ty))
  | .list [.atom "m", t, k, ty] => do pure (.map (← t.asNat) (← k.asAtom >>= Codec.ofName) (← ftyOf ty))
  | .list (.atom "o" :: vs) => do
    let l ← vs.mapM fun v => match v with
      | .list [t, ty] => do pure ((← t.asNat), (← ftyOf ty))
      | _ => none
    pure (.oneof l)
  | _ => none

def schemaOf : Sexp → Option Schema
  | .list (.atom "schema" :: ms) => ms.mapM fun m => match m with
    | .list (.atom "msg" :: ds) => ds.mapM declOf
    | _ => none
  | _ => none

mutual
partial def eOf (s : Schema) : FTy → Sexp → Option EVal
  | .scalar _, x => EVal.s <$> svOf x
  | .msg i, x => EVal.msg <$> slotsOf s (decls s i) x
partial def slotsOf (s : Schema) (ds : List FieldDecl) : Sexp → Option Slots
  | .list (.atom "msg" :: xs) =>
    if xs.length != ds.length then none
    else Slots.ofList <$> (ds.zip xs).mapM fun (d, x) => slotOf s d x
  | _ => none
partial def slotOf (s : Schema) : FieldDecl → Sexp → Option Slot
  | .single _ _ true, .atom "none" => some .none
  | .oneof _, .atom "none" => some .none
  | .single _ ty false, .list [.atom "req", x] => Slot.req <$> eOf s ty x
  | .single _ ty true, .list [.atom "some", x] => Slot.some <$> eOf s ty x
  | .rep _ ty, .list (.atom "rep" :: xs) => (Slot.rep ∘ EVals.ofList) <$> xs.mapM (eOf s ty)
  | .map _ _ vty, .list (.atom "map" :: es) => do
    let l ← es.mapM fun e => match e with
      | .list [k, v] => do pure ((← svOf k), (← eOf s vty v))
      | _ => none
    pure (.map (Pairs.ofList l))
  | .oneof vs, .list [.atom "one", t, x] => do
    let t ← t.asNat
    let ty ← lookupVariant vs t
    pure (.one t (← eOf s ty x))
  | _, _ => none
end

/-- order of `SV` in the harness (`derive(Ord)`): keys of one map have one constructor. -/
def svLt : SVal → SVal → Bool
  | .int a, .int b => a < b
  | .bool a, .bool b => !a && b
  | .bs a, .bs b => bytesLt a b
  | .f32 a, .f32 b => a < b
  | .f64 a, .f64 b => a < b
  | _, _ => false
where
  bytesLt : Bytes → Bytes → Bool
    | [], [] => false
    | [], _ :: _ => true
    | _ :: _, [] => false
    | x :: xs, y :: ys => if x < y then true else if y < x then false else bytesLt xs ys

def insertSorted (k : SVal) (v : EVal) : List (SVal × EVal) → List (SVal × EVal)
  | [] => [(k, v)]
  | (k', v') :: r => if svLt k k' then (k, v) :: (k', v') :: r else (k', v') :: insertSorted k v r

def sortPairs (l : List (SVal × EVal)) : List (SVal × EVal) := l.foldl (fun acc (k, v) => insertSorted k v acc) []

mutual
partial def eSexp : EVal → String
  | .s v => svSexp v
  | .msg fs => slotsSexp fs
partial def slotsSexp (fs : Slots) : String := "(msg" ++ String.join (fs.toList.map fun x => " " ++ slotSexp x) ++ ")"
partial def slotSexp : Slot → String
  | .req v => s!"(req {eSexp v})"
  | .none => "none"
  | .some v => s!"(some {eSexp v})"
  | .rep xs => "(rep" ++ String.join (xs.toList.map fun x => " " ++ eSexp x) ++ ")"
  | .map kvs => "(map" ++ String.join ((sortPairs kvs.toList).map fun (k, v) => s!" ({svSexp k} {eSexp v})") ++ ")"
  | .one t v => s!"(one {t} {eSexp v})"
end

-- maps re-ordered by key at every level (what a `BTreeMap` iterates)
mutual
partial def sortE : EVal → EVal
  | .s v => .s v
  | .msg fs => .msg (sortSlots fs)
partial def sortSlots (fs : Slots) : Slots := Slots.ofList (fs.toList.map sortSlot)
partial def sortSlot : Slot → Slot
  | .req v => .req (sortE v)
  | .none => .none
  | .some v => .some (sortE v)
  | .rep xs => .rep (EVals.ofList (xs.toList.map sortE))
  | .map kvs => .map (Pairs.ofList ((sortPairs kvs.toList).map fun (k, v) => (k, sortE v)))
  | .one t v => .one t (sortE v)
end

mutual
partial def multiE : EVal → Bool
  | .s _ => false
  | .msg fs => fs.toList.any multiSlot
partial def multiSlot : Slot → Bool
  | .req v | .some v | .one _ v => multiE v
  | .none => false
  | .rep xs => xs.toList.any multiE
  | .map kvs => kvs.toList.length ≥ 2 || kvs.toList.any fun (_, v) => multiE v
end

/-- the well-known wrapper impls of prost/types.rs: one field, tag 1, of the given module. -/
def wrapCodec : String → Option Codec
  | "bool" => some .bool | "u32" => some .uint32 | "u64" => some .uint64 | "i32" => some .int32 | "i64" => some .int64
  | "f32" => some .float | "f64" => some .double | "string" => some .string | "vec" => some .bytes | "bytes" => some .bytes
  | _ => none

def wrapSchema (c : Codec) : Schema := [[.single 1 (.scalar c) false]]

def wrapVal : Slots → Option SVal
  | .cons (.req (.s v)) .nil => some v
  | _ => none

/-! ### declared schemas (C06) -/

def pftyOf : Sexp → Option Spec.PFTy
  | .atom "enum" => some .enum
  | .atom a => Spec.PFTy.scalar <$> PType.ofName a
  | .list [.atom "msg", i] => Spec.PFTy.msg <$> i.asNat
  | _ => none

def pdeclOf : Sexp → Option Spec.PDecl
  | .list [.atom "f", t, ty, .atom "req"] => do pure (.single (← t.asNat) (← pftyOf ty) false)
  | .list [.atom "f", t, ty, .atom "opt"] => do pure (.single (← t.asNat) (← pftyOf ty) true)
  | .list [.atom "r", t, ty] => do pure (.rep (← t.asNat) (← pftyOf ty))
  | .list [.atom "m", t, k, ty] => do pure (.map (← t.asNat) (← k.asAtom >>= PType.ofName) (← pftyOf ty))
  | .list (.atom "o" :: vs) => do
    let l ← vs.mapM fun v => match v with
      | .list [t, ty] => do pure ((← t.asNat), (← pftyOf ty))
      | _ => none
    pure (.oneof l)
  | _ => none

def pschemaOf : Sexp → Option Spec.PSchema
  | .list (.atom "schema" :: ms) => ms.mapM fun m => match m with
    | .list (.atom "msg" :: ds) => ds.mapM pdeclOf
    | _ => none
  | _ => none

def flagOf : String → Option Bool
  | "f0" => some false | "f1" => some true | _ => none

/-- verbs over emitted types (`pbrun`): `pbeenc <type> …` is `pbenc hm …` for the model. -/
def normalize (items : List Sexp) : List Sexp :=
  match items with
  | .atom "pbeenc" :: _ :: rest => .atom "pbenc" :: .atom "hm" :: rest
  | .atom "pbecat" :: _ :: rest => .atom "pbcat" :: .atom "hm" :: rest
  | .atom "pbedec" :: _ :: rest => .atom "pbdec" :: .atom "hm" :: rest
  | .atom "pbemrg" :: _ :: rest => .atom "pbmrg" :: .atom "hm" :: rest
  | .atom "pbedld" :: _ :: rest => .atom "pbdld" :: .atom "hm" :: rest
  | .atom "pbespecchk" :: _ :: rest => .atom "pbspecchk" :: .atom "hm" :: rest
  | _ => items

def answer (items0 : List Sexp) : Option String := do
  let items := normalize items0
  let verb ← items.head? >>= Sexp.asAtom
  match verb with
  | "pbvarenc" =>
    let n ← items[1]? >>= Sexp.asNat
    pure s!"ok {hexOrDash (encodeVarint n)} len={encodedLenVarint n}"
  | "pbvardec" =>
    let bs ← items[1]? >>= Sexp.asHex
    match decodeVarint bs with
    | .ok (v, r) => pure s!"ok {v} rem={r.length}"
    | o => pure o.cls
  | "pbkeyenc" =>
    let tag ← items[1]? >>= Sexp.asNat
    let wt ← items[2]? >>= Sexp.asAtom >>= WireType.ofName
    match encodeKey tag wt with
    | .ok b => pure s!"ok {hexOrDash b} len={keyLen tag}"
    | o => pure o.cls
  | "pbkeydec" =>
    let bs ← items[1]? >>= Sexp.asHex
    match decodeKey bs with
    | .ok ((t, w), r) => pure s!"ok {t} {w.name} rem={r.length}"
    | o => pure o.cls
  | "pbskip" =>
    let wt ← items[1]? >>= Sexp.asAtom >>= WireType.ofName
    let tag ← items[2]? >>= Sexp.asNat
    let bs ← items[3]? >>= Sexp.asHex
    match skipField recursionLimit wt tag bs with
    | .ok r => pure s!"ok rem={r.length}"
    | o => pure o.cls
  | "pbsc" =>
    let c ← items[1]? >>= Sexp.asAtom >>= Codec.ofName
    let tag ← items[2]? >>= Sexp.asNat
    let v ← items[3]? >>= svOf
    let b := c.encode tag v
    let back := match decodeKey b with
      | .ok ((_, w), r) => c.merge w r
      | .err k => .err k | .panic m => .panic m | .fuel => .fuel
    match back with
    | .ok (v2, r) => pure s!"ok {hexOrDash b} len={c.encodedLen tag v} | {svSexp v2} rem={r.length}"
    | o => pure s!"ok {hexOrDash b} len={c.encodedLen tag v} | {o.cls}"
  | "pbscm" =>
    let c ← items[1]? >>= Sexp.asAtom >>= Codec.ofName
    let wt ← items[2]? >>= Sexp.asAtom >>= WireType.ofName
    let bs ← items[3]? >>= Sexp.asHex
    match c.merge wt bs with
    | .ok (v, r) => pure s!"ok {svSexp v} rem={r.length}"
    | o => pure o.cls
  | "pbrep" | "pbpk" =>
    let c ← items[1]? >>= Sexp.asAtom >>= Codec.ofName
    let tag ← items[2]? >>= Sexp.asNat
    let vs ← (items.drop 3).mapM svOf
    let (b, l) := if verb == "pbrep" then (c.encodeRepeated tag vs, c.encodedLenRepeated tag vs)
      else (c.encodePacked tag vs, c.encodedLenPacked tag vs)
    match c.mergeAll (b.length + 1) [] b with
    | .ok acc => pure s!"ok {hexOrDash b} len={l} | {svs acc} rem=0"
    | o => pure s!"ok {hexOrDash b} len={l} | {o.cls}"
  | "pbrepm" =>
    let c ← items[1]? >>= Sexp.asAtom >>= Codec.ofName
    let bs ← items[2]? >>= Sexp.asHex
    match c.mergeAll (bs.length + 1) [] bs with
    | .ok acc => pure s!"ok {svs acc}"
    | o => pure o.cls
  | "pblend" =>
    let bs ← items[1]? >>= Sexp.asHex
    match decodeVarint bs with
    | .ok (v, _) => pure s!"ok {v}"
    | o => pure o.cls
  | "pbenc" | "pbcat" =>
    let bt := (← items[1]? >>= Sexp.asAtom) == "bt"
    let flag ← items[2]? >>= Sexp.asAtom >>= flagOf
    let s ← items[3]? >>= schemaOf
    let i ← items[4]? >>= Sexp.asNat
    let m ← items[5]? >>= slotsOf s (decls s i)
    let m := if bt then sortSlots m else m
    let b := encode s flag i m
    if verb == "pbenc" then
      let shown := if !bt && (Slots.toList m).any multiSlot then "~" else hexOrDash b
      pure s!"ok {shown} len={encodedLen s flag i m}"
    else
      let m2 ← items[6]? >>= slotsOf s (decls s i)
      let m2 := if bt then sortSlots m2 else m2
      match decode s i (b ++ encode s flag i m2) with
      | .ok r => pure s!"ok {slotsSexp r}"
      | o => pure o.cls
  | "pbdec" =>
    let s ← items[2]? >>= schemaOf
    let i ← items[3]? >>= Sexp.asNat
    let bs ← items[4]? >>= Sexp.asHex
    match decode s i bs with
    | .ok r => pure s!"ok {slotsSexp r}"
    | o => pure o.cls
  | "pbspecchk" =>
    let ps ← items[2]? >>= pschemaOf
    let s := Spec.lowerSchema ps
    let i ← items[3]? >>= Sexp.asNat
    let m ← items[4]? >>= slotsOf s (decls s i)
    let bs ← items[5]? >>= Sexp.asHex
    let verdict := if Spec.check ps i m bs then "1" else "0"
    match decode s i bs with
    | .ok r => pure s!"ok {verdict} {slotsSexp r}"
    | o => pure s!"ok {verdict} {o.cls}"
  | "pbspecdec" =>
    let ps ← items[1]? >>= pschemaOf
    let i ← items[2]? >>= Sexp.asNat
    let bs ← items[3]? >>= Sexp.asHex
    match Spec.decode ps i bs with
    | some r => pure s!"ok {slotsSexp r}"
    | none => pure "err"
  | "pbgrpenc" =>
    let bt := (← items[1]? >>= Sexp.asAtom) == "bt"
    let flag ← items[2]? >>= Sexp.asAtom >>= flagOf
    let s ← items[3]? >>= schemaOf
    let i ← items[4]? >>= Sexp.asNat
    let tag ← items[5]? >>= Sexp.asNat
    let m ← items[6]? >>= slotsOf s (decls s i)
    let m := if bt then sortSlots m else m
    let b := groupEncode s flag tag i m
    let shown := if !bt && (Slots.toList m).any multiSlot then "~" else hexOrDash b
    pure s!"ok {shown} len={groupEncodedLen s flag tag i m}"
  | "pbgrpdec" =>
    let s ← items[2]? >>= schemaOf
    let i ← items[3]? >>= Sexp.asNat
    let tag ← items[4]? >>= Sexp.asNat
    let bs ← items[5]? >>= Sexp.asHex
    match groupMerge s recursionLimit tag .sgroup i (defaultMsg s i) bs with
    | .ok (r, rest) => pure s!"ok {slotsSexp r} rem={rest.length}"
    | o => pure o.cls
  | "pbunk" | "pbilv" =>
    let s ← items[2]? >>= schemaOf
    let i ← items[3]? >>= Sexp.asNat
    let bs ← items[4]? >>= Sexp.asHex
    match decode s i bs with
    | .ok r => pure s!"ok {slotsSexp r}"
    | o => pure o.cls
  | "pbdld" =>
    let s ← items[2]? >>= schemaOf
    let i ← items[3]? >>= Sexp.asNat
    let bs ← items[4]? >>= Sexp.asHex
    match decodeLengthDelimited s i bs with
    | .ok (r, rest) => pure s!"ok {slotsSexp r} rem={rest.length}"
    | o => pure o.cls
  | "pbmrg" =>
    let s ← items[2]? >>= schemaOf
    let i ← items[3]? >>= Sexp.asNat
    let m ← items[4]? >>= slotsOf s (decls s i)
    let bs ← items[5]? >>= Sexp.asHex
    match decodeInto s i m bs with
    | .ok r => pure s!"ok {slotsSexp r}"
    | o => pure o.cls
  | "pbwrapenc" =>
    let c ← items[1]? >>= Sexp.asAtom >>= wrapCodec
    let v ← items[2]? >>= svOf
    -- `if *self != default { <module>::encode(1, self, buf) }` (IEEE `!=` on floats)
    let b := if v.isDefault then [] else c.encode 1 v
    let l := if v.isDefault then 0 else c.encodedLen 1 v
    pure s!"ok {hexOrDash b} len={l}"
  | "pbwrapdec" =>
    let c ← items[1]? >>= Sexp.asAtom >>= wrapCodec
    let bs ← items[2]? >>= Sexp.asHex
    match decode (wrapSchema c) 0 bs with
    | .ok r => do let v ← wrapVal r; pure s!"ok {svSexp v}"
    | o => pure o.cls
  | "pbwrapld" =>
    let c ← items[1]? >>= Sexp.asAtom >>= wrapCodec
    let bs ← items[2]? >>= Sexp.asHex
    match decodeLengthDelimited (wrapSchema c) 0 bs with
    | .ok (r, rest) => do let v ← wrapVal r; pure s!"ok {svSexp v} rem={rest.length}"
    | o => pure o.cls
  | "pbunit" =>
    let bs ← items[1]? >>= Sexp.asHex
    match decode [[]] 0 bs with
    | .ok _ => pure "ok"
    | o => pure o.cls
  | _ => none

end Driver.Pb
