import PilotaModel.TGen.Async
import PilotaModel.TGen.AsyncC
import PilotaModel.TGen.Decode
import PilotaModel.TGen.Keep
import PilotaModel.TGen.Mem
import PilotaModel.Build.Lower
import Driver.Thrift
/-
  Line-protocol verbs for emitted Thrift code (harness/genrun).  Documents are registered by
  `doc <name> <schema>` lines and referred to by name afterwards.
-/
namespace Driver.Gen
open Pilota Pilota.Thrift Pilota.TGen

abbrev Docs := List (String × Doc)

partial def canon : TVal → TVal
  | .struct fs => .struct (TFields.ofList (fs.toList.map fun (i, v) => (i, canon v)))
  | .list t xs => .list t (TVals.ofList (xs.toList.map canon))
  | .set t xs =>
    let ys := (xs.toList.map canon).map fun v => (v.toSexp, v)
    .set t (TVals.ofList ((ys.mergeSort fun a b => a.1 ≤ b.1).map (·.2)))
  | .map k v kvs =>
    let ys := (kvs.toList.map fun (a, b) => (canon a, canon b)).map fun p => (p.1.toSexp, p)
    .map k v (TPairs.ofList ((ys.mergeSort fun a b => a.1 ≤ b.1).map (·.2)))
  | v => v

def shown (v : TVal) : String := (canon v).toSexp

open Driver.Thrift in
def inputOf (p : Proto) (v : TVal) : Out Bytes :=
  match writeAll p "bm" .bytes [v] with
  | .ok w => .ok w.bytes
  | .err k => .err k | .panic m => .panic m | .fuel => .fuel

open Driver.Thrift in
/-- decode the item `n` of `d` from `bs` under protocol `p`; returns the value and the remaining length. -/
def decodeWith (d : Doc) (n : String) (p : Proto) (bs : Bytes) (keep : Bool := false) : Out (TVal × Nat) :=
  if keep then
    match p with
    | .bin => mapOut (fun x => (x.1, x.2.length)) (decodeK .be (some skipDepth) d n bs)
    | .ubin => mapOut (fun x => (x.1, x.2.length)) (decodeK .be none d n bs)
    | _ => .err .other
  else
  match p with
  | .bin => mapOut (fun x => (x.1, x.2.length)) (decode (binRd .be (some skipDepth)) d n bs)
  | .ubin => mapOut (fun x => (x.1, x.2.length)) (decode (binRd .be none) d n bs)
  | .le => mapOut (fun x => (x.1, x.2.length)) (decode (binRd .le (some skipDepth)) d n bs)
  | .cmp => mapOut (fun x => (x.1, x.2.2.length)) (decode cmpRd d n (({} : Compact.CR), bs))

open Driver.Thrift in
/-- does the failing decode of this prefix leave something unreachable? -/
def leaksAt (d : Doc) (n : String) (p : Proto) (bs : Bytes) : Bool :=
  let r : OutL Unit := match p with
    | .bin | .ubin => match decodeL (binRd .be (some skipDepth)) d true n bs with
      | .ok _ _ => .ok () | .err l => .err l | .panic => .panic | .fuel => .fuel
    | .le => match decodeL (binRd .le (some skipDepth)) d true n bs with
      | .ok _ _ => .ok () | .err l => .err l | .panic => .panic | .fuel => .fuel
    | .cmp => match decodeL cmpRd d true n (({} : Compact.CR), bs) with
      | .ok _ _ => .ok () | .err l => .err l | .panic => .panic | .fuel => .fuel
  match r with
  | .err l => l > 0
  | _ => false

/-- the delivery schedule of a `ga` request: a chunk size per poll (0 = a spurious `Pending`), then everything that is left -/
def streamOf : List Nat → Bytes → Pilota.Thrift.Async.Stream
  | [], [] => []
  | [], b :: bs => [.data b bs]
  | 0 :: cs, bs => .pending :: streamOf cs bs
  | (c+1) :: cs, bs => match bs.take (c+1) with
    | [] => streamOf cs bs
    | b :: r => .data b r :: streamOf cs (bs.drop (c+1))

def answer (docs : Docs) (items : List Sexp) : Option (Docs × String) := do
  let verb ← items.head? >>= Sexp.asAtom
  match verb with
  | "doc" =>
    let name ← items[1]? >>= Sexp.asAtom
    let d ← items[2]? >>= Doc.ofSexp
    -- the default literals, lowered by the model of lit_into_ty: must agree with the values the schema line carries
    match (items[3]? : Option Sexp) with
    | none => pure ((name, d) :: docs.filter (·.1 != name), "ok")
    | some (Sexp.list (Sexp.atom "lits" :: ls)) =>
      let (d', bad) := ls.foldl (init := (d, ([] : List String))) fun (acc : Doc × List String) l =>
        match l with
        | Sexp.list [Sexp.atom sn, idS, litS] =>
          match idS.asInt, Pilota.Build.Lit.ofSexp litS, acc.1.find sn with
          | some id, some lit, some (.struct fs) =>
            match fs.find? (·.id == id) with
            | some fl =>
              match Pilota.Build.lowerLit d 200 fl.ty lit with
              | some v =>
                let same := match fl.dflt with | some dv => shown dv == shown v | none => false
                let fs' := fs.map fun x => if x.id == id then { x with dflt := some v } else x
                (acc.1.map (fun p => if p.1 == sn then (p.1, Def.struct fs') else p), if same then acc.2 else acc.2 ++ [s!"{sn}.{id}:{shown v}"])
              | none => (acc.1, acc.2 ++ [s!"{sn}.{id}:no-arm"])
            | none => (acc.1, acc.2 ++ [s!"{sn}.{id}:no-field"])
          | _, _, _ => (acc.1, acc.2 ++ ["unreadable"])
        | _ => (acc.1, acc.2 ++ ["unreadable"])
      pure ((name, d') :: docs.filter (·.1 != name), if bad.isEmpty then "ok" else "lower-mismatch " ++ " ".intercalate bad)
    | _ => none
  | "gbs" =>
    let dn ← items[1]? >>= Sexp.asAtom
    let ty ← items[2]? >>= Sexp.asAtom
    let p ← items[3]? >>= Sexp.asAtom >>= Driver.Thrift.Proto.of
    let d ← (docs.find? (·.1 == dn)).map (·.2)
    let bs ← items[5]? >>= Sexp.asHex
    match decodeWith d ty p bs (dn.endsWith "k") with
    | .ok (v, rem) => pure (docs, s!"ok {shown v} rem={rem}")
    | o => pure (docs, o.cls)
  | "gd" | "gb" | "ga" | "gab" =>
    let dn ← items[1]? >>= Sexp.asAtom
    let ty ← items[2]? >>= Sexp.asAtom
    let p ← items[3]? >>= Sexp.asAtom >>= Driver.Thrift.Proto.of
    let d ← (docs.find? (·.1 == dn)).map (·.2)
    let idx := if verb == "ga" || verb == "gab" then 5 else 4
    let input : Out Bytes ← if verb == "gb" || verb == "gab" then (.ok <$> (items[idx]? >>= Sexp.asHex)) else (inputOf p <$> (items[idx]? >>= TVal.ofSexp))
    match input with
    | .ok bs =>
      -- the emitted decode_async on the binary / LE async protocol: the resumable-program model, run on the request's delivery schedule
      let asyncBin : Option Endian := if (verb == "ga" || verb == "gab") && !(dn.endsWith "k") then
          (match p with | .bin => some .be | .le => some .le | _ => none) else none
      match asyncBin with
      | some e =>
        let chunks : List Nat := match items[4]? >>= Sexp.asAtom with
          | some c => if c == "-" then [] else (c.splitOn ",").filterMap String.toNat?
          | none => []
        match Pilota.TGen.adecode e d ty (streamOf chunks bs) with
        | .ok (v, n) => pure (docs, s!"ok {shown v} pulled={n}")
        | o => pure (docs, if o.cls == "depth" then "err" else o.cls)
      | none =>
      -- … and on the compact async protocol
      if (verb == "ga" || verb == "gab") && !(dn.endsWith "k") && (match p with | .cmp => true | _ => false) then
        let chunks : List Nat := match items[4]? >>= Sexp.asAtom with
          | some c => if c == "-" then [] else (c.splitOn ",").filterMap String.toNat?
          | none => []
        match Pilota.TGen.adecodeC d ty (streamOf chunks bs) with
        | .ok (v, n) => pure (docs, s!"ok {shown v} pulled={n}")
        | o => pure (docs, if o.cls == "depth" then "err" else o.cls)
      else
      match decodeWith d ty p bs (dn.endsWith "k") with
      | .ok (v, rem) =>
        if verb == "ga" || verb == "gab" then pure (docs, s!"ok {shown v} pulled={bs.length - rem}")
        else pure (docs, s!"ok {shown v} rem={rem}")
      | o => pure (docs, if (verb == "ga" || verb == "gab") && o.cls == "depth" then "err" else o.cls)
    | _ => pure (docs, "err-input")
  | "gl" =>
    let dn ← items[1]? >>= Sexp.asAtom
    let ty ← items[2]? >>= Sexp.asAtom
    let p ← items[3]? >>= Sexp.asAtom >>= Driver.Thrift.Proto.of
    let d ← (docs.find? (·.1 == dn)).map (·.2)
    let v ← items[4]? >>= TVal.ofSexp
    match inputOf p v with
    | .ok bs =>
      let cuts := (List.range bs.length).filter fun c => leaksAt d ty p (bs.take c)
      pure (docs, s!"ok n={bs.length} leaks={Driver.Thrift.csv cuts}")
    | _ => pure (docs, "err-input")
  | "gf" =>
    let dn ← items[1]? >>= Sexp.asAtom
    let ty ← items[2]? >>= Sexp.asAtom
    let d ← (docs.find? (·.1 == dn)).map (·.2)
    pure (docs, s!"ok {shown (defaultOf d ty)}")
  | _ => none

end Driver.Gen
