import PilotaModel.Thrift.Types
import PilotaModel.Thrift.Binary
import PilotaModel.Thrift.Compact
import PilotaModel.Thrift.Skip
import PilotaModel.Gen.Tables
/-
  Line-protocol verbs of track thrift2 (C07 skip, C09 totality):
    skv <proto> <depth|-> <val> <val2|-> <trailing-hex>   skip an encoded value, read the next one
    sk  <proto> <hex> <step>…                               script of reads / skips over raw bytes
    skf <proto> <struct> <k>                                decode a struct field by field, skipping field k, reading its siblings
    pfx <proto> <val>                                       every strict prefix of an encoding is rejected
  protos: bin le cmp (in-memory), ubin (unchecked, iterative skipper), ubinf (unchecked, `skip` in
  field context), abin acmp (async readers over a fully delivered stream).
-/
namespace Driver.Thrift2
open Pilota Pilota.Thrift

inductive SProto where | bin | le | cmp | ubin | ubinf | abin | acmp
  deriving DecidableEq, Repr

def SProto.of : String → Option SProto
  | "bin" => some .bin | "le" => some .le | "cmp" => some .cmp | "ubin" => some .ubin
  | "ubinf" => some .ubinf | "abin" => some .abin | "acmp" => some .acmp | _ => none

def SProto.isCompact : SProto → Bool
  | .cmp | .acmp => true
  | _ => false

/-- the bytes the matching writer produces for a value. -/
def encFor (p : SProto) (v : TVal) : Bytes :=
  match p with
  | .le => Binary.enc .le v
  | .cmp | .acmp => Compact.enc v
  | _ => Binary.enc .be v

structure St where
  cr : Compact.CR := {}
  bs : Bytes

def maxDepth : Int := Gen.Tables.maximumSkipDepth

/-- one skip call: the count the call reports (async: the bytes consumed) and the state after. -/
def skipOne (p : SProto) (d : Option Int) (t : TType) (s : St) : Out (Nat × St) :=
  let d := d.getD maxDepth
  match p with
  | .bin => match Skip.skip .be d t s.bs with
    | .ok (n, r) => .ok (n, { s with bs := r })
    | .err k => .err k | .panic m => .panic m | .fuel => .fuel
  | .le => match Skip.skip .le d t s.bs with
    | .ok (n, r) => .ok (n, { s with bs := r })
    | .err k => .err k | .panic m => .panic m | .fuel => .fuel
  | .cmp => match Skip.cskip d t s.cr s.bs with
    | .ok (n, cr, r) => .ok (n, { cr := cr, bs := r })
    | .err k => .err k | .panic m => .panic m | .fuel => .fuel
  | .ubin | .ubinf => match Skip.iterSkip t s.bs with
    | .ok (n, r) => .ok (n, { s with bs := r })
    | .err k => .err k | .panic m => .panic m | .fuel => .fuel
  | .abin => match Skip.askipBinary d t s.bs with
    | .ok (_, r) => .ok (s.bs.length - r.length, { s with bs := r })
    | .err k => .err k | .panic m => .panic m | .fuel => .fuel
  | .acmp => match Skip.askipCompact d t s.cr s.bs with
    | .ok (cr, r) => .ok (s.bs.length - r.length, { cr := cr, bs := r })
    | .err k => .err k | .panic m => .panic m | .fuel => .fuel

/-- one value read by the dynamic reading interpreter (async readers: over a fully delivered
stream they return what the in-memory readers return). -/
def readOne (p : SProto) (t : TType) (s : St) : Out (TVal × St) :=
  match p with
  | .le => match Binary.read .le t s.bs with
    | .ok (v, r) => .ok (v, { s with bs := r })
    | .err k => .err k | .panic m => .panic m | .fuel => .fuel
  | .cmp | .acmp => match Compact.read t s.cr s.bs with
    | .ok (v, cr, r) => .ok (v, { cr := cr, bs := r })
    | .err k => .err k | .panic m => .panic m | .fuel => .fuel
  | _ => match Binary.read .be t s.bs with
    | .ok (v, r) => .ok (v, { s with bs := r })
    | .err k => .err k | .panic m => .panic m | .fuel => .fuel

inductive Step where
  | read (t : TType) | skip (t : TType) | skipd (t : TType) (d : Int)

def stepOf : Sexp → Option Step
  | .list [.atom "read", t] => do let t ← t.asAtom >>= TType.ofName; pure (.read t)
  | .list [.atom "skip", t] => do let t ← t.asAtom >>= TType.ofName; pure (.skip t)
  | .list [.atom "skipd", t, d] => do let t ← t.asAtom >>= TType.ofName; let d ← d.asInt; pure (.skipd t d)
  | _ => none

def runScript (p : SProto) : List Step → St → List String → (List String × St × Option String)
  | [], s, acc => (acc.reverse, s, none)
  | .read t :: rest, s, acc =>
    match readOne p t s with
    | .ok (v, s') => runScript p rest s' (v.toSexp :: acc)
    | o => (acc.reverse, s, some o.cls)
  | .skip t :: rest, s, acc =>
    match skipOne p none t s with
    | .ok (n, s') => runScript p rest s' (toString n :: acc)
    | o => (acc.reverse, s, some o.cls)
  | .skipd t d :: rest, s, acc =>
    match skipOne p (some d) t s with
    | .ok (n, s') => runScript p rest s' (toString n :: acc)
    | o => (acc.reverse, s, some o.cls)

/-- `read_field_begin` on the reader of kind `p`. -/
def fieldBegin (p : SProto) (s : St) : Out ((TType × Int) × St) :=
  match p with
  | .cmp | .acmp => match Compact.readFieldBegin s.cr s.bs with
    | .ok (x, cr, r) => .ok (x, { cr := cr, bs := r })
    | .err k => .err k | .panic m => .panic m | .fuel => .fuel
  | .le => match Binary.readFieldBegin .le s.bs with
    | .ok (x, r) => .ok (x, { s with bs := r })
    | .err k => .err k | .panic m => .panic m | .fuel => .fuel
  | _ => match Binary.readFieldBegin .be s.bs with
    | .ok (x, r) => .ok (x, { s with bs := r })
    | .err k => .err k | .panic m => .panic m | .fuel => .fuel

/-- decode the fields of a struct, skipping field number `k` and reading the others. -/
partial def fieldLoop (p : SProto) (k i : Nat) (s : St) (acc : List (Int × TVal)) (cnt : Option Nat) :
    Out (Option Nat × List (Int × TVal) × St) :=
  match fieldBegin p s with
  | .ok ((t, id), s) =>
    if t = .stop then .ok (cnt, acc.reverse, s)
    else if i = k then match skipOne p none t s with
      | .ok (n, s) => fieldLoop p k (i + 1) s acc (some n)
      | .err e => .err e | .panic m => .panic m | .fuel => .fuel
    else match readOne p t s with
      | .ok (v, s) => fieldLoop p k (i + 1) s ((id, v) :: acc) cnt
      | .err e => .err e | .panic m => .panic m | .fuel => .fuel
  | .err e => .err e | .panic m => .panic m | .fuel => .fuel

def skipField (p : SProto) (k : Nat) (input : Bytes) : Out (Option Nat × TVal × Nat) :=
  let s0 : St := { bs := input }
  let s0 := if p.isCompact then { s0 with cr := Compact.readStructBegin s0.cr } else s0
  match fieldLoop p k 0 s0 [] none with
  | .ok (cnt, fs, s) =>
    if p.isCompact then match Compact.readStructEnd s.cr with
      | .ok _ => .ok (cnt, .struct (TFields.ofList fs), s.bs.length)
      | .err e => .err e | .panic m => .panic m | .fuel => .fuel
    else .ok (cnt, .struct (TFields.ofList fs), s.bs.length)
  | .err e => .err e | .panic m => .panic m | .fuel => .fuel

def isErr {α} : Out α → Bool
  | .err _ => true
  | _ => false

/-- how many of the strict prefixes of `bs` (including the empty one) `f` rejects with an error. -/
def countRejected (bs : Bytes) (f : Bytes → Bool) : Nat :=
  (List.range bs.length).foldl (fun acc k => if f (bs.take k) then acc + 1 else acc) 0

def answer (items : List Sexp) : Option String := do
  let verb ← items.head? >>= Sexp.asAtom
  match verb with
  | "skv" =>
    let p ← items[1]? >>= Sexp.asAtom >>= SProto.of
    let dA ← items[2]? >>= Sexp.asAtom
    let d ← if dA == "-" then some none else (some <$> dA.toInt?)
    let v ← items[3]? >>= TVal.ofSexp
    let v2 ← match (items[4]? : Option Sexp) with
      | some (Sexp.atom "-") => some none
      | some x => some <$> TVal.ofSexp x
      | none => none
    let trailing ← items[5]? >>= Sexp.asHex
    let e1 := encFor p v
    let input := e1 ++ (match v2 with | some w => encFor p w | none => []) ++ trailing
    match skipOne p d v.ttype { bs := input } with
    | .ok (n, s) =>
      match v2 with
      | none => pure s!"ok {n} - rem={s.bs.length} len={e1.length}"
      | some w => match readOne p w.ttype s with
        | .ok (x, s') => pure s!"ok {n} {x.toSexp} rem={s'.bs.length} len={e1.length}"
        | o => pure s!"{o.cls} after-skip {n}"
    | o => pure o.cls
  | "skf" =>
    let p ← items[1]? >>= Sexp.asAtom >>= SProto.of
    let v ← items[2]? >>= TVal.ofSexp
    let k ← items[3]? >>= Sexp.asNat
    match skipField p k (encFor p v) with
    | .ok (cnt, w, rem) => pure s!"ok {match cnt with | some c => toString c | none => "-"} {w.toSexp} rem={rem}"
    | o => pure o.cls
  | "skfx" =>
    -- the same on given bytes (a reference encoding of the struct in any legal form)
    let p ← items[1]? >>= Sexp.asAtom >>= SProto.of
    let k ← items[3]? >>= Sexp.asNat
    let input ← items[4]? >>= Sexp.asHex
    match skipField p k input with
    | .ok (cnt, w, rem) => pure s!"ok {match cnt with | some c => toString c | none => "-"} {w.toSexp} rem={rem}"
    | o => pure o.cls
  | "sk" =>
    let p ← items[1]? >>= Sexp.asAtom >>= SProto.of
    let input ← items[2]? >>= Sexp.asHex
    let script ← (items.drop 3).mapM stepOf
    let (outs, s, e) := runScript p script { bs := input } []
    match e with
    | some c => pure s!"{c} after={outs.length}"
    | none => pure s!"ok {" ".intercalate outs} rem={s.bs.length}"
  | "pfx" =>
    let p ← items[1]? >>= Sexp.asAtom >>= SProto.of
    let v ← items[2]? >>= TVal.ofSexp
    let e := encFor p v
    let rd := countRejected e fun b => isErr (readOne p v.ttype { bs := b })
    let sk := countRejected e fun b => isErr (skipOne p none v.ttype { bs := b })
    pure s!"ok len={e.length} read_rejected={rd} skip_rejected={sk}"
  | _ => none

end Driver.Thrift2
