import PilotaModel.Base.Sexp
/-  Line-protocol verbs of track Thrift2 (stub: answers nothing yet). -/
namespace Driver.Thrift2
open Pilota

def answer (_items : List Sexp) : Option String := none

end Driver.Thrift2
