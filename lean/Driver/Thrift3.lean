import PilotaModel.Thrift.Unsafe
import Driver.Thrift
/-
  Line-protocol verbs of track thrift3: unchecked codec (C11), async decoding (C12),
  spec conformance (C03).  Each function returns exactly the answer line the Rust
  harness (harness/rt/src/thrift3.rs) prints for the real implementation.
-/
namespace Driver.Thrift3
open Pilota Pilota.Thrift

def csv (l : List Nat) : String := if l.isEmpty then "-" else ",".intercalate (l.map toString)

def zeroCopyThreshold : Nat := 4096

/-! ### C11 -/

def msgOf : Sexp → Option Op
  | .list [.atom "msg", n, mt, seq] => do
    let n ← n.asHex; let mt ← mt.asNat; let seq ← seq.asInt
    pure (.msgBegin n mt seq)
  | _ => none

/-- `uw <buf> <api> <win> <spare> [(msg ..)] <val>...` -/
def uw (items : List Sexp) : Option String := do
  let buf ← items[1]? >>= Sexp.asAtom
  let api ← items[2]? >>= Sexp.asAtom >>= Driver.Thrift.apiOf
  let win ← items[3]? >>= Sexp.asNat
  let spare ← items[4]? >>= Sexp.asNat
  let rest := items.drop 5
  let (pre, post, rest) := match rest.head? >>= msgOf with
    | some m => ([m], [Op.msgEnd], rest.drop 1)
    | none => ([], [], rest)
  let vals ← rest.mapM TVal.ofSexp
  let ops := pre ++ vals.flatMap TVal.ops ++ post
  if buf == "bm" then
    match Unsafe.uwRun (Unsafe.fresh win) ops with
    | .ok w => pure s!"ok {hexOrDash w.written} idx={w.idx} z=0 nodes=-"
    | .panic _ => pure "refused"
    | o => pure o.cls
  else
    let zc := buf == "lb1"
    match Unsafe.ulwRun zc zeroCopyThreshold api { cur := [], spare := spare, win := Unsafe.fresh win } ops with
    | .ok s => pure s!"ok {hexOrDash s.out} idx={s.win.idx} z={s.zlen} nodes={csv (s.nodes.map List.length ++ [s.cur.length])}"
    | .panic _ => pure "refused"
    | o => pure o.cls

inductive UStep where
  | read (t : TType) | get (ptr : Bool) (len : Nat) | msg

def ustepOf : Sexp → Option UStep
  | .list [.atom "read", t] => do let t ← t.asAtom >>= TType.ofName; pure (.read t)
  | .list [.atom "get", p, n] => do let p ← p.asNat; let n ← n.asNat; pure (.get (p != 0) n)
  | .list [.atom "msg"] => some .msg
  | _ => none

/-- the checked reader's `read_message_begin` on `bs` accepts (contract of the `msg` step):
decided with the checked primitives of `Thrift/Binary.lean`. -/
def checkedMsgOk (bs : Bytes) : Bool :=
  match Binary.readI .be 4 bs with
  | .ok (size, r) =>
    let u := toU 4 size
    if size > 0 then false
    else if u % 16 < 1 || 4 < u % 16 then false
    else if u / 65536 * 65536 != 0x80010000 then false
    else match Binary.readBytes .be r with
      | .ok (_, r) => (Binary.readI .be 4 r).isOk
      | _ => false
  | _ => false

def urRun : List UStep → Unsafe.UR → List String → String
  | [], s, acc => s!"ok {if acc.isEmpty then "-" else " ".intercalate acc.reverse} idx={s.idx} adv={s.adv}"
  | .read t :: rest, s, acc =>
    -- contract: the checked reader accepts at this position
    match Binary.read .be t s.rest with
    | .ok _ =>
      match Unsafe.read t s with
      | .ok (v, s') => urRun rest s' (v.toSexp :: acc)
      | o => s!"{o.cls} after={acc.length}"
    | _ => s!"refused after={acc.length}"
  | .get p n :: rest, s, acc =>
    match Unsafe.getBytes s p n with
    | .ok (b, s') => urRun rest s' (s!"(got {hexOrDash b})" :: acc)
    | .panic _ => s!"refused after={acc.length}"
    | o => s!"{o.cls} after={acc.length}"
  | .msg :: rest, s, acc =>
    if checkedMsgOk s.rest then
      match Unsafe.readMessageBegin s with
      | .ok ((n, mt, seq), s') => urRun rest s' (s!"(msg {hexOrDash n} {mt} {seq})" :: acc)
      | o => s!"{o.cls} after={acc.length}"
    else s!"refused after={acc.length}"

def ur (items : List Sexp) : Option String := do
  let input ← items[1]? >>= Sexp.asHex
  let steps ← (items.drop 2).mapM ustepOf
  pure (urRun steps { bs := input } [])

def answer (items : List Sexp) : Option String := do
  let verb ← items.head? >>= Sexp.asAtom
  match verb with
  | "uw" => uw items
  | "ur" => ur items
  | _ => none

end Driver.Thrift3
