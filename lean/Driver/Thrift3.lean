import PilotaModel.Thrift.Unsafe
import PilotaModel.Thrift.Async
import Driver.Thrift
/-
  Line-protocol verbs of track thrift3: unchecked codec (C11), async decoding (C12),
  spec conformance (C03).  Each function returns exactly the answer line the Rust
  harness (harness/rt/src/thrift3.rs) prints for the real implementation.
-/
namespace Driver.Thrift3
open Pilota Pilota.Thrift

def csv (l : List Nat) : String := if l.isEmpty then "-" else ",".intercalate (l.map toString)

def zeroCopyThreshold : Nat := 4096

/-! ### C11 -/

def msgOf : Sexp → Option Op
  | .list [.atom "msg", n, mt, seq] => do
    let n ← n.asHex; let mt ← mt.asNat; let seq ← seq.asInt
    pure (.msgBegin n mt seq)
  | _ => none

/-- `uw <buf> <api> <win> <spare> [(msg ..)] <val>...` -/
def uw (items : List Sexp) : Option String := do
  let buf ← items[1]? >>= Sexp.asAtom
  let api ← items[2]? >>= Sexp.asAtom >>= Driver.Thrift.apiOf
  let win ← items[3]? >>= Sexp.asNat
  let spare ← items[4]? >>= Sexp.asNat
  let rest := items.drop 5
  let (pre, post, rest) := match rest.head? >>= msgOf with
    | some m => ([m], [Op.msgEnd], rest.drop 1)
    | none => ([], [], rest)
  let vals ← rest.mapM TVal.ofSexp
  let ops := pre ++ vals.flatMap TVal.ops ++ post
  if buf == "bm" then
    match Unsafe.uwRun (Unsafe.fresh win) ops with
    | .ok w => pure s!"ok {hexOrDash w.written} idx={w.idx} z=0 nodes=-"
    | .panic _ => pure "refused"
    | o => pure o.cls
  else
    let zc := buf == "lb1"
    match Unsafe.ulwRun zc zeroCopyThreshold api { cur := [], spare := spare, win := Unsafe.fresh win } ops with
    | .ok s => pure s!"ok {hexOrDash s.out} idx={s.win.idx} z={s.zlen} nodes={csv (s.nodes.map List.length ++ [s.cur.length])}"
    | .panic _ => pure "refused"
    | o => pure o.cls

inductive UStep where
  | read (t : TType) | get (ptr : Bool) (len : Nat) | msg

def ustepOf : Sexp → Option UStep
  | .list [.atom "read", t] => do let t ← t.asAtom >>= TType.ofName; pure (.read t)
  | .list [.atom "get", p, n] => do let p ← p.asNat; let n ← n.asNat; pure (.get (p != 0) n)
  | .list [.atom "msg"] => some .msg
  | _ => none

/-- the checked reader's `read_message_begin` on `bs` accepts (contract of the `msg` step):
decided with the checked primitives of `Thrift/Binary.lean`. -/
def checkedMsgOk (bs : Bytes) : Bool :=
  match Binary.readI .be 4 bs with
  | .ok (size, r) =>
    let u := toU 4 size
    if size > 0 then false
    else if u % 16 < 1 || 4 < u % 16 then false
    else if u / 65536 * 65536 != 0x80010000 then false
    else match Binary.readBytes .be r with
      | .ok (_, r) => (Binary.readI .be 4 r).isOk
      | _ => false
  | _ => false

def urRun : List UStep → Unsafe.UR → List String → String
  | [], s, acc => s!"ok {if acc.isEmpty then "-" else " ".intercalate acc.reverse} idx={s.idx} adv={s.adv}"
  | .read t :: rest, s, acc =>
    -- contract: the checked reader accepts at this position
    match Binary.read .be t s.rest with
    | .ok _ =>
      match Unsafe.read t s with
      | .ok (v, s') => urRun rest s' (v.toSexp :: acc)
      | o => s!"{o.cls} after={acc.length}"
    | _ => s!"refused after={acc.length}"
  | .get p n :: rest, s, acc =>
    match Unsafe.getBytes s p n with
    | .ok (b, s') => urRun rest s' (s!"(got {hexOrDash b})" :: acc)
    | .panic _ => s!"refused after={acc.length}"
    | o => s!"{o.cls} after={acc.length}"
  | .msg :: rest, s, acc =>
    if checkedMsgOk s.rest then
      match Unsafe.readMessageBegin s with
      | .ok ((n, mt, seq), s') => urRun rest s' (s!"(msg {hexOrDash n} {mt} {seq})" :: acc)
      | o => s!"{o.cls} after={acc.length}"
    else s!"refused after={acc.length}"

def ur (items : List Sexp) : Option String := do
  let input ← items[1]? >>= Sexp.asHex
  let steps ← (items.drop 2).mapM ustepOf
  pure (urRun steps { bs := input } [])

/-! ### C12 -/
open Pilota.Thrift.Async in
def eventsOf : Sexp → Option Stream
  | .list xs => xs.foldrM (fun x acc => match x with
      | .atom "p" => some (Event.pending :: acc)
      | .atom h => match ofHex h with
        | some (b :: bs) => some (Event.data b bs :: acc)
        | some [] => some acc
        | none => none
      | _ => none) []
  | _ => none

inductive AStep where
  | read (t : TType) | skip (t : TType) (d : Nat) | msg | sb | se | fb | fe

def astepOf : Sexp → Option AStep
  | .list [.atom "read", t] => do let t ← t.asAtom >>= TType.ofName; pure (.read t)
  | .list [.atom "skip", t] => do let t ← t.asAtom >>= TType.ofName; pure (.skip t 64)
  | .list [.atom "skipd", t, d] => do let t ← t.asAtom >>= TType.ofName; let d ← d.asNat; pure (.skip t d)
  | .list [.atom "msg"] => some .msg
  | .list [.atom "sb"] => some .sb
  | .list [.atom "se"] => some .se
  | .list [.atom "fb"] => some .fb
  | .list [.atom "fe"] => some .fe
  | _ => none

open Pilota.Thrift.Async in
/-- the program one step runs on the async protocol object (compact: over its state). -/
def astepProg (p : AProto) (n : Nat) (cr : Compact.CR) : AStep → Prog (String × Compact.CR)
  | .read t => match p with
    | .bin e => (ABin.readVal e n t).bind fun v => .ret (v.toSexp, cr)
    | .cmp => (ACmp.readVal n t cr).bind fun (v, cr) => .ret (v.toSexp, cr)
  | .skip t d => match p with
    | .bin e => (ABin.skip e n d t).bind fun _ => .ret ("skipped", cr)
    | .cmp => (ACmp.skip n d t cr).bind fun cr => .ret ("skipped", cr)
  | .msg => match p with
    | .bin e => (ABin.readMessageBegin e).bind fun (nm, mt, sq) => .ret (s!"(msg {hexOrDash nm} {mt} {sq})", cr)
    | .cmp => ACmp.readMessageBegin.bind fun (nm, mt, sq) => .ret (s!"(msg {hexOrDash nm} {mt} {sq})", cr)
  | .sb => match p with
    | .bin _ => .ret ("sb", cr)
    | .cmp => .ret ("sb", Compact.readStructBegin cr)
  | .se => match p with
    | .bin _ => .ret ("se", cr)
    | .cmp => (ACmp.readStructEnd cr).bind fun cr => .ret ("se", cr)
  | .fb => match p with
    | .bin e => (ABin.readFieldBegin e).bind fun (t, id) => .ret (s!"(field {t.name} {id})", cr)
    | .cmp => (ACmp.readFieldBegin cr).bind fun ((t, id), cr) => .ret (s!"(field {t.name} {id})", cr)
  | .fe => .ret ("fe", cr)

open Pilota.Thrift.Async in
def arun (p : AProto) (total : Nat) : List AStep → Stream → Compact.CR → List String → String
  | [], s, _, acc => s!"ok {if acc.isEmpty then "-" else " ".intercalate acc.reverse} pulled={total - (flat s).length}"
  | st :: rest, s, cr, acc =>
    match runS (astepProg p (budget s) cr st) s with
    | .ok ((item, cr'), s') => arun p total rest s' cr' (item :: acc)
    | o => s!"{o.cls} after={acc.length}"

open Pilota.Thrift.Async in
def av (items : List Sexp) : Option String := do
  let p ← match items[1]? >>= Sexp.asAtom with
    | some "bin" => some (AProto.bin .be) | some "le" => some (AProto.bin .le) | some "cmp" => some AProto.cmp | _ => none
  let s ← items[2]? >>= eventsOf
  let steps ← (items.drop 3).mapM astepOf
  pure (arun p (flat s).length steps s {} [])

def answer (items : List Sexp) : Option String := do
  let verb ← items.head? >>= Sexp.asAtom
  match verb with
  | "uw" => uw items
  | "ur" => ur items
  | "a" => av items
  | _ => none

end Driver.Thrift3
