import PilotaModel.Thrift.Unsafe
import PilotaModel.Thrift.Skip
import PilotaModel.Thrift.Async
import PilotaModel.Thrift.Spec
import PilotaModel.Thrift.Msg
import Driver.Thrift
/-
  Line-protocol verbs of track thrift3: unchecked codec (C11), async decoding (C12),
  spec conformance (C03).  Each function returns exactly the answer line the Rust
  harness (harness/rt/src/thrift3.rs) prints for the real implementation.
-/
namespace Driver.Thrift3
open Pilota Pilota.Thrift

def csv (l : List Nat) : String := if l.isEmpty then "-" else ",".intercalate (l.map toString)

def zeroCopyThreshold : Nat := 4096

/-! ### C11 -/

def msgOf : Sexp → Option Op
  | .list [.atom "msg", n, mt, seq] => do
    let n ← n.asHex; let mt ← mt.asNat; let seq ← seq.asInt
    pure (.msgBegin n mt seq)
  | _ => none

/-- `uw <buf> <api> <win> <spare> [(msg ..)] <val>...` -/
def uw (items : List Sexp) : Option String := do
  let buf ← items[1]? >>= Sexp.asAtom
  let api ← items[2]? >>= Sexp.asAtom >>= Driver.Thrift.apiOf
  let win ← items[3]? >>= Sexp.asNat
  let spare ← items[4]? >>= Sexp.asNat
  let rest := items.drop 5
  let (pre, post, rest) := match rest.head? >>= msgOf with
    | some m => ([m], [Op.msgEnd], rest.drop 1)
    | none => ([], [], rest)
  let vals ← rest.mapM TVal.ofSexp
  let ops := pre ++ vals.flatMap TVal.ops ++ post
  if buf == "bm" then
    match Unsafe.uwRun (Unsafe.fresh win) ops with
    | .ok w => pure s!"ok {hexOrDash w.written} idx={w.idx} z=0 nodes=-"
    | .panic _ => pure "refused"
    | o => pure o.cls
  else
    let zc := buf == "lb1"
    match Unsafe.ulwRun zc zeroCopyThreshold api { cur := [], spare := spare, win := Unsafe.fresh win } ops with
    | .ok s => pure s!"ok {hexOrDash s.out} idx={s.win.idx} z={s.zlen} nodes={csv (s.nodes.map List.length ++ [s.cur.length])}"
    | .panic _ => pure "refused"
    | o => pure o.cls

inductive UStep where
  | read (t : TType) | skip (t : TType) | get (ptr : Bool) (len : Nat) | msg

def ustepOf : Sexp → Option UStep
  | .list [.atom "read", t] => do let t ← t.asAtom >>= TType.ofName; pure (.read t)
  | .list [.atom "skip", t] => do let t ← t.asAtom >>= TType.ofName; pure (.skip t)
  | .list [.atom "get", p, n] => do let p ← p.asNat; let n ← n.asNat; pure (.get (p != 0) n)
  | .list [.atom "msg"] => some .msg
  | _ => none

/-- the checked reader's `read_message_begin` on `bs` accepts (contract of the `msg` step):
decided with the checked primitives of `Thrift/Binary.lean`. -/
def checkedMsgOk (bs : Bytes) : Bool :=
  match Binary.readI .be 4 bs with
  | .ok (size, r) =>
    let u := toU 4 size
    if size > 0 then false
    else if u % 16 < 1 || 4 < u % 16 then false
    else if u / 65536 * 65536 != 0x80010000 then false
    else match Binary.readBytes .be r with
      | .ok (_, r) => (Binary.readI .be 4 r).isOk
      | _ => false
  | _ => false

def urRun : List UStep → Unsafe.UR → List String → String
  | [], s, acc => s!"ok {if acc.isEmpty then "-" else " ".intercalate acc.reverse} idx={s.idx} adv={s.adv}"
  | .read t :: rest, s, acc =>
    -- contract: the checked reader accepts at this position
    match Binary.read .be t s.rest with
    | .ok _ =>
      match Unsafe.read t s with
      | .ok (v, s') => urRun rest s' (v.toSexp :: acc)
      | o => s!"{o.cls} after={acc.length}"
    | _ => s!"refused after={acc.length}"
  | .skip t :: rest, s, acc =>
    -- contract as for `read`; the unchecked reader's iterative skipper moves the index only and returns the length
    match Pilota.Thrift.Skip.skip .be 64 t s.rest with
    | .ok _ =>
      match Pilota.Thrift.Skip.iterSkip t s.rest with
      | .ok (n, _) => urRun rest { s with idx := s.idx + n } (s!"(skipped {n})" :: acc)
      | o => s!"{o.cls} after={acc.length}"
    | _ => s!"refused after={acc.length}"
  | .get p n :: rest, s, acc =>
    match Unsafe.getBytes s p n with
    | .ok (b, s') => urRun rest s' (s!"(got {hexOrDash b})" :: acc)
    | .panic _ => s!"refused after={acc.length}"
    | o => s!"{o.cls} after={acc.length}"
  | .msg :: rest, s, acc =>
    if checkedMsgOk s.rest then
      match Unsafe.readMessageBegin s with
      | .ok ((n, mt, seq), s') => urRun rest s' (s!"(msg {hexOrDash n} {mt} {seq})" :: acc)
      | o => s!"{o.cls} after={acc.length}"
    else s!"refused after={acc.length}"

def ur (items : List Sexp) : Option String := do
  let input ← items[1]? >>= Sexp.asHex
  let steps ← (items.drop 2).mapM ustepOf
  pure (urRun steps { bs := input } [])

/-! ### C12 -/
open Pilota.Thrift.Async in
def eventsOf : Sexp → Option Stream
  | .list xs => xs.foldrM (fun x acc => match x with
      | .atom "p" => some (Event.pending :: acc)
      | .atom h => match ofHex h with
        | some (b :: bs) => some (Event.data b bs :: acc)
        | some [] => some acc
        | none => none
      | _ => none) []
  | _ => none

inductive AStep where
  | read (t : TType) | skip (t : TType) (d : Nat) | msg | sb | se | fb | fe | lb | setb | mb

def astepOf : Sexp → Option AStep
  | .list [.atom "read", t] => do let t ← t.asAtom >>= TType.ofName; pure (.read t)
  | .list [.atom "skip", t] => do let t ← t.asAtom >>= TType.ofName; pure (.skip t 64)
  | .list [.atom "skipd", t, d] => do let t ← t.asAtom >>= TType.ofName; let d ← d.asNat; pure (.skip t d)
  | .list [.atom "msg"] => some .msg
  | .list [.atom "sb"] => some .sb
  | .list [.atom "se"] => some .se
  | .list [.atom "fb"] => some .fb
  | .list [.atom "fe"] => some .fe
  | .list [.atom "lb"] => some .lb
  | .list [.atom "setb"] => some .setb
  | .list [.atom "mb"] => some .mb
  | _ => none

open Pilota.Thrift.Async in
/-- the program one step runs on the async protocol object (compact: over its state). -/
def astepProg (p : AProto) (n : Nat) (cr : Compact.CR) : AStep → Prog (String × Compact.CR)
  | .read t => match p with
    | .bin e => (ABin.readVal e n t).bind fun v => .ret (v.toSexp, cr)
    | .cmp => (ACmp.readVal n t cr).bind fun (v, cr) => .ret (v.toSexp, cr)
  | .skip t d => match p with
    | .bin e => (ABin.skip e n d t).bind fun _ => .ret ("skipped", cr)
    | .cmp => (ACmp.skip n d t cr).bind fun cr => .ret ("skipped", cr)
  | .msg => match p with
    | .bin e => (ABin.readMessageBegin e).bind fun (nm, mt, sq) => .ret (s!"(msg {hexOrDash nm} {mt} {sq})", cr)
    | .cmp => ACmp.readMessageBegin.bind fun (nm, mt, sq) => .ret (s!"(msg {hexOrDash nm} {mt} {sq})", cr)
  | .sb => match p with
    | .bin _ => .ret ("sb", cr)
    | .cmp => .ret ("sb", Compact.readStructBegin cr)
  | .se => match p with
    | .bin _ => .ret ("se", cr)
    | .cmp => (ACmp.readStructEnd cr).bind fun cr => .ret ("se", cr)
  | .fb => match p with
    | .bin e => (ABin.readFieldBegin e).bind fun (t, id) => .ret (s!"(field {t.name} {id})", cr)
    | .cmp => (ACmp.readFieldBegin cr).bind fun ((t, id), cr) => .ret (s!"(field {t.name} {id})", cr)
  | .fe => .ret ("fe", cr)
  | .lb => match p with
    | .bin e => (ABin.readListBegin e).bind fun (t, n) => .ret (s!"(list {t.name} {n})", cr)
    | .cmp => ACmp.readCollBegin.bind fun (t, n) => .ret (s!"(list {t.name} {n})", cr)
  | .setb => match p with
    | .bin e => (ABin.readListBegin e).bind fun (t, n) => .ret (s!"(set {t.name} {n})", cr)
    | .cmp => ACmp.readCollBegin.bind fun (t, n) => .ret (s!"(set {t.name} {n})", cr)
  | .mb => match p with
    | .bin e => (ABin.readMapBegin e).bind fun (k, v, n) => .ret (s!"(map {k.name} {v.name} {n})", cr)
    | .cmp => ACmp.readMapBegin.bind fun (k, v, n) => .ret (s!"(map {k.name} {v.name} {n})", cr)

open Pilota.Thrift.Async in
def arun (p : AProto) (total : Nat) : List AStep → Stream → Compact.CR → List String → String
  | [], s, _, acc => s!"ok {if acc.isEmpty then "-" else " ".intercalate acc.reverse} pulled={total - (flat s).length}"
  | st :: rest, s, cr, acc =>
    match runS (astepProg p (budget s) cr st) s with
    | .ok ((item, cr'), s') => arun p total rest s' cr' (item :: acc)
    | o => s!"{o.cls} after={acc.length}"

open Pilota.Thrift.Async in
def av (items : List Sexp) : Option String := do
  let p ← match items[1]? >>= Sexp.asAtom with
    | some "bin" => some (AProto.bin .be) | some "le" => some (AProto.bin .le) | some "cmp" => some AProto.cmp | _ => none
  let s ← items[2]? >>= eventsOf
  let steps ← (items.drop 3).mapM astepOf
  pure (arun p (flat s).length steps s {} [])

/-! ### C03 -/

inductive SProto where | bin (e : Endian) | cmp
  deriving DecidableEq

def sprotoOf : String → Option SProto
  | "bin" => some (.bin .be) | "le" => some (.bin .le) | "cmp" => some .cmp | _ => none

/-- one step on the in-memory protocol object (compact: over its state); item text and the rest. -/
def sstep (p : SProto) (cr : Compact.CR) (bs : Bytes) : AStep → Out (String × Compact.CR × Bytes)
  | .read t => match p with
    | .bin e => match Binary.read e t bs with
      | .ok (v, r) => .ok (v.toSexp, cr, r) | .err k => .err k | .panic m => .panic m | .fuel => .fuel
    | .cmp => match Compact.read t cr bs with
      | .ok (v, cr, r) => .ok (v.toSexp, cr, r) | .err k => .err k | .panic m => .panic m | .fuel => .fuel
  | .skip _ _ => .err .other            -- the in-memory skippers are C07's
  | .msg => match p with
    | .bin e => match Msg.readBeginBin e bs with
      | .ok ((nm, mt, sq), r) => .ok (s!"(msg {hexOrDash nm} {mt} {sq})", cr, r) | .err k => .err k | .panic m => .panic m | .fuel => .fuel
    | .cmp => match Msg.readBeginCmp bs with
      | .ok ((nm, mt, sq), r) => .ok (s!"(msg {hexOrDash nm} {mt} {sq})", cr, r) | .err k => .err k | .panic m => .panic m | .fuel => .fuel
  | .sb => match p with
    | .bin _ => .ok ("sb", cr, bs)
    | .cmp => .ok ("sb", Compact.readStructBegin cr, bs)
  | .se => match p with
    | .bin _ => .ok ("se", cr, bs)
    | .cmp => match Compact.readStructEnd cr with
      | .ok cr => .ok ("se", cr, bs) | .err k => .err k | .panic m => .panic m | .fuel => .fuel
  | .fb => match p with
    | .bin e => match Binary.readFieldBegin e bs with
      | .ok ((t, id), r) => .ok (s!"(field {t.name} {id})", cr, r) | .err k => .err k | .panic m => .panic m | .fuel => .fuel
    | .cmp => match Compact.readFieldBegin cr bs with
      | .ok ((t, id), cr, r) => .ok (s!"(field {t.name} {id})", cr, r) | .err k => .err k | .panic m => .panic m | .fuel => .fuel
  | .fe => .ok ("fe", cr, bs)
  | .lb => match p with
    | .bin e => match Binary.readListBegin e bs with
      | .ok ((t, n), r) => .ok (s!"(list {t.name} {n})", cr, r) | .err k => .err k | .panic m => .panic m | .fuel => .fuel
    | .cmp => match Compact.readCollBegin bs with
      | .ok ((t, n), r) => .ok (s!"(list {t.name} {n})", cr, r) | .err k => .err k | .panic m => .panic m | .fuel => .fuel
  | .setb => match p with
    | .bin e => match Binary.readListBegin e bs with
      | .ok ((t, n), r) => .ok (s!"(set {t.name} {n})", cr, r) | .err k => .err k | .panic m => .panic m | .fuel => .fuel
    | .cmp => match Compact.readCollBegin bs with
      | .ok ((t, n), r) => .ok (s!"(set {t.name} {n})", cr, r) | .err k => .err k | .panic m => .panic m | .fuel => .fuel
  | .mb => match p with
    | .bin e => match Binary.readMapBegin e bs with
      | .ok ((k, v, n), r) => .ok (s!"(map {k.name} {v.name} {n})", cr, r) | .err k => .err k | .panic m => .panic m | .fuel => .fuel
    | .cmp => match Compact.readMapBegin bs with
      | .ok ((k, v, n), r) => .ok (s!"(map {k.name} {v.name} {n})", cr, r) | .err k => .err k | .panic m => .panic m | .fuel => .fuel

def srun (p : SProto) : List AStep → Compact.CR → Bytes → List String → String
  | [], _, bs, acc => s!"ok {if acc.isEmpty then "-" else " ".intercalate acc.reverse} rem={bs.length}"
  | st :: rest, cr, bs, acc =>
    match sstep p cr bs st with
    | .ok (item, cr', r) => srun p rest cr' r (item :: acc)
    | o => s!"{o.cls} after={acc.length}"

def specEncode (p : SProto) (v : TVal) : Bytes :=
  match p with
  | .bin _ => SpecBin.encode v
  | .cmp => SpecCmp.encode 14 v

def specCheck (p : SProto) (v : TVal) (bs : Bytes) : Bool :=
  match p with
  | .bin _ => SpecBin.check v bs
  | .cmp => SpecCmp.check v bs

/-- the reference decoder recovers `v` (compact: up to the types of empty maps) from exactly `bs`. -/
def specDecodes (p : SProto) (v : TVal) (bs : Bytes) : Bool :=
  match p with
  | .bin _ => match SpecBin.decodeTop v.ttype bs with
    | .ok (v', r) => v'.toSexp == v.toSexp && r.isEmpty
    | _ => false
  | .cmp => match SpecCmp.decodeTop v.ttype bs with
    | .ok (v', r) => v'.toSexp == (Compact.norm v).toSexp && r.isEmpty
    | _ => false

def c03 (verb : String) (items : List Sexp) : Option String := do
  let p ← items[1]? >>= Sexp.asAtom >>= sprotoOf
  match verb with
  | "se" =>
    let v ← items[2]? >>= TVal.ofSexp
    if p == .bin .le then
      pure s!"ok {hexOrDash (Binary.enc .le v)}"             -- not an Apache protocol: pilota's own model answers
    else
      let bs := specEncode p v
      if specCheck p v bs && specDecodes p v bs then pure s!"ok {hexOrDash bs}" else pure "spec-inconsistent"
  | "sr" =>
    let v ← items[2]? >>= TVal.ofSexp
    let bs ← items[3]? >>= Sexp.asHex
    if !specCheck p v bs then pure "notspec"
    else if !specDecodes p v bs then pure "spec-decoder-disagrees"
    else pure s!"ok {(if p == .cmp then Compact.norm v else v).toSexp} rem=0"
  | "s" =>
    let bs ← items[2]? >>= Sexp.asHex
    let steps ← (items.drop 3).mapM astepOf
    pure (srun p steps {} bs [])
  | "sm" =>
    let name ← items[2]? >>= Sexp.asHex
    let mt ← items[3]? >>= Sexp.asNat
    let seq ← items[4]? >>= Sexp.asInt
    match p with
    | .bin .be => pure s!"ok {hexOrDash (SpecBin.message name mt seq)}"
    | .bin .le => pure s!"ok {hexOrDash (Binary.wOp .le (.msgBegin name mt seq))}"
    | .cmp => pure s!"ok {hexOrDash (SpecCmp.message name mt seq)}"
  | "axw" =>
    let msg ← items[2]? >>= Sexp.asHex
    let kind ← items[3]? >>= Sexp.asInt
    match p with
    | .bin e => pure s!"ok {hexOrDash (Binary.run e (Msg.appOps msg kind))}"
    | .cmp => match Compact.run {} (Msg.appOps msg kind) with
      | .ok (_, bs) => pure s!"ok {hexOrDash bs}"
      | o => pure o.cls
  | "ax" =>
    let bs ← items[2]? >>= Sexp.asHex
    match p with
    | .bin e => match Msg.appDecodeBin e (3 * bs.length + 3) (Msg.defaultMsg, 0) bs with
      | .ok ((m, k), r) => pure s!"ok {hexOrDash m} {k} rem={r.length}"
      | o => pure o.cls
    | .cmp => match Msg.appDecodeCmp (3 * bs.length + 3) {} bs with
      | .ok ((m, k), _, r) => pure s!"ok {hexOrDash m} {k} rem={r.length}"
      | o => pure o.cls
  | _ => none

def answer (items : List Sexp) : Option String := do
  let verb ← items.head? >>= Sexp.asAtom
  match verb with
  | "uw" => uw items
  | "ur" => ur items
  | "a" => av items
  | "se" | "sr" | "s" | "sm" | "ax" | "axw" => c03 verb items
  | _ => none

end Driver.Thrift3
