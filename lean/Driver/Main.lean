import Driver.Thrift
import Driver.Thrift2
import Driver.Thrift3
import Driver.Pb
import Driver.Idl
import Driver.Gen
import Driver.Build
import Driver.Graph
/-
  `pmodel`: reads request lines on stdin, prints the model's answer line for each.
-/
open Pilota

def answerLine (docs : Driver.Gen.Docs) (line : String) : Driver.Gen.Docs × String :=
  let t := line.trimAscii.toString
  if t.isEmpty || t.startsWith "#" then (docs, "")
  else if t.endsWith " oracle-only" && (t.startsWith "skv " || t.startsWith "ur " || t.startsWith "pbe") then (docs, "not-asked")   -- very large inputs / inputs without a model-level claim: judged by the harness oracle only
  else match Sexp.parseLine t with
    | none => (docs, "bad-request")
    | some items =>
      match Driver.Gen.answer docs items with
      | some r => r
      | none => (docs,
      match [Driver.Thrift.answer, Driver.Thrift2.answer, Driver.Thrift3.answer, Driver.Pb.answer, Driver.Idl.answer, Driver.Build.answer, Driver.Graph.answer, Driver.Graph.answerD].findSome? (· items) with
      | some a => a
      | none => "bad-request")

partial def loop (h : IO.FS.Stream) (out : IO.FS.Stream) (docs : Driver.Gen.Docs) : IO Unit := do
  let line ← h.getLine
  if line.isEmpty then return ()
  let (docs, a) := answerLine docs line
  out.putStrLn a
  loop h out docs

def main : IO Unit := do
  let out ← IO.getStdout
  loop (← IO.getStdin) out []
  out.flush
