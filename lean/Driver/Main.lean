import Driver.Thrift
import Driver.Thrift2
import Driver.Thrift3
import Driver.Pb
import Driver.Idl
/-
  `pmodel`: reads request lines on stdin, prints the model's answer line for each.
-/
open Pilota

def answerLine (line : String) : String :=
  let t := line.trimAscii.toString
  if t.isEmpty || t.startsWith "#" then ""
  else match Sexp.parseLine t with
    | none => "bad-request"
    | some items =>
      match [Driver.Thrift.answer, Driver.Thrift2.answer, Driver.Thrift3.answer, Driver.Pb.answer, Driver.Idl.answer].findSome? (· items) with
      | some a => a
      | none => "bad-request"

partial def loop (h : IO.FS.Stream) (out : IO.FS.Stream) : IO Unit := do
  let line ← h.getLine
  if line.isEmpty then return ()
  out.putStrLn (answerLine line)
  loop h out

def main : IO Unit := do
  let out ← IO.getStdout
  loop (← IO.getStdin) out
  out.flush
