import PilotaModel.Build.Graph
import PilotaModel.Build.Derive
import PilotaModel.Base.Sexp
/-  Line-protocol verb for pilota-build's boxing decision (C14):
    `boxed (m p1 o p3) (u o p0) (n p2) …` — one list per item in declaration order: kind (m message, u union, n newtype)
    followed by the field types as the type graph sees them (`pK`: direct path to item K, `o`: anything else).
    Answer: the boxed (item.field) positions in document order, or `unsaturated`. -/
namespace Driver.Graph
open Pilota Pilota.Build

def parseTy (s : String) : Option GTy :=
  if s == "o" then some .other
  else if s.startsWith "p" then (s.drop 1).toNat?.map GTy.path
  else none

def parseItem : Sexp → Option GItem
  | .list (.atom k :: fs) => do
    let kind ← match k with
      | "m" => some GKind.message | "u" => some GKind.union | "n" => some GKind.newtype | _ => none
    let fields ← fs.mapM fun f => f.asAtom >>= parseTy
    pure { kind, fields }
  | _ => none

def answer (items : List Sexp) : Option String := do
  let verb ← items.head? >>= Sexp.asAtom
  match verb with
  | "boxed" =>
    let g ← (items.drop 1).mapM parseItem
    if saturated g then
      pure (" ".intercalate ((boxedFields g).map fun p => s!"{p.1}.{p.2}"))
    else pure "unsaturated"
  | _ => none

end Driver.Graph

namespace Driver.Graph
open Pilota Pilota.Build

/-- `derives (p1 ms o) (fl o) …` — one list per item in declaration order: the field types as the derive predicate sees them
after stripping `Vec` layers (`pK` path to item K, `ms` hash map / set, `fl` float, `o` other).
Answer: `po=<items deriving PartialOrd> h=<items deriving Hash, Eq, Ord>`, or `unsaturated`. -/
def parseDTy (s : String) : Option DTy :=
  if s == "o" then some .leaf
  else if s == "ms" then some .mapset
  else if s == "fl" then some .float
  else if s.startsWith "p" then (s.drop 1).toNat?.map DTy.path
  else none

def parseDItem : Sexp → Option DItem
  | .list fs => do
    let fields ← fs.mapM fun f => f.asAtom >>= parseDTy
    pure { fields }
  | _ => none

def answerD (items : List Sexp) : Option String := do
  let verb ← items.head? >>= Sexp.asAtom
  match verb with
  | "derives" =>
    let g ← (items.drop 1).mapM parseDItem
    if dsaturated g then
      let fmt := fun (l : List Nat) => if l.isEmpty then "-" else ",".intercalate (l.map toString)
      pure s!"po={fmt (derivingItems g false)} h={fmt (derivingItems g true)}"
    else pure "unsaturated"
  | _ => none

end Driver.Graph
