import PilotaModel.Build.Graph
import PilotaModel.Base.Sexp
/-  Line-protocol verb for pilota-build's boxing decision (C14):
    `boxed (m p1 o p3) (u o p0) (n p2) …` — one list per item in declaration order: kind (m message, u union, n newtype)
    followed by the field types as the type graph sees them (`pK`: direct path to item K, `o`: anything else).
    Answer: the boxed (item.field) positions in document order, or `unsaturated`. -/
namespace Driver.Graph
open Pilota Pilota.Build

def parseTy (s : String) : Option GTy :=
  if s == "o" then some .other
  else if s.startsWith "p" then (s.drop 1).toNat?.map GTy.path
  else none

def parseItem : Sexp → Option GItem
  | .list (.atom k :: fs) => do
    let kind ← match k with
      | "m" => some GKind.message | "u" => some GKind.union | "n" => some GKind.newtype | _ => none
    let fields ← fs.mapM fun f => f.asAtom >>= parseTy
    pure { kind, fields }
  | _ => none

def answer (items : List Sexp) : Option String := do
  let verb ← items.head? >>= Sexp.asAtom
  match verb with
  | "boxed" =>
    let g ← (items.drop 1).mapM parseItem
    if saturated g then
      pure (" ".intercalate ((boxedFields g).map fun p => s!"{p.1}.{p.2}"))
    else pure "unsaturated"
  | _ => none

end Driver.Graph
