import PilotaModel.Thrift.Types
import PilotaModel.Thrift.Binary
import PilotaModel.Thrift.Compact
import PilotaModel.Thrift.Len
import PilotaModel.Thrift.Linked
/-
  Line-protocol verbs for the Thrift runtime model.  Each function returns exactly
  the answer line the Rust harness prints for the real implementation.
-/
namespace Driver.Thrift
open Pilota Pilota.Thrift

inductive Proto where | bin | le | cmp | ubin
  deriving DecidableEq, Repr

def Proto.of : String → Option Proto
  | "bin" => some .bin | "le" => some .le | "cmp" => some .cmp | "ubin" => some .ubin | _ => none

def csv (l : List Nat) : String := if l.isEmpty then "-" else ",".intercalate (l.map toString)

def zeroCopyThreshold : Nat := 4096

/-- per-op bytes of the BytesMut-backed writer. -/
def writeOps (p : Proto) (ops : List Op) : Out (List Bytes) :=
  match p with
  | .bin | .ubin => .ok (ops.map (Binary.wOp .be))
  | .le => .ok (ops.map (Binary.wOp .le))
  | .cmp =>
    let rec go (s : Compact.CW) : List Op → Out (List Bytes)
      | [] => .ok []
      | o :: os => match Compact.wStep s o with
        | .ok (s', b) => match go s' os with
          | .ok bs => .ok (b :: bs)
          | .err k => .err k | .panic m => .panic m | .fuel => .fuel
        | .err k => .err k | .panic m => .panic m | .fuel => .fuel
    go {} ops

def lenPrefix (p : Proto) (n : Nat) : Bytes :=
  match p with
  | .bin | .ubin => Binary.i .be 4 (toS 4 n)
  | .le => Binary.i .le 4 (toS 4 n)
  | .cmp => encVar (n % 2 ^ 32)

def lenOps (p : Proto) (ops : List Op) : Out (List Nat) :=
  match p with
  | .cmp => match Len.cmpRun {} ops with
    | .ok (_, ns) => .ok ns
    | .err k => .err k | .panic m => .panic m | .fuel => .fuel
  | _ => .ok (ops.map Len.binOp)

structure WOut where
  bytes : Bytes
  perOp : List Nat
  z : Nat

/-- the string APIs of `TOutputProtocol`.  `r` is the pair `write_i32(len)` + `write_bytes_without_len` (binary family; what emitted
code uses for retained chunks): it takes the zero-copy branch exactly as `write_bytes` does.  `s` is `write_string(&str)`: it never
takes the zero-copy branch, like `write_bytes_vec`. -/
def apiOf : String → Option Linked.StrApi
  | "b" => some .bytes | "v" => some .vec | "f" => some .faststr | "r" => some .bytes | "s" => some .vec | _ => none

def writeAll (p : Proto) (buf : String) (api : Linked.StrApi) (vals : List TVal) : Out WOut :=
  let ops := vals.flatMap TVal.ops
  match writeOps p ops with
  | .ok per =>
    if buf == "bm" || buf == "bm1" then      -- bm1: BytesMut with the protocol's zero_copy flag set (no effect on this buffer kind)
      .ok { bytes := per.flatten, perOp := if p == .ubin then [] else per.map List.length, z := 0 }
    else
      let zc := buf == "lb1"
      let lb := (ops.zip per).foldl (fun (l : Linked.LB) (o, w) =>
        let pre := match o with | .bytes bs => lenPrefix p bs.length | _ => []
        Linked.step (p == .cmp) zc zeroCopyThreshold api l o w pre) {}
      .ok { bytes := lb.concat, perOp := [], z := lb.zlen }
  | .err k => .err k | .panic m => .panic m | .fuel => .fuel

inductive Step where
  | read (t : TType) | skip (t : TType) | skipd (t : TType) (d : Int)

def stepOf : Sexp → Option Step
  | .list [.atom "read", t] => do let t ← t.asAtom >>= TType.ofName; pure (.read t)
  | .list [.atom "skip", t] => do let t ← t.asAtom >>= TType.ofName; pure (.skip t)
  | .list [.atom "skipd", t, d] => do let t ← t.asAtom >>= TType.ofName; let d ← d.asInt; pure (.skipd t d)
  | _ => none

/-- reader state for a script: binary protocols are stateless, compact threads `CR`. -/
structure RState where
  cr : Compact.CR := {}
  bs : Bytes

def readOne (p : Proto) (t : TType) (s : RState) : Out (TVal × RState) :=
  match p with
  | .bin | .ubin => match Binary.read .be t s.bs with
    | .ok (v, r) => .ok (v, { s with bs := r })
    | .err k => .err k | .panic m => .panic m | .fuel => .fuel
  | .le => match Binary.read .le t s.bs with
    | .ok (v, r) => .ok (v, { s with bs := r })
    | .err k => .err k | .panic m => .panic m | .fuel => .fuel
  | .cmp => match Compact.read t s.cr s.bs with
    | .ok (v, cr, r) => .ok (v, { cr := cr, bs := r })
    | .err k => .err k | .panic m => .panic m | .fuel => .fuel

def runScript (p : Proto) : List Step → RState → List String → (List String × RState × Option String)
  | [], s, acc => (acc.reverse, s, none)
  | .read t :: rest, s, acc =>
    match readOne p t s with
    | .ok (v, s') => runScript p rest s' (v.toSexp :: acc)
    | o => (acc.reverse, s, some o.cls)
  | _ :: _, s, acc => (acc.reverse, s, some "unsupported")

def normFor (p : Proto) (v : TVal) : TVal := if p == .cmp then Compact.norm v else v

def answer (items : List Sexp) : Option String := do
  let verb ← items.head? >>= Sexp.asAtom
  match verb with
  | "w" | "rt" =>
    let p ← items[1]? >>= Sexp.asAtom >>= Proto.of
    let buf ← items[2]? >>= Sexp.asAtom
    let api ← items[3]? >>= Sexp.asAtom >>= apiOf
    let vals ← (items.drop 4).mapM TVal.ofSexp
    match writeAll p buf api vals with
    | .ok w =>
      if verb == "w" then
        pure s!"ok {hexOrDash w.bytes} {csv w.perOp} z={w.z}"
      else
        let script := vals.map fun v => Step.read v.ttype
        let (outs, s, e) := runScript p script { bs := w.bytes } []
        match e with
        | some c => pure s!"{c} {hexOrDash w.bytes} after={outs.length}"
        | none => pure s!"ok {hexOrDash w.bytes} | {" ".intercalate outs} | rem={s.bs.length}"
    | o => pure o.cls
  | "axm" =>
    -- the runtime's own Message impl (ApplicationException {1: message, 2: type}) at top level or nested as field `id` of
    -- {1: i32 7, id: <exception>, id+1: i64 9}: the bytes are the encoding of that value, the size their number
    let p ← items[1]? >>= Sexp.asAtom >>= Proto.of
    let msg ← items[3]? >>= Sexp.asHex
    let kind ← items[4]? >>= Sexp.asInt
    let oidA ← items[5]? >>= Sexp.asAtom
    let exv : TVal := .struct (.cons 1 (.bin msg) (.cons 2 (.i32 kind) .nil))
    let v ← if oidA == "-" then some exv else do
      let id ← items[5]? >>= Sexp.asInt
      pure (TVal.struct (.cons 1 (.i32 7) (.cons id exv (.cons (id + 1) (.i64 9) .nil))))
    match writeAll p "bm" .bytes [v] with
    | .ok w => pure s!"ok {hexOrDash w.bytes} size={w.bytes.length}"
    | o => pure o.cls
  | "lz" =>
    -- the size as the writer itself reports it: its own length machine, either zero_copy flag, the `*_len` twin of any string API
    -- (none of which changes the number: the model has one length machine per wire format)
    let p ← items[1]? >>= Sexp.asAtom >>= Proto.of
    let _ ← items[3]? >>= Sexp.asAtom >>= apiOf
    let vals ← (items.drop 4).mapM TVal.ofSexp
    match lenOps p (vals.flatMap TVal.ops) with
    | .ok ns => pure s!"ok {ns.sum} {csv ns}"
    | o => pure o.cls
  | "l" =>
    let p ← items[1]? >>= Sexp.asAtom >>= Proto.of
    let vals ← (items.drop 2).mapM TVal.ofSexp
    match lenOps p (vals.flatMap TVal.ops) with
    | .ok ns => pure s!"ok {ns.sum} {csv ns}"
    | o => pure o.cls
  | "r" =>
    let p ← items[1]? >>= Sexp.asAtom >>= Proto.of
    let input ← items[2]? >>= Sexp.asHex
    let script ← (items.drop 3).mapM stepOf
    let (outs, s, e) := runScript p script { bs := input } []
    match e with
    | some c => pure s!"{c} after={outs.length}"
    | none => pure s!"ok {" ".intercalate outs} rem={s.bs.length}"
  | "m" =>
    let p ← items[1]? >>= Sexp.asAtom >>= Proto.of
    let name ← items[2]? >>= Sexp.asHex
    let mt ← items[3]? >>= Sexp.asNat
    let seq ← items[4]? >>= Sexp.asInt
    match writeOps p [.msgBegin name mt seq, .msgEnd], lenOps p [.msgBegin name mt seq, .msgEnd] with
    | .ok per, .ok ns => pure s!"ok {hexOrDash per.flatten} len={ns.sum}"
    | .ok _, o => pure o.cls
    | o, _ => pure o.cls
  | _ => none

end Driver.Thrift
