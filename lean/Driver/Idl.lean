import PilotaModel.Base.Sexp
import PilotaModel.Idl.Parser
import PilotaModel.Idl.Printer
import PilotaModel.Idl.WF
/-
  Line-protocol verbs of track Idl (C15, C16).

    idl-parse <kind> <hex of UTF-8 text>            model parser on the text
        -> ok <remaining chars> <ast> | err | fail | panic | fuel
    idl-rt <file-ast> <layout> <hex text>           as `idl-parse file`, plus: is the text the model's
        -> <parse answer> render=<0|1> wf=<0|1>      `render layout ast`?  is the AST `File.wf`?
    idl-alnum <lo> <hi>                             `isAlnumU` over code points lo..hi-1
        -> ok <count> <checksum>
    idl-lower                                        characters whose lower-case form is "e"
        -> ok 69,101
-/
namespace Driver.Idl
open Pilota Pilota.Idl

/-! ### strings and AST as S-expressions -/

def hexStr (cs : List Char) : String := hexOrDash (String.ofList cs).toUTF8.toList

def textOfHex (x : Sexp) : Option (List Char) := do
  let bs ← x.asHex
  let s ← String.fromUTF8? (ByteArray.mk bs.toArray)
  pure s.toList

def sx (xs : List String) : String := "(" ++ " ".intercalate xs ++ ")"

def pathS (p : Path) : String := sx ("path" :: p.segments.map hexStr)
def annsS (a : Annotations) : String := sx ("anns" :: a.map fun x => sx [hexStr x.key, hexStr x.value])
def cppS : Option CppType → String
  | none => "none"
  | some l => sx ["cpp", hexStr l]

mutual
partial def tyS : Ty → String
  | .string => "string" | .void => "void" | .byte => "byte" | .bool => "bool" | .binary => "binary"
  | .i8 => "i8" | .i16 => "i16" | .i32 => "i32" | .i64 => "i64" | .double => "double" | .uuid => "uuid"
  | .list v c => sx ["list", typeS v, cppS c]
  | .set v c => sx ["set", typeS v, cppS c]
  | .map k v c => sx ["map", typeS k, typeS v, cppS c]
  | .path p => pathS p
partial def typeS : TypeA → String
  | .mk t a => sx ["type", tyS t, annsS a]
end

partial def cvS : ConstValue → String
  | .bool b => sx ["bool", if b then "1" else "0"]
  | .path p => pathS p
  | .string l => sx ["str", hexStr l]
  | .int n => sx ["int", toString n]
  | .double t => sx ["dbl", hexStr t]
  | .list xs => sx ("list" :: xs.map cvS)
  | .map kvs => sx ("map" :: kvs.map fun kv => sx [cvS kv.1, cvS kv.2])

def attrS : Attribute → String
  | .optional => "optional" | .required => "required" | .default => "default"

def fieldS (f : Field) : String :=
  sx ["field", toString f.id, hexStr f.name, attrS f.attr, typeS f.ty,
      (match f.dflt with | none => "none" | some c => cvS c), annsS f.annotations]

def structLikeS (kind : String) (s : StructLike) : String :=
  sx [kind, hexStr s.name, sx ("fields" :: s.fields.map fieldS), annsS s.annotations]

def enumValueS (v : EnumValue) : String :=
  sx ["ev", hexStr v.name, (match v.value with | none => "none" | some n => toString n), annsS v.annotations]

def fnS (f : Function) : String :=
  sx ["fn", hexStr f.name, (if f.oneway then "1" else "0"), typeS f.resultType,
      sx ("args" :: f.arguments.map fieldS), sx ("throws" :: f.throws.map fieldS), annsS f.annotations]

def itemS : Item → String
  | .include p => sx ["include", hexStr p]
  | .cppInclude p => sx ["cppinclude", hexStr p]
  | .namespace n => sx ["namespace", hexStr n.scope, pathS n.name,
      (match n.annotations with | none => "none" | some a => annsS a)]
  | .typedef t => sx ["typedef", typeS t.ty, hexStr t.alias, annsS t.annotations]
  | .constant c => sx ["const", hexStr c.name, typeS c.ty, cvS c.value, annsS c.annotations]
  | .enum e => sx ["enum", hexStr e.name, sx ("values" :: e.values.map enumValueS), annsS e.annotations]
  | .struct s => structLikeS "struct" s
  | .union s => structLikeS "union" s
  | .exception s => structLikeS "exception" s
  | .service s => sx ["service", hexStr s.name, (match s.ext with | none => "none" | some p => pathS p),
      sx ("fns" :: s.functions.map fnS), annsS s.annotations]

def fileS (f : File) : String :=
  sx ("file" :: (match f.package with | none => "none" | some p => pathS p) :: f.items.map itemS)

/-! ### reading an AST and a layout back (verb `idl-rt`) -/

def strOf (x : Sexp) : Option (List Char) := textOfHex x

def pathOf : Sexp → Option Path
  | .list (.atom "path" :: segs) => do pure ⟨← segs.mapM strOf⟩
  | _ => none

def annsOf : Sexp → Option Annotations
  | .list (.atom "anns" :: xs) => xs.mapM fun
    | .list [k, v] => do pure { key := ← strOf k, value := ← strOf v }
    | _ => none
  | _ => none

def cppOf : Sexp → Option (Option CppType)
  | .atom "none" => some none
  | .list [.atom "cpp", l] => do pure (some (← strOf l))
  | _ => none

mutual
partial def tyOf : Sexp → Option Ty
  | .atom "string" => some .string | .atom "void" => some .void | .atom "byte" => some .byte
  | .atom "bool" => some .bool | .atom "binary" => some .binary | .atom "i8" => some .i8
  | .atom "i16" => some .i16 | .atom "i32" => some .i32 | .atom "i64" => some .i64
  | .atom "double" => some .double | .atom "uuid" => some .uuid
  | .list [.atom "list", v, c] => do pure (.list (← typeOf v) (← cppOf c))
  | .list [.atom "set", v, c] => do pure (.set (← typeOf v) (← cppOf c))
  | .list [.atom "map", k, v, c] => do pure (.map (← typeOf k) (← typeOf v) (← cppOf c))
  | x => do pure (.path (← pathOf x))
partial def typeOf : Sexp → Option TypeA
  | .list [.atom "type", t, a] => do pure (.mk (← tyOf t) (← annsOf a))
  | _ => none
end

partial def cvOf : Sexp → Option ConstValue
  | .list [.atom "bool", .atom b] => some (.bool (b == "1"))
  | .list [.atom "str", l] => do pure (.string (← strOf l))
  | .list [.atom "int", n] => do pure (.int (← n.asInt))
  | .list [.atom "dbl", t] => do pure (.double (← strOf t))
  | .list (.atom "list" :: xs) => do pure (.list (← xs.mapM cvOf))
  | .list (.atom "map" :: kvs) => do
    pure (.map (← kvs.mapM fun
      | .list [k, v] => do pure (← cvOf k, ← cvOf v)
      | _ => none))
  | x => do pure (.path (← pathOf x))

def attrOf : Sexp → Option Attribute
  | .atom "optional" => some .optional | .atom "required" => some .required | .atom "default" => some .default
  | _ => none

def fieldOf : Sexp → Option Field
  | .list [.atom "field", id, name, attr, ty, dflt, anns] => do
    let d ← match dflt with
      | .atom "none" => pure none
      | x => do pure (some (← cvOf x))
    pure { id := ← id.asInt, name := ← strOf name, attr := ← attrOf attr, ty := ← typeOf ty, dflt := d,
           annotations := ← annsOf anns }
  | _ => none

def fieldsOf (tagName : String) : Sexp → Option (List Field)
  | .list (.atom t :: fs) => if t == tagName then fs.mapM fieldOf else none
  | _ => none

def structLikeOf (name fields anns : Sexp) : Option StructLike := do
  pure { name := ← strOf name, fields := ← fieldsOf "fields" fields, annotations := ← annsOf anns }

def enumValueOf : Sexp → Option EnumValue
  | .list [.atom "ev", name, v, anns] => do
    let value ← match v with
      | .atom "none" => pure none
      | x => do pure (some (← x.asInt))
    pure { name := ← strOf name, value := value, annotations := ← annsOf anns }
  | _ => none

def fnOf : Sexp → Option Function
  | .list [.atom "fn", name, .atom ow, ty, args, throws, anns] => do
    pure { name := ← strOf name, oneway := ow == "1", resultType := ← typeOf ty,
           arguments := ← fieldsOf "args" args, throws := ← fieldsOf "throws" throws, annotations := ← annsOf anns }
  | _ => none

def itemOf : Sexp → Option Item
  | .list [.atom "include", p] => do pure (.include (← strOf p))
  | .list [.atom "cppinclude", p] => do pure (.cppInclude (← strOf p))
  | .list [.atom "namespace", scope, name, anns] => do
    let a ← match anns with
      | .atom "none" => pure none
      | x => do pure (some (← annsOf x))
    pure (.namespace { scope := ← strOf scope, name := ← pathOf name, annotations := a })
  | .list [.atom "typedef", ty, alias, anns] => do
    pure (.typedef { ty := ← typeOf ty, alias := ← strOf alias, annotations := ← annsOf anns })
  | .list [.atom "const", name, ty, v, anns] => do
    pure (.constant { name := ← strOf name, ty := ← typeOf ty, value := ← cvOf v, annotations := ← annsOf anns })
  | .list [.atom "enum", name, .list (.atom "values" :: vs), anns] => do
    pure (.enum { name := ← strOf name, values := ← vs.mapM enumValueOf, annotations := ← annsOf anns })
  | .list [.atom "struct", n, f, a] => do pure (.struct (← structLikeOf n f a))
  | .list [.atom "union", n, f, a] => do pure (.union (← structLikeOf n f a))
  | .list [.atom "exception", n, f, a] => do pure (.exception (← structLikeOf n f a))
  | .list [.atom "service", name, ext, .list (.atom "fns" :: fs), anns] => do
    let e ← match ext with
      | .atom "none" => pure none
      | x => do pure (some (← pathOf x))
    pure (.service { name := ← strOf name, ext := e, functions := ← fs.mapM fnOf, annotations := ← annsOf anns })
  | _ => none

def fileOf : Sexp → Option File
  | .list (.atom "file" :: pkg :: items) => do
    let p ← match pkg with
      | .atom "none" => pure none
      | x => do pure (some (← pathOf x))
    pure { package := p, items := ← items.mapM itemOf }
  | _ => none

/-- `(lay (c <sep> <flag> piece…)…)`, piece = `(w hex)` | `(l hex)` | `(h hex)` | `(b hex)` -/
def pieceOf : Sexp → Option Piece
  | .list [.atom "w", t] => do pure (.ws (← strOf t))
  | .list [.atom "l", t] => do pure (.line (← strOf t))
  | .list [.atom "h", t] => do pure (.hash (← strOf t))
  | .list [.atom "b", t] => do pure (.block (← strOf t))
  | _ => none

def layoutOf : Sexp → Option Layout
  | .list (.atom "lay" :: cs) => cs.mapM fun
    | .list (.atom "c" :: sep :: .atom flag :: ps) => do
      pure { pieces := ← ps.mapM pieceOf, sep := ← sep.asNat, flag := flag == "1" }
    | _ => none
  | _ => none

/-! ### verbs -/

def prS {α} (show_ : α → String) : PR α → String
  | .ok a r => s!"ok {r.length} {show_ a}"
  | .err => "err"
  | .fail => "fail"
  | .panic _ => "panic"
  | .fuel => "fuel"

def parseKind (kind : String) (s : List Char) : Option String :=
  let d := s.length + 2
  match kind with
  | "file" => some (prS fileS (File.parse s))
  | "item" => some (prS itemS (Item.parse d s))
  | "type" => some (prS typeS (Type.parse d s))
  | "cv" => some (prS cvS (ConstValue.parse d s))
  | "field" => some (prS fieldS (Field.parse d s))
  | "fn" => some (prS fnS (Function.parse d s))
  | "ident" => some (prS (fun i => sx ["id", hexStr i]) (Ident.parse s))
  | "path" => some (prS pathS (Path.parse s))
  | "lit" => some (prS (fun l => sx ["lit", hexStr l]) (Literal.parse s))
  | "anns" => some (prS annsS (Annotations.parse s))
  | "int" => some (prS (fun n => sx ["int", toString n]) (IntConstant.parse s))
  | "dbl" => some (prS (fun t => sx ["dbl", hexStr t]) (DoubleConstant.parse s))
  | _ => none

def alnumScan (lo hi : Nat) : Nat × Nat := Id.run do
  let mut cnt := 0
  let mut sum := 0
  for cp in [lo:hi] do
    if cp < 0xD800 || (cp > 0xDFFF && cp < 0x110000) then
      if isAlnumU (Char.ofNat cp) then
        cnt := cnt + 1
        sum := (sum * 31 + cp) % 1000000007
  return (cnt, sum)

def lowerScan : List Nat := Id.run do
  let mut acc : List Nat := []
  for cp in [0:256] do
    if lowerEq (Char.ofNat cp) 'e' then acc := cp :: acc
  return acc.reverse

def answer (items : List Sexp) : Option String := do
  let verb ← items.head? >>= Sexp.asAtom
  match verb with
  | "idl-parse" =>
    let kind ← items[1]? >>= Sexp.asAtom
    let text ← items[2]? >>= textOfHex
    parseKind kind text
  | "idl-rt" =>
    let ast ← items[1]? >>= fileOf
    let lay ← items[2]? >>= layoutOf
    let text ← items[3]? >>= textOfHex
    let r := if (render lay ast) = text then "1" else "0"
    pure s!"{prS fileS (File.parse text)} render={r} wf={if ast.wf then "1" else "0"}"
  | "idl-wf" =>
    let ast ← items[1]? >>= fileOf
    pure s!"ok {" ".intercalate (ast.items.map fun i => if i.wf then "1" else "0")}"
  | "idl-alnum" =>
    let lo ← items[1]? >>= Sexp.asNat
    let hi ← items[2]? >>= Sexp.asNat
    let (c, s) := alnumScan lo hi
    pure s!"ok {c} {s}"
  | "idl-lower" => pure s!"ok {",".intercalate (lowerScan.map toString)}"
  | _ => none

end Driver.Idl
