import PilotaModel.Base.Sexp
/-  Line-protocol verbs of track Idl (stub: answers nothing yet). -/
namespace Driver.Idl
open Pilota

def answer (_items : List Sexp) : Option String := none

end Driver.Idl
