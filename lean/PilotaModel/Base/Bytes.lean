/-
  Base definitions shared by every model: byte strings, the outcome type with
  explicit panic branches, two's-complement fixed-width integers.
  Import-free (core only) so that the `pmodel` driver links as a `lean_exe`.
-/
namespace Pilota

abbrev Bytes := List UInt8

/-- Coarse error classes. T1 compares only `ok / err / depth / panic`. -/
inductive ErrKind where
  | invalid | eof | depth | badVersion | other
  deriving DecidableEq, Repr, Inhabited

/-- Outcome of a modelled Rust call.  `panic` is a Rust precondition violation
(`unwrap` on `None`, `split_to` past the end, overflow in a debug build, …);
`fuel` is exhaustion of the model's own recursion budget and never corresponds to
a Rust behaviour (theorems show it is not reached). -/
inductive Out (α : Type) where
  | ok (a : α)
  | err (k : ErrKind)
  | panic (site : String)
  | fuel
  deriving Repr, Inhabited

deriving instance DecidableEq for Out

namespace Out
@[inline] def bind {α β} (x : Out α) (f : α → Out β) : Out β :=
  match x with
  | .ok a => f a
  | .err k => .err k
  | .panic s => .panic s
  | .fuel => .fuel

instance : Monad Out where
  pure := .ok
  bind := Out.bind

@[simp] theorem bind_ok {α β} (a : α) (f : α → Out β) : (Out.ok a >>= f) = f a := rfl
@[simp] theorem bind_err {α β} (k) (f : α → Out β) : ((Out.err k : Out α) >>= f) = .err k := rfl
@[simp] theorem bind_panic {α β} (s) (f : α → Out β) : ((Out.panic s : Out α) >>= f) = .panic s := rfl
@[simp] theorem bind_fuel {α β} (f : α → Out β) : ((Out.fuel : Out α) >>= f) = .fuel := rfl
@[simp] theorem pure_eq {α} (a : α) : (pure a : Out α) = .ok a := rfl

def isPanic {α} : Out α → Bool
  | .panic _ => true
  | _ => false

def isOk {α} : Out α → Bool
  | .ok _ => true
  | _ => false

def cls {α} : Out α → String
  | .ok _ => "ok"
  | .err .depth => "depth"
  | .err _ => "err"
  | .panic _ => "panic"
  | .fuel => "fuel"
end Out

/-! ### Fixed-width integers -/

/-- `w` little-endian bytes of `n mod 256^w`. -/
def natToLE : Nat → Nat → Bytes
  | 0, _ => []
  | w+1, n => UInt8.ofNat (n % 256) :: natToLE w (n / 256)

def leToNat : Bytes → Nat
  | [] => 0
  | b :: bs => b.toNat + 256 * leToNat bs

def natToBE (w n : Nat) : Bytes := (natToLE w n).reverse
def beToNat (bs : Bytes) : Nat := leToNat bs.reverse

/-- unsigned representative of a two's-complement integer on `w` bytes (Rust `as uN`). -/
def toU (w : Nat) (i : Int) : Nat := (i % ((256 ^ w : Nat) : Int)).toNat

/-- signed reading of an unsigned `w`-byte number (Rust `as iN`). -/
def toS (w : Nat) (n : Nat) : Int :=
  if n % 256 ^ w < 256 ^ w / 2 then ((n % 256 ^ w : Nat) : Int)
  else ((n % 256 ^ w : Nat) : Int) - ((256 ^ w : Nat) : Int)

/-- `i` fits a signed `w`-byte integer. -/
def inS (w : Nat) (i : Int) : Prop := -((256 ^ w / 2 : Nat) : Int) ≤ i ∧ i < ((256 ^ w / 2 : Nat) : Int)

instance (w i) : Decidable (inS w i) := by unfold inS; exact inferInstance

inductive Endian where | be | le
  deriving DecidableEq, Repr

def encFixed (e : Endian) (w : Nat) (n : Nat) : Bytes :=
  match e with
  | .be => natToBE w n
  | .le => natToLE w n

def decFixed (e : Endian) (bs : Bytes) : Nat :=
  match e with
  | .be => beToNat bs
  | .le => leToNat bs

/-! ### hex -/

def hexDigit (n : Nat) : Char :=
  if n < 10 then Char.ofNat (48 + n) else Char.ofNat (87 + n)

def toHex (bs : Bytes) : String :=
  String.ofList (bs.flatMap fun b => [hexDigit (b.toNat / 16), hexDigit (b.toNat % 16)])

def hexVal (c : Char) : Option Nat :=
  if '0' ≤ c ∧ c ≤ '9' then some (c.toNat - 48)
  else if 'a' ≤ c ∧ c ≤ 'f' then some (c.toNat - 87)
  else if 'A' ≤ c ∧ c ≤ 'F' then some (c.toNat - 55)
  else none

def ofHexChars : List Char → Option Bytes
  | [] => some []
  | [_] => none
  | a :: b :: rest => do
    let x ← hexVal a
    let y ← hexVal b
    let r ← ofHexChars rest
    pure (UInt8.ofNat (x * 16 + y) :: r)

/-- `-` denotes the empty byte string on the wire protocol. -/
def ofHex (s : String) : Option Bytes :=
  if s == "-" then some [] else ofHexChars s.toList

def hexOrDash (bs : Bytes) : String := if bs.isEmpty then "-" else toHex bs

end Pilota
