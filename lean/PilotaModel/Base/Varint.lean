import PilotaModel.Base.Bytes
/-
  LEB128 varints and zig-zag, as `integer_encoding::VarInt` (4.0.2) implements
  them and as pilota's `VarIntProcessor` (thrift/varint_ext.rs) drives them.
-/
namespace Pilota

/-- `u64::encode_var`: 7 bits per byte, least significant group first. -/
def encVar (n : Nat) : Bytes :=
  if h : n < 128 then [UInt8.ofNat n]
  else UInt8.ofNat (n % 128 + 128) :: encVar (n / 128)
termination_by n
decreasing_by omega

/-- `required_encoded_space_unsigned`. -/
def varLen (n : Nat) : Nat :=
  if h : n < 128 then 1 else 1 + varLen (n / 128)
termination_by n
decreasing_by omega

/-- zig-zag of an `i64` (`(n << 1) ^ (n >> 63)`), arithmetically. -/
def zigzag (i : Int) : Nat := if 0 ≤ i then (2 * i).toNat else (-2 * i - 1).toNat

/-- `zigzag_decode` on a `u64`. -/
def unzigzag (n : Nat) : Int := if n % 2 = 0 then ((n / 2 : Nat) : Int) else -((n / 2 : Nat) : Int) - 1

/-- The value `u64::decode_var` computes from the gathered bytes (all groups, before
the truncation to 64 bits). -/
def varValue : Bytes → Nat
  | [] => 0
  | b :: bs => b.toNat % 128 + 128 * varValue bs

/-- `VarIntProcessor` loop: gather bytes until one has the MSB clear; at most
`maxsize` bytes may be pushed (`push` fails when `i ≥ maxsize`); end of input is an
error.  Returns the gathered bytes and the rest. -/
def gatherVar : (maxsize : Nat) → Bytes → Out (Bytes × Bytes)
  | 0, [] => .err .eof
  | 0, _ :: _ => .err .invalid          -- byte read, `push` refuses it
  | _+1, [] => .err .eof
  | m+1, b :: bs =>
    if b.toNat < 128 then .ok ([b], bs)
    else match gatherVar m bs with
      | .ok (g, r) => .ok (b :: g, r)
      | .err k => .err k
      | .panic s => .panic s
      | .fuel => .fuel

/-- `(size_of::<VI>() * 8 + 7) / 7`. -/
def varMaxSize (w : Nat) : Nat := (w * 8 + 7) / 7

/-- read an unsigned varint as a `w`-byte unsigned integer (`as uN` truncation). -/
def readVarU (w : Nat) (bs : Bytes) : Out (Nat × Bytes) :=
  match gatherVar (varMaxSize w) bs with
  | .ok (g, r) => .ok (varValue g % 2 ^ 64 % 256 ^ w, r)
  | .err k => .err k
  | .panic s => .panic s
  | .fuel => .fuel

/-- read a zig-zag varint as a `w`-byte signed integer (`as iN` truncation). -/
def readVarS (w : Nat) (bs : Bytes) : Out (Int × Bytes) :=
  match gatherVar (varMaxSize w) bs with
  | .ok (g, r) =>
    let z := unzigzag (varValue g % 2 ^ 64)
    .ok (toS w (toU w z), r)
  | .err k => .err k
  | .panic s => .panic s
  | .fuel => .fuel

end Pilota
