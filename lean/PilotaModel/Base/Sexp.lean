import PilotaModel.Base.Bytes
/-
  S-expressions for the line protocol (values, schemas, op scripts).
  Atoms are runs of non-blank, non-parenthesis characters.
-/
namespace Pilota

inductive Sexp where
  | atom (s : String)
  | list (xs : List Sexp)
  deriving Repr, Inhabited

namespace Sexp

partial def toStr : Sexp → String
  | .atom s => s
  | .list xs => "(" ++ " ".intercalate (xs.map toStr) ++ ")"

private def isDelim (c : Char) : Bool := c == '(' || c == ')' || c == ' ' || c == '\t' || c == '\n' || c == '\r'

private def takeAtom : List Char → List Char → (List Char × List Char)
  | acc, [] => (acc.reverse, [])
  | acc, c :: cs => if isDelim c then (acc.reverse, c :: cs) else takeAtom (c :: acc) cs

/-- parse a sequence of s-expressions up to a closing parenthesis or end of input.
Returns the items, the rest, and whether a `)` ended the sequence. -/
partial def parseSeq (cs : List Char) (acc : List Sexp) : Option (List Sexp × List Char × Bool) :=
  match cs with
  | [] => some (acc.reverse, [], false)
  | c :: rest =>
    if c == ' ' || c == '\t' || c == '\n' || c == '\r' then parseSeq rest acc
    else if c == ')' then some (acc.reverse, rest, true)
    else if c == '(' then
      match parseSeq rest [] with
      | some (xs, rest', true) => parseSeq rest' (.list xs :: acc)
      | _ => none
    else
      let (a, rest') := takeAtom [] (c :: rest)
      parseSeq rest' (.atom (String.ofList a) :: acc)

/-- parse a whole line into top-level items. -/
def parseLine (s : String) : Option (List Sexp) :=
  match parseSeq s.toList [] with
  | some (xs, _, false) => some xs
  | _ => none

def asAtom : Sexp → Option String
  | .atom s => some s
  | _ => none

def asNat (x : Sexp) : Option Nat := x.asAtom >>= String.toNat?
def asInt (x : Sexp) : Option Int := x.asAtom >>= String.toInt?
def asHex (x : Sexp) : Option Bytes := x.asAtom >>= ofHex

end Sexp
end Pilota
