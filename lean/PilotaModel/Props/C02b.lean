import PilotaModel.Props.C02
import PilotaModel.Lemmas.KeepRT
/-
  C02, restated over typed values.  `Props/C02.gen_roundtrip_*` quantify over `Canon` values (fixpoints of the decoder's
  projection at some budget); here the hypothesis is the structural, decidable predicate `hasTy` (TGen/Typed.lean: "a value of
  the declared type as the emitted encoder writes it") and the budget is quantified away: for every document with distinct field
  ids per struct, every declared type, every typed Rust value and all trailing input, the emitted decoder maps the emitted
  encoder's bytes back to exactly that value and leaves the trailing input - for every sufficiently large recursion budget of the
  model (the emitted code has none).
-/
namespace Pilota.Props.C02b
open Pilota Pilota.Thrift Pilota.TGen

/-- binary, little-endian binary, unchecked binary -/
theorem gen_roundtrip_typed_binary (e : Endian) (dp : Option Nat) (hed : EndianOk e dp) (d : Doc) (hd : d.fieldsOk)
    (f : Nat) (ty : STy) (v : TVal) (ht : hasTy d f ty v = true) (hw : v.wt = true) (rest : Bytes) :
    ∃ G, ∀ g, G ≤ g → decTy (binRd e dp) d g ty (Binary.enc e v ++ rest) = .ok (v, rest) := by
  obtain ⟨G, hG⟩ := canon_of_hasTy d dp hd f ty v ht
  refine ⟨G, fun g hg => ?_⟩
  have := (corr_all e dp d hed g).1 ty v rest (.ok v) hw (projTy_mono d dp G g hg ty v v hG)
  simpa [withRest, mapOut] using this

/-- compact, from every reader state without a deferred bool; the reader state is restored -/
theorem gen_roundtrip_typed_compact (d : Doc) (hd : d.fieldsOk) (f : Nat) (ty : STy) (v : TVal) (ht : hasTy d f ty v = true)
    (hw : v.wt = true) (cr : Compact.CR) (hcr : cr.pendingBool = none) (rest : Bytes) :
    ∃ G, ∀ g, G ≤ g → decTy cmpRd d g ty (cr, Compact.enc v ++ rest) = .ok (v, (cr, rest)) := by
  obtain ⟨G, hG⟩ := canon_of_hasTy d dpC hd f ty v ht
  refine ⟨G, fun g hg => ?_⟩
  have := (corrC_all d g).1 ty v cr rest (.ok v) hw hcr (projTy_mono d dpC G g hg ty v v hG)
  simpa [withRestC, mapOut] using this

/-! non-vacuity: the demo value of Props/C02 is typed -/
example : hasTy Pilota.Props.C02.demoDoc 6 (.ref "S") Pilota.Props.C02.demoVal = true ∧ Pilota.Props.C02.demoVal.wt = true := by decide +kernel

end Pilota.Props.C02b
