import PilotaModel.Props.C01
import PilotaModel.Props.Tables
import PilotaModel.Lemmas.SkipRead
import PilotaModel.Lemmas.IterSkip
/-
  C07 — Skipping a Thrift value consumes exactly that value.
  Property theorems only; helper lemmas live in `PilotaModel/Lemmas/{SkipTotal,SkipPrims,SkipRead,IterSkip}`.

  Skippers (model in `Thrift/Skip.lean`):
    `Skip.skip e`        default recursive `skip_till_depth` of thrift/mod.rs on the binary (e = be) / LE reader
    `Skip.cskip`         the compact reader's own `skip_till_depth` (count = bytes before − after)
    `Skip.askipBinary`   the async skipper of mod.rs over the async binary reader, fully delivered stream
    `Skip.askipCompact`  the async skipper over the async compact reader
    `Skip.iterSkip`      the unchecked reader's iterative skipper (explicit stack machine); no depth argument
  Depth budgets are `Int`s holding the `i8` argument; theorems take `0 ≤ d` (`skip` passes 64).
-/
namespace Pilota.Props.C07
open Pilota Pilota.Thrift

/-! ### on EVERY input the reader accepts: a skipper consumes exactly what the reader consumes -/

/-- Binary / LE, every byte string `bs` (not only canonical encodings): wherever the reading
interpreter returns a value `v` and rest `r`, skipping with a budget that covers the nesting of `v`
returns `r` as well and reports exactly the number of bytes in between; with a smaller budget it
is refused with the depth-limit error. -/
theorem skip_consumes_what_read_consumes (e : Endian) (t : TType) (bs : Bytes) (v : TVal) (r : Bytes) (d : Int) (hd : 0 ≤ d)
    (h : Binary.read e t bs = .ok (v, r)) :
    Skip.skip e d t bs = if (v.need : Int) ≤ d then .ok (bs.length - r.length, r) else .err .depth := by
  unfold Binary.read at h
  unfold Skip.skip
  have := (Skip.skip_of_read e (3 * bs.length + 3)).1 d t bs hd
  rw [h] at this
  simpa [Skip.spec] using this

/-- the same for the compact reader's skipper, from every reader state; the state afterwards is
the state the reader would be in. -/
theorem compact_skip_consumes_what_read_consumes (t : TType) (s : Compact.CR) (bs : Bytes) (v : TVal) (s' : Compact.CR) (r : Bytes)
    (d : Int) (hd : 0 ≤ d) (h : Compact.read t s bs = .ok (v, s', r)) :
    Skip.cskip d t s bs = if (v.need : Int) ≤ d then .ok (bs.length - r.length, s', r) else .err .depth := by
  unfold Compact.read at h
  unfold Skip.cskip Skip.cskipVal
  have := (Skip.rdSkip_of_read _ Skip.compactPrims_like (3 * bs.length + 3)).1 d t s bs hd
  rw [h] at this
  simp only [Skip.specC, Int.add_zero] at this
  rw [this]
  by_cases hn : (v.need : Int) ≤ d <;> simp [hn]

/-- the count a successful skip reports is the number of bytes it consumed, on every input. -/
theorem skip_count_exact (e : Endian) (d : Int) (t : TType) (bs : Bytes) (k : Nat) (r : Bytes)
    (h : Skip.skip e d t bs = .ok (k, r)) : k + r.length = bs.length ∧ 1 ≤ k := by
  have := (Skip.skipVal_count e (3 * bs.length + 3)).1 d t bs k r h
  omega

/-! ### on encodings: exact consumption, reported count, reader state restored -/

/-- Binary / LE: skipping what the op sequence of a well-typed value wrote, followed by any bytes,
with any budget covering the value's nesting, reports the encoded length and leaves exactly the
trailing bytes. -/
theorem skip_exact (e : Endian) (v : TVal) (hw : v.wt = true) (d : Int) (hd : (v.need : Int) ≤ d) (r : Bytes) :
    Skip.skip e d v.ttype (Binary.run e v.ops ++ r) = .ok ((Binary.run e v.ops).length, r) := by
  have h0 : 0 ≤ d := by have := Skip.TVal.need_pos v; omega
  have := skip_consumes_what_read_consumes e v.ttype _ v r d h0 (C01.binary_roundtrip e v hw r)
  rw [this]; simp [hd]

/-- Nesting deeper than the budget is refused with the depth-limit error (binary / LE). -/
theorem skip_depth (e : Endian) (v : TVal) (hw : v.wt = true) (d : Int) (h0 : 0 ≤ d) (hd : d < (v.need : Int)) (r : Bytes) :
    Skip.skip e d v.ttype (Binary.run e v.ops ++ r) = .err .depth := by
  have := skip_consumes_what_read_consumes e v.ttype _ v r d h0 (C01.binary_roundtrip e v hw r)
  rw [this]; simp; omega

/-- …in particular `skip()`, which passes `MAXIMUM_SKIP_DEPTH` (T2: 64), refuses nesting 65. -/
theorem skip_default_limit (e : Endian) (v : TVal) (hw : v.wt = true) (hd : Gen.Tables.maximumSkipDepth < v.need) (r : Bytes) :
    Skip.skip e Gen.Tables.maximumSkipDepth v.ttype (Binary.run e v.ops ++ r) = .err .depth :=
  skip_depth e v hw _ (by simp) (by omega) r

/-- What follows a skipped value decodes as if the skipped value had never been there. -/
theorem skip_then_read (e : Endian) (v w : TVal) (hv : v.wt = true) (hw : w.wt = true) (d : Int) (hd : (v.need : Int) ≤ d) (r : Bytes) :
    ∃ rest, Skip.skip e d v.ttype (Binary.run e v.ops ++ (Binary.run e w.ops ++ r)) = .ok ((Binary.run e v.ops).length, rest) ∧
      Binary.read e w.ttype rest = .ok (w, r) :=
  ⟨_, skip_exact e v hv d hd _, C01.binary_roundtrip e w hw r⟩

/-- Compact: from any writer state without a deferred bool and any reader state without a pending
bool, skipping the written value reports its length, leaves the trailing bytes, and leaves the
reader state (last field id, field-id stack) as it was. -/
theorem compact_skip_exact (v : TVal) (hw : v.wt = true) (ws : Compact.CW) (hp : ws.pending = none) (d : Int) (hd : (v.need : Int) ≤ d) :
    ∃ bs, Compact.run ws v.ops = .ok (ws, bs) ∧
      ∀ (rs : Compact.CR), rs.pendingBool = none → ∀ r : Bytes,
        Skip.cskip d v.ttype rs (bs ++ r) = .ok (bs.length, rs, r) := by
  obtain ⟨bs, h1, h2⟩ := C01.compact_roundtrip v hw ws hp
  refine ⟨bs, h1, fun rs hr r => ?_⟩
  have h0 : 0 ≤ d := by have := Skip.TVal.need_pos v; omega
  have := compact_skip_consumes_what_read_consumes v.ttype rs _ _ rs r d h0 (h2 rs hr r)
  rw [this, Skip.need_norm]; simp [hd]

theorem compact_skip_depth (v : TVal) (hw : v.wt = true) (ws : Compact.CW) (hp : ws.pending = none) (d : Int) (h0 : 0 ≤ d) (hd : d < (v.need : Int)) :
    ∃ bs, Compact.run ws v.ops = .ok (ws, bs) ∧
      ∀ (rs : Compact.CR), rs.pendingBool = none → ∀ r : Bytes, Skip.cskip d v.ttype rs (bs ++ r) = .err .depth := by
  obtain ⟨bs, h1, h2⟩ := C01.compact_roundtrip v hw ws hp
  refine ⟨bs, h1, fun rs hr r => ?_⟩
  have := compact_skip_consumes_what_read_consumes v.ttype rs _ _ rs r d h0 (h2 rs hr r)
  rw [this, Skip.need_norm]; simp; omega

theorem compact_skip_then_read (v w : TVal) (hv : v.wt = true) (hw : w.wt = true) (ws : Compact.CW) (hp : ws.pending = none)
    (d : Int) (hd : (v.need : Int) ≤ d) :
    ∃ b1 b2, Compact.run ws v.ops = .ok (ws, b1) ∧ Compact.run ws w.ops = .ok (ws, b2) ∧
      ∀ (rs : Compact.CR), rs.pendingBool = none → ∀ r : Bytes,
        Skip.cskip d v.ttype rs (b1 ++ (b2 ++ r)) = .ok (b1.length, rs, b2 ++ r) ∧
        Compact.read w.ttype rs (b2 ++ r) = .ok (Compact.norm w, rs, r) := by
  obtain ⟨b1, h1, h2⟩ := compact_skip_exact v hv ws hp d hd
  obtain ⟨b2, h3, h4⟩ := C01.compact_roundtrip w hw ws hp
  exact ⟨b1, b2, h1, h3, fun rs hr r => ⟨h2 rs hr _, h4 rs hr r⟩⟩

/-! ### the async skipper (stream fully delivered) -/

/-- async binary: the stream position after the skip is exactly past the value.  `hlen`: the
delivered bytes number fewer than 2^63 (true of every buffer a Rust program can hold). -/
theorem async_binary_skip_exact (v : TVal) (hw : v.wt = true) (d : Int) (hd : (v.need : Int) ≤ d) (r : Bytes)
    (hlen : (Binary.run .be v.ops ++ r).length < 2 ^ 63) :
    Skip.askipBinary d v.ttype (Binary.run .be v.ops ++ r) = .ok ((), r) := by
  have h0 : 0 ≤ d := by have := Skip.TVal.need_pos v; omega
  have hr := C01.binary_roundtrip .be v hw r
  unfold Binary.read at hr
  unfold Skip.askipBinary
  have := (Skip.askip_of_read (3 * (Binary.run .be v.ops ++ r).length + 3)).1 d v.ttype _ h0 hlen
  rw [hr] at this
  rw [this]; simp [Skip.specU, hd]

theorem async_binary_skip_depth (v : TVal) (hw : v.wt = true) (d : Int) (h0 : 0 ≤ d) (hd : d < (v.need : Int)) (r : Bytes)
    (hlen : (Binary.run .be v.ops ++ r).length < 2 ^ 63) :
    Skip.askipBinary d v.ttype (Binary.run .be v.ops ++ r) = .err .depth := by
  have hr := C01.binary_roundtrip .be v hw r
  unfold Binary.read at hr
  unfold Skip.askipBinary
  have := (Skip.askip_of_read (3 * (Binary.run .be v.ops ++ r).length + 3)).1 d v.ttype _ h0 hlen
  rw [hr] at this
  rw [this]; simp [Skip.specU]; omega

/-- async compact: position past the value, reader state restored. -/
theorem async_compact_skip_exact (v : TVal) (hw : v.wt = true) (ws : Compact.CW) (hp : ws.pending = none) (d : Int) (hd : (v.need : Int) ≤ d) :
    ∃ bs, Compact.run ws v.ops = .ok (ws, bs) ∧
      ∀ (rs : Compact.CR), rs.pendingBool = none → ∀ r : Bytes,
        Skip.askipCompact d v.ttype rs (bs ++ r) = .ok (rs, r) := by
  obtain ⟨bs, h1, h2⟩ := C01.compact_roundtrip v hw ws hp
  refine ⟨bs, h1, fun rs hr r => ?_⟩
  have h0 : 0 ≤ d := by have := Skip.TVal.need_pos v; omega
  have hrd := h2 rs hr r
  unfold Compact.read at hrd
  unfold Skip.askipCompact
  have := (Skip.rdSkip_of_read _ Skip.asyncCompactPrims_like (3 * (bs ++ r).length + 3)).1 d v.ttype rs (bs ++ r) h0
  rw [hrd] at this
  rw [this]; simp [Skip.specC, Skip.need_norm, hd]

theorem async_compact_skip_depth (v : TVal) (hw : v.wt = true) (ws : Compact.CW) (hp : ws.pending = none) (d : Int) (h0 : 0 ≤ d) (hd : d < (v.need : Int)) :
    ∃ bs, Compact.run ws v.ops = .ok (ws, bs) ∧
      ∀ (rs : Compact.CR), rs.pendingBool = none → ∀ r : Bytes, Skip.askipCompact d v.ttype rs (bs ++ r) = .err .depth := by
  obtain ⟨bs, h1, h2⟩ := C01.compact_roundtrip v hw ws hp
  refine ⟨bs, h1, fun rs hr r => ?_⟩
  have hrd := h2 rs hr r
  unfold Compact.read at hrd
  unfold Skip.askipCompact
  have := (Skip.rdSkip_of_read _ Skip.asyncCompactPrims_like (3 * (bs ++ r).length + 3)).1 d v.ttype rs (bs ++ r) h0
  rw [hrd] at this
  rw [this]; simp [Skip.specC, Skip.need_norm]; omega

/-! ### the unchecked reader's iterative skipper -/

/-- T2: the fast-path table of the iterative skipper holds, for every type, the width of the
binary encoding of the fixed-size types and 0 for the others… -/
theorem fixed_size_table_used (t : TType) : Skip.fixedSize t = .ok (Tables.fixedWidth t) := Skip.fixedSize_eq t

/-- …and that width is the length of what the binary writer writes for a value of that type. -/
theorem fixed_width_is_written_width (v : TVal) (hw : v.wt = true) (hf : 0 < Tables.fixedWidth v.ttype) :
    (Binary.run .be v.ops).length = Tables.fixedWidth v.ttype := by
  rw [Binary.run_ops]; exact Skip.enc_fixed_len v hw (by simpa [Skip.isFixed] using hf)

/-- Refinement of the stack machine to the value structure: for every well-typed value, at EVERY
nesting depth (the machine keeps its pending containers on a heap stack and ignores the depth
argument; DESIGN.md D19), the iterative skipper reports the encoded length and leaves exactly the
trailing bytes. -/
theorem iter_skip_exact (v : TVal) (hw : v.wt = true) (r : Bytes) :
    Skip.iterSkip v.ttype (Binary.run .be v.ops ++ r) = .ok ((Binary.run .be v.ops).length, r) := by
  rw [Binary.run_ops]; exact Skip.iterSkip_enc v hw r

theorem iter_skip_then_read (v w : TVal) (hv : v.wt = true) (hw : w.wt = true) (r : Bytes) :
    ∃ rest, Skip.iterSkip v.ttype (Binary.run .be v.ops ++ (Binary.run .be w.ops ++ r)) = .ok ((Binary.run .be v.ops).length, rest) ∧
      Binary.read .be w.ttype rest = .ok (w, r) :=
  ⟨_, iter_skip_exact v hv _, C01.binary_roundtrip .be w hw r⟩

/-! ### non-vacuity -/

/-- a struct holding a nested struct, a bool field, a `list<struct>`, a map with struct keys and
list values, a uuid: nesting need 4. -/
def witness : TVal :=
  .struct (.cons 1 (.struct (.cons 5 (.i32 1) .nil))
          (.cons 2 (.bool true)
          (.cons 3 (.list .struct (.cons (.struct (.cons 1 (.bin [1, 2]) .nil)) (.cons (.struct .nil) .nil)))
          (.cons 4 (.map .struct .list (.cons (.struct .nil) (.list .uuid (.cons (.uuid (List.replicate 16 7)) .nil)) .nil))
          (.cons 20 (.uuid (List.replicate 16 0)) .nil)))))

example : witness.wt = true := by decide
example : witness.need = 4 := by decide
example : ((witness.need : Int) ≤ 64) ∧ ((3 : Int) < witness.need) ∧ (0 : Int) ≤ 3 := by decide
example : (Binary.run .be witness.ops ++ [0xaa]).length < 2 ^ 63 := by decide
example : ({} : Compact.CW).pending = none ∧ ({} : Compact.CR).pendingBool = none := ⟨rfl, rfl⟩
example : Binary.read .be .bool [0x07, 0xaa] = .ok (.bool true, [0xaa]) := by rfl   -- a non-canonical bool the reader accepts
/-- a well-typed value nested deeper than the default budget. -/
def deep : Nat → TVal
  | 0 => .i8 1
  | n+1 => .list (deep n).ttype (.cons (deep n) .nil)
example : (deep 70).wt = true ∧ Gen.Tables.maximumSkipDepth < (deep 70).need := by decide +kernel
example : 0 < Tables.fixedWidth (TVal.i64 5).ttype := by decide

end Pilota.Props.C07
