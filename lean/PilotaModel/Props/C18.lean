import PilotaModel.Lemmas.PbInterleave
import PilotaModel.Props.C05
/-
  C18 — protobuf merge semantics: concatenation, last-wins, unknown fields ignored.
  `mergeVal` (Proto/Merge.lean) is the specification: singular scalars take the later value,
  repeated fields append, map entries are inserted (a later equal key replaces the value), a later
  oneof member replaces (the same message member merges), embedded messages merge field-wise.
-/
namespace Pilota.Props.C18
open Pilota Pilota.Proto

/-- decoding `a ++ b`, where `a` on its own parses as whole records, is decoding `a` and then
decoding `b` into the result — from any starting value, for any schema, any budget. -/
theorem merge_concat (s : Schema) (ctx i : Nat) (m : Slots) (a b : Bytes) (ha : (decodeIntoCtx s ctx i m a).isOk = true) :
    decodeIntoCtx s ctx i m (a ++ b) = (decodeIntoCtx s ctx i m a >>= fun m' => decodeIntoCtx s ctx i m' b) := by
  cases h : decodeIntoCtx s ctx i m a with
  | ok m' => rw [decodeIntoCtx_concat s ctx i m m' a b h]; rfl
  | err k => simp [h, Out.isOk] at ha
  | panic e => simp [h, Out.isOk] at ha
  | fuel => simp [h, Out.isOk] at ha

/-- `Message::merge` of the encoding of `y` into any value `x` of the struct is `mergeVal x y`. -/
theorem merge_is_mergeVal (s : Schema) (hs : WFSchema s = true) (flag : Bool) (i : Nat) (x y : Slots)
    (hy : HasType s flag i y) (hx : shapeSlots s (decls s i) x = true) :
    decodeInto s i x (encode s flag i y) = .ok (mergeVal s i x y) :=
  decodeInto_encode s flag hs i x y hy hx

/-- **decoding the concatenation of two encodings = merging the second value into the first.** -/
theorem decode_concat (s : Schema) (hs : WFSchema s = true) (flag : Bool) (i : Nat) (x y : Slots)
    (hx : HasType s flag i x) (hy : HasType s flag i y) :
    decode s i (encode s flag i x ++ encode s flag i y) = .ok (mergeVal s i x y) :=
  decode_concat_encode s flag hs i x y hx hy

/-- the clauses of the merge specification, as equations of `mergeVal` on one field. -/
theorem merge_rules (s : Schema) (t : Nat) (c : Codec) (x y : SVal) (xs ys : EVals) (kc : Codec) (vty : FTy) (kx ky : Pairs)
    (k : SVal) (v : EVal) :
    mergeValSlot s (.single t (.scalar c) false) (.req (.s x)) (.req (.s y)) = .req (.s y) ∧          -- last wins
    mergeValSlot s (.single t (.scalar c) true) (.some (.s x)) .none = .some (.s x) ∧                 -- absent: unchanged
    mergeValSlot s (.rep t (.scalar c)) (.rep xs) (.rep ys) = .rep (xs.append ys) ∧                   -- append, in order
    mergeValSlot s (.map t kc vty) (.map kx) (.map ky) = .map (insertAll kx ky) ∧                     -- insert each entry
    (Pairs.cons k v .nil).insert k (.s y) = .cons k (.s y) .nil ∧                                      -- equal key: replaced
    mergeValSlot s (.oneof [(1, .scalar c), (2, .scalar c)]) (.one 1 (.s x)) (.one 2 (.s y)) = .one 2 (.s y) := by  -- oneof: replaced
  refine ⟨rfl, rfl, rfl, rfl, ?_, ?_⟩
  · simp [Pairs.insert]
  · simp [mergeValSlot, lookupVariant, mergeValE]

/-- **unknown fields are ignored**: inserting (or deleting) a record whose field number the
struct does not declare — any wire type, groups included, as long as `skip_field` accepts the
record on its own within the budget — between two records leaves the result unchanged.
Stated for the record loop with a `limit` (what follows the enclosing length-delimited region):
`limit = 0` is the top level, any other value is a nested message or a map entry. -/
theorem unknown_ignored (s : Schema) (ctx : Nat) (ds : List FieldDecl) (m m' : Slots) (a b : Bytes) (tag : Nat)
    (wt : WireType) (payload : Bytes) (hal : m.length = ds.length) (hund : ∀ d ∈ ds, d.tags.contains tag = false)
    (h1 : minTag ≤ tag) (h2 : tag ≤ maxTag) (hsk : skipField ctx wt tag payload = .ok [])
    (fa : Nat) (ha : mergeLoopGo (fieldStep (mergeField s ctx) ds) fa m a 0 = .ok (m', []))
    (limit : Nat) (hl : limit ≤ b.length) (f : Nat) (hf : (a ++ (keyBytes tag wt ++ (payload ++ b))).length < f) :
    mergeLoopGo (fieldStep (mergeField s ctx) ds) f m (a ++ (keyBytes tag wt ++ (payload ++ b))) limit
      = mergeLoopGo (fieldStep (mergeField s ctx) ds) f m (a ++ b) limit :=
  unknown_ignored_loop s ctx ds m m' a b tag wt payload hal hund h1 h2 hsk fa ha limit hl f hf

/-- top level, in terms of `Message::merge`. -/
theorem unknown_ignored_top (s : Schema) (i : Nat) (m : Slots) (a b : Bytes) (tag : Nat) (wt : WireType) (payload : Bytes)
    (hal : m.length = (decls s i).length) (hund : ∀ d ∈ decls s i, d.tags.contains tag = false)
    (h1 : minTag ≤ tag) (h2 : tag ≤ maxTag) (hsk : skipField recursionLimit wt tag payload = .ok [])
    (ha : (decodeInto s i m a).isOk = true) :
    decodeInto s i m (a ++ (keyBytes tag wt ++ (payload ++ b))) = decodeInto s i m (a ++ b) := by
  unfold decodeInto decodeIntoCtx at ha ⊢
  cases hl : mergeLoopGo (fieldStep (mergeField s recursionLimit) (decls s i)) (a.length + 1) m a 0 with
  | ok p =>
    obtain ⟨m', r⟩ := p
    have hstep : StepOK (fieldStep (mergeField s recursionLimit) (decls s i)) := fieldStep_ok _ (mergeField_ok s _) _
    have hr : r = [] := by
      have g := mergeLoopGo_good _ hstep 0 (a.length + 1) m a (by omega)
      rw [hl] at g; simp only [Out.good] at g
      exact List.eq_nil_of_length_eq_zero g.2
    subst hr
    have := unknown_ignored_loop s recursionLimit (decls s i) m m' a b tag wt payload hal hund h1 h2 hsk _ hl 0 (Nat.zero_le _)
      ((a ++ (keyBytes tag wt ++ (payload ++ b))).length + 1) (by omega)
    rw [this]
    have hkp := keyBytes_pos tag wt
    rw [mergeLoopGo_fuel_indep _ hstep 0 ((a ++ (keyBytes tag wt ++ (payload ++ b))).length + 1) ((a ++ b).length + 1) m (a ++ b)
      (by simp only [List.length_append]; omega) (by omega)]
  | err k => simp [hl, Out.isOk] at ha
  | panic e => simp [hl, Out.isOk] at ha
  | fuel => simp [hl, Out.isOk] at ha

/-- **interleave**: every interleaving of the records of `encode x` and `encode y` in which each struct
field's records keep their order (picked out by field number(s) — a oneof counts as one field — they
are x's records followed by y's) decodes to `mergeVal x y`.  `Interleaved` says exactly that;
`recsSlot` are the records pilota's encoder writes for a field. -/
theorem interleave (s : Schema) (hs : WFSchema s = true) (flag : Bool) (i : Nat) (x y : Slots) (rs : List Spec.Rec)
    (hx : HasType s flag i x) (hy : HasType s flag i y) (hi : Interleaved s flag (decls s i) x y rs) :
    decode s i (Spec.flat rs) = .ok (mergeVal s i x y) :=
  decode_interleaved s flag hs i x y rs hx hy hi

/-- the plain concatenation `encode x ++ encode y` is one of these interleavings (so `decode_concat`
is an instance), and its bytes are the concatenated records. -/
theorem concat_is_interleaving (s : Schema) (hs : WFSchema s = true) (flag : Bool) (i : Nat) (x y : Slots)
    (hx : HasType s flag i x) (hy : HasType s flag i y) :
    Interleaved s flag (decls s i) x y (recsSlots s flag (decls s i) x ++ recsSlots s flag (decls s i) y) ∧
    Spec.flat (recsSlots s flag (decls s i) x ++ recsSlots s flag (decls s i) y) = encode s flag i x ++ encode s flag i y := by
  refine ⟨concat_interleaved s flag (decls s i) x y (decls_wf s hs i).2 (okSlots_shape s flag _ x hx.1) (okSlots_shape s flag _ y hy.1), ?_⟩
  rw [flat_append, flat_recsSlots s flag hs _ x hx.1, flat_recsSlots s flag hs _ y hy.1]
  rfl

/-! non-vacuity: unknown records of every wire type, a group with a nested group and a varint. -/
example : skipField recursionLimit .varint 9 [0x96, 0x01] = .ok [] := by rfl
example : skipField recursionLimit .i64 9 [1, 2, 3, 4, 5, 6, 7, 8] = .ok [] := by rfl
example : skipField recursionLimit .len 9 [0x02, 0xaa, 0xbb] = .ok [] := by rfl
example : skipField recursionLimit .i32 9 [1, 2, 3, 4] = .ok [] := by rfl
example : skipField recursionLimit .sgroup 9 [0x53, 0x08, 0x01, 0x54, 0x4c] = .ok [] := by rfl
example : HasType Props.C05.demoSchema false 0 Props.C05.demoMsg := by decide
example : WFSchema Props.C05.demoSchema = true := by decide
-- `Interleaved` is inhabited by the concatenation of a value's records with themselves
example : Interleaved Props.C05.demoSchema false (decls Props.C05.demoSchema 0) Props.C05.demoMsg Props.C05.demoMsg
    (recsSlots Props.C05.demoSchema false (decls Props.C05.demoSchema 0) Props.C05.demoMsg ++
     recsSlots Props.C05.demoSchema false (decls Props.C05.demoSchema 0) Props.C05.demoMsg) :=
  (concat_is_interleaving _ (by decide) false 0 _ _ (by decide) (by decide)).1

end Pilota.Props.C18
