import PilotaModel.Lemmas.PbSpecSound
import PilotaModel.Props.PbTables
/-
  C06 — pilota's protobuf wire format conforms to the protobuf encoding spec.
  `Spec.*` (Proto/Spec.lean, Proto/SpecExec.lean) is the independent reference written from the
  encoding guide; `Spec.lowerSchema` is pilota-build's lowering of declared field types to codec
  modules, tied to the generator's source by the T2 tables.
-/
namespace Pilota.Props.C06
open Pilota Pilota.Proto Pilota.Gen.Tables

/-- **codec selection**: for every scalar field type of the protobuf language, the module that
pilota-build's lowering pipeline selects — `lower_ty`, then resolve's `lower_type`, then the
first matching arm of `ty_module`, all three extracted from the source on this run — implements
the wire encoding the spec prescribes for that type (`module_conforms` says what "implements"
means).  sint32 / sint64 must reach the ZigZag modules: the theorem fails if their arms are
dropped, retagged or moved behind the plain `I32` / `I64` arms. -/
theorem codec_selection : ∀ t ∈ PType.all,
    moduleOfTables pbLowerTy pbResolve pbTyModule t = some (.codec t.codec) ∧ t.codec.wireClass = t ∧
      Spec.lowerTy (.scalar t) = .scalar t.codec := by
  decide

/-- enum fields are lowered to the `int32` module (varint of the sign-extended number), message
fields to `message` (length-delimited). -/
theorem enum_and_message_selection :
    firstArm .pathEnum none pbTyModule = some (.codec .int32) ∧ Spec.lowerTy .enum = .scalar .int32 ∧
    firstArm .pathAny none pbTyModule = some .message := by decide

/-- **every codec module conforms**: for every value of its Rust type it writes the wire type and
exactly the payload bytes the encoding guide prescribes for the declared type it implements
(varint with 64-bit sign extension for int32 / int64, ZigZag for sint32 / sint64, little-endian
fixed widths, IEEE bits, length-delimited strings and bytes). -/
theorem module_conforms (c : Codec) (v : SVal) (hv : c.ok v = true) :
    c.wt = Spec.wireOf c.wireClass ∧ c.encPayload v = Spec.encScalar c.wireClass v :=
  Pilota.Proto.module_conforms c v hv

/-- **first direction**: the bytes pilota's emitted encoder writes for a message are a conforming
encoding of the value under the declared schema — for every declared schema whose lowering is
well-formed, every message, every well-typed value, both settings of `pb-encode-default-value`. -/
theorem pilota_is_spec (ps : Spec.PSchema) (flag : Bool) (hs : WFSchema (Spec.lowerSchema ps) = true) (i : Nat) (m : Slots)
    (hm : HasType (Spec.lowerSchema ps) flag i m) :
    Spec.Enc ps i m (encode (Spec.lowerSchema ps) flag i m) :=
  encode_is_spec ps flag hs i m hm.1

/-- **second direction**: ANY conforming encoding of a value — fields in any order and interleaved,
repeated numeric fields packed, unpacked or split into several runs, implicit-presence fields and
map keys / values present or omitted when zero, map entries with key and value in either order —
is decoded by pilota's emitted decoder to that value.  (`HasType … true`: the value is one the
generated struct holds, map keys distinct, nesting within the recursion limit of 100.) -/
theorem pilota_reads_any_spec (ps : Spec.PSchema) (hs : WFSchema (Spec.lowerSchema ps) = true) (i : Nat) (m : Slots) (bs : Bytes)
    (henc : Spec.Enc ps i m bs) (hm : HasType (Spec.lowerSchema ps) true i m) :
    decode (Spec.lowerSchema ps) i bs = .ok m :=
  decode_reads_spec ps hs i m bs henc hm

/-- the executable checker `Spec.check` (generic wire parser with minimal keys and length prefixes,
then the per-field conditions of `Spec.Enc`) is sound for the relation: the encodings T1 feeds to
pilota after `Spec.check` accepted them are members of `Spec.Enc`. -/
theorem spec_check_sound (ps : Spec.PSchema) (i : Nat) (m : Slots) (bs : Bytes) (h : Spec.check ps i m bs = true) :
    Spec.Enc ps i m bs := Spec.check_sound ps i m bs h

/-- …and are therefore decoded by pilota to the value. -/
theorem checked_encoding_is_read (ps : Spec.PSchema) (hs : WFSchema (Spec.lowerSchema ps) = true) (i : Nat) (m : Slots) (bs : Bytes)
    (h : Spec.check ps i m bs = true) (hm : HasType (Spec.lowerSchema ps) true i m) :
    decode (Spec.lowerSchema ps) i bs = .ok m :=
  pilota_reads_any_spec ps hs i m bs (spec_check_sound ps i m bs h) hm

/-- the two directions together: what one pilota peer writes, any pilota peer reads (a corollary that
does not mention the reference — kept to show the reference relation is inhabited by real encodings). -/
theorem pilota_reads_pilota (ps : Spec.PSchema) (hs : WFSchema (Spec.lowerSchema ps) = true) (flag : Bool) (i : Nat) (m : Slots)
    (hm : HasType (Spec.lowerSchema ps) flag i m) (hm' : HasType (Spec.lowerSchema ps) true i m) :
    decode (Spec.lowerSchema ps) i (encode (Spec.lowerSchema ps) flag i m) = .ok m :=
  pilota_reads_any_spec ps hs i m _ (pilota_is_spec ps flag hs i m hm) hm'

/-! non-vacuity: a declared schema with sint32, string, a packed-able repeated enum, a map and a oneof. -/
def demoP : Spec.PSchema :=
  [[.single 1 (.scalar .sint32) false, .single 2 (.scalar .string) true, .rep 3 .enum,
    .map 4 .string (.msg 0), .oneof [(5, .scalar .double), (6, .msg 0)]]]
def demoV : Slots :=
  .cons (.req (.s (.int (-3)))) (.cons (.some (.s (.bs [0xc3, 0xa9])))
    (.cons (.rep (.cons (.s (.int 2)) (.cons (.s (.int (-1))) .nil)))
      (.cons (.map (.cons (.bs [0x6b]) (.msg (.cons (.req (.s (.int 0))) (.cons .none (.cons (.rep .nil) (.cons (.map .nil) (.cons .none .nil)))))) .nil))
        (.cons (.one 5 (.s (.f64 0x7ff8000000000001))) .nil))))
example : WFSchema (Spec.lowerSchema demoP) = true := by decide
example : HasType (Spec.lowerSchema demoP) false 0 demoV := by decide
example : HasType (Spec.lowerSchema demoP) true 0 demoV := by decide
example : Codec.sint32.ok (.int (-3)) = true := by decide

end Pilota.Props.C06
