import PilotaModel.Build.Emit
import PilotaModel.Lemmas.EmitAux
/-
  C17 — code generation is deterministic.
  The output assembly of pilota-build as a function of its input and of every source of unspecified
  order (hash-map iteration at each grouping, DashMap key iteration, rayon schedule): the result does
  not depend on any of them.  T1 checks the canonical order (`emit`) and the split file names
  (`splitNames`) against real output, and byte-identity of all emitted files across fresh processes
  (fresh hash seeds) and thread counts.
-/
namespace Pilota.Props.C17
open Pilota.Build

/-- the canonical child list is strictly increasing: sorted by name and free of duplicates. -/
theorem children_sorted (B : Nat) (keys : List Path) (base : Path) :
    (children B keys base).Pairwise (fun a b => natLe a b = true) := by
  unfold children
  apply List.Pairwise.filter
  have : (List.range B).Pairwise (· < ·) := List.pairwise_lt_range
  exact this.imp (fun h => by simp [natLe]; omega)

theorem children_nodup (B : Nat) (keys : List Path) (base : Path) : (children B keys base).Nodup := by
  unfold children
  exact List.Pairwise.sublist List.filter_sublist List.nodup_range

/-- sorting ANY arrangement of the children gives the canonical list. -/
theorem sort_any_order (B : Nat) (keys : List Path) (base : Path) (l : List Nat) (hp : List.Perm l (children B keys base)) :
    l.mergeSort natLe = children B keys base := by
  apply List.Perm.eq_of_pairwise (le := fun a b => natLe a b = true)
  · intro a b _ _ h1 h2; simp [natLe] at h1 h2; omega
  · exact List.pairwise_mergeSort natLe_trans natLe_total l
  · exact children_sorted B keys base
  · exact (List.mergeSort_perm l natLe).trans hp

/-- Whatever order each hash grouping yields its groups in, the emitted module tree is the canonical one. -/
theorem emit_order_free (B : Nat) (keys : List Path) (ord : Path → List Nat → List Nat)
    (hord : ∀ base l, List.Perm (ord base l) l) (f : Nat) (base : Path) :
    emitCode B keys ord f base = emit B keys f base := by
  induction f generalizing base with
  | zero => rfl
  | succ f ih =>
    simp only [emitCode, emit]
    rw [sort_any_order B keys base _ (hord base _)]
    congr 1
    apply flatMap_congr_left
    intro c _
    rw [ih]

/-- …and it does not depend on the order in which the keys of `pkgs` are enumerated either. -/
theorem emit_keys_order_free (B : Nat) (keys keys' : List Path) (hp : List.Perm keys keys') (f : Nat) (base : Path) :
    emit B keys f base = emit B keys' f base := by
  induction f generalizing base with
  | zero => rfl
  | succ f ih =>
    have hc : ∀ b, children B keys b = children B keys' b := by
      intro b
      unfold children
      apply List.filter_congr
      intro c _
      exact hp.any_eq
    have hk : keys.contains base = keys'.contains base := by
      simp only [List.contains_eq_any_beq]; exact hp.any_eq
    simp only [emit, hc, hk]
    congr 1
    apply flatMap_congr_left
    intro c _
    rw [ih]

/-- Task isolation: each rayon task writes only its own entry, so after all tasks ran — in any order —
entry `p` holds exactly the rendering of group `p`. -/
theorem tasks_schedule_free (render : Path → List Nat) (sched : List Path) (p : Path) :
    Build.lookup (runTasks render sched) p = if p ∈ sched then some (render p) else none := by
  unfold runTasks
  suffices h : ∀ (acc : List (Path × List Nat)),
      Build.lookup (sched.foldl (fun pkgs q => (pkgs.filter (·.1 != q)) ++ [(q, render q)]) acc) p =
        if p ∈ sched then some (render p) else Build.lookup acc p by
    have := h []
    simpa [Build.lookup] using this
  induction sched with
  | nil => intro acc; simp
  | cons q qs ih =>
    intro acc
    simp only [List.foldl_cons]
    rw [ih]
    by_cases hq : p ∈ qs
    · simp [hq]
    · simp only [hq, if_false, List.mem_cons]
      by_cases hpq : p = q
      · subst hpq
        simp only [Build.lookup, List.find?_append, lookup_filter_self]
        simp [List.find?]
      · simp only [hpq, or_self, if_false]
        rw [← lookup_filter_ne acc p q hpq]
        simp only [Build.lookup, List.find?_append]
        have h1 : List.find? (fun x => x.1 == p) [(q, render q)] = none := by
          have hqp : (q == p) = false := by simp [Ne.symm hpq]
          simp [List.find?, hqp]
        rw [h1]
        simp

theorem tasks_any_two_schedules (render : Path → List Nat) (s1 s2 : List Path) (hp : List.Perm s1 s2) (p : Path) :
    Build.lookup (runTasks render s1) p = Build.lookup (runTasks render s2) p := by
  rw [tasks_schedule_free, tasks_schedule_free]
  simp [hp.mem_iff]

/-- Split mode: the name chosen for an item depends on the set of names taken so far only through
membership, so the iteration order of that (hash) set is irrelevant. -/
theorem unique_name_order_free (ex ex' : List (List Nat)) (hp : List.Perm ex ex') (s : List Nat) (f c : Nat) :
    uniqueName ex s f c = uniqueName ex' s f c := by
  induction f generalizing c with
  | zero => rfl
  | succ f ih =>
    simp only [uniqueName]
    have : ∀ n, ex.contains n = ex'.contains n := by
      intro n; simp only [List.contains_eq_any_beq]; exact hp.any_eq
    rw [this, ih]

/-! non-vacuity: three modules a, a.b, c delivered in the order c, a.b, a -/
example : ∀ (base : Path) (l : List Nat), List.Perm ((fun (_ : Path) (l : List Nat) => l.reverse) base l) l :=
  fun _ l => List.reverse_perm l
example : emit 3 [[0], [0, 1], [2]] 3 [] =
    [.openMod 0, .text [0], .openMod 1, .text [0, 1], .closeMod, .closeMod, .openMod 2, .text [2], .closeMod] := by decide

end Pilota.Props.C17
