import PilotaModel.Lemmas.AsyncGen
import PilotaModel.Lemmas.AsyncGenConv
import PilotaModel.Lemmas.AsyncGenC
import PilotaModel.Lemmas.AsyncBinRV
import PilotaModel.Lemmas.AsyncCmpSkip
import PilotaModel.Lemmas.MsgSim
import PilotaModel.Lemmas.AsyncTotal
import PilotaModel.Props.C01
/-
  C12 — asynchronous decoding equals in-memory decoding for every delivery schedule.

  `Thrift/Async.lean`: a stream is a list of poll outcomes (pending / a non-empty ready chunk); the
  async protocols are resumable programs whose only contact with the reader is "gather n bytes".
  Runtime level (the dynamic reading interpreter over `TAsyncInputProtocol` and the async skipper);
  the emitted `decode_async` bodies are the generated-code track's.
  Hypothesis `bs.length < 2 ^ 63`: a Rust slice holds at most `isize::MAX` bytes (needed because a
  negative length / count is a huge `usize` for one reader and an error for the other).
-/
namespace Pilota.Props.C12
open Pilota Pilota.Thrift Pilota.Thrift.Async

/-- tokio's `read_exact` / `read_u8` / `read_iNN[_le]` see only the flattened bytes: the result is the
first `n` bytes (or `UnexpectedEof` when fewer exist) and what is left flattens to the rest —
chunk boundaries and `Pending` polls are unobservable. -/
theorem readExact_flat (n : Nat) (s : Stream) : flatOut (readExact n s) = Binary.takeN n (flat s) :=
  Async.readExact_flat n s

/-- pilota's `read_exact_to_vec` (`take(len).read_to_end` + length test) is `read_exact(len)`. -/
theorem readExactToVec_eq (n : Nat) (s : Stream) : readExactToVec n s = readExact n s :=
  Async.readExactToVec_eq n s

/-- every async program (any `async fn` of the protocols, the interpreter, the skipper): running it on
a stream is running it on the flattened bytes. -/
theorem run_flat {α} (p : Prog α) (s : Stream) : flatOut (runS p s) = runF p (flat s) := runS_flat p s

theorem pulled_flat {α} (p : Prog α) (s : Stream) : pulled s (runS p s) = pulledF (flat s) (runF p (flat s)) := by
  rw [← runS_flat]
  cases runS p s with
  | ok q => obtain ⟨a, s'⟩ := q; rfl
  | err k => rfl
  | panic m => rfl
  | fuel => rfl

/-- decoding and skipping from a stream depend only on the bytes the stream carries. -/
theorem asyncRead_flat (p : AProto) (t : TType) (s : Stream) : asyncRead p t s = asyncReadF p t (flat s) := by
  cases p <;> simp [asyncRead, asyncReadF, budget, pulled_flat]

theorem asyncSkip_flat (p : AProto) (d : Nat) (t : TType) (s : Stream) : asyncSkip p d t s = asyncSkipF p d t (flat s) := by
  cases p <;> simp [asyncSkip, asyncSkipF, budget, pulled_flat]

/-- CHUNK INDEPENDENCE: two delivery schedules of the same bytes (any chunk boundaries, any number of
spurious `Pending`s) give the same outcome — value, error kind, and number of bytes pulled. -/
theorem chunk_independent (p : AProto) (t : TType) (s s' : Stream) (h : flat s = flat s') :
    asyncRead p t s = asyncRead p t s' := by rw [asyncRead_flat, asyncRead_flat, h]

theorem chunk_independent_skip (p : AProto) (d : Nat) (t : TType) (s s' : Stream) (h : flat s = flat s') :
    asyncSkip p d t s = asyncSkip p d t s' := by rw [asyncSkip_flat, asyncSkip_flat, h]

/-- ASYNC = SYNC on success, and NO OVER-READ: if the in-memory decoder returns `v` leaving `rest`,
the async decoder returns `v` for every schedule of those bytes (with anything after them) and pulls
exactly the bytes the in-memory decoder consumed. -/
theorem async_eq_sync_ok (p : AProto) (t : TType) (bs : Bytes) (hb : bs.length < 2 ^ 63) (v : TVal) (rest : Bytes)
    (h : syncRead p t bs = .ok (v, rest)) (s : Stream) (hs : flat s = bs) :
    asyncRead p t s = .ok (v, bs.length - rest.length) := by
  rw [asyncRead_flat, hs]
  cases p with
  | bin e =>
    simp only [syncRead, Binary.read] at h
    simp [asyncReadF, ABin.readVal_of_sync e _ t bs hb v rest h, pulledF]
  | cmp =>
    simp only [syncRead, Compact.read] at h
    cases hx : Compact.readVal (3 * bs.length + 3) t {} bs with
    | ok q =>
      obtain ⟨v', s', r'⟩ := q
      simp only [hx, Out.ok.injEq, Prod.mk.injEq] at h
      obtain ⟨rfl, rfl⟩ := h
      simp [asyncReadF, runF_bind, ACmp.readVal_of_sync _ t {} bs v' s' r' hx, bindP, pulledF]
    | err k => simp [hx] at h
    | panic m => simp [hx] at h
    | fuel => simp [hx] at h

/-- the async decoder never pulls more bytes than the stream's message holds, whatever it returns. -/
theorem async_no_overread (p : AProto) (t : TType) (s : Stream) (v : TVal) (n : Nat)
    (h : asyncRead p t s = .ok (v, n)) : n ≤ (flat s).length := by
  rw [asyncRead_flat] at h
  cases p with
  | bin e =>
    simp only [asyncReadF] at h
    cases hx : runF (ABin.readVal e (3 * (flat s).length + 3) t) (flat s) with
    | ok q => obtain ⟨a, r⟩ := q; simp only [hx, pulledF, Out.ok.injEq, Prod.mk.injEq] at h; omega
    | err k => simp [hx, pulledF] at h
    | panic m => simp [hx, pulledF] at h
    | fuel => simp [hx, pulledF] at h
  | cmp =>
    simp only [asyncReadF] at h
    cases hx : runF ((ACmp.readVal (3 * (flat s).length + 3) t {}).bind fun (v, _) => .ret v) (flat s) with
    | ok q => obtain ⟨a, r⟩ := q; simp only [hx, pulledF, Out.ok.injEq, Prod.mk.injEq] at h; omega
    | err k => simp [hx, pulledF] at h
    | panic m => simp [hx, pulledF] at h
    | fuel => simp [hx, pulledF] at h

/-- converse of `async_eq_sync_ok`: whatever the async decoder accepts, the in-memory decoder accepts
with the same value, and the bytes pulled are the bytes it consumed. -/
theorem sync_ok_if_async_ok (p : AProto) (t : TType) (s : Stream) (hb : (flat s).length < 2 ^ 63) (v : TVal) (n : Nat)
    (h : asyncRead p t s = .ok (v, n)) :
    ∃ rest, syncRead p t (flat s) = .ok (v, rest) ∧ n = (flat s).length - rest.length := by
  rw [asyncRead_flat] at h
  cases p with
  | bin e =>
    simp only [asyncReadF] at h
    cases hx : runF (ABin.readVal e (3 * (flat s).length + 3) t) (flat s) with
    | ok q =>
      obtain ⟨a, r⟩ := q
      simp only [hx, pulledF, Out.ok.injEq, Prod.mk.injEq] at h
      obtain ⟨rfl, rfl⟩ := h
      exact ⟨r, by simpa [syncRead, Binary.read] using ABin.sync_of_readVal e _ t _ hb a r hx, rfl⟩
    | err k => simp [hx, pulledF] at h
    | panic m => simp [hx, pulledF] at h
    | fuel => simp [hx, pulledF] at h
  | cmp =>
    simp only [asyncReadF, runF_bind] at h
    cases hx : runF (ACmp.readVal (3 * (flat s).length + 3) t {}) (flat s) with
    | ok q =>
      obtain ⟨⟨a, s'⟩, r⟩ := q
      simp only [hx, bindP, ABin.runF_ret, pulledF, Out.ok.injEq, Prod.mk.injEq] at h
      obtain ⟨rfl, rfl⟩ := h
      have := ACmp.sync_of_readVal _ t {} _ hb (Or.inl rfl) a s' r hx
      exact ⟨r, by simp [syncRead, Compact.read, this], rfl⟩
    | err k => simp [hx, bindP, pulledF] at h
    | panic m => simp [hx, bindP, pulledF] at h
    | fuel => simp [hx, bindP, pulledF] at h

/-- the async decoder's recursion budget (the same `3·len + 3` as the in-memory readers') is never the
reason it stops: every value takes at least one byte. -/
theorem async_total (p : AProto) (t : TType) (s : Stream) :
    asyncRead p t s ≠ .fuel ∧ (asyncRead p t s).isPanic = false := by
  rw [asyncRead_flat]
  have lift : ∀ {α} (bs : Bytes) (x : Out (α × Bytes)), x ≠ .fuel → x.isPanic = false →
      pulledF bs x ≠ .fuel ∧ (pulledF bs x).isPanic = false := by
    intro α bs x h1 h2; cases x <;> simp_all [pulledF, Out.isPanic]
  cases p with
  | bin e => exact lift _ _ (ABin.readVal_total e _ t _ (Nat.le_refl _)) (runF_not_panic _ _)
  | cmp =>
    refine lift _ _ ?_ (runF_not_panic _ _)
    intro h
    rw [runF_bind, bindP_fuel] at h
    rcases h with h | ⟨_, _, _, h⟩
    · exact ACmp.readVal_total _ t {} _ (Or.inl rfl) (Nat.le_refl _) h
    · cases h

/-- ASYNC ERRS WHENEVER SYNC ERRS: if the in-memory decoder reports an error on `bs`, the async decoder
reports an error for every schedule of `bs` — it neither accepts, nor panics, nor runs out of budget —
although only the in-memory reader rejects a container count above the remaining bytes at the header
(f7447f5) while the async reader fails at end of stream. -/
theorem async_err_if_sync_err (p : AProto) (t : TType) (bs : Bytes) (hb : bs.length < 2 ^ 63) (k : ErrKind)
    (h : syncRead p t bs = .err k) (s : Stream) (hs : flat s = bs) : ∃ k', asyncRead p t s = .err k' := by
  obtain ⟨hnf, hnp⟩ := async_total p t s
  cases hx : asyncRead p t s with
  | ok q =>
    obtain ⟨v, n⟩ := q
    obtain ⟨rest, h1, _⟩ := sync_ok_if_async_ok p t s (by rw [hs]; exact hb) v n hx
    rw [hs, h] at h1; cases h1
  | err k' => exact ⟨k', rfl⟩
  | panic m => simp [hx, Out.isPanic] at hnp
  | fuel => exact absurd hx hnf

/-- THE ASYNC SKIPPER (thrift/mod.rs, uuid arm included): on any input the in-memory reading interpreter
accepts (value `v`, rest `rest`) and for any depth budget ≥ the value's nesting, skipping from any
schedule of those bytes succeeds and pulls exactly the value's bytes. -/
theorem async_skip_exact (p : AProto) (t : TType) (bs : Bytes) (hb : bs.length < 2 ^ 63) (v : TVal) (rest : Bytes)
    (h : syncRead p t bs = .ok (v, rest)) (d : Nat) (hd : v.need ≤ d) (s : Stream) (hs : flat s = bs) :
    asyncSkip p d t s = .ok ((), bs.length - rest.length) := by
  rw [asyncSkip_flat, hs]
  cases p with
  | bin e =>
    simp only [syncRead, Binary.read] at h
    simp [asyncSkipF, ABin.skip_of_sync e _ t bs hb v rest h d hd, pulledF]
  | cmp =>
    simp only [syncRead, Compact.read] at h
    cases hx : Compact.readVal (3 * bs.length + 3) t {} bs with
    | ok q =>
      obtain ⟨v', s', r'⟩ := q
      simp only [hx, Out.ok.injEq, Prod.mk.injEq] at h
      obtain ⟨rfl, rfl⟩ := h
      simp [asyncSkipF, runF_bind, ACmp.skip_of_sync _ t {} bs v' s' r' hx d hd, bindP, pulledF]
    | err k => simp [hx] at h
    | panic m => simp [hx] at h
    | fuel => simp [hx] at h

/-- message envelopes: the async `read_message_begin` of each protocol accepts exactly the inputs the
in-memory one accepts, with the same (name, type, seqid) and the same bytes left — for every schedule. -/
theorem async_msg_eq_sync (bs : Bytes) (hb : bs.length < 2 ^ 63) (s : Stream) (hs : flat s = bs) (q : (Bytes × Nat × Int) × Bytes) :
    (∀ e, flatOut (runS (ABin.readMessageBegin e) s) = .ok q ↔ Msg.readBeginBin e bs = .ok q) ∧
    (flatOut (runS ACmp.readMessageBegin s) = .ok q ↔ Msg.readBeginCmp bs = .ok q) := by
  constructor
  · intro e; rw [runS_flat, hs]; exact ABin.readMessageBegin_iff e bs hb q
  · rw [runS_flat, hs]; exact ACmp.readMessageBegin_iff bs q

/-- a well-typed value written by pilota is decoded asynchronously, from any schedule, to the same
value (compact: up to the key/value types of empty maps), pulling exactly its encoding. -/
theorem async_roundtrip_binary (e : Endian) (v : TVal) (hw : v.wt = true) (more : Bytes)
    (hb : (Binary.run e v.ops ++ more).length < 2 ^ 63) (s : Stream) (hs : flat s = Binary.run e v.ops ++ more) :
    asyncRead (.bin e) v.ttype s = .ok (v, (Binary.run e v.ops).length) := by
  have := async_eq_sync_ok (.bin e) v.ttype _ hb v more (by simpa [syncRead] using C01.binary_roundtrip e v hw more) s hs
  simpa using this

/-! ### non-vacuity -/

/-- `01 00 02` delivered as `[pending, 01, pending, pending, 00 02]` and as one chunk. -/
def sA : Stream := [.pending, .data 1 [], .pending, .pending, .data 0 [2]]
def sB : Stream := [.data 1 [0, 2]]
example : flat sA = flat sB := by decide
example : (flat sA).length < 2 ^ 63 := by decide
-- a struct {1: i8 5} read from `03 00 01 05 00 ff` in three chunks pulls 5 of the 6 bytes
example : (match asyncRead (.bin .be) .struct [.data 3 [0], .pending, .data 1 [5], .data 0 [0xff]] with
    | .ok (v, n) => v.wt && n == 5
    | _ => false) = true := by decide
-- a truncated stream is an error for both decoders
example : (match syncRead (.bin .be) .i32 [0, 0, 1], asyncRead (.bin .be) .i32 [.data 0 [0], .pending, .data 1 []] with
    | .err _, .err _ => true
    | _, _ => false) = true := by decide


/-! ### generated types: the emitted `decode_async` (binary and little-endian async protocols) -/
section Emitted
open Pilota.TGen

/-- the emitted async decoder depends only on the bytes the stream carries: any two delivery schedules of the same
bytes (chunk boundaries anywhere, any number of `Pending` polls) give the same value or error and pull the same number
of bytes — for every document and every declared type. -/
theorem emitted_async_chunk_independent (e : Endian) (d : Doc) (n : String) (s s' : Stream) (h : flat s = flat s') :
    adecode e d n s = adecode e d n s' := by
  simp only [adecode, pulled_flat, h]

/-- **emitted async = emitted in-memory on success, no over-read**: if the emitted `decode` of item `n` returns `v` from
`bs` leaving `rest`, the emitted `decode_async` returns `v` for every delivery schedule of `bs` and pulls exactly the
bytes the in-memory decoder consumed.  (`hb`: a Rust slice.  The converse is `emitted_async_ok_only_if_sync_ok`.) -/
theorem emitted_async_eq_sync_ok (e : Endian) (d : Doc) (n : String) (bs : Bytes) (hb : bs.length < 2 ^ 63) (v : TVal) (rest : Bytes)
    (h : decode (binRd e (some skipDepth)) d n bs = .ok (v, rest)) (s : Stream) (hs : flat s = bs) :
    adecode e d n s = .ok (v, bs.length - rest.length) := by
  simp only [adecode, pulled_flat, hs]
  unfold decode at h
  have hr : (binRd e (some skipDepth)).remaining bs = bs.length := rfl
  rw [hr] at h
  have := (adec_sim e d (3 * bs.length + 3) (3 * bs.length + 8)).1 (.ref n) bs v rest hb (Nat.le_refl _) h
  rw [this]
  rfl

/-- **emitted async succeeds only where emitted in-memory succeeds**: whatever the emitted `decode_async` returns from a
stream, the emitted `decode` returns from the stream's bytes, with exactly the pulled bytes consumed.  (Every decoded value
occupies at least one byte, so a container count the async decoder got through passes the in-memory readers' size check;
`askip_conv` is the same fact for the skippers.) -/
theorem emitted_async_ok_only_if_sync_ok (e : Endian) (d : Doc) (n : String) (s : Stream) (hb : (flat s).length < 2 ^ 63)
    (v : TVal) (k : Nat) (h : adecode e d n s = .ok (v, k)) :
    ∃ rest, decode (binRd e (some skipDepth)) d n (flat s) = .ok (v, rest) ∧ k = (flat s).length - rest.length := by
  simp only [adecode, pulled_flat] at h
  cases hr : runF (adecTy e d (3 * (flat s).length + 3) (3 * (flat s).length + 8) (.ref n)) (flat s) with
  | ok q =>
    obtain ⟨v', r⟩ := q
    rw [hr] at h
    simp only [pulledF, Out.ok.injEq, Prod.mk.injEq] at h
    obtain ⟨rfl, rfl⟩ := h
    have := ((adec_conv e d _ _).1 (.ref n) (flat s) v' r hb hr).2
    exact ⟨r, by unfold decode; exact this, rfl⟩
  | err x => rw [hr] at h; cases h
  | panic m => rw [hr] at h; cases h
  | fuel => rw [hr] at h; cases h

/-- **an error whenever the in-memory decoder reports one** (generated types, binary / LE): if the emitted `decode`
fails on the bytes, the emitted `decode_async` returns no value for any delivery schedule of them. -/
theorem emitted_async_err_if_sync_err (e : Endian) (d : Doc) (n : String) (s : Stream) (hb : (flat s).length < 2 ^ 63)
    (x : ErrKind) (h : decode (binRd e (some skipDepth)) d n (flat s) = .err x) :
    ∀ v k, adecode e d n s ≠ .ok (v, k) := by
  intro v k hk
  obtain ⟨rest, h1, _⟩ := emitted_async_ok_only_if_sync_ok e d n s hb v k hk
  rw [h] at h1; cases h1

/-- the two directions together: the emitted async decoder returns `v` having pulled `k` bytes exactly when the emitted
in-memory decoder returns `v` having consumed `k` bytes. -/
theorem emitted_async_eq_sync (e : Endian) (d : Doc) (n : String) (s : Stream) (hb : (flat s).length < 2 ^ 63) (v : TVal) (k : Nat) :
    adecode e d n s = .ok (v, k) ↔
      ∃ rest, decode (binRd e (some skipDepth)) d n (flat s) = .ok (v, rest) ∧ k = (flat s).length - rest.length := by
  constructor
  · exact emitted_async_ok_only_if_sync_ok e d n s hb v k
  · rintro ⟨rest, h1, rfl⟩
    exact emitted_async_eq_sync_ok e d n (flat s) hb v rest h1 s rfl

/-! compact async protocol -/

theorem emitted_async_compact_chunk_independent (d : Doc) (n : String) (s s' : Stream) (h : flat s = flat s') :
    adecodeC d n s = adecodeC d n s' := by
  simp only [adecodeC, pulled_flat, h]

/-- compact: if the emitted in-memory `decode` (fresh reader state) returns `v` leaving `rest`, the emitted `decode_async`
returns `v` for every delivery schedule and pulls exactly the bytes consumed.  Partial: the converse direction is proved for
the binary family only (`emitted_async_ok_only_if_sync_ok`); for compact it is checked by T1. -/
theorem emitted_async_compact_eq_sync_ok_partial (d : Doc) (n : String) (bs : Bytes) (v : TVal) (cr' : Compact.CR) (rest : Bytes)
    (h : decode cmpRd d n (({} : Compact.CR), bs) = .ok (v, (cr', rest))) (s : Stream) (hs : flat s = bs) :
    adecodeC d n s = .ok (v, bs.length - rest.length) := by
  simp only [adecodeC, pulled_flat, hs]
  unfold decode at h
  have hr : cmpRd.remaining (({} : Compact.CR), bs) = bs.length := rfl
  rw [hr] at h
  have := (adecC_sim d (3 * bs.length + 3) (3 * bs.length + 8)).1 (.ref n) {} bs v cr' rest (Nat.le_refl _) h
  rw [runF_bind, this]
  rfl

end Emitted
end Pilota.Props.C12
