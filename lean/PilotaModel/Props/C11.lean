import PilotaModel.Lemmas.UnsafeW
import PilotaModel.Lemmas.UnsafeR
import PilotaModel.Lemmas.MsgSim
import PilotaModel.Props.C01
/-
  C11 — the unchecked binary codec equals the checked one within its contract.

  The model (`Thrift/Unsafe.lean`) turns every unchecked access of binary_unsafe.rs into a guarded
  one that answers `.panic "oob"` outside the buffer.  "`= .ok …`" below therefore says two things:
  no access left the window / the input, and the result is the checked codec's.
  Runtime level only; the emitted `decode`/`encode` over the unchecked protocol is the C02 track's.
  The unchecked reader's iterative skipper is C07's (hook in `Thrift/Unsafe.lean`).
-/
namespace Pilota.Props.C11
open Pilota Pilota.Thrift Pilota.Thrift.Unsafe

/-- BytesMut-backed unchecked writer, any call sequence, any starting window: if the window has room
for the reported size the run succeeds (no write outside the window), `index` advances by exactly that
size, the bytes below `index` are the old ones followed by the checked writer's bytes, the window keeps
its length and nothing at or above the final `index` was touched (the guard bytes of the harness). -/
theorem uw_ops_safe_eq (ops : List Op) (hwf : ∀ o ∈ ops, o.wf = true) (w : Win) (h : w.idx + Len.binLen ops ≤ w.cap) :
    ∃ w', uwRun w ops = .ok w' ∧ w'.idx = w.idx + Len.binLen ops ∧
      w'.written = w.written ++ Binary.run .be ops ∧ w'.mem.drop w'.idx = w.mem.drop w'.idx ∧ w'.cap = w.cap := by
  obtain ⟨w', h1, e⟩ := uwRun_ok ops hwf w h
  exact ⟨w', h1, by rw [e.idx, Len.binLen_eq .be ops hwf], e.wr, e.tail, e.len⟩

/-- …for a well-typed value in a fresh window of at least `size` bytes: same bytes as the checked
writer, final index = their length. -/
theorem uw_safe_eq (v : TVal) (hw : v.wt = true) (cap : Nat) (h : Len.binLen v.ops ≤ cap) :
    ∃ w', uwRun (fresh cap) v.ops = .ok w' ∧ w'.written = Binary.run .be v.ops ∧
      w'.idx = (Binary.run .be v.ops).length ∧ w'.mem.drop w'.idx = List.replicate (cap - w'.idx) 0xAA := by
  obtain ⟨w', h1, hi, hwr, ht, _⟩ := uw_ops_safe_eq v.ops (TVal.ops_wf v hw) (fresh cap) (by simpa [fresh, Win.cap] using h)
  refine ⟨w', h1, by simpa [fresh, Win.written] using hwr, ?_, by simpa [fresh] using ht⟩
  rw [hi, Len.binLen_eq .be v.ops (TVal.ops_wf v hw)]; simp [fresh]

/-- the contract is needed: one byte short and the model's guard fires (the real code would write
past the window). -/
theorem uw_short_window_counterexample :
    (uwRun (fresh 6) (TVal.struct (.cons 1 (.i32 7) .nil)).ops).isPanic = true ∧
    Len.binLen (TVal.struct (.cons 1 (.i32 7) .nil)).ops = 8 := by decide

open Linked in
/-- LinkedBytes-backed unchecked writer (zero-copy on or off, any threshold, any string API), any
call sequence, any state whose window lies inside the transport's spare capacity: if the window has
room for the bytes that are *copied* (zero-copied payloads need none) the run succeeds — no write
outside the window, no `advance_mut` beyond the capacity — the transport ends up holding what it held
followed by the checked writer's bytes, `zero_copy_len` grew by the zero-copied payload lengths, and
the window is again inside the spare capacity. -/
theorem ulw_ops_safe_eq (zc : Bool) (thr : Nat) (api : StrApi) (ops : List Op) (hwf : ∀ o ∈ ops, o.wf = true)
    (s : LW) (hi : s.win.cap ≤ s.spare) (hx : s.win.idx ≤ s.win.cap)
    (h : s.win.idx + copyLenAll zc thr api ops ≤ s.win.cap) :
    ∃ s', ulwRun zc thr api s ops = .ok s' ∧ s'.out = s.out ++ Binary.run .be ops ∧
      s'.zlen = s.zlen + (ops.map (zcLen zc thr api)).sum ∧ s'.win.idx ≤ s'.win.cap ∧ s'.win.cap ≤ s'.spare := by
  obtain ⟨s', h1, st⟩ := ulwRun_ok zc thr api ops hwf s hi hx (by unfold LW.avail; omega)
  exact ⟨s', h1, st.out, st.zlen, st.ok, st.inv⟩

open Linked in
/-- the copied bytes never exceed the reported size, so a window of `size` bytes always suffices. -/
theorem copyLen_le_size (zc : Bool) (thr : Nat) (api : StrApi) (ops : List Op) :
    copyLenAll zc thr api ops ≤ Len.binLen ops := by
  induction ops with
  | nil => simp [copyLenAll, Len.binLen]
  | cons o os ih =>
    simp only [copyLenAll, Len.binLen, List.map_cons, List.sum_cons] at ih ⊢
    have : copyLen zc thr api o ≤ Len.binOp o := by
      cases o <;> simp [copyLen, Len.binOp] <;> split <;> omega
    omega

open Linked in
/-- value level: a LinkedBytes holding `pre` with `cap ≥ size` spare bytes. -/
theorem ulw_safe_eq (zc : Bool) (thr : Nat) (api : StrApi) (v : TVal) (hw : v.wt = true) (pre : Bytes) (cap : Nat)
    (h : Len.binLen v.ops ≤ cap) :
    ∃ s', ulwRun zc thr api (freshL pre cap) v.ops = .ok s' ∧ s'.out = pre ++ Binary.run .be v.ops ∧
      s'.zlen = (v.ops.map (zcLen zc thr api)).sum := by
  have hc := copyLen_le_size zc thr api v.ops
  obtain ⟨s', h1, ho, hz, _, _⟩ := ulw_ops_safe_eq zc thr api v.ops (TVal.ops_wf v hw) (freshL pre cap)
    (by simp [freshL, fresh, Win.cap]) (by simp [freshL, fresh]) (by simp [freshL, fresh, Win.cap]; omega)
  exact ⟨s', h1, by simpa [freshL, LW.out, fresh, Win.written] using ho, by simpa [freshL] using hz⟩

/-- Reader, against the checked reader on ARBITRARY input: whenever the checked big-endian reader
accepts (value `v`, rest `r`), the unchecked reader started anywhere inside a buffer whose unread part
is that input returns the same value without leaving the buffer, its unread part is `r`, its index is
still inside the buffer and `advanced + index` grew by exactly the bytes the checked reader consumed. -/
theorem ur_eq_checked (t : TType) (s : UR) (hv : s.idx ≤ s.bs.length) (v : TVal) (r : Bytes)
    (h : Binary.read .be t s.rest = .ok (v, r)) :
    ∃ s', Unsafe.read t s = .ok (v, s') ∧ s'.rest = r ∧ s'.idx ≤ s'.bs.length ∧
      s'.pos + r.length = s.pos + s.rest.length := by
  obtain ⟨s', h1, g⟩ := readVal_sim _ t s hv v r h
  exact ⟨s', h1, g.rest, g.valid, g.pos⟩

/-- …hence on the encoding of a well-typed value followed by anything: the value, exactly its length
consumed, never an index at or beyond `len`. -/
theorem ur_safe_eq (v : TVal) (hw : v.wt = true) (r : Bytes) :
    ∃ s', Unsafe.read v.ttype { bs := Binary.run .be v.ops ++ r } = .ok (v, s') ∧ s'.rest = r ∧
      s'.pos = (Binary.run .be v.ops).length ∧ s'.idx ≤ s'.bs.length := by
  obtain ⟨s', h1, hr, hv, hp⟩ := ur_eq_checked v.ttype { bs := Binary.run .be v.ops ++ r } (by simp) v r
    (by simpa [UR.rest] using C01.binary_roundtrip .be v hw r)
  refine ⟨s', h1, hr, ?_, hv⟩
  have e : ({ bs := Binary.run .be v.ops ++ r } : UR).rest = Binary.run .be v.ops ++ r := by simp [UR.rest]
  have e2 : ({ bs := Binary.run .be v.ops ++ r } : UR).pos = 0 := by simp [UR.pos]
  rw [e, e2, List.length_append] at hp; omega

/-- `advanced + index` = bytes consumed by the checked reader at EVERY API boundary: each reader
primitive, whenever its checked twin accepts, succeeds with the same result and the same accounting. -/
theorem ur_consumed (s : UR) (hv : s.idx ≤ s.bs.length) :
    (∀ w n r, Binary.readI .be w s.rest = .ok (n, r) → ∃ s', readI w s = .ok (n, s') ∧ Good s r s') ∧
    (∀ n r, Binary.readU .be 8 s.rest = .ok (n, r) → ∃ s', readU 8 s = .ok (n, s') ∧ Good s r s') ∧
    (∀ b r, Binary.takeN 16 s.rest = .ok (b, r) → ∃ s', peek s 16 = .ok (b, s') ∧ Good s r s') ∧
    (∀ b r, Binary.readBytes .be s.rest = .ok (b, r) → ∃ s', readBytes s = .ok (b, s') ∧ Good s r s') ∧
    (∀ x r, Binary.readFieldBegin .be s.rest = .ok (x, r) → ∃ s', readFieldBegin s = .ok (x, s') ∧ Good s r s') ∧
    (∀ x r, Binary.readListBegin .be s.rest = .ok (x, r) → ∃ s', readListBegin s = .ok (x, s') ∧ Good s r s') ∧
    (∀ x r, Binary.readMapBegin .be s.rest = .ok (x, r) → ∃ s', readMapBegin s = .ok (x, s') ∧ Good s r s') :=
  ⟨fun w n r h => readI_sim s hv w n r h, fun n r h => readU_sim s hv 8 n r h, fun b r h => peek_sim s hv 16 b r h,
   fun b r h => readBytes_sim s hv b r h, fun x r h => readFieldBegin_sim s hv x r h,
   fun x r h => readListBegin_sim s hv x r h, fun x r h => readMapBegin_sim s hv x r h⟩

/-- message envelope: whenever the checked `read_message_begin` accepts, the unchecked one returns the same
(name, type, seqid) without leaving the buffer, accounts for the same bytes, and re-anchors (`index = 0`). -/
theorem ur_msg_eq_checked (s : UR) (hv : s.idx ≤ s.bs.length) (x : Bytes × Nat × Int) (r : Bytes)
    (h : Msg.readBeginBin .be s.rest = .ok (x, r)) :
    ∃ s', Unsafe.readMessageBegin s = .ok (x, s') ∧ s'.rest = r ∧ s'.idx = 0 ∧ s'.pos + r.length = s.pos + s.rest.length := by
  obtain ⟨s', h1, g, h0⟩ := readMessageBegin_sim s hv x r h
  exact ⟨s', h1, g.rest, h0, g.pos⟩

/-- a script of reads on ONE reader instance (what a decoder of several values does). -/
def readAll : List TType → UR → Out (List TVal × UR)
  | [], s => .ok ([], s)
  | t :: ts, s => match Unsafe.read t s with
    | .ok (v, s) => match readAll ts s with
      | .ok (vs, s) => .ok (v :: vs, s)
      | .err k => .err k | .panic m => .panic m | .fuel => .fuel
    | .err k => .err k | .panic m => .panic m | .fuel => .fuel

/-- sequences: values written back to back are read back by one unchecked reader instance, and
`advanced + index` ends at the total length. -/
theorem ur_seq_safe_eq (vs : List TVal) (hw : ∀ v ∈ vs, v.wt = true) (r : Bytes) (s : UR) (hv : s.idx ≤ s.bs.length)
    (hs : s.rest = Binary.run .be (vs.flatMap TVal.ops) ++ r) :
    ∃ s', readAll (vs.map TVal.ttype) s = .ok (vs, s') ∧ s'.rest = r ∧ s'.idx ≤ s'.bs.length ∧
      s'.pos = s.pos + (Binary.run .be (vs.flatMap TVal.ops)).length := by
  induction vs generalizing s with
  | nil => exact ⟨s, rfl, by simpa [Binary.run] using hs, hv, by simp [Binary.run]⟩
  | cons v vs ih =>
    simp only [List.flatMap_cons, Binary.run_append, List.append_assoc] at hs
    obtain ⟨s1, h1, hr1, hv1, hp1⟩ := ur_eq_checked v.ttype s hv v _
      (by rw [hs]; exact C01.binary_roundtrip .be v (hw v (by simp)) _)
    obtain ⟨s2, h2, hr2, hv2, hp2⟩ := ih (fun x hx => hw x (by simp [hx])) s1 hv1 hr1
    refine ⟨s2, by simp [readAll, h1, h2], hr2, hv2, ?_⟩
    rw [hs] at hp1
    simp only [List.flatMap_cons, Binary.run_append, List.length_append] at hp1 hp2 ⊢
    omega

/-! ### non-vacuity -/

/-- a struct with a 5000-byte payload (zero-copied at the real threshold), a nested struct, a bool,
a list and a uuid: well-typed, so every hypothesis above is satisfiable. -/
def witness : TVal :=
  .struct (.cons 1 (.bin (List.replicate 5 0x61))
          (.cons 2 (.struct (.cons 5 (.i64 (-1)) .nil))
          (.cons 3 (.bool true)
          (.cons 4 (.list .i16 (.cons (.i16 7) (.cons (.i16 (-7)) .nil)))
          (.cons 9 (.uuid (List.replicate 16 0xEE)) .nil)))))

example : witness.wt = true := by decide
example : Len.binLen witness.ops ≤ 64 := by decide
-- the zero-copy branch is reachable in the model (threshold 4, payload of 5 bytes)
example : (match ulwRun true 4 .bytes (freshL [] 64) witness.ops with
    | .ok s' => s'.zlen == 5 && s'.nodes.length == 2 && s'.out == Binary.run .be witness.ops
    | _ => false) = true := by decide
example : (⟨[1, 2, 3], 1, 0⟩ : UR).idx ≤ (⟨[1, 2, 3], 1, 0⟩ : UR).bs.length := by decide

end Pilota.Props.C11
