import PilotaModel.Lemmas.IdlFile
/-
  C15 — the IDL parser inverts printing, independent of layout.

  `File.parse` (Idl/Parser.lean) is what T1 compares with `File::parse` of pilota-thrift-parser;
  `render` (Idl/Printer.lean) is what T1 compares with the harness printer that produces every
  C15 request (`render=1` in the answers); `File.wf` (Idl/WF.lean) is evaluated on every C15 request
  (`wf=1`).  A `Layout` is an arbitrary list of choices: whitespace runs and `//` `#` `/* */`
  comments at every blank, `,` `;` or nothing at every optional separator, single or double quotes
  at every literal, `required` printed or left out on function arguments.

  STAGE REACHED: the whole grammar — includes, cpp_includes, namespaces, typedefs, consts (bool, names,
  literals, ints, doubles, nested list / map literals), enums, structs / unions / exceptions (ids,
  requiredness, defaults, annotations), services (extends, oneway, arguments, throws) — and the full
  statement `file_rt`, with no hypothesis besides `File.wf` (finding DI1, which had forced a
  non-empty-document hypothesis, is fixed in /repo by 00dcdf5 and the model follows the fixed code:
  `blank_only_document_parses`).
-/
namespace Pilota.Props.C15
open Pilota.Idl

/-- `blank` consumes every non-empty rendered blank — any sequence of whitespace pieces and of the
three comment styles — when the text that follows does not start a blank itself. -/
theorem blank_any (ps : List Piece) (r : List Char) (hne : blankText ps ≠ []) (hr : NB r) :
    blank (blankText ps ++ r) = .ok () r :=
  blank_rt (BT.of_blankText ps) hne hr

theorem ident_rt (i r : List Char) (hi : identOk i = true) (hr : hdP (fun c => !isIdentChar c) r = true) :
    Ident.parse (i ++ r) = .ok i r := Pilota.Idl.ident_rt hi hr

/-- both quote styles: the layout's preference is honoured whenever the text permits it -/
theorem literal_rt (preferDouble : Bool) (t r : List Char) (h : literalOk t = true) :
    Literal.parse (quoteFor preferDouble t :: (t ++ quoteFor preferDouble t :: r)) = .ok t r :=
  Pilota.Idl.literal_rt preferDouble h

theorem int_rt (n : Int) (r : List Char) (hn : intOk n = true) (hr : Sep r) :
    IntConstant.parse (intText n ++ r) = .ok n r := intConstant_rt hn hr

/-- a double keeps its source text: every text `DoubleConstant::parse` recognises is read back -/
theorem double_rt (t r : List Char) (h : doubleOk t = true) (hr : Sep r) :
    DoubleConstant.parse (t ++ r) = .ok t r := Pilota.Idl.double_rt h hr

theorem path_rt (p : Path) (hp : p.wf = true) (l : Layout) (r : List Char)
    (hr : hdP (fun c => !isIdentChar c) r = true) (hstop : PathStop r) :
    Path.parse ((rPath p l).1 ++ r) = .ok p r := Pilota.Idl.path_rt hp l hr hstop

theorem annotations_rt (as : Annotations) (hw : Annotations.wf as = true) (hne : as ≠ []) (l : Layout) (r : List Char) :
    Annotations.parse ((rAnns as l).1 ++ r) = .ok as r := Pilota.Idl.annotations_rt hw hne l r

/-- every type — base types, `list` / `set` / `map` with `cpp_type`, names, annotations, nested
to any depth — under every layout -/
theorem type_rt (t : TypeA) (hw : t.wf = true) (d : Nat) (hd : t.depth < d) (l : Layout) (r : List Char)
    (hf : TypeFollow t r) : Type.parse d ((rType t l).1 ++ r) = .ok t r :=
  Pilota.Idl.type_rt t hw d hd l r hf

/-- constant values: booleans, names, literals, integers, doubles, list and map literals nested to
any depth (well-founded recursion through the literals) -/
theorem const_rt (c : ConstValue) (hw : c.wf = true) (d : Nat) (hd : c.depth < d)
    (l : Layout) (r : List Char) (hf : ConstFollow c r) : ConstValue.parse d ((rConst c l).1 ++ r) = .ok c r :=
  Pilota.Idl.const_rt c hw (cv_supported c) d hd l r hf

/-- a field under every layout: id, requiredness (in an argument list an omitted `required` is read
as no requiredness, `fieldRead`), type, name, default, annotations, separator; `bl` is a blank left
over by the previous element, `R` the next field or the closing bracket -/
theorem field_rt (d : Nat) (f : Field) (hw : f.wf = true) (hd : f.depth < d)
    (argMode last : Bool) (l : Layout)
    (hhead : attrOpt argMode f.attr ((rB0 (rB0 l).2).2) = none →
      f.ty.headIs cs!"required" = false ∧ f.ty.headIs cs!"optional" = false)
    (bl R : List Char) (hbl : BT bl) (hR : FieldFollow R) (hlast : last = true → Sep R) :
    skip (opt blank) (Field.parse d) (bl ++ ((rField argMode f last l).1 ++ R)) = .ok (fieldRead argMode f l) R :=
  field_step hw (field_supported f) hd argMode last l hhead hbl hR hlast

theorem structlike_rt (s : StructLike) (hw : s.wf = true) (d : Nat) (hd : s.depth < d)
    (last : Bool) (l : Layout) (R : List Char) (hR : ItemStart R) :
    ∃ g, BT g ∧ StructLike.parse d ((rStructLike s last l).1 ++ R) = .ok s (g ++ R) :=
  structLike_rt hw (by simp only [StructLike.supported, List.all_eq_true]; intro f _; exact field_supported f) hd last l hR

theorem enum_rt (e : Enum) (hw : e.wf = true) (l : Layout) (b R : List Char) (hb : BT b)
    (hR : ItemStart R) : ∃ g, BT g ∧ Enum.parse ((rEnum e l).1 ++ (b ++ R)) = .ok e (g ++ R) :=
  Pilota.Idl.enum_rt hw l hb hR

/-- a function: `oneway`, result type, name, arguments (an argument printed without `required` is
read back as `required`), `throws`, annotations, separator; `g` is the part of the following blank
that is left to the enclosing loop -/
theorem function_rt (d : Nat) (f : Function) (hw : f.wf = true) (hd : f.depth < d) (last : Bool) (l : Layout)
    (bl R : List Char) (hbl : BT bl) (hR : FnFollow d R) :
    ∃ g, BT g ∧ g.length < (bl ++ (rFunction f last l).1).length ∧
      skip (opt blank) (Function.parse d) (bl ++ ((rFunction f last l).1 ++ R)) = .ok f (g ++ R) :=
  function_step ⟨hw, by simp only [Function.supported, List.all_eq_true, Bool.and_eq_true]
                        exact ⟨fun a _ => field_supported a, fun a _ => field_supported a⟩, hd⟩ last l hbl hR

theorem service_rt (s : Service) (hw : s.wf = true) (d : Nat) (hd : s.depth < d) (last : Bool) (l : Layout)
    (R : List Char) (hR : ItemStart R) : ∃ g, BT g ∧ Service.parse d ((rService s last l).1 ++ R) = .ok s (g ++ R) :=
  Pilota.Idl.service_rt hw (item_supported (.service s)) hd last l hR

theorem item_rt (it : Item) (hw : it.wf = true) (d : Nat) (hd : it.depth < d)
    (last : Bool) (l : Layout) (R : List Char) (hlast : last = true → R = []) (hR : ItemStart R) :
    ∃ g, BT g ∧ Item.parse d ((rItem it last l).1 ++ R) = .ok it (g ++ R) :=
  Pilota.Idl.item_rt hw (item_supported it) hd last l hlast hR

/-- An identifier that merely begins with a keyword (`trueValue`, `falsey`, `optionalFoo`,
`required_x`, `onewayTicket`, `i32x`, `stringify`, …) is never read as that keyword: wherever the
parser tests `tuple((tag(kw), peek(not(alphanumeric_or_underscore))))` the test fails on a longer
word and the word is read as an identifier … -/
theorem keyword_prefix_ident {α} (kw : List Char) (v : α) (i r : List Char)
    (hk : ∀ c ∈ kw, isIdentChar c = true) (hi : identOk i = true) (hne : i ≠ kw)
    (hr : hdP (fun c => !isIdentChar c) r = true) :
    keyword kw v (i ++ r) = .err ∧ Ident.parse (i ++ r) = .ok i r :=
  ⟨keyword_word_err hk (identOk_all hi) hr hne, Pilota.Idl.ident_rt hi hr⟩

/-- … so that as a type it is read as a name (every word that is not exactly a base type name or
`list` / `set` / `map`) … -/
theorem keyword_prefix_type (i : Ident) (hi : identOk i = true) (hne : typeWords.contains i = false)
    (d : Nat) (l : Layout) (r : List Char) (hf : TypeFollow (.mk (.path ⟨[i]⟩) []) r) :
    Type.parse (d + 1) (i ++ r) = .ok (.mk (.path ⟨[i]⟩) []) r := by
  have hw : (TypeA.mk (.path ⟨[i]⟩) []).wf = true := by
    simp only [TypeA.wf, Ty.wf, Path.wf, Path.head, List.headD, hne, Annotations.wf]
    simp [hi]
  have := Pilota.Idl.type_rt _ hw (d + 1) (by simp [TypeA.depth, Ty.depth]) l r hf
  simpa [Type.parse, rType, rTy, rPath, rOptAnns, rSlots] using this

/-- … and as a constant value it is read as a name (every word other than `true` / `false`). -/
theorem keyword_prefix_const (i : Ident) (hi : identOk i = true) (h1 : i ≠ cs!"true") (h2 : i ≠ cs!"false")
    (d : Nat) (l : Layout) (r : List Char) (hf : ConstFollow (.path ⟨[i]⟩) r) :
    ConstValue.parse (d + 1) (i ++ r) = .ok (.path ⟨[i]⟩) r := by
  have hw : (ConstValue.path ⟨[i]⟩).wf = true := by
    simp only [ConstValue.wf, Path.wf, Path.head, List.headD, Bool.and_eq_true, bne_iff_ne, ne_eq]
    simp [hi, h1, h2]
  have := Pilota.Idl.const_rt _ hw rfl (d + 1) (by simp [ConstValue.depth]) l r hf
  simpa [rConst, rPath, rSlots] using this

/-- `file_rt`: parsing the rendering of a well-formed document returns exactly its declarations in
order and its recomputed package, and leaves nothing unparsed — for EVERY layout. -/
theorem file_rt (f : File) (hf : f.wf = true) (l : Layout) : File.parse (render l f) = .ok f [] :=
  file_parse_of_fileD (fun _ hd => fileD_rt hf (fun it _ => item_supported it) hd l)

/-- (was finding DI1, fixed by 00dcdf5) a document that consists of blanks and comments only — the
empty declaration list under any layout — parses to the empty document. -/
theorem blank_only_document_parses (l : Layout) : File.parse (render l (File.mk none [])) = .ok (File.mk none []) [] :=
  file_rt _ rfl l

/-! non-vacuity -/
example : File.wf (File.mk (some (Path.mk [cs!"a", cs!"b"])) [
    Item.«namespace» (Namespace.mk cs!"rs" (Path.mk [cs!"a", cs!"b"]) none),
    Item.«include» cs!"base.thrift",
    Item.typedef (Typedef.mk
      (TypeA.mk (Ty.map (TypeA.mk Ty.string []) (TypeA.mk (Ty.list (TypeA.mk (Ty.path (Path.mk [cs!"i32x"])) [])
        (some cs!"std::vector")) []) none) [Annotation.mk cs!"a.b" cs!"say \"hi\""])
      cs!"trueValue" []),
    Item.constant (Constant.mk cs!"c" (TypeA.mk Ty.double []) (ConstValue.list [ConstValue.double cs!"-1.5e-3",
      ConstValue.int (-9223372036854775807), ConstValue.map [(ConstValue.string cs!"k", ConstValue.path (Path.mk [cs!"falsey"]))]]) []),
    Item.struct (StructLike.mk cs!"S" [Field.mk 1 cs!"optionalFoo" Attribute.optional (TypeA.mk Ty.i32 [])
      (some (ConstValue.int 5)) [Annotation.mk cs!"k" cs!"v"]] []),
    Item.service (Service.mk cs!"Svc" (some (Path.mk [cs!"base", cs!"Base"])) [Function.mk cs!"onewayTicket" true
      (TypeA.mk Ty.void []) [Field.mk 1 cs!"a" Attribute.required (TypeA.mk Ty.string []) none []]
      [Field.mk 1 cs!"e" Attribute.default (TypeA.mk (Ty.path (Path.mk [cs!"E"])) []) none []] []] [])]) = true := by decide
example : NB cs!"struct" ∧ blankText [.ws cs!" \n", .line cs!" c /* x", .block cs!"a */ b", .hash []] ≠ [] := by decide
example : identOk cs!"trueValue" = true ∧ cs!"trueValue" ≠ cs!"true" := by decide
example : intOk (-9223372036854775807) = true ∧ doubleOk cs!"-+1.5E-3" = true ∧ literalOk cs!"say \"hi\"" = true := by decide
example : TypeFollow (.mk .i32 []) cs!" x" :=
  typeFollow_name (.mk .i32 []) (BT.ws ' ' [] (by decide) BT.nil) (Or.inl (by simp)) (name := cs!"x") (X := [])
    (by decide) (by decide) (by decide)
example : FieldFollow cs!"2: i32 b }" ∧ Sep cs!"}" := ⟨fieldFollow_of_digit (by decide), by decide⟩
example : ItemStart cs!"struct S {}" ∧ ItemStart [] := ⟨by unfold ItemStart; decide, by unfold ItemStart; decide⟩
example : ConstFollow (.int 5) cs!" , 6]" ∧ ConstFollow (.path ⟨[cs!"a"]⟩) cs!"]" :=
  ⟨by show Sep _; decide, ⟨by decide, pathStop_of (b := []) BT.nil (by decide) (by decide)⟩⟩
example : ∀ d, FnFollow d cs!"}" := fun d => fnFollow_close d []
example : PathStop cs!" = 1" := pathStop_of (b := cs!" ") (BT.ws ' ' [] (by decide) BT.nil) (by decide) (by decide)
example : Annotations.wf [⟨cs!"go.tag", cs!"json:\\\"id\\\""⟩] = true := by decide
example : (File.parse cs!" // only a comment\n/* and a block */ # hash").isOk = true := by decide

end Pilota.Props.C15
