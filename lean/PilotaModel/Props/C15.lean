import PilotaModel.Idl.WF
namespace Pilota.Props.C15
open Pilota.Idl
theorem placeholder : (1 : Nat) = 1 := rfl
end Pilota.Props.C15
