import PilotaModel.Props.C20
import PilotaModel.Lemmas.DefaultCanon
/-
  C20, continued.

  `decode_empty_ok_iff`: decoding an empty struct succeeds exactly when every required field has an IDL default —
  the "whenever that decode succeeds" of the property, made explicit.

  `default_encodes_validly`: encoding the emitted `Default` yields a message that the decoder of the same type maps
  back to that very value (it is a value of the emitted type in the sense of `Props/C02.Canon`, so C02's round trip
  applies: valid message, conforming to the schema) — provided every entry of the default is itself a value of its
  field's declared type (what pilota-build's lowering of the IDL literal has to deliver, compared by T1 with the Python
  lowering on every run) and the field ids are distinct 16-bit numbers.
-/
namespace Pilota.Props.C20b
open Pilota Pilota.Thrift Pilota.TGen Pilota.Props.C20

/-- decoding an empty slot table through `finish` succeeds exactly when every required field has an IDL default -/
theorem finish_empty_ok (fs : List Field) :
    (∃ out, finish fs [] = .ok out) ↔ ∀ fl ∈ fs, fl.required = true → fl.dflt.isSome = true := finish_empty_ok_iff fs

/-- Binary family: decoding the empty struct succeeds exactly when every required field has an IDL default. -/
theorem decode_empty_ok_iff (e : Endian) (dp : Option Nat) (d : Doc) (n : String) (fs : List Field)
    (hn : d.find n = some (.struct fs)) (rest : Bytes) :
    (∃ v r, decode (binRd e dp) d n ((0 : UInt8) :: rest) = .ok (v, r)) ↔ ∀ fl ∈ fs, fl.required = true → fl.dflt.isSome = true := by
  rw [← finish_empty_ok_iff]
  unfold decode
  have hrem : (binRd e dp).remaining ((0 : UInt8) :: rest) = rest.length + 1 := by simp [binRd]
  rw [hrem]
  obtain ⟨f, hf⟩ : ∃ f, 3 * (rest.length + 1) + 8 = f + 1 + 1 := ⟨3 * rest.length + 9, by omega⟩
  rw [hf]
  have hfb : (binRd e dp).fieldBegin ((binRd e dp).structBegin ((0 : UInt8) :: rest)) = .ok ((.stop, 0), rest) := by
    simp [binRd, Binary.readFieldBegin, Binary.readTType, Binary.readByte, TType.ofByte]
  have hse : (binRd e dp).structEnd rest = .ok rest := rfl
  rw [decTy]
  simp only [hn]
  rw [decFields, hfb]
  simp only [if_true, hse]
  cases hfin : finish fs [] with
  | ok out => simp
  | err k => simp
  | panic m => simp
  | fuel => simp

variable (d : Doc) (dp : Option Nat)

/-- **The emitted `Default` is a value of its own type**: the decoder of `n` maps (the encoding of) `defaultOf d n` back to
`defaultOf d n`. -/
theorem default_encodes_validly (n : String) (fs : List Field) (hn : d.find n = some (.struct fs)) (F : Nat)
    (hids : fs.Pairwise (fun a b => a.id ≠ b.id)) (hrange : ∀ fl ∈ fs, inS 2 fl.id)
    (hent : ∀ fl ∈ fs, ∀ p, dfltEntry (zeroOf d (d.length + 1)) fl = some p →
      d.ttype fl.ty = p.2.ttype ∧ projTy d dp F fl.ty p.2 = some (.ok p.2)) :
    ∃ G, projTy d dp G (.ref n) (defaultOf d n) = some (.ok (defaultOf d n)) := by
  let z := zeroOf d (d.length + 1)
  let es := fs.filterMap (dfltEntry z)
  have hdef : defaultOf d n = .struct (TFields.ofList es) := by simp only [defaultOf, zeroOf, hn]; rfl
  refine ⟨F + es.length + 1 + 1, ?_⟩
  rw [hdef]
  simp only [projTy, hn]
  have hloop : projFields d dp (F + es.length + 1) fs [] (TFields.ofList es) = some (.ok ([] ++ es)) := by
    apply projFields_entries d dp fs F es []
    · intro p hp
      obtain ⟨fl, hfl, hgp⟩ := List.mem_filterMap.mp hp
      have hid := dfltEntry_id z fl p hgp
      obtain ⟨htt, hproj⟩ := hent fl hfl p hgp
      refine ⟨by rw [hid]; exact hrange fl hfl, fl, ?_, hproj⟩
      apply find_unique fs hids fl hfl
      · simp [hid, htt]
      · intro x hx; simp only [Bool.and_eq_true, beq_iff_eq] at hx; rw [hx.1, hid]
    · -- entries come in declaration order with distinct ids
      have : ∀ (l : List Field), l.Pairwise (fun a b => a.id ≠ b.id) → (l.filterMap (dfltEntry z)).Pairwise (fun a b => a.1 ≠ b.1) := by
        intro l hl
        induction l with
        | nil => simp
        | cons a l ih =>
          have hp := List.pairwise_cons.mp hl
          simp only [List.filterMap_cons]
          cases hga : dfltEntry z a with
          | none => exact ih hp.2
          | some p =>
            refine List.pairwise_cons.mpr ⟨?_, ih hp.2⟩
            intro q hq
            obtain ⟨x, hx, hqx⟩ := mem_filterMap_id (dfltEntry z) (dfltEntry_id z) l q hq
            rw [dfltEntry_id z a p hga, hqx]
            exact hp.1 x hx
      exact this fs hids
    · intro p _ q hq; cases hq
  rw [hloop]
  simp only [List.nil_append]
  rw [finish_of_slots z fs es (fun fl hfl => slotGet_filterMap (dfltEntry z) (dfltEntry_id z) fs hids fl hfl)]

/-! non-vacuity: the demo struct of Props/C20 (ids 1 2 3, two declared defaults of the right wire types) -/
example : ∃ G, projTy demo (some 64) G (.ref "S") (defaultOf demo "S") = some (.ok (defaultOf demo "S")) := ⟨4, by decide⟩

end Pilota.Props.C20b
