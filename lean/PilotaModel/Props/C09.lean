import PilotaModel.Props.C01
import PilotaModel.Lemmas.ReadTotalCompact
import PilotaModel.Lemmas.SkipPrims
import PilotaModel.Lemmas.IterSkip
import PilotaModel.Lemmas.SkipExt
import PilotaModel.Props.C07
/-
  C09 — Safe Thrift decoders are total: arbitrary bytes give a value or an error.
  This file covers the runtime in-memory readers (the dynamic reading interpreter over the binary,
  little-endian and compact readers) and every skipper; the emitted decoders and the async
  readers are other files of the framework.  Helper lemmas: `Lemmas/{ReadBasics, ReadBasicsCompact,
  ReadTotalBinary, ReadTotalCompact, SkipTotal, SkipPrims, IterSkip}`.

  Every Rust precondition on the modelled paths (`split_to`, checked `i16` add, `i8` subtract,
  slice index) is an explicit `.panic` branch of the model; the theorems show the branch is
  unreachable, for EVERY byte string, type, fuel and reader state.
-/
namespace Pilota.Props.C09
open Pilota Pilota.Thrift

/-! ### no panic -/

/-- binary / LE reading interpreter: never the panic branch. -/
theorem read_total (e : Endian) (f : Nat) (t : TType) (bs : Bytes) (m : String) :
    Binary.readVal e f t bs ≠ .panic m := (Binary.readVal_nopanic e f).1 t bs m

/-- compact reading interpreter, from every reader state. -/
theorem compact_read_total (f : Nat) (t : TType) (s : Compact.CR) (bs : Bytes) (m : String) :
    Compact.readVal f t s bs ≠ .panic m := (Compact.readVal_nopanic f).1 t s bs m

/-- default recursive skipper (binary / LE), every non-negative depth budget. -/
theorem skip_total (e : Endian) (f : Nat) (d : Int) (hd : 0 ≤ d) (t : TType) (bs : Bytes) (m : String) :
    Skip.skipVal e f d t bs ≠ .panic m := (Skip.skipVal_nopanic e f).1 d t bs m hd

/-- compact skipper, from every reader state. -/
theorem compact_skip_total (f : Nat) (d : Int) (hd : 0 ≤ d) (t : TType) (s : Compact.CR) (bs : Bytes) (m : String) :
    Skip.cskipVal f d t s bs ≠ .panic m := by
  have := (Skip.rdSkip_nopanic _ _ Skip.compactPrims_good f).1 d t s bs
  unfold Skip.cskipVal
  split <;> simp_all

/-- async skipper over the async binary reader (fully delivered stream). -/
theorem async_binary_skip_total (f : Nat) (d : Int) (hd : 0 ≤ d) (t : TType) (bs : Bytes) (m : String) :
    Skip.rdSkip Skip.asyncBinaryPrims f d t () bs ≠ .panic m :=
  (Skip.rdSkip_nopanic _ _ Skip.asyncBinaryPrims_good f).1 d t () bs m hd

/-- async skipper over the async compact reader. -/
theorem async_compact_skip_total (f : Nat) (d : Int) (hd : 0 ≤ d) (t : TType) (s : Compact.CR) (bs : Bytes) (m : String) :
    Skip.rdSkip Skip.asyncCompactPrims f d t s bs ≠ .panic m :=
  (Skip.rdSkip_nopanic _ _ Skip.asyncCompactPrims_good f).1 d t s bs m hd

/-! ### no hang: the top-level budget `3 * len + 3` is never exhausted, on any input -/

theorem no_fuel (e : Endian) (t : TType) (bs : Bytes) : Binary.read e t bs ≠ .fuel :=
  (Binary.readVal_nofuel e _).1 t bs (by omega)

theorem compact_no_fuel (t : TType) (s : Compact.CR) (bs : Bytes) : Compact.read t s bs ≠ .fuel :=
  (Compact.readVal_nofuel _).1 t s bs (by have := Compact.mu_le s; omega)

theorem skip_no_fuel (e : Endian) (d : Int) (t : TType) (bs : Bytes) : Skip.skip e d t bs ≠ .fuel :=
  (Skip.skipVal_nofuel e _).1 d t bs (by omega)

theorem compact_skip_no_fuel (d : Int) (t : TType) (s : Compact.CR) (bs : Bytes) : Skip.cskip d t s bs ≠ .fuel := by
  have := (Skip.rdSkip_nofuel _ _ Skip.compactPrims_good (3 * bs.length + 3)).1 d t s bs (by have := Compact.mu_le s; omega)
  unfold Skip.cskip Skip.cskipVal
  split <;> simp_all

theorem async_binary_skip_no_fuel (d : Int) (t : TType) (bs : Bytes) : Skip.askipBinary d t bs ≠ .fuel :=
  (Skip.rdSkip_nofuel _ _ Skip.asyncBinaryPrims_good _).1 d t () bs (by omega)

theorem async_compact_skip_no_fuel (d : Int) (t : TType) (s : Compact.CR) (bs : Bytes) : Skip.askipCompact d t s bs ≠ .fuel :=
  (Skip.rdSkip_nofuel _ _ Skip.asyncCompactPrims_good _).1 d t s bs (by have := Compact.mu_le s; omega)

/-- the iterative skipper: every loop iteration consumes a byte, so `len + 1` iterations suffice. -/
theorem iter_skip_no_fuel (t : TType) (bs : Bytes) : Skip.iterSkip t bs ≠ .fuel :=
  Skip.iterRun_nofuel _ _ (by simp [Skip.iterInit])

/-- Totality of the in-memory readers: every byte string gives a value or an error. -/
theorem read_value_or_error (e : Endian) (t : TType) (bs : Bytes) :
    (∃ v r, Binary.read e t bs = .ok (v, r)) ∨ (∃ k, Binary.read e t bs = .err k) := by
  cases h : Binary.read e t bs with
  | ok p => exact .inl ⟨p.1, p.2, rfl⟩
  | err k => exact .inr ⟨k, rfl⟩
  | panic m => exact absurd h (read_total e _ t bs m)
  | fuel => exact absurd h (no_fuel e t bs)

theorem compact_read_value_or_error (t : TType) (s : Compact.CR) (bs : Bytes) :
    (∃ v s' r, Compact.read t s bs = .ok (v, s', r)) ∨ (∃ k, Compact.read t s bs = .err k) := by
  cases h : Compact.read t s bs with
  | ok p => exact .inl ⟨p.1, p.2.1, p.2.2, rfl⟩
  | err k => exact .inr ⟨k, rfl⟩
  | panic m => exact absurd h (compact_read_total _ t s bs m)
  | fuel => exact absurd h (compact_no_fuel t s bs)

theorem skip_count_or_error (e : Endian) (d : Int) (hd : 0 ≤ d) (t : TType) (bs : Bytes) :
    (∃ k r, Skip.skip e d t bs = .ok (k, r)) ∨ (∃ k, Skip.skip e d t bs = .err k) := by
  cases h : Skip.skip e d t bs with
  | ok p => exact .inl ⟨p.1, p.2, rfl⟩
  | err k => exact .inr ⟨k, rfl⟩
  | panic m => exact absurd h (skip_total e _ d hd t bs m)
  | fuel => exact absurd h (skip_no_fuel e d t bs)

/-! ### memory: what a reader builds is paid for by the bytes it consumed -/

/-- Binary / LE: the value built (`weight`: one unit per node, two per struct field, one per
payload byte) plus three units per remaining byte is at most three units per input byte.  The
reading interpreter allocates per unit built (one `Vec::push` per element / field / pair, one copy
per payload) and the readers only split the input, never sizing anything from a wire count; this
is the ok-path statement (see `alloc_linear_partial` in MANIFEST: error paths are covered by the
T1 allocation oracle only). -/
theorem read_weight_linear (e : Endian) (t : TType) (bs : Bytes) (v : TVal) (r : Bytes)
    (h : Binary.read e t bs = .ok (v, r)) : v.weight + 3 * r.length ≤ 3 * bs.length :=
  (Binary.readVal_weight e _).1 t bs v r h

theorem compact_read_weight_linear (t : TType) (s : Compact.CR) (bs : Bytes) (v : TVal) (s' : Compact.CR) (r : Bytes)
    (h : Compact.read t s bs = .ok (v, s', r)) : v.weight + 3 * r.length ≤ 3 * bs.length + 1 := by
  have := (Compact.readVal_weight _).1 t s bs v s' r h
  have := Compact.mu_le s
  omega

/-- every successful read consumes at least one byte (binary / LE): progress. -/
theorem read_progress (e : Endian) (f : Nat) (t : TType) (bs : Bytes) (v : TVal) (r : Bytes)
    (h : Binary.readVal e f t bs = .ok (v, r)) : r.length + 1 ≤ bs.length := Binary.readVal_len h

/-! ### every strict prefix of a valid encoding is rejected -/

/-- a successful read does not depend on the bytes that follow those it consumed. -/
theorem read_extends (e : Endian) (t : TType) (p q : Bytes) (v : TVal) (r : Bytes)
    (h : Binary.read e t p = .ok (v, r)) : Binary.read e t (p ++ q) = .ok (v, r ++ q) := by
  unfold Binary.read at h ⊢
  exact (Binary.readVal_ext e q _).1 t p v r _ (by simp; omega) h

theorem compact_read_extends (t : TType) (s : Compact.CR) (p q : Bytes) (v : TVal) (s' : Compact.CR) (r : Bytes)
    (h : Compact.read t s p = .ok (v, s', r)) : Compact.read t s (p ++ q) = .ok (v, s', r ++ q) := by
  unfold Compact.read at h ⊢
  exact (Compact.readVal_ext q _).1 t s p v s' r _ (by simp; omega) h

/-- Binary / LE: reading any strict prefix `p` of what a well-typed value (a struct, or any other
value) wrote gives an error. -/
theorem prefix_rejected (e : Endian) (v : TVal) (hw : v.wt = true) (p q : Bytes) (hq : q ≠ [])
    (h : Binary.run e v.ops = p ++ q) : ∃ k, Binary.read e v.ttype p = .err k := by
  rcases read_value_or_error e v.ttype p with ⟨v', r', h1⟩ | h1
  · exfalso
    have h2 := read_extends e v.ttype p q v' r' h1
    have h3 := C01.binary_roundtrip e v hw []
    rw [List.append_nil, h] at h3
    rw [h3] at h2
    simp at h2
    exact hq h2.2.2
  · exact h1

/-- Compact, from any reader state without a pending bool. -/
theorem compact_prefix_rejected (v : TVal) (hw : v.wt = true) (ws : Compact.CW) (hp : ws.pending = none) :
    ∃ bs, Compact.run ws v.ops = .ok (ws, bs) ∧
      ∀ (rs : Compact.CR), rs.pendingBool = none → ∀ p q : Bytes, q ≠ [] → bs = p ++ q →
        ∃ k, Compact.read v.ttype rs p = .err k := by
  obtain ⟨bs, h1, h2⟩ := C01.compact_roundtrip v hw ws hp
  refine ⟨bs, h1, fun rs hr p q hq hb => ?_⟩
  rcases compact_read_value_or_error v.ttype rs p with ⟨v', s', r', h3⟩ | h3
  · exfalso
    have h4 := compact_read_extends v.ttype rs p q v' s' r' h3
    have h5 := h2 rs hr []
    rw [List.append_nil, hb] at h5
    rw [h5] at h4
    simp at h4
    exact hq h4.2.2.2
  · exact h3

/-- a successful skip does not depend on the bytes that follow those it consumed. -/
theorem skip_extends (e : Endian) (d : Int) (t : TType) (p q : Bytes) (k : Nat) (r : Bytes)
    (h : Skip.skip e d t p = .ok (k, r)) : Skip.skip e d t (p ++ q) = .ok (k, r ++ q) := by
  unfold Skip.skip at h ⊢
  exact (Skip.skipVal_ext e q _).1 d t p k r _ (by simp; omega) h

/-- Binary / LE skipper: a strict prefix of a valid encoding is rejected too (with any budget). -/
theorem skip_prefix_rejected (e : Endian) (v : TVal) (hw : v.wt = true) (d : Int) (hd : 0 ≤ d) (p q : Bytes) (hq : q ≠ [])
    (h : Binary.run e v.ops = p ++ q) : ∃ k, Skip.skip e d v.ttype p = .err k := by
  rcases skip_count_or_error e d hd v.ttype p with ⟨k, r', h1⟩ | h1
  · exfalso
    have h2 := skip_extends e d v.ttype p q k r' h1
    have h3 := C01.binary_roundtrip e v hw []
    rw [List.append_nil, h] at h3
    have h4 := C07.skip_consumes_what_read_consumes e v.ttype (p ++ q) v [] d hd h3
    rw [h4] at h2
    split at h2
    · simp at h2; exact hq h2.2.2
    · simp at h2
  · exact h1

/-- Compact skipper, from any reader state without a pending bool. -/
theorem compact_skip_prefix_rejected (v : TVal) (hw : v.wt = true) (ws : Compact.CW) (hp : ws.pending = none) (d : Int) (hd : 0 ≤ d) :
    ∃ bs, Compact.run ws v.ops = .ok (ws, bs) ∧
      ∀ (rs : Compact.CR), rs.pendingBool = none → ∀ p q : Bytes, q ≠ [] → bs = p ++ q →
        ∃ k, Skip.cskip d v.ttype rs p = .err k := by
  obtain ⟨bs, h1, h2⟩ := C01.compact_roundtrip v hw ws hp
  refine ⟨bs, h1, fun rs hr p q hq hb => ?_⟩
  cases hc : Skip.cskip d v.ttype rs p with
  | err k => exact ⟨k, rfl⟩
  | panic m => exact absurd hc (compact_skip_total _ d hd v.ttype rs p m)
  | fuel => exact absurd hc (compact_skip_no_fuel d v.ttype rs p)
  | ok x =>
    exfalso
    obtain ⟨k, s', r'⟩ := x
    -- the underlying read-and-discard run on `p` succeeded; extend it to `p ++ q`
    unfold Skip.cskip Skip.cskipVal at hc
    cases hrd : Skip.rdSkip Skip.compactPrims (3 * p.length + 3) d v.ttype rs p with
    | ok y =>
      obtain ⟨s1, r1⟩ := y
      have hext := (Skip.rdSkip_ext _ Skip.compactPrims_ext q _).1 d v.ttype rs p s1 r1 (3 * (p ++ q).length + 3) (by simp; omega) hrd
      have h5 := h2 rs hr []
      rw [List.append_nil, hb] at h5
      unfold Compact.read at h5
      have h6 := (Skip.rdSkip_of_read _ Skip.compactPrims_like (3 * (p ++ q).length + 3)).1 d v.ttype rs (p ++ q) hd
      rw [h5, hext] at h6
      simp only [Skip.specC] at h6
      split at h6
      · simp at h6; exact hq h6.2.2
      · simp at h6
    | err k => simp [hrd] at hc
    | panic m => simp [hrd] at hc
    | fuel => simp [hrd] at hc

/-! ### non-vacuity -/
example : (TVal.struct (.cons 1 (.list .i32 (.cons (.i32 5) .nil)) (.cons 2 (.bool true) .nil))).wt = true := by decide
example : Binary.run .be (TVal.struct (.cons 1 (.i8 5) .nil)).ops = [3, 0, 1] ++ [5, 0] := by decide
example : (0 : Int) ≤ 64 := by decide
example : ({} : Compact.CW).pending = none ∧ ({} : Compact.CR).pendingBool = none := ⟨rfl, rfl⟩
example : Binary.read .be .i16 [1, 2, 3] = .ok (.i16 258, [3]) := by rfl

end Pilota.Props.C09
