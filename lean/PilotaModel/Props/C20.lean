import PilotaModel.TGen.Decode
/-
  C20 — the emitted `Default` is the IDL defaults, and it is what a decoder produces from an
  empty struct whenever that decode succeeds.
  `defaultOf` models `ImplDefaultPlugin` (plugin/mod.rs), `decode` models `codegen_decode`
  (codegen/thrift/mod.rs): two separate definitions, as in the Rust.  T1 compares both with the
  emitted code (`gf` / `gd … (struct)` requests) and the generator's own lowering of the IDL literals.
-/
namespace Pilota.Props.C20
open Pilota Pilota.Thrift Pilota.TGen

/-- the defaults-only part of `finish`: when the required check passes on an empty slot table the
result is exactly the list of declared defaults, which is what `ImplDefaultPlugin` builds. -/
theorem finish_empty (d : Doc) (f : Nat) (fs : List Field) (out : List (Int × TVal))
    (h : finish fs [] = .ok out) :
    out = fs.filterMap (dfltEntry (zeroOf d f)) := by
  induction fs generalizing out with
  | nil => simp [finish] at h; simp [h]
  | cons fl fs ih =>
    simp only [finish] at h
    cases hr : finish fs [] with
    | ok rest =>
      simp only [hr, slotGet, List.find?_nil, Option.map_none] at h
      cases hd : fl.dflt with
      | some dv => simp [hd] at h; simp [List.filterMap_cons, dfltEntry, hd, ← h, ih rest hr]
      | none =>
        simp [hd] at h
        by_cases hq : fl.required = true
        · simp [hq] at h
        · simp [hq] at h; simp [List.filterMap_cons, dfltEntry, hd, hq, ← h, ih rest hr]
    | err k => simp [hr] at h
    | panic m => simp [hr] at h
    | fuel => simp [hr] at h

/-- Binary / little-endian / unchecked binary: whenever decoding the empty struct (a lone STOP byte)
as the struct `n` succeeds, the value is the emitted `Default` and exactly the STOP byte is consumed. -/
theorem default_eq_decode_binary (e : Endian) (dp : Option Nat) (d : Doc) (n : String) (fs : List Field)
    (hn : d.find n = some (.struct fs)) (rest : Bytes) (v : TVal) (r : Bytes)
    (h : decode (binRd e dp) d n ((0 : UInt8) :: rest) = .ok (v, r)) :
    v = defaultOf d n ∧ r = rest := by
  unfold decode at h
  have hrem : (binRd e dp).remaining ((0 : UInt8) :: rest) = rest.length + 1 := by simp [binRd]
  rw [hrem] at h
  obtain ⟨f, hf⟩ : ∃ f, 3 * (rest.length + 1) + 8 = f + 1 + 1 := ⟨3 * rest.length + 9, by omega⟩
  rw [hf] at h
  have hfb : (binRd e dp).fieldBegin ((binRd e dp).structBegin ((0 : UInt8) :: rest)) = .ok ((.stop, 0), rest) := by
    simp [binRd, Binary.readFieldBegin, Binary.readTType, Binary.readByte, TType.ofByte]
  rw [decTy] at h
  simp only [hn] at h
  rw [decFields, hfb] at h
  simp only [if_true] at h
  have hse : (binRd e dp).structEnd rest = .ok rest := rfl
  rw [hse] at h
  simp only at h
  cases hfin : finish fs [] with
  | ok out =>
    simp [hfin] at h
    obtain ⟨rfl, rfl⟩ := h
    refine ⟨?_, rfl⟩
    have := finish_empty d (d.length + 1) fs out hfin
    subst this
    simp only [defaultOf, zeroOf, hn]
  | err k => simp [hfin] at h
  | panic m => simp [hfin] at h
  | fuel => simp [hfin] at h

/-- Compact: the same, from any reader state; the state is restored. -/
theorem default_eq_decode_compact (d : Doc) (n : String) (fs : List Field)
    (hn : d.find n = some (.struct fs)) (cr : Compact.CR) (rest : Bytes) (v : TVal) (s' : Compact.CR × Bytes)
    (h : decode cmpRd d n (cr, (0 : UInt8) :: rest) = .ok (v, s')) :
    v = defaultOf d n ∧ s' = (cr, rest) := by
  unfold decode at h
  have hrem : cmpRd.remaining (cr, (0 : UInt8) :: rest) = rest.length + 1 := by simp [cmpRd]
  rw [hrem] at h
  obtain ⟨f, hf⟩ : ∃ f, 3 * (rest.length + 1) + 8 = f + 1 + 1 := ⟨3 * rest.length + 9, by omega⟩
  rw [hf] at h
  have hfb : cmpRd.fieldBegin (cmpRd.structBegin (cr, (0 : UInt8) :: rest)) = .ok ((.stop, 0), (Compact.readStructBegin cr, rest)) := by
    simp [cmpRd, Compact.readFieldBegin, Compact.readByte, Binary.readByte, Compact.ttypeOfCompact, mapOut]
  rw [decTy] at h
  simp only [hn] at h
  rw [decFields, hfb] at h
  simp only [if_true] at h
  have hse : cmpRd.structEnd (Compact.readStructBegin cr, rest) = .ok (cr, rest) := by
    cases cr; simp [cmpRd, Compact.readStructBegin, Compact.readStructEnd, mapOut]
  rw [hse] at h
  simp only at h
  cases hfin : finish fs [] with
  | ok out =>
    simp [hfin] at h
    obtain ⟨rfl, rfl⟩ := h
    refine ⟨?_, rfl⟩
    have := finish_empty d (d.length + 1) fs out hfin
    subst this
    simp only [defaultOf, zeroOf, hn]
  | err k => simp [hfin] at h
  | panic m => simp [hfin] at h
  | fuel => simp [hfin] at h

/-- each field with an IDL default holds exactly that default in the emitted `Default`
(wrapped as present: it is encoded), in declaration order; other optional fields are absent. -/
theorem default_is_idl (d : Doc) (n : String) (fs : List Field) (hn : d.find n = some (.struct fs))
    (hopt : ∀ fl ∈ fs, fl.dflt = none → fl.required = false) :
    defaultOf d n = .struct (TFields.ofList (fs.filterMap fun fl => fl.dflt.map fun dv => (fl.id, dv))) := by
  simp only [defaultOf, zeroOf, hn]
  congr 2
  clear hn
  induction fs with
  | nil => rfl
  | cons fl fs ih =>
    have ih' := ih (fun x hx => hopt x (by simp [hx]))
    cases hd : fl.dflt with
    | some dv => simp [List.filterMap_cons, dfltEntry, hd, ih']
    | none => simp [List.filterMap_cons, dfltEntry, hd, hopt fl (by simp) hd, ih']

/-! non-vacuity: a struct with a defaulted optional, a defaulted default-requiredness and a plain optional field -/
def demo : Doc := [("S", .struct [
  { id := 1, ty := .string, required := false, dflt := some (.bin [104, 105]) },
  { id := 2, ty := .bool, required := false, dflt := some (.bool true) },
  { id := 3, ty := .i32, required := false }])]

example : (decode (binRd .be (some 64)) demo "S" [0]).isOk = true := by decide

end Pilota.Props.C20
