import PilotaModel.Lemmas.LowerTyped
import PilotaModel.Lemmas.KeepRT
/-
  C20 / C14 — the lowering of IDL default literals (Build/Lower.lean, model of pilota-build's `lit_into_ty`; compared on every
  run with the emitted `Default` of every struct of the run's documents: the driver lowers the literals itself and the `gf`
  answers are computed from ITS values).

  `lowered_default_is_typed`: for every document whose typedef chains resolve and whose struct field ids are distinct 16-bit
  numbers, every declared type and every literal the generator has an arm for - booleans, integers (also for bool, enum and
  double targets), doubles, strings, lists for list AND set targets, maps, enum members (also for integer targets, with
  Rust's `as` cast), constants, struct literals, through typedef chains and at any nesting - the lowered value is a value of the
  declared type (`hasTy`: TGen/Typed.lean), provided struct literals name every required field and every field with a default of
  its own (`fullLit`; otherwise `Default::default()` / `None` enter, see `missing_defaulted_field_is_none`).
  `lowered_default_is_canon` turns this into the hypothesis of `Props/C20b.default_encodes_validly` ("each entry of the default is
  a value of its field's declared type"), which is thereby discharged for lowered documents.
-/
namespace Pilota.Props.C20c
open Pilota Pilota.Thrift Pilota.TGen Pilota.Build

/-- **a lowered default literal is a value of the declared type** -/
theorem lowered_default_is_typed (d : Doc) (ht : typedefsOk d) (hi : idsOk d) (f : Nat) (ty : STy) (lit : Lit) (v : TVal)
    (h : lowerLit d f ty lit = some v) (hf : fullLit d f ty lit = true) : ∃ F, hasTy d F ty v = true :=
  (lower_typed_all d ht hi f).1 ty lit v h hf

/-- … and has the wire type the field header announces -/
theorem lowered_default_has_wire_type (d : Doc) (ht : typedefsOk d) (f : Nat) (ty : STy) (lit : Lit) (v : TVal)
    (h : lowerLit d f ty lit = some v) : v.ttype = d.ttype ty := lower_ttype d ht f ty lit v h

/-- … hence a fixpoint of the decoder's projection: what `default_encodes_validly` (C20b) asks of every default entry -/
theorem lowered_default_is_canon (d : Doc) (dp : Option Nat) (ht : typedefsOk d) (hi : idsOk d) (f : Nat) (ty : STy) (lit : Lit) (v : TVal)
    (h : lowerLit d f ty lit = some v) (hf : fullLit d f ty lit = true) :
    d.ttype ty = v.ttype ∧ ∃ F, projTy d dp F ty v = some (.ok v) := by
  obtain ⟨F, hF⟩ := lowered_default_is_typed d ht hi f ty lit v h hf
  exact ⟨(lower_ttype d ht f ty lit v h).symm, canon_of_hasTy d dp (fun n fs hn => (hi n fs hn).1) F ty v hF⟩

/-! ### the decisions of `lit_into_ty`, stated outright -/

/-- an integer literal for a bool field is `i != 0` -/
theorem int_for_bool (d : Doc) (f : Nat) (n : Int) : lowerLit d (f + 1) .bool (.int n) = some (.bool (n != 0)) := by simp [lowerLit]

/-- an integer literal out of range of its field's type has no value (rustc rejects the suffixed literal) -/
theorem int_out_of_range (d : Doc) (f : Nat) : lowerLit d (f + 1) .i8 (.int 128) = none := by simp only [lowerLit]; decide

/-- an enum member given for an integer field goes through Rust's `as` cast -/
theorem variant_for_i8_wraps (d : Doc) (f : Nat) : lowerLit d (f + 1) .i8 (.variant 300) = some (.i8 44) := by simp only [lowerLit]; decide

/-- a constant is accepted only at its declared type -/
theorem const_needs_same_type (d : Doc) (f : Nat) : lowerLit d (f + 1) .i64 (.const .i32 (.int 5)) = none := by simp [lowerLit]

def demo : Doc := [("Lvl", .enum), ("Id", .typedef .i64),
  ("Pt", .struct [{ id := 1, ty := .i32, required := false }, { id := 3, ty := .i32, required := false, dflt := some (.i32 4) },
                  { id := 4, ty := .ref "Id", required := true }, { id := 5, ty := .ref "Lvl", required := false }])]

/-- a list literal for a set field builds a hash set: duplicates collapse -/
theorem list_for_set_dedups :
    lowerLit demo 6 (.set .i32) (.list (.cons (.int 3) (.cons (.int 1) (.cons (.int 3) .nil)))) =
      some (.set .i32 (.cons (.i32 3) (.cons (.i32 1) .nil))) := by decide +kernel

/-- a struct literal that does not mention an optional field leaves it `None` even when the field has a default of its own:
the lowered struct is then NOT what `Pt::default()` holds for that field -/
theorem missing_defaulted_field_is_none :
    lowerLit demo 9 (.ref "Pt") (.strct (.cons 4 (.int 9) .nil)) = some (.struct (.cons 4 (.i64 9) .nil)) := by decide

/-! non-vacuity of `lowered_default_is_typed`: a struct literal through a typedef and an enum member, inside a map inside a list -/
def demoTy : STy := .list (.map .string (.ref "Pt"))
def demoLit : Lit := .list (.cons (.map (.cons (.str [107]) (.strct (.cons 3 (.int 7) (.cons 4 (.const (.ref "Id") (.int 9)) (.cons 5 (.variant 2) .nil)))) .nil)) .nil)
example : fullLit demo 20 demoTy demoLit = true ∧
    lowerLit demo 20 demoTy demoLit = some (.list .map (.cons (.map .binary .struct (.cons (.bin [107])
      (.struct (.cons 3 (.i32 7) (.cons 4 (.i64 9) (.cons 5 (.i32 2) .nil)))) .nil)) .nil)) := by decide +kernel
example : typedefsOk demo := by
  intro n t h
  by_cases hI : n = "Id"
  · subst hI; simp [demo, Doc.find] at h; subst h; decide
  · exfalso
    simp only [demo, Doc.find, List.find?] at h
    have h2 : ("Id" == n) = false := by simpa using fun h => hI h.symm
    by_cases hL : ("Lvl" == n) = true
    · simp [hL] at h
    · simp only [hL, h2] at h
      split at h <;> simp at h

end Pilota.Props.C20c
