import PilotaModel.Build.Names
/-
  C14 — every IDL in the supported grammar generates Rust that compiles.
  Level: `other`.  The decisive predicate (rustc accepts the file) has no feasible model; rustc is
  the implementation side of the check (`cargo check` on everything the real generator emits for the
  run's documents × configurations).  What is logic in pilota-build's naming is modelled and proved.
-/
namespace Pilota.Props.C14
open Pilota.Build Pilota.Gen.Tables

/-- Rust 2024 strict and reserved keywords (reference: "Keywords"), excluding the four path-segment ones. -/
def rustKeywords : List String :=
  ["as", "break", "const", "continue", "else", "enum", "extern", "false", "fn", "for", "if", "impl", "in", "let", "loop",
   "match", "mod", "move", "mut", "pub", "ref", "return", "static", "struct", "trait", "true", "type", "unsafe", "use", "where",
   "while", "async", "await", "dyn", "abstract", "become", "box", "do", "final", "macro", "override", "priv", "typeof", "unsized",
   "virtual", "yield", "try", "gen"]

/-- T2: the generator's keyword table (extracted from symbol.rs on this run) covers every Rust keyword,
and the path-segment keywords are exactly the four that cannot be raw identifiers. -/
theorem keyword_table_complete : (∀ k ∈ rustKeywords, keywords.contains k = true) ∧
    pathSegmentKeywords = ["super", "self", "Self", "crate"] := by decide

/-- no keyword of the table starts with `r#` or ends with `_` in a way that would collide with an escape. -/
theorem escapes_are_fresh :
    (∀ k ∈ pathSegmentKeywords, keywords.contains (k ++ "_") = false ∧ pathSegmentKeywords.contains (k ++ "_") = false) ∧
    (∀ k ∈ keywords, keywords.contains ("r#" ++ k) = false) := by decide

/-- Whatever the identifier, what is printed is never a bare keyword: a path-segment keyword is
printed with a trailing underscore, any other keyword as a raw identifier. -/
theorem display_not_keyword (s : String) :
    (pathSegmentKeywords.contains s = true → display s = s ++ "_") ∧
    (pathSegmentKeywords.contains s = false → keywords.contains s = true → display s = "r#" ++ s) ∧
    (pathSegmentKeywords.contains s = false → keywords.contains s = false → display s = s) := by
  unfold display
  refine ⟨?_, ?_, ?_⟩ <;> intros <;> simp_all

/-- for every keyword of either table the printed form is not in either table. -/
theorem display_of_keyword_is_fresh :
    ∀ k ∈ keywords ++ pathSegmentKeywords,
      keywords.contains (display k) = false ∧ pathSegmentKeywords.contains (display k) = false := by decide

theorem commonPrefix_le (p1 p2 : List String) : commonPrefix p1 p2 ≤ p1.length ∧ commonPrefix p1 p2 ≤ p2.length := by
  induction p1 generalizing p2 with
  | nil => simp [commonPrefix]
  | cons a as ih =>
    cases p2 with
    | nil => simp [commonPrefix]
    | cons b bs =>
      simp only [commonPrefix]
      split
      · have := ih bs; simp; omega
      · simp

theorem take_commonPrefix (p1 p2 : List String) : p1.take (commonPrefix p1 p2) = p2.take (commonPrefix p1 p2) := by
  induction p1 generalizing p2 with
  | nil => simp [commonPrefix]
  | cons a as ih =>
    cases p2 with
    | nil => simp [commonPrefix]
    | cons b bs =>
      simp only [commonPrefix]
      split
      · rename_i h; subst h; simp [ih bs]
      · simp

theorem resolve_supers (cur : List String) (n : Nat) (h : n ≤ cur.length) (rest : List Seg) :
    resolve cur (List.replicate n Seg.super ++ rest) = resolve (cur.take (cur.length - n)) rest := by
  induction n generalizing cur with
  | zero => simp
  | succ n ih =>
    simp only [List.replicate_succ, List.cons_append, resolve]
    cases hr : cur.reverse with
    | nil => simp at hr; subst hr; simp at h
    | cons x r =>
      have hc : cur = r.reverse ++ [x] := by
        have := congrArg List.reverse hr; simpa using this
      simp only
      rw [ih r.reverse (by rw [hc] at h; simp at h ⊢; omega)]
      subst hc
      simp
      congr 1
      rw [List.take_append_of_le_length (by simp)]

theorem resolve_idents (cur : List String) (xs : List String) : resolve cur (xs.map Seg.ident) = some (cur ++ xs) := by
  induction xs generalizing cur with
  | nil => simp [resolve]
  | cons x xs ih => simp [resolve, ih]

/-- The relative path the generator prints from module `p1` to the item at `p2` resolves, by Rust's
`super::` rules, to exactly `p2` — for every pair of distinct paths. -/
theorem related_path_resolves (p1 p2 : List String) (h : p1 ≠ p2) :
    resolve p1 (relatedPath p1 p2) = some p2 := by
  unfold relatedPath
  simp only [h, if_false]
  have hle := commonPrefix_le p1 p2
  rw [resolve_supers p1 _ (by omega)]
  rw [resolve_idents]
  have : p1.length - (p1.length - commonPrefix p1 p2) = commonPrefix p1 p2 := by omega
  rw [this, take_commonPrefix, List.take_append_drop]

/-! non-vacuity -/
example : display "type" = "r#type" ∧ display "self" = "self_" ∧ display "Foo" = "Foo" := by decide
example : relatedPath ["a", "b"] ["a", "c", "X"] = [.super, .ident "c", .ident "X"] := by decide

end Pilota.Props.C14
