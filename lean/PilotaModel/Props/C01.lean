import PilotaModel.Lemmas.Fuel
import PilotaModel.Lemmas.OpsRun
import PilotaModel.Thrift.Linked
/-
  C01 — Thrift runtime round trip on every protocol and buffer kind.
  Property theorems only; helper lemmas live in `PilotaModel/Lemmas`.
-/
namespace Pilota.Props.C01
open Pilota Pilota.Thrift

/-- Binary and little-endian binary: reading back what the op sequence of a well-typed value
wrote gives exactly that value and leaves exactly the trailing bytes. -/
theorem binary_roundtrip (e : Endian) (v : TVal) (hw : v.wt = true) (rest : Bytes) :
    Binary.read e v.ttype (Binary.run e v.ops ++ rest) = .ok (v, rest) := by
  rw [Binary.run_ops]
  unfold Binary.read
  apply Binary.readVal_enc e v hw
  have := Binary.size_le e v hw
  simp only [List.length_append]; omega

/-- Compact: the writer accepts the op sequence from any state without a deferred bool and
returns to that state; a reader in any state without a pending bool reads the value back
(up to the key/value types of empty maps, which are not on the wire), returns to its own state,
and leaves exactly the trailing bytes. -/
theorem compact_roundtrip (v : TVal) (hw : v.wt = true) (ws : Compact.CW) (hp : ws.pending = none) :
    ∃ bs, Compact.run ws v.ops = .ok (ws, bs) ∧
      ∀ (rs : Compact.CR), rs.pendingBool = none → ∀ rest : Bytes,
        Compact.read v.ttype rs (bs ++ rest) = .ok (Compact.norm v, rs, rest) := by
  refine ⟨Compact.enc v, Compact.run_ops v hw ws hp, ?_⟩
  intro rs hr rest
  unfold Compact.read
  apply Compact.readVal_enc v hw _ _ rs hr
  have := Compact.size_le v hw
  simp only [List.length_append]; omega

/-! ### sequences of values on one buffer, one protocol instance -/

def Binary.readAll (e : Endian) : List TType → Bytes → Out (List TVal × Bytes)
  | [], bs => .ok ([], bs)
  | t :: ts, bs => match Binary.read e t bs with
    | .ok (v, r) => match readAll e ts r with
      | .ok (vs, r) => .ok (v :: vs, r)
      | .err k => .err k | .panic m => .panic m | .fuel => .fuel
    | .err k => .err k | .panic m => .panic m | .fuel => .fuel

def Compact.readAll : List TType → Compact.CR → Bytes → Out (List TVal × Compact.CR × Bytes)
  | [], s, bs => .ok ([], s, bs)
  | t :: ts, s, bs => match Compact.read t s bs with
    | .ok (v, s, r) => match readAll ts s r with
      | .ok (vs, s, r) => .ok (v :: vs, s, r)
      | .err k => .err k | .panic m => .panic m | .fuel => .fuel
    | .err k => .err k | .panic m => .panic m | .fuel => .fuel

theorem binary_seq_roundtrip (e : Endian) (vs : List TVal) (hw : ∀ v ∈ vs, v.wt = true) (rest : Bytes) :
    Binary.readAll e (vs.map TVal.ttype) (Binary.run e (vs.flatMap TVal.ops) ++ rest) = .ok (vs, rest) := by
  induction vs with
  | nil => simp [Binary.readAll, Binary.run]
  | cons v vs ih =>
    simp only [List.map_cons, List.flatMap_cons, Binary.run_append, List.append_assoc, Binary.readAll]
    rw [binary_roundtrip e v (hw v (by simp))]
    simp only
    rw [ih (fun x hx => hw x (by simp [hx]))]

theorem compact_seq_roundtrip (vs : List TVal) (hw : ∀ v ∈ vs, v.wt = true) (ws : Compact.CW) (hp : ws.pending = none) :
    ∃ bs, Compact.run ws (vs.flatMap TVal.ops) = .ok (ws, bs) ∧
      ∀ (rs : Compact.CR), rs.pendingBool = none → ∀ rest : Bytes,
        Compact.readAll (vs.map TVal.ttype) rs (bs ++ rest) = .ok (vs.map Compact.norm, rs, rest) := by
  induction vs with
  | nil => exact ⟨[], by simp [Compact.run], by intro rs _ rest; simp [Compact.readAll]⟩
  | cons v vs ih =>
    obtain ⟨b1, hb1, hr1⟩ := compact_roundtrip v (hw v (by simp)) ws hp
    obtain ⟨b2, hb2, hr2⟩ := ih (fun x hx => hw x (by simp [hx]))
    refine ⟨b1 ++ b2, ?_, ?_⟩
    · simp only [List.flatMap_cons]
      exact Compact.run_ok_append _ _ _ _ _ _ _ hb1 hb2
    · intro rs hr rest
      simp only [List.map_cons, Compact.readAll, List.append_assoc]
      rw [hr1 rs hr (b2 ++ rest)]
      simp only
      rw [hr2 rs hr rest]

/-! ### LinkedBytes-backed writers: zero-copy only changes where the bytes live -/

open Linked in
/-- Writing through a `LinkedBytes` (zero-copy on or off, any threshold, any string API) yields
nodes whose concatenation is what the contiguous writer appends, provided each binary payload's
bytes are its length prefix followed by the payload (true of all three protocols, below). -/
theorem linked_concat (compact zc : Bool) (thr : Nat) (api : StrApi) (l : LB)
    (steps : List (Op × Bytes × Bytes))
    (hpre : ∀ o w p, (o, w, p) ∈ steps → ∀ bs, o = .bytes bs → w = p ++ bs) :
    (steps.foldl (fun l (o, w, p) => step compact zc thr api l o w p) l).concat
      = l.concat ++ (steps.map (fun x => x.2.1)).flatten := by
  induction steps generalizing l with
  | nil => simp
  | cons x xs ih =>
    obtain ⟨o, w, p⟩ := x
    simp only [List.foldl_cons, List.map_cons, List.flatten_cons]
    rw [ih _ (fun o' w' p' h => hpre o' w' p' (by simp [h]))]
    have hstep : (step compact zc thr api l o w p).concat = l.concat ++ w := by
      unfold step
      cases o <;> simp [LB.put, LB.concat]
      case bytes bs =>
        have := hpre (.bytes bs) w p (by simp) bs rfl
        split <;> simp [LB.put, LB.insert, LB.concat, this]
    rw [hstep, List.append_assoc]

/-- the length-prefix hypothesis of `linked_concat` holds for the binary writers… -/
theorem binary_bytes_prefix (e : Endian) (bs : Bytes) :
    Binary.wOp e (.bytes bs) = Binary.i e 4 (toS 4 bs.length) ++ bs := rfl

/-- …and for the compact writer. -/
theorem compact_bytes_prefix (s : Compact.CW) (bs : Bytes) :
    Compact.wStep s (.bytes bs) = .ok (s, encVar (bs.length % 2 ^ 32) ++ bs) := rfl

/-! ### non-vacuity: a nested struct ending at field 5 followed by sibling field 2, a bool
field, a `list<bool>`, a NaN double — satisfies every hypothesis above. -/

def witness : TVal :=
  .struct (.cons 1 (.struct (.cons 5 (.i32 1) .nil))
          (.cons 2 (.bool true)
          (.cons 3 (.list .bool (.cons (.bool true) (.cons (.bool false) .nil)))
          (.cons 4 (.dbl 0x7ff8000000000001) .nil))))

example : witness.wt = true := by decide
example : ({} : Compact.CW).pending = none ∧ ({} : Compact.CR).pendingBool = none := ⟨rfl, rfl⟩

end Pilota.Props.C01
