import PilotaModel.TGen.Decode
import PilotaModel.Lemmas.BinaryRT
import PilotaModel.Lemmas.CompactRT
import PilotaModel.Lemmas.Tolerant
import PilotaModel.Lemmas.TolerantC
import PilotaModel.Lemmas.ProjMono
import PilotaModel.Lemmas.OpsRun
/-
  C02 — generated Thrift types round trip under every protocol.

  Main theorem (`gen_roundtrip_binary`; binary / little-endian / unchecked binary): for every document,
  every declared type and every value `v` of the emitted type — `Canon`: a value that the decoder
  itself maps to itself, i.e. fields in declaration order with defaults present, containers of the
  declared element types, sets and map keys without duplicates — decoding what the emitted encoder
  writes returns `v` and consumes exactly those bytes, with any trailing input left in place.
  `decoded_is_canon_example` / `default_comes_back` show the one permitted difference (an absent
  optional field with an IDL default comes back holding the default).
  `gen_roundtrip_compact` is the same statement for the compact protocol, from every reader state without a
  deferred bool and with that state restored.  The earlier `_partial` leaves (`base_roundtrip_*`,
  `known_field_decoded`) are kept: they are the steps the inductions are made of.
  The emitted encoder is `TVal.ops` of the decoded value (the field order and the per-type calls of
  `codegen_encode_fields` are checked against the real emitted code by T1 on every run).
-/
namespace Pilota.Props.C02
open Pilota Pilota.Thrift Pilota.TGen

/-- `v` is a value of the emitted type `ty` as the emitted encoder writes it: the decoder's own
projection maps it to itself (with recursion budget `f`). -/
def Canon (d : Doc) (dp : Option Nat) (f : Nat) (ty : STy) (v : TVal) : Prop := projTy d dp f ty v = some (.ok v)

/-- **Round trip of emitted types, binary family.**  `hf`: the budget the projection needed is within the
budget of the `decode` entry point (3 · input length + 8) — one unit per value node and per typedef link,
while every node occupies at least one input byte. -/
theorem gen_roundtrip_binary (e : Endian) (dp : Option Nat) (d : Doc) (n : String) (v : TVal) (rest : Bytes) (f : Nat)
    (hed : EndianOk e dp) (hw : v.wt = true) (hc : Canon d dp f (.ref n) v) (hf : f ≤ 3 * (Binary.run e v.ops ++ rest).length + 8) :
    decode (binRd e dp) d n (Binary.run e v.ops ++ rest) = .ok (v, rest) := by
  unfold decode
  have hrem : (binRd e dp).remaining (Binary.run e v.ops ++ rest) = (Binary.run e v.ops ++ rest).length := rfl
  rw [hrem]
  have := (corr_all e dp d hed _).1 (.ref n) v rest (.ok v) hw (projTy_mono d dp f _ hf _ v v hc)
  rw [Binary.run_ops] at this ⊢
  exact this

/-- **Round trip of emitted types, compact protocol.** -/
theorem gen_roundtrip_compact (d : Doc) (n : String) (v : TVal) (cr : Compact.CR) (rest : Bytes) (f : Nat)
    (hcr : cr.pendingBool = none) (hw : v.wt = true) (hc : Canon d dpC f (.ref n) v)
    (hf : f ≤ 3 * (Compact.enc v ++ rest).length + 8) :
    decode cmpRd d n (cr, Compact.enc v ++ rest) = .ok (v, (cr, rest)) := by
  unfold decode
  have hrem : cmpRd.remaining (cr, Compact.enc v ++ rest) = (Compact.enc v ++ rest).length := rfl
  rw [hrem]
  exact (corrC_all d _).1 (.ref n) v cr rest (.ok v) hw hcr (projTy_mono d dpC f _ hf _ v v hc)

def demoDoc : Doc := [("S", .struct [{ id := 1, ty := .i32, required := true },
  { id := 2, ty := .list (.ref "S"), required := false }, { id := 3, ty := .bool, required := false, dflt := some (.bool true) }])]
def demoVal : TVal := .struct (.cons 1 (.i32 5) (.cons 2 (.list .struct (.cons (.struct (.cons 1 (.i32 6) (.cons 3 (.bool false) .nil))) .nil)) (.cons 3 (.bool true) .nil)))
example : demoVal.wt = true ∧ Canon demoDoc (some 64) 12 (.ref "S") demoVal := ⟨by decide, by unfold Canon; decide⟩
example : Canon demoDoc dpC 12 (.ref "S") demoVal ∧ (12 : Nat) ≤ 3 * (Compact.enc demoVal ++ []).length + 8 := ⟨by unfold Canon; decide, by decide +kernel⟩
/-- the permitted difference: the absent optional field 3 comes back holding its IDL default -/
theorem default_comes_back :
    projTy demoDoc (some 64) 9 (.ref "S") (.struct (.cons 1 (.i32 5) .nil)) = some (.ok (.struct (.cons 1 (.i32 5) (.cons 3 (.bool true) .nil)))) := by decide

/-- base schema types and the wire values that inhabit them -/
def baseOf : TVal → Option STy
  | .bool _ => some .bool | .i8 _ => some .i8 | .i16 _ => some .i16 | .i32 _ => some .i32 | .i64 _ => some .i64
  | .dbl _ => some .double | .bin _ => some .binary | .uuid _ => some .uuid
  | _ => none

theorem base_roundtrip_binary_partial (e : Endian) (dp : Option Nat) (d : Doc) (v : TVal) (ty : STy)
    (hb : baseOf v = some ty) (hw : v.wt = true) (f : Nat) (rest : Bytes) :
    decTy (binRd e dp) d (f + 1) ty (Binary.enc e v ++ rest) = .ok (v, rest) := by
  cases v <;> simp [baseOf] at hb <;> subst hb <;> simp [TVal.wt] at hw
  case bool b =>
    rw [decTy]
    cases b <;> simp [binRd, Binary.enc, Binary.readI, Binary.readU, Binary.takeN, mapOut, toS] <;> cases e <;> simp [decFixed, beToNat, leToNat] <;> decide
  case i8 n => rw [decTy]; simp [binRd, Binary.enc, Binary.readI_i e 1 (by decide) n hw, mapOut]
  case i16 n => rw [decTy]; simp [binRd, Binary.enc, Binary.readI_i e 2 (by decide) n hw, mapOut]
  case i32 n => rw [decTy]; simp [binRd, Binary.enc, Binary.readI_i e 4 (by decide) n hw, mapOut]
  case i64 n => rw [decTy]; simp [binRd, Binary.enc, Binary.readI_i e 8 (by decide) n hw, mapOut]
  case dbl b =>
    have : b % 256 ^ 8 = b := Nat.mod_eq_of_lt (by have : (256:Nat)^8 = 2^64 := by decide
                                                   omega)
    rw [decTy]; simp [binRd, Binary.enc, Binary.readU_enc, this, mapOut]
  case bin bs => rw [decTy]; simp [binRd, Binary.enc, List.append_assoc, Binary.readBytes_enc e bs rest hw, mapOut]
  case uuid bs => rw [decTy]; simp [binRd, Binary.enc, Binary.takeN_append' 16 bs rest hw, mapOut]

theorem base_roundtrip_compact_partial (d : Doc) (v : TVal) (ty : STy)
    (hb : baseOf v = some ty) (hw : v.wt = true) (f : Nat) (cr : Compact.CR) (hp : cr.pendingBool = none) (rest : Bytes) :
    decTy cmpRd d (f + 1) ty (cr, Compact.enc v ++ rest) = .ok (v, (cr, rest)) := by
  cases v <;> simp [baseOf] at hb <;> subst hb <;> simp [TVal.wt] at hw
  case bool b =>
    rw [decTy]
    cases b <;> simp [cmpRd, Compact.enc, Compact.readBool, hp, Compact.boolByte, Compact.readByte, Binary.readByte, mapOut]
  case i8 n => rw [decTy]; simp [cmpRd, Compact.enc, Binary.readI_i .be 1 (by decide) n hw, mapOut]
  case i16 n => rw [decTy]; simp [cmpRd, Compact.enc, readVarS_zigzag 2 (Or.inl rfl) n hw, mapOut]
  case i32 n => rw [decTy]; simp [cmpRd, Compact.enc, readVarS_zigzag 4 (Or.inr (Or.inl rfl)) n hw, mapOut]
  case i64 n => rw [decTy]; simp [cmpRd, Compact.enc, readVarS_zigzag 8 (Or.inr (Or.inr rfl)) n hw, mapOut]
  case dbl b =>
    have : b % 256 ^ 8 = b := Nat.mod_eq_of_lt (by have : (256:Nat)^8 = 2^64 := by decide
                                                   omega)
    rw [decTy]; simp [cmpRd, Compact.enc, Binary.readU_enc, this, mapOut]
  case bin bs => rw [decTy]; simp [cmpRd, Compact.enc, List.append_assoc, Compact.readBytes_enc bs rest hw, mapOut]
  case uuid bs => rw [decTy]; simp [cmpRd, Compact.enc, Binary.takeN_append' 16 bs rest hw, mapOut]

/-- the loop step for a field the reader declares with the wire type that arrived: it is decoded by
its declared type and stored under its id (replacing an earlier occurrence), then the loop goes on. -/
theorem known_field_decoded {σ : Type} (R : Rd σ) (d : Doc) (f : Nat) (fs : List Field) (slots : List (Int × TVal))
    (s s1 : σ) (t : TType) (id : Int) (fl : Field)
    (hb : R.fieldBegin s = .ok ((t, id), s1)) (ht : t ≠ .stop)
    (hk : fs.find? (fun x => x.id == id && d.ttype x.ty == t) = some fl) :
    decFields R d (f + 1) fs slots s =
      (match decTy R d f fl.ty s1 with
       | .ok (v, s2) => decFields R d f fs (slotSet slots id v) s2
       | .err k => .err k | .panic m => .panic m | .fuel => .fuel) := by
  rw [decFields, hb]
  simp only [ht, if_false, hk]
  rfl

/-- a later occurrence of a field replaces the earlier one -/
theorem slot_last_wins (slots : List (Int × TVal)) (id : Int) (v w : TVal) :
    slotGet (slotSet (slotSet slots id v) id w) id = some w := by
  simp [slotGet, slotSet, List.find?_append, List.filter_append]
  induction slots with
  | nil => rfl
  | cons a as ih => simpa using ih

/-! non-vacuity -/
example : baseOf (.i32 (-7)) = some .i32 ∧ (TVal.i32 (-7)).wt = true := ⟨rfl, by decide⟩
example : (decTy (binRd .le (some 64)) [] 1 .i32 (Binary.enc .le (.i32 (-7)) ++ [9])).isOk = true := by decide

end Pilota.Props.C02
