import PilotaModel.Lemmas.GraphBox
import PilotaModel.Build.Derive
/-
  C14 — recursive and mutually recursive types: the boxing decision of pilota-build (`BoxedPlugin` over
  `TypeGraph::is_nested`), modelled in Build/Graph.lean and compared with the `Box<…>` fields of the emitted Rust
  on every run (T1, type-graph zoo of bin/compilesuite.py).

  `boxing_decision_exact`: the executable decision is the plugin's rule (a direct-path field of a struct is boxed
  iff its target reaches the struct back in the type graph), for every document on which the fixpoint search
  finished.  `boxed_breaks_cycles`: no struct is reachable by value from the target of one of its own by-value
  fields.  `emitted_types_have_finite_size`: if no cycle runs through unions / typedefs only, there is no by-value
  cycle at all after boxing (rustc's E0072 cannot arise); the excluded shape is known finding D32
  (`union_cycle_is_not_boxed` is its witness).
-/
namespace Pilota.Props.C14Graph
open Pilota.Build

theorem boxing_decision_exact (g : GDoc) (hs : saturated g = true) (s i p : Nat) (it : GItem)
    (hg : g[s]? = some it) (hk : it.kind = .message) (hf : it.fields[i]? = some (GTy.path p)) :
    decision g s i = true ↔ Reach (succ g) p s :=
  decision_iff g hs s i p it hg hk hf

theorem boxed_breaks_cycles (g : GDoc) (hs : saturated g = true) (s p : Nat) (it : GItem)
    (hg : g[s]? = some it) (hk : it.kind = .message) (hp : p ∈ inlineSucc g (decision g) s) :
    ¬ Reach (inlineSucc g (decision g)) p s :=
  Pilota.Build.boxed_breaks_cycles g (decision g) (decision_covers g hs) s p it hg hk hp

theorem emitted_types_have_finite_size (g : GDoc) (hs : saturated g = true)
    (hu : ∀ a b, b ∈ unionSucc g a → ¬ Reach (unionSucc g) b a) (a b : Nat) (hab : b ∈ inlineSucc g (decision g) a) :
    ¬ Reach (inlineSucc g (decision g)) b a :=
  inline_acyclic g (decision g) (decision_covers g hs) hu a b hab

/-- only fields that are direct paths of structs are ever boxed -/
theorem only_struct_paths_boxed (g : GDoc) (s i : Nat) (h : decision g s i = true) :
    ∃ it p, g[s]? = some it ∧ it.kind = .message ∧ it.fields[i]? = some (GTy.path p) := by
  unfold decision boxedB at h
  cases hg : g[s]? with
  | none => simp [hg] at h
  | some it =>
    simp only [hg] at h
    cases hk : it.kind with
    | message =>
      simp only [hk] at h
      cases hf : it.fields[i]? with
      | none => simp [hf] at h
      | some t =>
        cases t with
        | other => simp [hf] at h
        | path p => exact ⟨it, p, rfl, hk, hf⟩
    | union => simp [hk] at h
    | newtype => simp [hk] at h

/-! non-vacuity and the D32 witness -/

/-- `struct T { 1: optional A a, 2: optional U u, 3: list<T> l }  struct A { 1: B b }  struct B { 1: optional A a }
struct U { 1: T t }`: the fields A.b, B.a, T.u, U.t are boxed; T.a (A does not reach T) and the list are not. -/
def zoo : GDoc := [⟨.message, [.path 1, .path 3, .other]⟩, ⟨.message, [.path 2]⟩, ⟨.message, [.path 1]⟩, ⟨.message, [.path 0]⟩]
example : saturated zoo = true ∧ boxedFields zoo = [(0, 1), (1, 0), (2, 0), (3, 0)] := by decide
example : ∀ a b, b ∈ unionSucc zoo a → ¬ Reach (unionSucc zoo) b a := by
  intro a b h
  unfold unionSucc at h
  cases hg : zoo[a]? with
  | none => simp [hg] at h
  | some it =>
    have : it.kind = .message := by
      simp only [zoo] at hg
      match a, hg with
      | 0, hg | 1, hg | 2, hg | 3, hg => simp at hg; subst hg; rfl
      | n+4, hg => simp at hg
    simp [hg, this] at h

/-- known finding D32 at the level of the model: `union U { 1: i32 a, 2: U u }` is a by-value cycle that boxing does not
touch (only struct fields are boxed). -/
def d32 : GDoc := [⟨.union, [.other, .path 0]⟩]
theorem union_cycle_is_not_boxed : saturated d32 = true ∧ boxedFields d32 = [] ∧ 0 ∈ inlineSucc d32 (decision d32) 0 := by decide

end Pilota.Props.C14Graph

/-! ## automatic derives (`AutoDerivePlugin`): PartialOrd, and Hash / Eq / Ord -/
namespace Pilota.Props.C14Graph
open Pilota.Build

/-- the executable decision is the specification: the derive is given iff nothing reachable through field types is rejected -/
theorem derive_decision_exact (g : DDoc) (hash : Bool) (n : Nat) (b : Bool) (h : canDeriveB g hash n = some b) :
    b = true ↔ CanDerive g hash n := canDeriveB_iff g hash n b h

/-- what rustc needs of a `#[derive]`: no rejected field type in the item, every item its field types mention derives too -/
theorem derive_closed (g : DDoc) (hash : Bool) (n : Nat) (h : CanDerive g hash n) :
    badAt g hash n = false ∧ ∀ p ∈ dsucc g n, CanDerive g hash p := canDerive_closed g hash n h

/-- an item left without the derive could not have had it -/
theorem derive_maximal (g : DDoc) (hash : Bool) (n : Nat) (h : canDeriveB g hash n = some false) :
    ∃ m, Reach (dsucc g) n m ∧ badAt g hash m = true := not_canDerive_has_witness g hash n false h rfl

theorem derive_hash_implies_partialOrd (g : DDoc) (n : Nat) (h : CanDerive g true n) : CanDerive g false n :=
  hash_implies_partialOrd g n h

/-- non-vacuity: `struct T { A a, U u, set<double> n }  struct A { list<B> b }  struct B { A a }  struct U { T t }
struct K { i32 k, double d }  struct L { i32 x }`: A and B (a closed cycle of clean types) and L derive both; K only PartialOrd;
T and U (a cycle through T's set) neither. -/
def dzoo : DDoc := [⟨[.path 1, .path 3, .mapset]⟩, ⟨[.path 2]⟩, ⟨[.path 1]⟩, ⟨[.path 0]⟩, ⟨[.leaf, .float]⟩, ⟨[.leaf]⟩]
example : dsaturated dzoo = true ∧ derivingItems dzoo false = [1, 2, 4, 5] ∧ derivingItems dzoo true = [1, 2, 5] := by decide

end Pilota.Props.C14Graph
