import PilotaModel.TGen.Decode
/-
  C08 — generated decoders are tolerant readers.
  The tolerance decisions of the emitted field loops (`codegen_decode_fields`, the union arm of
  `codegen_enum_impl`, the required check and default filling of `codegen_decode`), stated outright
  for EVERY protocol reader `R`, every document, every reader state.

  Full statement (not yet proved; DESIGN.md section 8, `tolerant`):
    decode dr n p (run p (encode dw n v)) = project dw dr v      for every writer schema dw.
  Proved here: each decision the projection is made of.  Not true of the code as it is (known
  findings D26, D29): container element types and the wire type of a union variant are not
  checked; `union_known_id_decoded_whatever_the_wire_type` states what the code does instead.
-/
namespace Pilota.Props.C08
open Pilota Pilota.Thrift Pilota.TGen

variable {σ : Type} (R : Rd σ) (d : Doc)

/-- A field whose id the reader does not declare is skipped with the protocol's own skipper and
changes nothing else: the slots decoded so far are untouched. -/
theorem unknown_field_skipped (f : Nat) (fs : List Field) (slots : List (Int × TVal)) (s s1 : σ) (t : TType) (id : Int)
    (hb : R.fieldBegin s = .ok ((t, id), s1)) (ht : t ≠ .stop) (hunk : ∀ fl ∈ fs, fl.id ≠ id) :
    decFields R d (f + 1) fs slots s =
      (match R.skip t s1 with
       | .ok s2 => decFields R d f fs slots s2
       | .err k => .err k | .panic m => .panic m | .fuel => .fuel) := by
  rw [decFields, hb]
  simp only [ht, if_false]
  have : fs.find? (fun fl => fl.id == id && d.ttype fl.ty == t) = none := by
    rw [List.find?_eq_none]
    intro fl hfl
    simp [hunk fl hfl]
  rw [this]
  rfl

/-- A field whose id is declared but whose wire type differs from the declared type is skipped
in exactly the same way (no field of the reader has that id with that wire type). -/
theorem retyped_field_skipped (f : Nat) (fs : List Field) (slots : List (Int × TVal)) (s s1 : σ) (t : TType) (id : Int)
    (hb : R.fieldBegin s = .ok ((t, id), s1)) (ht : t ≠ .stop)
    (hdiff : ∀ fl ∈ fs, fl.id = id → d.ttype fl.ty ≠ t) :
    decFields R d (f + 1) fs slots s =
      (match R.skip t s1 with
       | .ok s2 => decFields R d f fs slots s2
       | .err k => .err k | .panic m => .panic m | .fuel => .fuel) := by
  rw [decFields, hb]
  simp only [ht, if_false]
  have : fs.find? (fun fl => fl.id == id && d.ttype fl.ty == t) = none := by
    rw [List.find?_eq_none]
    intro fl hfl
    by_cases h : fl.id = id
    · have := hdiff fl hfl h
      simp [h, this]
    · simp [h]
  rw [this]
  rfl

/-- The STOP field ends the loop with the slots decoded so far. -/
theorem stop_ends (f : Nat) (fs : List Field) (slots : List (Int × TVal)) (s s1 : σ) (id : Int)
    (hb : R.fieldBegin s = .ok ((.stop, id), s1)) :
    decFields R d (f + 1) fs slots s = .ok (slots, s1) := by
  rw [decFields, hb]; simp

/-- A missing required field without a default is an error, whatever else was received:
`finish` never succeeds in that case. -/
theorem missing_required_not_ok (fs : List Field) (slots : List (Int × TVal)) (fl : Field) (hfl : fl ∈ fs)
    (hreq : fl.required = true) (hnd : fl.dflt = none) (hmiss : slotGet slots fl.id = none) :
    ∀ out, finish fs slots ≠ .ok out := by
  induction fs with
  | nil => cases hfl
  | cons g gs ih =>
    intro out h
    simp only [finish] at h
    cases hr : finish gs slots with
    | ok rest =>
      simp only [hr] at h
      rcases List.mem_cons.mp hfl with rfl | hin
      · simp [hmiss, hnd, hreq] at h
      · exact ih hin rest hr
    | err k => simp [hr] at h
    | panic m => simp [hr] at h
    | fuel => simp [hr] at h

/-- An absent optional field comes back holding its IDL default when it has one, and is absent otherwise;
a received field comes back as received. -/
theorem finish_head (fl : Field) (fs : List Field) (slots : List (Int × TVal)) (rest : List (Int × TVal))
    (hr : finish fs slots = .ok rest) :
    finish (fl :: fs) slots =
      match slotGet slots fl.id, fl.dflt with
      | some v, _ => .ok ((fl.id, v) :: rest)
      | none, some dv => .ok ((fl.id, dv) :: rest)
      | none, none => if fl.required then .err .invalid else .ok rest := by
  simp [finish, hr]
  rfl

/-- Enum numbers the reader does not know are kept intact: an enum field is read as a plain i32. -/
theorem enum_number_kept (f : Nat) (n : String) (hn : d.find n = some .enum) (s : σ) :
    decTy R d (f + 1) (.ref n) s = mapOut (fun x => (.i32 x.1, x.2)) (R.readI32 s) := by
  rw [decTy]; simp [hn]

/-- Union: a second known variant is an error ("received multiple fields for union"). -/
theorem union_second_variant_is_error (f : Nat) (vs : List (Int × STy)) (ret : Int × TVal) (s s1 : σ) (t : TType) (id : Int) (ty : STy)
    (hb : R.fieldBegin s = .ok ((t, id), s1)) (ht : t ≠ .stop)
    (hk : vs.find? (fun v => v.1 == id && !(v.2 == .void)) = some (id, ty)) :
    decUnion R d (f + 1) vs (some ret) s = .err .invalid := by
  rw [decUnion, hb]; simp [ht, hk]

/-- Union: an unknown variant id is skipped and leaves the result untouched. -/
theorem union_unknown_skipped (f : Nat) (vs : List (Int × STy)) (ret : Option (Int × TVal)) (s s1 : σ) (t : TType) (id : Int)
    (hb : R.fieldBegin s = .ok ((t, id), s1)) (ht : t ≠ .stop)
    (hk : vs.find? (fun v => v.1 == id && !(v.2 == .void)) = none) :
    decUnion R d (f + 1) vs ret s =
      (match R.skip t s1 with
       | .ok s2 => decUnion R d f vs ret s2
       | .err k => .err k | .panic m => .panic m | .fuel => .fuel) := by
  rw [decUnion, hb]; simp [ht, hk]
  rfl

/-- What the code does with a known variant id (known finding D29): it decodes the DECLARED type
without looking at the wire type `t`. -/
theorem union_known_id_decoded_whatever_the_wire_type (f : Nat) (vs : List (Int × STy)) (s s1 : σ) (t : TType) (id : Int) (ty : STy)
    (hb : R.fieldBegin s = .ok ((t, id), s1)) (ht : t ≠ .stop)
    (hk : vs.find? (fun v => v.1 == id && !(v.2 == .void)) = some (id, ty)) :
    decUnion R d (f + 1) vs none s =
      (match decTy R d f ty s1 with
       | .ok (v, s2) => decUnion R d f vs (some (id, v)) s2
       | .err k => .err k | .panic m => .panic m | .fuel => .fuel) := by
  rw [decUnion, hb]; simp [ht, hk]
  rfl

/-! non-vacuity: a reader with fields 1 and 3 receiving field 2 (unknown) and field 1 as another type -/
example : ∀ fl ∈ ([{ id := 1, ty := .i32, required := true }, { id := 3, ty := .bool, required := false }] : List Field), fl.id ≠ 2 := by decide

end Pilota.Props.C08
