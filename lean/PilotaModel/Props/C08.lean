import PilotaModel.TGen.Decode
import PilotaModel.Lemmas.Tolerant
import PilotaModel.Lemmas.TolerantC
import PilotaModel.Lemmas.ProjMono
import PilotaModel.Lemmas.OpsRun
/-
  C08 — generated decoders are tolerant readers.
  The tolerance decisions of the emitted field loops (`codegen_decode_fields`, the union arm of
  `codegen_enum_impl`, the required check and default filling of `codegen_decode`), stated outright
  for EVERY protocol reader `R`, every document, every reader state.

  Main theorem (`tolerant_binary`, binary / little-endian / unchecked binary): for every document,
  every declared type, every well-typed wire value `w` — i.e. whatever schema the writer had —
  decoding the encoding of `w` returns exactly the value-level projection `projTy` of `w` (known
  fields by declared type, unknown and retyped fields dropped, defaults filled, required checked,
  union rules) and leaves exactly the trailing input.  Domain of the projection (`projTy … = some _`):
  containers whose element wire types are the declared ones and union variants whose wire type is
  the declared one — outside it the code misreads (known findings D26, D29;
  `union_known_id_decoded_whatever_the_wire_type` states what it does instead) — and unknown
  fields nested no deeper than the skipper's budget.  `tolerant_compact` / `decode_is_projection_compact`
  are the same statements for the compact protocol, from every reader state without a deferred bool,
  with that state restored (bool fields travel in the field header there: known, unknown and
  typedef'd bool fields are separate cases of the proof, Lemmas/TolerantC.lean).
-/
namespace Pilota.Props.C08
open Pilota Pilota.Thrift Pilota.TGen

/-- **Tolerant reader, binary family.**  Whatever the writer's schema was: if the wire value `w` is
well typed and lies in the projection's domain, decoding its encoding yields exactly the projection
and consumes exactly its bytes. -/
theorem tolerant_binary (e : Endian) (dp : Option Nat) (d : Doc) (n : String) (w v : TVal) (rest : Bytes) (f : Nat)
    (hed : EndianOk e dp) (hw : w.wt = true) (hp : projTy d dp f (.ref n) w = some (.ok v)) :
    ∃ g, decTy (binRd e dp) d g (.ref n) (Binary.run e w.ops ++ rest) = .ok (v, rest) ∧
      ∀ g', g ≤ g' → decTy (binRd e dp) d g' (.ref n) (Binary.run e w.ops ++ rest) = .ok (v, rest) := by
  rw [Binary.run_ops]
  refine ⟨f, ?_, ?_⟩
  · exact (corr_all e dp d hed f).1 (.ref n) w rest (.ok v) hw hp
  · intro g' hg
    exact (corr_all e dp d hed g').1 (.ref n) w rest (.ok v) hw (projTy_mono d dp f g' hg _ w v hp)

/-- **Tolerant reader, compact protocol.**  The same projection, from every reader state `cr` without a deferred
bool; the reader state is restored. -/
theorem tolerant_compact (d : Doc) (n : String) (w v : TVal) (cr : Compact.CR) (rest : Bytes) (f : Nat)
    (hcr : cr.pendingBool = none) (hw : w.wt = true) (hp : projTy d dpC f (.ref n) w = some (.ok v)) :
    ∃ g, decTy cmpRd d g (.ref n) (cr, Compact.enc w ++ rest) = .ok (v, (cr, rest)) ∧
      ∀ g', g ≤ g' → decTy cmpRd d g' (.ref n) (cr, Compact.enc w ++ rest) = .ok (v, (cr, rest)) := by
  refine ⟨f, ?_, ?_⟩
  · exact (corrC_all d f).1 (.ref n) w cr rest (.ok v) hw hcr hp
  · intro g' hg
    exact (corrC_all d g').1 (.ref n) w cr rest (.ok v) hw hcr (projTy_mono d dpC f g' hg _ w v hp)

/-- what the compact writer produces for `w` IS `Compact.enc w` (from any writer state without a deferred bool field) -/
theorem compact_writer_is_enc (w : TVal) (hw : w.wt = true) (s : Compact.CW) (hs : s.pending = none) :
    Compact.run s w.ops = .ok (s, Compact.enc w) := Compact.run_ops w hw s hs

/-- the outcome of the emitted `decode` on compact input IS the projection's outcome, errors included. -/
theorem decode_is_projection_compact (d : Doc) (n : String) (w : TVal) (cr : Compact.CR) (rest : Bytes) (o : Out TVal)
    (hcr : cr.pendingBool = none) (hw : w.wt = true)
    (hp : projTy d dpC (3 * (Compact.enc w ++ rest).length + 8) (.ref n) w = some o) :
    decode cmpRd d n (cr, Compact.enc w ++ rest) = withRestC cr rest o := by
  unfold decode
  have : cmpRd.remaining (cr, Compact.enc w ++ rest) = (Compact.enc w ++ rest).length := rfl
  rw [this]
  exact (corrC_all d _).1 (.ref n) w cr rest o hw hcr hp

/-- the same at the budget the emitted `decode` entry point really uses, for errors as well as values:
the outcome of `decode` IS the projection's outcome. -/
theorem decode_is_projection (e : Endian) (dp : Option Nat) (d : Doc) (n : String) (w : TVal) (rest : Bytes) (o : Out TVal)
    (hed : EndianOk e dp) (hw : w.wt = true)
    (hp : projTy d dp (3 * (Binary.run e w.ops ++ rest).length + 8) (.ref n) w = some o) :
    decode (binRd e dp) d n (Binary.run e w.ops ++ rest) = withRest rest o := by
  unfold decode
  have : (binRd e dp).remaining (Binary.run e w.ops ++ rest) = (Binary.run e w.ops ++ rest).length := rfl
  rw [this]
  have h := (corr_all e dp d hed _).1 (.ref n) w rest o hw hp
  rw [Binary.run_ops] at h ⊢
  exact h

/-- never a wrong value: in the domain, a successful decode can only return the projection. -/
theorem no_wrong_value (e : Endian) (dp : Option Nat) (d : Doc) (n : String) (w : TVal) (rest : Bytes) (o : Out TVal)
    (got : TVal) (r : Bytes) (hed : EndianOk e dp) (hw : w.wt = true)
    (hp : projTy d dp (3 * (Binary.run e w.ops ++ rest).length + 8) (.ref n) w = some o)
    (hd : decode (binRd e dp) d n (Binary.run e w.ops ++ rest) = .ok (got, r)) :
    o = .ok got ∧ r = rest := by
  rw [decode_is_projection e dp d n w rest o hed hw hp] at hd
  cases o <;> simp [withRest, mapOut] at hd
  exact ⟨by rw [hd.1], hd.2.symm⟩

/-! what the projection says, on a reader `S {1: required i32 a, 3: optional bool b = true}` fed by a writer that sent
an unknown nested field 2, field 1, and field 3 retyped to a string: -/
def demoDoc : Doc := [("S", .struct [{ id := 1, ty := .i32, required := true }, { id := 3, ty := .bool, required := false, dflt := some (.bool true) }])]
def demoWire : TVal := .struct (.cons 2 (.list .i16 (.cons (.i16 7) .nil)) (.cons 1 (.i32 5) (.cons 3 (.bin [120]) .nil)))
example : demoWire.wt = true := by decide
example : projTy demoDoc (some 64) 9 (.ref "S") demoWire = some (.ok (.struct (.cons 1 (.i32 5) (.cons 3 (.bool true) .nil)))) := by decide
/-- a missing required field is an error of the projection, hence (decode_is_projection) of the decoder -/
example : projTy demoDoc (some 64) 9 (.ref "S") (.struct (.cons 3 (.bool false) .nil)) = some (.err .invalid) := by decide

variable {σ : Type} (R : Rd σ) (d : Doc)

/-- A field whose id the reader does not declare is skipped with the protocol's own skipper and
changes nothing else: the slots decoded so far are untouched. -/
theorem unknown_field_skipped (f : Nat) (fs : List Field) (slots : List (Int × TVal)) (s s1 : σ) (t : TType) (id : Int)
    (hb : R.fieldBegin s = .ok ((t, id), s1)) (ht : t ≠ .stop) (hunk : ∀ fl ∈ fs, fl.id ≠ id) :
    decFields R d (f + 1) fs slots s =
      (match R.skip t s1 with
       | .ok s2 => decFields R d f fs slots s2
       | .err k => .err k | .panic m => .panic m | .fuel => .fuel) := by
  rw [decFields, hb]
  simp only [ht, if_false]
  have : fs.find? (fun fl => fl.id == id && d.ttype fl.ty == t) = none := by
    rw [List.find?_eq_none]
    intro fl hfl
    simp [hunk fl hfl]
  rw [this]
  rfl

/-- A field whose id is declared but whose wire type differs from the declared type is skipped
in exactly the same way (no field of the reader has that id with that wire type). -/
theorem retyped_field_skipped (f : Nat) (fs : List Field) (slots : List (Int × TVal)) (s s1 : σ) (t : TType) (id : Int)
    (hb : R.fieldBegin s = .ok ((t, id), s1)) (ht : t ≠ .stop)
    (hdiff : ∀ fl ∈ fs, fl.id = id → d.ttype fl.ty ≠ t) :
    decFields R d (f + 1) fs slots s =
      (match R.skip t s1 with
       | .ok s2 => decFields R d f fs slots s2
       | .err k => .err k | .panic m => .panic m | .fuel => .fuel) := by
  rw [decFields, hb]
  simp only [ht, if_false]
  have : fs.find? (fun fl => fl.id == id && d.ttype fl.ty == t) = none := by
    rw [List.find?_eq_none]
    intro fl hfl
    by_cases h : fl.id = id
    · have := hdiff fl hfl h
      simp [h, this]
    · simp [h]
  rw [this]
  rfl

/-- The STOP field ends the loop with the slots decoded so far. -/
theorem stop_ends (f : Nat) (fs : List Field) (slots : List (Int × TVal)) (s s1 : σ) (id : Int)
    (hb : R.fieldBegin s = .ok ((.stop, id), s1)) :
    decFields R d (f + 1) fs slots s = .ok (slots, s1) := by
  rw [decFields, hb]; simp

/-- A missing required field without a default is an error, whatever else was received:
`finish` never succeeds in that case. -/
theorem missing_required_not_ok (fs : List Field) (slots : List (Int × TVal)) (fl : Field) (hfl : fl ∈ fs)
    (hreq : fl.required = true) (hnd : fl.dflt = none) (hmiss : slotGet slots fl.id = none) :
    ∀ out, finish fs slots ≠ .ok out := by
  induction fs with
  | nil => cases hfl
  | cons g gs ih =>
    intro out h
    simp only [finish] at h
    cases hr : finish gs slots with
    | ok rest =>
      simp only [hr] at h
      rcases List.mem_cons.mp hfl with rfl | hin
      · simp [hmiss, hnd, hreq] at h
      · exact ih hin rest hr
    | err k => simp [hr] at h
    | panic m => simp [hr] at h
    | fuel => simp [hr] at h

/-- An absent optional field comes back holding its IDL default when it has one, and is absent otherwise;
a received field comes back as received. -/
theorem finish_head (fl : Field) (fs : List Field) (slots : List (Int × TVal)) (rest : List (Int × TVal))
    (hr : finish fs slots = .ok rest) :
    finish (fl :: fs) slots =
      match slotGet slots fl.id, fl.dflt with
      | some v, _ => .ok ((fl.id, v) :: rest)
      | none, some dv => .ok ((fl.id, dv) :: rest)
      | none, none => if fl.required then .err .invalid else .ok rest := by
  simp [finish, hr]
  rfl

/-- Enum numbers the reader does not know are kept intact: an enum field is read as a plain i32. -/
theorem enum_number_kept (f : Nat) (n : String) (hn : d.find n = some .enum) (s : σ) :
    decTy R d (f + 1) (.ref n) s = mapOut (fun x => (.i32 x.1, x.2)) (R.readI32 s) := by
  rw [decTy]; simp [hn]

/-- Union: a second known variant is an error ("received multiple fields for union"). -/
theorem union_second_variant_is_error (f : Nat) (vs : List (Int × STy)) (ret : Int × TVal) (s s1 : σ) (t : TType) (id : Int) (ty : STy)
    (hb : R.fieldBegin s = .ok ((t, id), s1)) (ht : t ≠ .stop)
    (hk : vs.find? (fun v => v.1 == id && !(v.2 == .void)) = some (id, ty)) :
    decUnion R d (f + 1) vs (some ret) s = .err .invalid := by
  rw [decUnion, hb]; simp [ht, hk]

/-- Union: an unknown variant id is skipped and leaves the result untouched. -/
theorem union_unknown_skipped (f : Nat) (vs : List (Int × STy)) (ret : Option (Int × TVal)) (s s1 : σ) (t : TType) (id : Int)
    (hb : R.fieldBegin s = .ok ((t, id), s1)) (ht : t ≠ .stop)
    (hk : vs.find? (fun v => v.1 == id && !(v.2 == .void)) = none) :
    decUnion R d (f + 1) vs ret s =
      (match R.skip t s1 with
       | .ok s2 => decUnion R d f vs ret s2
       | .err k => .err k | .panic m => .panic m | .fuel => .fuel) := by
  rw [decUnion, hb]; simp [ht, hk]
  rfl

/-- What the code does with a known variant id (known finding D29): it decodes the DECLARED type
without looking at the wire type `t`. -/
theorem union_known_id_decoded_whatever_the_wire_type (f : Nat) (vs : List (Int × STy)) (s s1 : σ) (t : TType) (id : Int) (ty : STy)
    (hb : R.fieldBegin s = .ok ((t, id), s1)) (ht : t ≠ .stop)
    (hk : vs.find? (fun v => v.1 == id && !(v.2 == .void)) = some (id, ty)) :
    decUnion R d (f + 1) vs none s =
      (match decTy R d f ty s1 with
       | .ok (v, s2) => decUnion R d f vs (some (id, v)) s2
       | .err k => .err k | .panic m => .panic m | .fuel => .fuel) := by
  rw [decUnion, hb]; simp [ht, hk]
  rfl

/-! non-vacuity: a reader with fields 1 and 3 receiving field 2 (unknown) and field 1 as another type -/
example : ∀ fl ∈ ([{ id := 1, ty := .i32, required := true }, { id := 3, ty := .bool, required := false }] : List Field), fl.id ≠ 2 := by decide

end Pilota.Props.C08
