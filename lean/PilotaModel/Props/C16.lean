import PilotaModel.Lemmas.IdlExt
/-
  C16 — the IDL parser is total.

  `File.parse` (Idl/Parser.lean) is the function T1 compares with `File::parse` of
  pilota-thrift-parser on every request of streams C15 and C16; the sub-parsers named below are
  compared individually (verb `idl-parse <kind>`).

  Panic sites of the Rust (and of the nom combinators it calls) that the model carries as explicit
  `.panic` branches: `IntConstant(-d.0)` (debug-build overflow, constant.rs:131),
  `escaped`'s `iter_elements().next().unwrap()`, `tag_no_case`'s byte-offset `take_split`.
  `map_res` conversions (`i64::from_str`, `from_str_radix`, `parse::<i32>`) are error branches.
-/
namespace Pilota.Props.C16
open Pilota.Idl

/-- No input makes `File::parse` panic: it returns a document, an error or a failure. -/
theorem parse_total (s : List Char) : (File.parse s).isPanic = false := by
  have h := file_parse_inv s
  cases e : File.parse s <;> simp [e, PR.isPanic] at h ⊢

/-- The model's recursion budget `input.length + 2` is never exhausted: the model's answer is
never an artefact of the budget (and the parser's loops terminate on every input). -/
theorem parse_no_fuel (s : List Char) : File.parse s ≠ .fuel :=
  (good_fileD (s.length + 2)).no_fuel (Nat.lt_of_le_of_lt (nest_le_length s) (by omega))

/-- A successful `File::parse` has consumed the whole text (`many_till(…, eof)`). -/
theorem parse_ok_consumes_all (s : List Char) (f : File) (r : List Char) (h : File.parse s = .ok f r) : r = [] :=
  file_parse_rest s f r h

/-- The same for every sub-parser the harness exercises on its own: no panic, the rest is a suffix
of the input, and the budget `d` is exhausted only by inputs with at least `d` nesting characters. -/
theorem subparsers_total (d : Nat) :
    Good d (Item.parse d) ∧ Good d (Type.parse d) ∧ Good d (ConstValue.parse d) ∧ Good d (Field.parse d) ∧
    Good d (Function.parse d) ∧ Good d Ident.parse ∧ Good d Path.parse ∧ Good d Literal.parse ∧
    Good d Annotations.parse ∧ Good d (IntConstant.parse d) ∧ Good d (DoubleConstant.parse d) :=
  ⟨good_item d, good_type d, good_constValue d, good_field d, good_function d, good_ident, good_path,
   good_literal, good_annotations, good_intConstant d, good_doubleConstant d⟩

/-- Call depth.  `File.parseD d` is the parser with at most `d` nested recursive frames of
`Ty::parse` / `ConstValue::parse` / `IntConstant::parse`.  `d` frames suffice for every text with
fewer than `d` nesting characters (`<`, `[`, `{`, `-`), and then the answer is `File::parse`'s.

PARTIAL with respect to the property's wording: the bound is in the NUMBER of opening brackets
and minus signs, not in the bracket nesting depth (for the nesting ladders the two coincide), and
the 2 MiB clause is frames × frame size, which only the harness can measure (C16 stream, ladders
1..64 / 128 on a 2 MiB thread).  Full statement not proved:
  `callDepth (File.parse s) ≤ k * bracketNesting s + k0` — false as it stands, see
  `minus_chain_depth_counterexample`. -/
theorem parse_depth_partial (s : List Char) (d : Nat) (h : nest s < d) :
    File.parseD d s ≠ .fuel ∧ File.parseD d s = File.parse s := by
  have h1 : File.parseD d s ≠ .fuel := (good_fileD d).no_fuel h
  refine ⟨h1, ?_⟩
  unfold File.parse
  rcases Nat.le_total d (s.length + 2) with hle | hle
  · exact (ext_fileD hle s h1).symm
  · exact ext_fileD hle s (parse_no_fuel s)

/-- The budget never changes an answer: a larger budget returns the same result. -/
theorem budget_irrelevant (s : List Char) (d d' : Nat) (hle : d ≤ d') (h : File.parseD d s ≠ .fuel) :
    File.parseD d' s = File.parseD d s := ext_fileD hle s h

/-- `IntConstant::parse` opens one frame per leading `-`: a chain of `n` minus signs needs more
than `n` frames, whatever follows — call depth is not bounded by bracket nesting (finding DI2;
the harness shows the real parser exhausting a 2 MiB stack on such a document of nesting 0). -/
theorem minus_chain_depth_counterexample (n d : Nat) (r : List Char) (h : d ≤ n) :
    IntConstant.parse d (List.replicate n '-' ++ r) = .fuel := by
  induction d generalizing n with
  | zero => rfl
  | succ d ih =>
    cases n with
    | zero => omega
    | succ m =>
      have := ih m (by omega)
      simp [IntConstant.parse, List.replicate_succ, alt, skip, andThen, tag, stripPrefix, pmapChecked, this, PR.bind]

/-- …and at document level, on a concrete witness: six frames do not suffice for six minus signs
although the text contains no bracket at all. -/
theorem minus_chain_document_counterexample :
    (File.parseD 6 cs!"const i64 c = ------7").isFuel = true ∧
    (File.parseD 9 cs!"const i64 c = ------7").isOk = true := by
  constructor <;> decide

/-! non-vacuity -/
example : nest cs!"typedef list<map<i32,set<i8>>> T" < 4 := by decide
example : (File.parse cs!"struct S { 1: i32 a }").isOk = true := by decide

end Pilota.Props.C16
