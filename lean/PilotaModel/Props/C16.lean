import PilotaModel.Lemmas.IdlExt
/-
  C16 — the IDL parser is total.

  `File.parse` (Idl/Parser.lean) is the function T1 compares with `File::parse` of
  pilota-thrift-parser on every request of streams C15 and C16; the sub-parsers named below are
  compared individually (verb `idl-parse <kind>`).

  Panic sites of the Rust (and of the nom combinators it calls) that the model carries as explicit
  `.panic` branches: `IntConstant(-d.0)` (debug-build overflow, constant.rs),
  `escaped`'s `iter_elements().next().unwrap()`, `tag_no_case`'s byte-offset `take_split`.
  `map_res` conversions (`i64::from_str`, `from_str_radix`, `parse::<i32>`) are error branches.
-/
namespace Pilota.Props.C16
open Pilota.Idl

/-- No input makes `File::parse` panic: it returns a document, an error or a failure. -/
theorem parse_total (s : List Char) : (File.parse s).isPanic = false := by
  have h := file_parse_inv s
  cases e : File.parse s <;> simp [e, PR.isPanic] at h ⊢

/-- The model's recursion budget `input.length + 2` is never exhausted: the model's answer is
never an artefact of the budget (and the parser's loops terminate on every input). -/
theorem parse_no_fuel (s : List Char) : File.parse s ≠ .fuel :=
  (good_fileD (s.length + 2)).no_fuel (Nat.lt_of_le_of_lt (nest_le_length s) (by omega))

/-- A successful `File::parse` has consumed the whole text (`many_till(…, eof)`). -/
theorem parse_ok_consumes_all (s : List Char) (f : File) (r : List Char) (h : File.parse s = .ok f r) : r = [] :=
  file_parse_rest s f r h

/-- The same for every sub-parser the harness exercises on its own: no panic, the rest is a suffix
of the input, and the budget `d` is exhausted only by inputs with at least `d` nesting characters. -/
theorem subparsers_total (d : Nat) :
    Good d (Item.parse d) ∧ Good d (Type.parse d) ∧ Good d (ConstValue.parse d) ∧ Good d (Field.parse d) ∧
    Good d (Function.parse d) ∧ Good d Ident.parse ∧ Good d Path.parse ∧ Good d Literal.parse ∧
    Good d Annotations.parse ∧ Good d IntConstant.parse ∧ Good d DoubleConstant.parse :=
  ⟨good_item d, good_type d, good_constValue d, good_field d, good_function d, good_ident, good_path,
   good_literal, good_annotations, good_intConstant, good_doubleConstant⟩

/-- Call depth.  `File.parseD d` is the parser with at most `d` nested recursive frames of
`Ty::parse` / `ConstValue::parse` (the only recursive parsers since fix 4f1981f).  `d` frames suffice
for every text with fewer than `d` opening brackets (`<`, `[`, `{`), and then the answer is
`File::parse`'s.

PARTIAL with respect to the property's wording in two respects: the bound is in the NUMBER of
opening brackets, which dominates the bracket nesting depth (for the nesting ladders the two
coincide; a bound in the true nesting depth would need a lexer-level notion of nesting that skips
strings and comments); and the 2 MiB clause is frames × frame size, which only the harness can
measure (C16 stream: ladders 1..64 / 128 on a 2 MiB thread; stack probe: 40 000 / 100 000 minus signs). -/
theorem parse_depth_partial (s : List Char) (d : Nat) (h : nest s < d) :
    File.parseD d s ≠ .fuel ∧ File.parseD d s = File.parse s := by
  have h1 : File.parseD d s ≠ .fuel := (good_fileD d).no_fuel h
  refine ⟨h1, ?_⟩
  unfold File.parse
  rcases Nat.le_total d (s.length + 2) with hle | hle
  · exact (ext_fileD hle s h1).symm
  · exact ext_fileD hle s (parse_no_fuel s)

/-- The budget never changes an answer: a larger budget returns the same result. -/
theorem budget_irrelevant (s : List Char) (d d' : Nat) (hle : d ≤ d') (h : File.parseD d s ≠ .fuel) :
    File.parseD d' s = File.parseD d s := ext_fileD hle s h

/-- Since fix 4f1981f (was finding DI2) `IntConstant::parse` accepts at most one sign and does not call
itself: a run of two or more `-` is rejected after looking at two characters, whatever follows. -/
theorem minus_run_rejected (n : Nat) (r : List Char) :
    IntConstant.parse (List.replicate (n + 2) '-' ++ r) = .err := by
  have hu : ∀ x, IntConstant.unsigned ('-' :: x) = .err := by
    intro x
    simp [IntConstant.unsigned, alt, skip, andThen, tag, stripPrefix, PR.bind, mapRes, digit1, takeWhile1, isDecDigit]
  simp [IntConstant.parse, List.replicate_succ, alt, skip, andThen, tag, stripPrefix, pmapChecked, hu, PR.bind]

/-- …and a document with a run of `n` minus signs needs no recursion budget at all: one frame suffices
(minus signs are not nesting characters any more). -/
theorem minus_run_needs_no_depth (n : Nat) :
    File.parseD 1 (cs!"const i64 c = " ++ (List.replicate n '-' ++ ['7'])) ≠ .fuel := by
  refine (parse_depth_partial _ 1 ?_).1
  have : nest (List.replicate n '-') = 0 := by
    unfold nest; rw [List.countP_replicate]; simp [isNestChar]
  rw [nest_append, nest_append, this]
  decide

theorem minus_run_document :
    (File.parse cs!"const i64 c = ------7").isErr = true ∧ (File.parse cs!"const i64 c = -7").isOk = true := by
  constructor <;> decide

/-! non-vacuity -/
example : nest cs!"typedef list<map<i32,set<i8>>> T" < 4 := by decide
example : (File.parse cs!"struct S { 1: i32 a }").isOk = true := by decide

end Pilota.Props.C16
