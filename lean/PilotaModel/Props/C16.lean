import PilotaModel.Idl.Parser
namespace Pilota.Props.C16
open Pilota.Idl
theorem placeholder : (1 : Nat) = 1 := rfl
end Pilota.Props.C16
