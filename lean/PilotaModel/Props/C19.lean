import PilotaModel.Lemmas.MemAsync
import PilotaModel.Lemmas.MemSync
/-
  C19 — a failed decode releases everything it allocated.

  The model cannot express Rust's drop elaboration; it expresses its consequence for the emitted
  templates as an ownership ledger (TGen/Mem.lean): everything owned by live locals is released on
  an early return; elements written through a raw pointer before `set_len` are not.
  Level: `other` (partial): the theorems are about the ledger; the counting allocator in the harness
  observes the real process (live heap bytes before / after every truncation of valid encodings).
-/
namespace Pilota.Props.C19
open Pilota Pilota.Thrift Pilota.TGen

/-- The asynchronous decoders (push-based list arm) never leave anything unreachable: for every
protocol reader, document, type, input and recursion budget, a failing decode leaks nothing. -/
theorem async_never_leaks {σ : Type} (R : Rd σ) (d : Doc) (f : Nat) (ty : STy) (s : σ) (l : Nat)
    (h : decTyL R d false f ty s = .err l) : l = 0 :=
  (no_leak_async_all R d f).1 ty s l h

theorem async_decode_never_leaks {σ : Type} (R : Rd σ) (d : Doc) (n : String) (s : σ) (l : Nat)
    (h : decodeL R d false n s = .err l) : l = 0 :=
  async_never_leaks R d _ _ s l h

/-- Full statement (false of the code as it is, see `list_arm_leaks`): the synchronous decoders never leak.
Proved (`_partial`): they never leak for documents in which every list has elements that own nothing
(scalars, uuids — `ownsNothing_scalar`) and cannot end in an empty `binary` (`TailFree`), for every type, input,
protocol reader and budget: the list arm is the ONLY place where a failing decode can leave something unreachable. -/
theorem sync_no_leak_partial {σ : Type} (R : Rd σ) (d : Doc) (hd : DocSafe d) (f : Nat) (ty : STy) (hs : ListSafe d ty)
    (s : σ) (l : Nat) (h : decTyL R d true f ty s = .err l) : l = 0 :=
  (no_leak_sync_all R d hd f).1 ty s l hs h

/-! non-vacuity: a document with list<i64>, set<string>, map<string, list<double>> is list-safe -/
def safeDoc : Doc := [("S", .struct [{ id := 1, ty := .list .i64, required := false }, { id := 2, ty := .set .string, required := false },
  { id := 3, ty := .map .string (.list .double), required := true }])]
example : DocSafe safeDoc := by
  refine ⟨?_, ?_, ?_⟩
  · intro n fs h fl hfl
    simp only [safeDoc, Doc.find, List.find?] at h
    split at h <;> simp at h
    subst h
    simp at hfl
    rcases hfl with rfl | rfl | rfl
    · exact ⟨ownsNothing_scalar _ _ (by simp), trivial, trivial⟩
    · trivial
    · exact ⟨trivial, ownsNothing_scalar _ _ (by simp), trivial, trivial⟩
  · intro n vs h; simp only [safeDoc, Doc.find, List.find?] at h; split at h <;> simp at h
  · intro n t h; simp only [safeDoc, Doc.find, List.find?] at h; split at h <;> simp at h

/- The synchronous list arm does leak (known finding D13): a struct with a `list<binary>` whose
second element is truncated fails to decode and leaves the first element's reference to the input
buffer unreachable.  The witness is replayed on the real emitted code by the C19 stream. -/

/-- the leak count of a failing decode -/
def leakOf {α} : OutL α → Option Nat
  | .err l => some l
  | _ => none

def leakDoc : Doc := [("S", .struct [{ id := 1, ty := .list .binary, required := false }])]
def leakInput : Bytes :=
  [15, 0, 1,  11, 0, 0, 0, 2,   0, 0, 0, 1, 97,   0, 0, 0, 9, 98]     -- list<binary>["a", <9 bytes announced, 1 present>]

theorem list_arm_leaks :
    leakOf (decodeL (binRd .be (some skipDepth)) leakDoc true "S" leakInput) = some 1 := by decide

/-- An element that owns no byte can still pin the input: an EMPTY binary read when nothing is left in the buffer is
handed the buffer's own handle by `Bytes::split_to` (found by T1 at the thorough tier, cut 12 of `list<binary>["", ..]`). -/
def emptyTailInput : Bytes := [15, 0, 1,  11, 0, 0, 0, 2,   0, 0, 0, 0]     -- list<binary>["", <missing>]
theorem empty_binary_at_end_pins_buffer :
    leakOf (decodeL (binRd .be (some skipDepth)) leakDoc true "S" emptyTailInput) = some 1 ∧
    leakOf (decodeL (binRd .be (some skipDepth)) leakDoc true "S" (emptyTailInput ++ [0])) = some 0 := by decide

/-- …and the same input through the asynchronous template leaks nothing. -/
theorem list_arm_async_clean :
    leakOf (decodeL (binRd .be (some skipDepth)) leakDoc false "S" leakInput) = some 0 := by decide

end Pilota.Props.C19
