import PilotaModel.TGen.Keep
import PilotaModel.Lemmas.SkipBin
import PilotaModel.Props.C01
import PilotaModel.Lemmas.TolerantK
import PilotaModel.Lemmas.KeepRT
import PilotaModel.Lemmas.KeepFwd
/-
  C13 — retained unknown fields survive re-encoding unchanged.

  Full statement (DESIGN.md section 8, `keep_roundtrip`):
    decode dw n (encodeKeep dr n (decodeKeep dr n (encode dw n v))) = .ok v   for dr ⊆ dw.
  Proved here in full as `keep_roundtrip_total` (no hypothesis about the reader's outcome: `keep_accepts` shows it accepts).
  The reader half, for arbitrary wire values: for EVERY document, declared type, well-typed wire value in the shadow's
  domain, endianness, depth budget and trailing input, the retention decoder run on the encoding returns exactly the
  value-level shadow `projTyK` (`keep_decode_is_projection`, `keep_tolerant`; Lemmas/TolerantK.lean, simultaneous
  induction over the five mutually recursive retention decoders), and whenever the field loop of a struct succeeds,
  what it retained is every undeclared field of the wire struct, each as the very value it had on the wire, in wire order
  (`keep_retains_every_unknown_field`) — so the struct's re-encoding `known fields ++ retained` carries each of them byte
  for byte (`Binary.enc` of the same value), at every nesting level the reader knows.  The writer-side half is
  `keep_roundtrip` (bytes) / `keep_roundtrip_value` (values): for EVERY document `dw` with distinct field ids per struct,
  EVERY reader document obtained from it by removing struct fields and union variants (`restrict dw keep`, any `keep`), EVERY typed value `w`
  of a declared type (`hasTy`, TGen/Typed.lean: a value as the emitted encoder of `dw` writes it; `typed_is_canon`
  shows it is C02's `Canon`), at every nesting level, inside containers (sets and maps included) and unions: whenever the
  retaining reader accepts the encoding of `w` and returns `w'`, the full reader decodes the re-encoding of `w'` to exactly
  `w` (Lemmas/KeepRT.lean: `keep_back_all`, induction on the nesting budget; the struct case shows that `known ++ retained`
  is a rearrangement of the original fields each of which reads back as the field it stands for).  The steps: the retained chunk of an unknown field is EXACTLY the bytes of that field's value for
  every well-typed value within the skipper's depth budget (`retained_chunk_exact`); the field loop
  appends it to the retained list in wire order and leaves the known fields alone
  (`unknown_field_retained`); a struct re-encodes as its known fields followed by the retained
  chunks (`struct_known_then_retained`).  Not true of the code as it is and stated as what it does:
  a union with retention rejects a known variant that is accompanied by an unknown field (D31);
  the argument-type shortcut (D12) is outside the model (hazard-marked requests, oracle only).
-/
namespace Pilota.Props.C13
open Pilota Pilota.Thrift Pilota.TGen

/-- "byte for byte": skipping an unknown field of any well-typed value `v` (nesting within the depth
budget; no limit under the unchecked codec) consumes exactly `Binary.enc e v`, and the retained
chunk denotes exactly `v`, so re-emitting it writes exactly the bytes that were skipped. -/
theorem retained_chunk_exact (e : Endian) (dp : Option Nat) (hed : EndianOk e dp) (v : TVal) (hw : v.wt = true) (hd : admits dp v.need) (r : Bytes) :
    skipKeep e dp v.ttype (Binary.enc e v ++ r) = .ok (v, r) := by
  unfold skipKeep
  rw [binRd_skip_enc e dp hed v hw hd r]
  have hr := Pilota.Props.C01.binary_roundtrip e v hw r
  rw [Binary.run_ops] at hr
  rw [hr]

/-- the field loop with retention: an undeclared field whose value is `v` is appended to the
retained list (after everything retained before it: wire order) and nothing else changes. -/
theorem unknown_field_retained (e : Endian) (dp : Option Nat) (d : Doc) (f : Nat) (fs : List Field)
    (slots unk : List (Int × TVal)) (s : Bytes) (id : Int) (v : TVal) (r : Bytes)
    (hed : EndianOk e dp) (hw : v.wt = true) (hd : admits dp v.need)
    (hb : (binRd e dp).fieldBegin s = .ok ((v.ttype, id), Binary.enc e v ++ r))
    (hunk : ∀ fl ∈ fs, fl.id ≠ id) :
    decFieldsK e dp d (f + 1) fs slots unk s = decFieldsK e dp d f fs slots (unk ++ [(id, v)]) r := by
  rw [decFieldsK, hb]
  have hns : v.ttype ≠ .stop := Binary.ttype_isValue_ne_stop _ (Binary.val_ttype_isValue v)
  simp only [hns, if_false]
  have : fs.find? (fun fl => fl.id == id && d.ttype fl.ty == v.ttype) = none := by
    rw [List.find?_eq_none]; intro fl hfl; simp [hunk fl hfl]
  rw [this]
  simp only [retained_chunk_exact e dp hed v hw hd r]

/-- a struct decoded with retention re-encodes as its known fields (declaration order, defaults
filled as without retention) followed by the retained chunks. -/
theorem struct_known_then_retained (e : Endian) (dp : Option Nat) (d : Doc) (f : Nat) (n : String) (fs : List Field)
    (hn : d.find n = some (.struct fs)) (s s' : Bytes) (slots unk out : List (Int × TVal))
    (hl : decFieldsK e dp d f fs [] [] s = .ok (slots, unk, s')) (hfin : finish fs slots = .ok out) :
    decTyK e dp d (f + 1) (.ref n) s = .ok (.struct (TFields.ofList (out ++ unk)), s') := by
  rw [decTyK]; simp [hn, hl, hfin]

/-- what the code does (known finding D31): with retention a union that already decoded a known
variant rejects a following unknown field, although the plain decoder skips it. -/
theorem union_known_then_unknown_is_error (e : Endian) (dp : Option Nat) (d : Doc) (f : Nat) (vs : List (Int × STy))
    (ret : Int × TVal) (s : Bytes) (id : Int) (v : TVal) (r : Bytes) (hed : EndianOk e dp) (hw : v.wt = true) (hd : admits dp v.need)
    (hb : (binRd e dp).fieldBegin s = .ok ((v.ttype, id), Binary.enc e v ++ r))
    (hk : vs.find? (fun x => x.1 == id && !(x.2 == .void)) = none) :
    decUnionK e dp d (f + 1) vs (some ret) s = .err .invalid := by
  rw [decUnionK, hb]
  have hns : v.ttype ≠ .stop := Binary.ttype_isValue_ne_stop _ (Binary.val_ttype_isValue v)
  simp [hns, hk, retained_chunk_exact e dp hed v hw hd r]

/-- a union that receives a single unknown field retains it. -/
theorem union_single_unknown_retained (e : Endian) (dp : Option Nat) (d : Doc) (f : Nat) (vs : List (Int × STy))
    (s : Bytes) (id : Int) (v : TVal) (r : Bytes) (hed : EndianOk e dp) (hw : v.wt = true) (hd : admits dp v.need)
    (hb : (binRd e dp).fieldBegin s = .ok ((v.ttype, id), Binary.enc e v ++ r))
    (hk : vs.find? (fun x => x.1 == id && !(x.2 == .void)) = none) :
    decUnionK e dp d (f + 1) vs none s = decUnionK e dp d f vs (some (id, v)) r := by
  rw [decUnionK, hb]
  have hns : v.ttype ≠ .stop := Binary.ttype_isValue_ne_stop _ (Binary.val_ttype_isValue v)
  simp [hns, hk, retained_chunk_exact e dp hed v hw hd r]

/-- **The retention decoder is its projection** (binary, little-endian, unchecked binary): at every fuel, errors included. -/
theorem keep_tolerant (e : Endian) (dp : Option Nat) (d : Doc) (ty : STy) (w : TVal) (rest : Bytes) (f : Nat) (o : Out TVal)
    (hed : EndianOk e dp) (hw : w.wt = true) (hp : projTyK d dp f ty w = some o) :
    decTyK e dp d f ty (Binary.enc e w ++ rest) = withRest rest o :=
  (corrK_all e dp d hed f).1 ty w rest o hw hp

/-- the same at the budget the emitted `decode` entry point really uses -/
theorem keep_decode_is_projection (e : Endian) (dp : Option Nat) (d : Doc) (n : String) (w : TVal) (rest : Bytes) (o : Out TVal)
    (hed : EndianOk e dp) (hw : w.wt = true)
    (hp : projTyK d dp (3 * (Binary.enc e w ++ rest).length + 8) (.ref n) w = some o) :
    decodeK e dp d n (Binary.enc e w ++ rest) = withRest rest o := by
  unfold decodeK
  exact (corrK_all e dp d hed _).1 (.ref n) w rest o hw hp

/-- **Every unknown field is retained, unchanged, in wire order**: when the retention decoder accepts the encoding of a
wire struct `wfs` for the declared struct `n`, the decoded struct is its known fields (as `finish` orders and fills them)
followed by exactly the undeclared fields of `wfs`, each with the value — hence the bytes — it had on the wire. -/
theorem keep_retains_every_unknown_field (e : Endian) (dp : Option Nat) (d : Doc) (n : String) (fs : List Field) (wfs : TFields)
    (rest : Bytes) (f : Nat) (v : TVal)
    (hed : EndianOk e dp) (hn : d.find n = some (.struct fs)) (hw : wfs.wt = true)
    (hp : projTyK d dp (f + 1) (.ref n) (.struct wfs) = some (.ok v)) :
    decTyK e dp d (f + 1) (.ref n) (Binary.enc e (.struct wfs) ++ rest) = .ok (v, rest) ∧
    ∃ out, v = .struct (TFields.ofList (out ++ unknownsOf d fs wfs)) := by
  constructor
  · exact (corrK_all e dp d hed (f + 1)).1 (.ref n) (.struct wfs) rest (.ok v) (by simpa [TVal.wt] using hw) hp
  · simp only [projTyK, hn] at hp
    cases hpf : projFieldsK d dp f fs [] [] wfs with
    | none => simp [hpf] at hp
    | some os =>
      cases os with
      | ok su =>
        obtain ⟨slots, unk⟩ := su
        simp only [hpf] at hp
        have hu := projFieldsK_retains d dp f fs [] [] wfs slots unk hpf
        simp at hu
        cases hfin : finish fs slots with
        | ok out => simp [hfin] at hp; exact ⟨out, by rw [← hp, hu]⟩
        | err k => simp [hfin] at hp
        | panic m => simp [hfin] at hp
        | fuel => simp [hfin] at hp
      | err k => simp [hpf] at hp
      | panic m => simp [hpf] at hp
      | fuel => simp [hpf] at hp

/-- a typed value (TGen/Typed.lean `hasTy`) is a value of the emitted type in the sense of `Props/C02.Canon`: the reader's
own projection maps it to itself -/
theorem typed_is_canon (d : Doc) (dp : Option Nat) (hd : d.fieldsOk) (f : Nat) (ty : STy) (w : TVal) (ht : hasTy d f ty w = true) :
    ∃ G, projTy d dp G ty w = some (.ok w) := canon_of_hasTy d dp hd f ty w ht

/-- **Round trip through a reader that lacks fields, value level.**  `dw` is the writer's (full) document, `restrict dw keep`
the reader's; `w` a typed value of `ty`; `w'` what the retaining reader makes of it.  The full reader maps `w'` back to `w`,
for every sufficiently large recursion budget (the emitted code has none). -/
theorem keep_roundtrip_value (dw : Doc) (keep : String → Field → Bool) (dpr dpw : Option Nat) (hd : dw.fieldsOk) (hu : dw.variantsOk)
    (f : Nat) (ty : STy) (w w' : TVal) (fK : Nat) (ht : hasTy dw f ty w = true)
    (hk : projTyK (restrict dw keep) dpr fK ty w = some (.ok w')) :
    w'.ttype = w.ttype ∧ ∃ G, ∀ g, G ≤ g → projTy dw dpw g ty w' = some (.ok w) := by
  obtain ⟨h1, G, hG⟩ := keep_back_all dw keep dpr dpw hd hu f ty w ht fK w' hk
  exact ⟨h1, G, fun g hg => projTy_mono dw dpw G g hg ty w' w hG⟩

/-- **Retained unknown fields survive re-encoding: the full reader recovers the original value** (bytes level; `er` /
`dpr`: the retaining reader's protocol - binary, LE or unchecked -, `ew` / `dpw`: the full reader's).  The retaining
reader, at the budget of its `decode` entry point, returns `w'` and leaves the trailing input; the full reader decodes
the re-encoding `Binary.enc ew w'` (known fields, then the retained chunks: `struct_known_then_retained`) to `w`, leaving
its trailing input.  `hw'`: the reader's value is a Rust value (integers within their types; not derived here). -/
theorem keep_roundtrip (er ew : Endian) (dpr dpw : Option Nat) (hedr : EndianOk er dpr) (hedw : EndianOk ew dpw)
    (dw : Doc) (keep : String → Field → Bool) (hd : dw.fieldsOk) (hu : dw.variantsOk) (n : String) (f : Nat) (w w' : TVal)
    (ht : hasTy dw f (.ref n) w = true) (hw : w.wt = true) (hw' : w'.wt = true) (rest rest' : Bytes)
    (hk : projTyK (restrict dw keep) dpr (3 * (Binary.enc er w ++ rest).length + 8) (.ref n) w = some (.ok w')) :
    decodeK er dpr (restrict dw keep) n (Binary.enc er w ++ rest) = .ok (w', rest) ∧
    ∃ G, ∀ g, G ≤ g → decTy (binRd ew dpw) dw g (.ref n) (Binary.enc ew w' ++ rest') = .ok (w, rest') := by
  constructor
  · have := keep_decode_is_projection er dpr (restrict dw keep) n w rest (.ok w') hedr hw hk
    simpa [withRest, mapOut] using this
  · obtain ⟨_, G, hG⟩ := keep_roundtrip_value dw keep dpr dpw hd hu f (.ref n) w w' _ ht hk
    refine ⟨G, fun g hg => ?_⟩
    have := (corr_all ew dpw dw hedw g).1 (.ref n) w' rest' (.ok w) hw' (hG g hg)
    simpa [withRest, mapOut] using this

/-- **The retaining reader accepts every typed value within its skipper's depth budget** (`dpr = none`, the unchecked
codec: no limit), with the same result for every sufficiently large recursion budget; the result is a Rust value (integers
within their types, sizes below 2^31) whenever the original is, and has its wire type. -/
theorem keep_accepts (dw : Doc) (keep : String → Field → Bool) (dpr : Option Nat) (hd : dw.fieldsOk) (hu : dw.variantsOk)
    (f : Nat) (ty : STy) (w : TVal) (ht : hasTy dw f ty w = true) (ha : admits dpr w.need) :
    ∃ w' B, (w.wt = true → w'.wt = true) ∧ w'.ttype = w.ttype ∧
      ∀ fK, B ≤ fK → projTyK (restrict dw keep) dpr fK ty w = some (.ok w') := by
  obtain ⟨w', B, hs, hB⟩ := keep_accepts_all dw keep dpr hd hu f ty w ht ((admitsB_iff dpr _).mpr ha)
  exact ⟨w', B, hs.1, hs.2, hB⟩

/-- **C13 as one statement, bytes level, no side hypotheses about the reader**: for every writer document with distinct
field ids per struct and variant ids per union, every reader that lacks any set of struct fields and union variants, every typed Rust value `w` of a declared type nested
no deeper than the reader's skipper budget, every pair of binary-family protocols and all trailing inputs: the retaining
reader decodes the encoding of `w` to some `w'` leaving the trailing input, and the full reader decodes the re-encoding of
`w'` to exactly `w`, leaving its trailing input - for all sufficiently large recursion budgets (the emitted code has none). -/
theorem keep_roundtrip_total (er ew : Endian) (dpr dpw : Option Nat) (hedr : EndianOk er dpr) (hedw : EndianOk ew dpw)
    (dw : Doc) (keep : String → Field → Bool) (hd : dw.fieldsOk) (hu : dw.variantsOk) (n : String) (f : Nat) (w : TVal)
    (ht : hasTy dw f (.ref n) w = true) (hw : w.wt = true) (ha : admits dpr w.need) (rest rest' : Bytes) :
    ∃ w' B G, (∀ fK, B ≤ fK → decTyK er dpr (restrict dw keep) fK (.ref n) (Binary.enc er w ++ rest) = .ok (w', rest)) ∧
      (∀ g, G ≤ g → decTy (binRd ew dpw) dw g (.ref n) (Binary.enc ew w' ++ rest') = .ok (w, rest')) := by
  obtain ⟨w', B, hwt, _, hB⟩ := keep_accepts dw keep dpr hd hu f (.ref n) w ht ha
  obtain ⟨_, G, hG⟩ := keep_roundtrip_value dw keep dpr dpw hd hu f (.ref n) w w' B ht (hB B (Nat.le_refl _))
  refine ⟨w', B, G, fun fK hf => ?_, fun g hg => ?_⟩
  · have := keep_tolerant er dpr (restrict dw keep) (.ref n) w rest fK (.ok w') hedr hw (hB fK hf)
    simpa [withRest, mapOut] using this
  · have := (corr_all ew dpw dw hedw g).1 (.ref n) w' rest' (.ok w) (hwt hw) (hG g hg)
    simpa [withRest, mapOut] using this

/-! non-vacuity of `keep_roundtrip`: the writer's document has a recursive struct with a default, a list of itself and a
map to a second struct; the reader lacks fields 2 and 4 of `S` and field 1 of `T`; what it returns differs from the
original (retained fields moved behind the known ones) and is read back as the original -/
def wDoc : Doc := [("S", .struct [{ id := 1, ty := .i32, required := true }, { id := 2, ty := .list (.ref "S"), required := false },
    { id := 3, ty := .string, required := false, dflt := some (.bin [104]) }, { id := 4, ty := .map .i32 (.ref "T"), required := false }]),
  ("T", .struct [{ id := 1, ty := .bool, required := false }, { id := 7, ty := .set .i16, required := false }])]
def wKeep : String → Field → Bool := fun n fl => !((n == "S" && (fl.id == 2 || fl.id == 4)) || (n == "T" && fl.id == 1))
def wT : TVal := .struct (.cons 1 (.bool true) (.cons 7 (.set .i16 (.cons (.i16 3) (.cons (.i16 4) .nil))) .nil))
def wInner : TVal := .struct (.cons 1 (.i32 6) (.cons 3 (.bin [105]) .nil))
def wOrig : TVal := .struct (.cons 1 (.i32 5) (.cons 2 (.list .struct (.cons wInner .nil)) (.cons 3 (.bin [104])
  (.cons 4 (.map .i32 .struct (.cons (.i32 9) wT .nil)) .nil))))
def wBack : TVal := .struct (.cons 1 (.i32 5) (.cons 3 (.bin [104]) (.cons 2 (.list .struct (.cons wInner .nil))
  (.cons 4 (.map .i32 .struct (.cons (.i32 9) wT .nil)) .nil))))
example : hasTy wDoc 8 (.ref "S") wOrig = true ∧ wOrig.wt = true ∧ wBack.wt = true ∧ admits (some skipDepth) wOrig.need := by
  refine ⟨by decide +kernel, by decide +kernel, by decide +kernel, ?_⟩
  simp [admits, skipDepth, wOrig, wInner, wT, TVal.need, TVals.need, TFields.need, TPairs.need]
example : projTyK (restrict wDoc wKeep) (some 64) 12 (.ref "S") wOrig = some (.ok wBack) ∧ wBack ≠ wOrig := by decide
example : projTy wDoc (some 64) 20 (.ref "S") wBack = some (.ok wOrig) := by decide +kernel
example : wDoc.fieldsOk := by
  intro n fs h
  by_cases hS : n = "S"
  · subst hS; simp [wDoc, Doc.find] at h; subst h; decide
  by_cases hT : n = "T"
  · subst hT; simp [wDoc, Doc.find] at h; subst h; decide
  · exfalso
    simp only [wDoc, Doc.find, List.find?] at h
    have h1 : ("S" == n) = false := by simpa using fun h => hS h.symm
    have h2 : ("T" == n) = false := by simpa using fun h => hT h.symm
    simp [h1, h2] at h

/-! non-vacuity for unions: the reader lacks variant 2 of `U` (and field 1 of the struct inside it is irrelevant then): the variant is
retained as it is and the full reader gets the original back; variant 1 is known to both -/
def uDoc : Doc := [("U", .union [(1, .i32), (2, .ref "T")]), ("T", .struct [{ id := 1, ty := .bool, required := false }])]
def uKeep : String → Field → Bool := fun n fl => !(n == "U" && fl.id == 2)
def uVal : TVal := .struct (.cons 2 (.struct (.cons 1 (.bool true) .nil)) .nil)
example : hasTy uDoc 4 (.ref "U") uVal = true ∧ projTyK (restrict uDoc uKeep) (some 64) 6 (.ref "U") uVal = some (.ok uVal) ∧
    projTyK (restrict uDoc uKeep) (some 64) 6 (.ref "U") (.struct (.cons 1 (.i32 5) .nil)) = some (.ok (.struct (.cons 1 (.i32 5) .nil))) := by
  decide +kernel
example : uDoc.variantsOk := by
  intro n vs h
  by_cases hU : n = "U"
  · subst hU; simp [uDoc, Doc.find] at h; subst h; decide
  · exfalso
    simp only [uDoc, Doc.find, List.find?] at h
    have h1 : ("U" == n) = false := by simpa using fun h => hU h.symm
    simp only [h1] at h
    split at h <;> simp at h

/-! non-vacuity of the two theorems above: a reader that knows field 1 only, a writer that also sent 2 and 9 -/
def rdDoc : Doc := [("S", .struct [{ id := 1, ty := .i32, required := true }])]
def wrVal : TFields := .cons 9 (.bin [1, 2]) (.cons 1 (.i32 5) (.cons 2 (.list .i64 (.cons (.i64 7) .nil)) .nil))
example : wrVal.wt = true ∧ projTyK rdDoc (some 64) 5 (.ref "S") (.struct wrVal) =
    some (.ok (.struct (.cons 1 (.i32 5) (.cons 9 (.bin [1, 2]) (.cons 2 (.list .i64 (.cons (.i64 7) .nil)) .nil))))) := by decide

/-! non-vacuity: an unknown field holding a nested container, within the default budget of 64 -/
def unk : TVal := .map .i32 .list (.cons (.i32 7) (.list .binary (.cons (.bin [1, 2]) .nil)) .nil)
example : unk.wt = true ∧ admits (some skipDepth) unk.need := ⟨by decide, by simp [admits, skipDepth, unk, TVal.need, TVals.need, TPairs.need]⟩

end Pilota.Props.C13
