import PilotaModel.TGen.Keep
import PilotaModel.Lemmas.SkipBin
import PilotaModel.Props.C01
import PilotaModel.Lemmas.TolerantK
/-
  C13 — retained unknown fields survive re-encoding unchanged.

  Full statement (DESIGN.md section 8, `keep_roundtrip`):
    decode dw n (encodeKeep dr n (decodeKeep dr n (encode dw n v))) = .ok v   for dr ⊆ dw.
  Proved here — the reader half in full: for EVERY document, declared type, well-typed wire value in the shadow's
  domain, endianness, depth budget and trailing input, the retention decoder run on the encoding returns exactly the
  value-level shadow `projTyK` (`keep_decode_is_projection`, `keep_tolerant`; Lemmas/TolerantK.lean, simultaneous
  induction over the five mutually recursive retention decoders), and whenever the field loop of a struct succeeds,
  what it retained is every undeclared field of the wire struct, each as the very value it had on the wire, in wire order
  (`keep_retains_every_unknown_field`) — so the struct's re-encoding `known fields ++ retained` carries each of them byte
  for byte (`Binary.enc` of the same value), at every nesting level the reader knows.  The writer-side half (a reader
  with the full schema maps that re-encoding back to the original value) is not proved as one theorem; it is C08's
  `tolerant_binary` applied to the re-encoding, and is checked by T1 on every run.  The steps: the retained chunk of an unknown field is EXACTLY the bytes of that field's value for
  every well-typed value within the skipper's depth budget (`retained_chunk_exact`); the field loop
  appends it to the retained list in wire order and leaves the known fields alone
  (`unknown_field_retained`); a struct re-encodes as its known fields followed by the retained
  chunks (`struct_known_then_retained`).  Not true of the code as it is and stated as what it does:
  a union with retention rejects a known variant that is accompanied by an unknown field (D31);
  the argument-type shortcut (D12) is outside the model (hazard-marked requests, oracle only).
-/
namespace Pilota.Props.C13
open Pilota Pilota.Thrift Pilota.TGen

/-- "byte for byte": skipping an unknown field of any well-typed value `v` (nesting within the depth
budget; no limit under the unchecked codec) consumes exactly `Binary.enc e v`, and the retained
chunk denotes exactly `v`, so re-emitting it writes exactly the bytes that were skipped. -/
theorem retained_chunk_exact (e : Endian) (dp : Option Nat) (hed : EndianOk e dp) (v : TVal) (hw : v.wt = true) (hd : admits dp v.need) (r : Bytes) :
    skipKeep e dp v.ttype (Binary.enc e v ++ r) = .ok (v, r) := by
  unfold skipKeep
  rw [binRd_skip_enc e dp hed v hw hd r]
  have hr := Pilota.Props.C01.binary_roundtrip e v hw r
  rw [Binary.run_ops] at hr
  rw [hr]

/-- the field loop with retention: an undeclared field whose value is `v` is appended to the
retained list (after everything retained before it: wire order) and nothing else changes. -/
theorem unknown_field_retained (e : Endian) (dp : Option Nat) (d : Doc) (f : Nat) (fs : List Field)
    (slots unk : List (Int × TVal)) (s : Bytes) (id : Int) (v : TVal) (r : Bytes)
    (hed : EndianOk e dp) (hw : v.wt = true) (hd : admits dp v.need)
    (hb : (binRd e dp).fieldBegin s = .ok ((v.ttype, id), Binary.enc e v ++ r))
    (hunk : ∀ fl ∈ fs, fl.id ≠ id) :
    decFieldsK e dp d (f + 1) fs slots unk s = decFieldsK e dp d f fs slots (unk ++ [(id, v)]) r := by
  rw [decFieldsK, hb]
  have hns : v.ttype ≠ .stop := Binary.ttype_isValue_ne_stop _ (Binary.val_ttype_isValue v)
  simp only [hns, if_false]
  have : fs.find? (fun fl => fl.id == id && d.ttype fl.ty == v.ttype) = none := by
    rw [List.find?_eq_none]; intro fl hfl; simp [hunk fl hfl]
  rw [this]
  simp only [retained_chunk_exact e dp hed v hw hd r]

/-- a struct decoded with retention re-encodes as its known fields (declaration order, defaults
filled as without retention) followed by the retained chunks. -/
theorem struct_known_then_retained (e : Endian) (dp : Option Nat) (d : Doc) (f : Nat) (n : String) (fs : List Field)
    (hn : d.find n = some (.struct fs)) (s s' : Bytes) (slots unk out : List (Int × TVal))
    (hl : decFieldsK e dp d f fs [] [] s = .ok (slots, unk, s')) (hfin : finish fs slots = .ok out) :
    decTyK e dp d (f + 1) (.ref n) s = .ok (.struct (TFields.ofList (out ++ unk)), s') := by
  rw [decTyK]; simp [hn, hl, hfin]

/-- what the code does (known finding D31): with retention a union that already decoded a known
variant rejects a following unknown field, although the plain decoder skips it. -/
theorem union_known_then_unknown_is_error (e : Endian) (dp : Option Nat) (d : Doc) (f : Nat) (vs : List (Int × STy))
    (ret : Int × TVal) (s : Bytes) (id : Int) (v : TVal) (r : Bytes) (hed : EndianOk e dp) (hw : v.wt = true) (hd : admits dp v.need)
    (hb : (binRd e dp).fieldBegin s = .ok ((v.ttype, id), Binary.enc e v ++ r))
    (hk : vs.find? (fun x => x.1 == id && !(x.2 == .void)) = none) :
    decUnionK e dp d (f + 1) vs (some ret) s = .err .invalid := by
  rw [decUnionK, hb]
  have hns : v.ttype ≠ .stop := Binary.ttype_isValue_ne_stop _ (Binary.val_ttype_isValue v)
  simp [hns, hk, retained_chunk_exact e dp hed v hw hd r]

/-- a union that receives a single unknown field retains it. -/
theorem union_single_unknown_retained (e : Endian) (dp : Option Nat) (d : Doc) (f : Nat) (vs : List (Int × STy))
    (s : Bytes) (id : Int) (v : TVal) (r : Bytes) (hed : EndianOk e dp) (hw : v.wt = true) (hd : admits dp v.need)
    (hb : (binRd e dp).fieldBegin s = .ok ((v.ttype, id), Binary.enc e v ++ r))
    (hk : vs.find? (fun x => x.1 == id && !(x.2 == .void)) = none) :
    decUnionK e dp d (f + 1) vs none s = decUnionK e dp d f vs (some (id, v)) r := by
  rw [decUnionK, hb]
  have hns : v.ttype ≠ .stop := Binary.ttype_isValue_ne_stop _ (Binary.val_ttype_isValue v)
  simp [hns, hk, retained_chunk_exact e dp hed v hw hd r]

/-- **The retention decoder is its projection** (binary, little-endian, unchecked binary): at every fuel, errors included. -/
theorem keep_tolerant (e : Endian) (dp : Option Nat) (d : Doc) (ty : STy) (w : TVal) (rest : Bytes) (f : Nat) (o : Out TVal)
    (hed : EndianOk e dp) (hw : w.wt = true) (hp : projTyK d dp f ty w = some o) :
    decTyK e dp d f ty (Binary.enc e w ++ rest) = withRest rest o :=
  (corrK_all e dp d hed f).1 ty w rest o hw hp

/-- the same at the budget the emitted `decode` entry point really uses -/
theorem keep_decode_is_projection (e : Endian) (dp : Option Nat) (d : Doc) (n : String) (w : TVal) (rest : Bytes) (o : Out TVal)
    (hed : EndianOk e dp) (hw : w.wt = true)
    (hp : projTyK d dp (3 * (Binary.enc e w ++ rest).length + 8) (.ref n) w = some o) :
    decodeK e dp d n (Binary.enc e w ++ rest) = withRest rest o := by
  unfold decodeK
  exact (corrK_all e dp d hed _).1 (.ref n) w rest o hw hp

/-- **Every unknown field is retained, unchanged, in wire order**: when the retention decoder accepts the encoding of a
wire struct `wfs` for the declared struct `n`, the decoded struct is its known fields (as `finish` orders and fills them)
followed by exactly the undeclared fields of `wfs`, each with the value — hence the bytes — it had on the wire. -/
theorem keep_retains_every_unknown_field (e : Endian) (dp : Option Nat) (d : Doc) (n : String) (fs : List Field) (wfs : TFields)
    (rest : Bytes) (f : Nat) (v : TVal)
    (hed : EndianOk e dp) (hn : d.find n = some (.struct fs)) (hw : wfs.wt = true)
    (hp : projTyK d dp (f + 1) (.ref n) (.struct wfs) = some (.ok v)) :
    decTyK e dp d (f + 1) (.ref n) (Binary.enc e (.struct wfs) ++ rest) = .ok (v, rest) ∧
    ∃ out, v = .struct (TFields.ofList (out ++ unknownsOf d fs wfs)) := by
  constructor
  · exact (corrK_all e dp d hed (f + 1)).1 (.ref n) (.struct wfs) rest (.ok v) (by simpa [TVal.wt] using hw) hp
  · simp only [projTyK, hn] at hp
    cases hpf : projFieldsK d dp f fs [] [] wfs with
    | none => simp [hpf] at hp
    | some os =>
      cases os with
      | ok su =>
        obtain ⟨slots, unk⟩ := su
        simp only [hpf] at hp
        have hu := projFieldsK_retains d dp f fs [] [] wfs slots unk hpf
        simp at hu
        cases hfin : finish fs slots with
        | ok out => simp [hfin] at hp; exact ⟨out, by rw [← hp, hu]⟩
        | err k => simp [hfin] at hp
        | panic m => simp [hfin] at hp
        | fuel => simp [hfin] at hp
      | err k => simp [hpf] at hp
      | panic m => simp [hpf] at hp
      | fuel => simp [hpf] at hp

/-! non-vacuity of the two theorems above: a reader that knows field 1 only, a writer that also sent 2 and 9 -/
def rdDoc : Doc := [("S", .struct [{ id := 1, ty := .i32, required := true }])]
def wrVal : TFields := .cons 9 (.bin [1, 2]) (.cons 1 (.i32 5) (.cons 2 (.list .i64 (.cons (.i64 7) .nil)) .nil))
example : wrVal.wt = true ∧ projTyK rdDoc (some 64) 5 (.ref "S") (.struct wrVal) =
    some (.ok (.struct (.cons 1 (.i32 5) (.cons 9 (.bin [1, 2]) (.cons 2 (.list .i64 (.cons (.i64 7) .nil)) .nil))))) := by decide

/-! non-vacuity: an unknown field holding a nested container, within the default budget of 64 -/
def unk : TVal := .map .i32 .list (.cons (.i32 7) (.list .binary (.cons (.bin [1, 2]) .nil)) .nil)
example : unk.wt = true ∧ admits (some skipDepth) unk.need := ⟨by decide, by simp [admits, skipDepth, unk, TVal.need, TVals.need, TPairs.need]⟩

end Pilota.Props.C13
