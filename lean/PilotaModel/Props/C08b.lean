import PilotaModel.Lemmas.Strip
import PilotaModel.Lemmas.Tolerant
import PilotaModel.Lemmas.TolerantC
/-
  C08, schema evolution by REMOVED fields, stated over typed values with an explicit result.  `Props/C08.tolerant_*` say that
  the emitted decoder computes the value-level projection `projTy` of whatever well-typed wire value arrives; here the writer
  has the full document `dw`, the reader a document `restrict dw keep` that lacks any set of struct fields (its union variants
  kept), the plain non-retaining decoder is used, and the result is given in closed form: `strip` (Lemmas/Strip.lean) - the typed
  value without the removed fields at every level (sets and maps rebuilt by insertion).  So: unknown fields are ignored wherever
  they sit, known fields decode to what they would decode to on their own, nothing else changes, no error arises, and the
  result is a typed value of the READER's document (`reader_result_typed`).
-/
namespace Pilota.Props.C08b
open Pilota Pilota.Thrift Pilota.TGen

/-- value level: for every sufficiently large recursion budget of the model -/
theorem reader_lacking_fields_value (dw : Doc) (keep : String → Field → Bool) (dpr : Option Nat) (hd : dw.fieldsOk)
    (hv : ∀ n vs, dw.find n = some (.union vs) → ∀ x ∈ vs, keepVariant keep n x = true)
    (f : Nat) (ty : STy) (w : TVal) (ht : hasTy dw f ty w = true) (ha : admits dpr w.need) :
    ∃ G, ∀ g, G ≤ g → projTy (restrict dw keep) dpr g ty w = some (.ok (strip dw keep f ty w)) := by
  obtain ⟨G, hG⟩ := tolerant_strip_all dw keep dpr hd hv f ty w ht ((admitsB_iff dpr _).mpr ha)
  exact ⟨G, fun g hg => projTy_mono _ dpr G g hg ty w _ hG⟩

/-- **binary, little-endian, unchecked binary**: the reader's emitted decoder on the writer's bytes -/
theorem reader_lacking_fields_binary (e : Endian) (dp : Option Nat) (hed : EndianOk e dp) (dw : Doc) (keep : String → Field → Bool)
    (hd : dw.fieldsOk) (hv : ∀ n vs, dw.find n = some (.union vs) → ∀ x ∈ vs, keepVariant keep n x = true)
    (f : Nat) (ty : STy) (w : TVal) (ht : hasTy dw f ty w = true) (hw : w.wt = true) (ha : admits dp w.need) (rest : Bytes) :
    ∃ G, ∀ g, G ≤ g → decTy (binRd e dp) (restrict dw keep) g ty (Binary.enc e w ++ rest) = .ok (strip dw keep f ty w, rest) := by
  obtain ⟨G, hG⟩ := reader_lacking_fields_value dw keep dp hd hv f ty w ht ha
  refine ⟨G, fun g hg => ?_⟩
  have := (corr_all e dp (restrict dw keep) hed g).1 ty w rest (.ok (strip dw keep f ty w)) hw (hG g hg)
  simpa [withRest, mapOut] using this

/-- **compact**, from every reader state without a deferred bool; the reader state is restored -/
theorem reader_lacking_fields_compact (dw : Doc) (keep : String → Field → Bool)
    (hd : dw.fieldsOk) (hv : ∀ n vs, dw.find n = some (.union vs) → ∀ x ∈ vs, keepVariant keep n x = true)
    (f : Nat) (ty : STy) (w : TVal) (ht : hasTy dw f ty w = true) (hw : w.wt = true) (ha : admits dpC w.need)
    (cr : Compact.CR) (hcr : cr.pendingBool = none) (rest : Bytes) :
    ∃ G, ∀ g, G ≤ g → decTy cmpRd (restrict dw keep) g ty (cr, Compact.enc w ++ rest) = .ok (strip dw keep f ty w, (cr, rest)) := by
  obtain ⟨G, hG⟩ := reader_lacking_fields_value dw keep dpC hd hv f ty w ht ha
  refine ⟨G, fun g hg => ?_⟩
  have := (corrC_all (restrict dw keep) g).1 ty w cr rest (.ok (strip dw keep f ty w)) hw hcr (hG g hg)
  simpa [withRestC, mapOut] using this

/-- what the reader returns is a typed value of the reader's own document -/
theorem reader_result_typed (dw : Doc) (keep : String → Field → Bool) (hd : dw.fieldsOk)
    (hv : ∀ n vs, dw.find n = some (.union vs) → ∀ x ∈ vs, keepVariant keep n x = true)
    (f : Nat) (ty : STy) (w : TVal) (ht : hasTy dw f ty w = true) :
    hasTy (restrict dw keep) f ty (strip dw keep f ty w) = true := strip_typed_all dw keep hd hv f ty w ht

/-! non-vacuity: the writer's document and value of Props/C13 (`wDoc`, `wOrig`); the reader lacks fields 2 and 4 of `S` and field 1
of `T`; the plain reader returns the value without them -/
def rDoc : Doc := [("S", .struct [{ id := 1, ty := .i32, required := true }, { id := 2, ty := .list (.ref "S"), required := false },
    { id := 3, ty := .string, required := false, dflt := some (.bin [104]) }, { id := 4, ty := .map .i32 (.ref "T"), required := false }]),
  ("T", .struct [{ id := 1, ty := .bool, required := false }, { id := 7, ty := .set .i16, required := false }])]
def rKeep : String → Field → Bool := fun n fl => !((n == "S" && (fl.id == 2 || fl.id == 4)) || (n == "T" && fl.id == 1))
def rVal : TVal := .struct (.cons 1 (.i32 5) (.cons 2 (.list .struct (.cons (.struct (.cons 1 (.i32 6) (.cons 3 (.bin [105]) .nil))) .nil))
  (.cons 3 (.bin [104]) (.cons 4 (.map .i32 .struct (.cons (.i32 9) (.struct (.cons 1 (.bool true) .nil)) .nil)) .nil))))
example : hasTy rDoc 8 (.ref "S") rVal = true ∧
    strip rDoc rKeep 8 (.ref "S") rVal = .struct (.cons 1 (.i32 5) (.cons 3 (.bin [104]) .nil)) ∧
    projTy (restrict rDoc rKeep) (some 64) 12 (.ref "S") rVal = some (.ok (.struct (.cons 1 (.i32 5) (.cons 3 (.bin [104]) .nil)))) := by
  decide +kernel

end Pilota.Props.C08b
