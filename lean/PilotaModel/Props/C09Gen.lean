import PilotaModel.Lemmas.GenTotalInst
import PilotaModel.Lemmas.GenExt
import PilotaModel.Lemmas.Tolerant
import PilotaModel.Lemmas.ProjMono
/-
  C09 — the EMITTED decoders (model of the templates, TGen/Decode.lean) on arbitrary bytes, for every closed
  document, every declared type, every byte string, every reader state and every fuel: never the panic branch
  (`gen_total_*`), and a budget linear in the input is never exhausted (`gen_no_hang_*`: the real code has no
  budget, so "the model does not run out of fuel" is "the decoder terminates"); hence a value or an error
  (`gen_value_or_error_*`).  Generic statements over the reader record: Lemmas/GenTotal.lean (`dec_nopanic`,
  `dec_len`, `dec_nofuel`), reader instances: Lemmas/GenTotalInst.lean.

  What the real emitted code does beyond the model on arbitrary bytes is the list of known findings D10 (no
  depth bound: stack), D12 / D29 / D37 (panics of the `*_len` bookkeeping of the retention / union arms) and D34
  (async pre-allocation); the T1 stream C09gen compares model and compiled code on adversarial inputs.
-/
namespace Pilota.Props.C09Gen
open Pilota Pilota.Thrift Pilota.TGen

/-- checked binary / LE reader, any skip depth budget: no panic branch, for every type of a closed document. -/
theorem gen_total_binary (e : Endian) (dpt : Nat) (d : Doc) (hd : d.closed) (f : Nat) (ty : STy) (hc : ty.closed d = true)
    (bs : Bytes) (m : String) : decTy (binRd e (some dpt)) d f ty bs ≠ .panic m :=
  (dec_nopanic _ _ _ (binRd_safe e dpt) d hd f).1 ty bs m hc

/-- compact reader, from every reader state (a deferred bool included). -/
theorem gen_total_compact (d : Doc) (hd : d.closed) (f : Nat) (ty : STy) (hc : ty.closed d = true)
    (s : Compact.CR) (bs : Bytes) (m : String) : decTy cmpRd d f ty (s, bs) ≠ .panic m :=
  (dec_nopanic _ _ _ cmpRd_safe d hd f).1 ty (s, bs) m hc

/-- the entry point `decode` of a declared name. -/
theorem gen_decode_total_binary (e : Endian) (dpt : Nat) (d : Doc) (hd : d.closed) (n : String) (hn : (d.find n).isSome = true)
    (bs : Bytes) (m : String) : decode (binRd e (some dpt)) d n bs ≠ .panic m :=
  gen_total_binary e dpt d hd _ (.ref n) (by simpa [STy.closed] using hn) bs m

theorem gen_decode_total_compact (d : Doc) (hd : d.closed) (n : String) (hn : (d.find n).isSome = true)
    (s : Compact.CR) (bs : Bytes) (m : String) : decode cmpRd d n (s, bs) ≠ .panic m :=
  gen_total_compact d hd _ (.ref n) (by simpa [STy.closed] using hn) s bs m

/-- **no hang**, binary / LE: `rk` ranks typedef chains (`typedef A B; typedef B i32`: rk A = 2), `T` bounds it. -/
theorem gen_no_hang_binary (e : Endian) (dpt : Nat) (d : Doc) (rk : STy → Nat) (T : Nat) (hT : ∀ ty, rk ty ≤ T)
    (hrk : ∀ n t, d.find n = some (.typedef t) → rk t + 1 ≤ rk (.ref n))
    (ty : STy) (bs : Bytes) (f : Nat) (hf : rk ty + (T + 3) * bs.length + 2 ≤ f) :
    decTy (binRd e (some dpt)) d f ty bs ≠ .fuel :=
  (dec_nofuel _ _ (T + 3) ((binRd_safe e dpt).scale (T + 3)) d rk T hT (Nat.le_refl _) hrk f).1 ty bs hf

/-- **no hang**, compact. -/
theorem gen_no_hang_compact (d : Doc) (rk : STy → Nat) (T : Nat) (hT : ∀ ty, rk ty ≤ T)
    (hrk : ∀ n t, d.find n = some (.typedef t) → rk t + 1 ≤ rk (.ref n))
    (ty : STy) (s : Compact.CR) (bs : Bytes) (f : Nat) (hf : rk ty + (T + 3) * (3 * bs.length + 1) + 2 ≤ f) :
    decTy cmpRd d f ty (s, bs) ≠ .fuel := by
  refine (dec_nofuel _ _ (T + 3) (cmpRd_safe.scale (T + 3)) d rk T hT (Nat.le_refl _) hrk f).1 ty (s, bs) ?_
  have : cmpM (s, bs) ≤ 3 * bs.length + 1 := by have := Compact.mu_le s; simp only [cmpM]; omega
  have := Nat.mul_le_mul_left (T + 3) this
  omega

/-- a document without typedefs: the budget `3 · input length + 8` of the modelled `decode` entry point itself is
never exhausted (binary / LE). -/
theorem gen_decode_no_hang_binary (e : Endian) (dpt : Nat) (d : Doc) (hnt : ∀ n t, d.find n ≠ some (.typedef t))
    (n : String) (bs : Bytes) : decode (binRd e (some dpt)) d n bs ≠ .fuel := by
  unfold decode
  have := gen_no_hang_binary e dpt d (fun _ => 0) 0 (fun _ => Nat.le_refl _) (fun n t h => absurd h (hnt n t)) (.ref n) bs
    (3 * (binRd e (some dpt)).remaining bs + 8) (by simp [binRd])
  exact this

/-- value or error, nothing else (binary / LE). -/
theorem gen_value_or_error_binary (e : Endian) (dpt : Nat) (d : Doc) (hd : d.closed) (rk : STy → Nat) (T : Nat) (hT : ∀ ty, rk ty ≤ T)
    (hrk : ∀ n t, d.find n = some (.typedef t) → rk t + 1 ≤ rk (.ref n))
    (ty : STy) (hc : ty.closed d = true) (bs : Bytes) (f : Nat) (hf : rk ty + (T + 3) * bs.length + 2 ≤ f) :
    (∃ v r, decTy (binRd e (some dpt)) d f ty bs = .ok (v, r)) ∨ (∃ k, decTy (binRd e (some dpt)) d f ty bs = .err k) := by
  cases h : decTy (binRd e (some dpt)) d f ty bs with
  | ok p => exact .inl ⟨p.1, p.2, rfl⟩
  | err k => exact .inr ⟨k, rfl⟩
  | panic m => exact absurd h (gen_total_binary e dpt d hd f ty hc bs m)
  | fuel => exact absurd h (gen_no_hang_binary e dpt d rk T hT hrk ty bs f hf)

theorem gen_value_or_error_compact (d : Doc) (hd : d.closed) (rk : STy → Nat) (T : Nat) (hT : ∀ ty, rk ty ≤ T)
    (hrk : ∀ n t, d.find n = some (.typedef t) → rk t + 1 ≤ rk (.ref n))
    (ty : STy) (hc : ty.closed d = true) (s : Compact.CR) (bs : Bytes) (f : Nat) (hf : rk ty + (T + 3) * (3 * bs.length + 1) + 2 ≤ f) :
    (∃ v r, decTy cmpRd d f ty (s, bs) = .ok (v, r)) ∨ (∃ k, decTy cmpRd d f ty (s, bs) = .err k) := by
  cases h : decTy cmpRd d f ty (s, bs) with
  | ok p => exact .inl ⟨p.1, p.2, rfl⟩
  | err k => exact .inr ⟨k, rfl⟩
  | panic m => exact absurd h (gen_total_compact d hd f ty hc s bs m)
  | fuel => exact absurd h (gen_no_hang_compact d rk T hT hrk ty s bs f hf)

/-- whatever an emitted decoder accepts it has paid for: a successful decode consumes at least one byte
(binary / LE), so a decoded container never has more elements than the input has bytes. -/
theorem gen_ok_consumes (e : Endian) (dpt : Nat) (d : Doc) (f : Nat) (ty : STy) (bs : Bytes) (v : TVal) (r : Bytes)
    (h : decTy (binRd e (some dpt)) d f ty bs = .ok (v, r)) : r.length + 1 ≤ bs.length :=
  (dec_len _ _ 1 (binRd_safe e dpt) d f).1 ty bs v r h

/-- a successful emitted decode does not depend on the bytes after those it consumed (binary / LE). -/
theorem gen_extends (e : Endian) (dpt : Nat) (d : Doc) (f : Nat) (ty : STy) (p q : Bytes) (v : TVal) (r : Bytes)
    (h : decTy (binRd e (some dpt)) d f ty p = .ok (v, r)) : decTy (binRd e (some dpt)) d f ty (p ++ q) = .ok (v, r ++ q) :=
  (dec_ext _ _ (binRd_ext e dpt) d q f).1 ty p v r h

/-- **Every strict prefix of a valid encoding is rejected with an error** by the emitted decoder of every type of a closed
document (binary / LE): `w` is any well-typed wire value that the decoder accepts in full (`projTy … = some (.ok v)`: in
particular every value of the emitted type, `Props/C02.Canon`), `p` a strict prefix of its encoding. -/
theorem gen_prefix_rejected_binary (e : Endian) (dpt : Nat) (d : Doc) (hd : d.closed) (rk : STy → Nat) (T : Nat) (hT : ∀ ty, rk ty ≤ T)
    (hrk : ∀ n t, d.find n = some (.typedef t) → rk t + 1 ≤ rk (.ref n))
    (ty : STy) (hc : ty.closed d = true) (w v : TVal) (hw : w.wt = true) (f0 : Nat) (hp : projTy d (some dpt) f0 ty w = some (.ok v))
    (p q : Bytes) (hq : q ≠ []) (h : Binary.enc e w = p ++ q) (f : Nat) (hf0 : f0 ≤ f) (hf : rk ty + (T + 3) * p.length + 2 ≤ f) :
    ∃ k, decTy (binRd e (some dpt)) d f ty p = .err k := by
  rcases gen_value_or_error_binary e dpt d hd rk T hT hrk ty hc p f hf with ⟨v', r, hok⟩ | herr
  · exfalso
    have h1 := gen_extends e dpt d f ty p q v' r hok
    have h2 := (corr_all e (some dpt) d (by intro h; cases h) f).1 ty w [] (.ok v) hw (projTy_mono d (some dpt) f0 f hf0 ty w v hp)
    rw [List.append_nil, h, h1] at h2
    simp [withRest, mapOut] at h2
    exact hq h2.2.2
  · exact herr

/-! non-vacuity: a closed document with a typedef chain, a recursive struct, a union with a void head -/
def demo : Doc := [("A", .typedef (.ref "B")), ("B", .typedef (.list (.ref "S"))),
  ("S", .struct [{ id := 1, ty := .ref "A", required := false }, { id := 2, ty := .ref "U", required := false }]),
  ("U", .union [(0, .void), (1, .i32)]), ("E", .enum)]
def demoRk : STy → Nat
  | .ref "A" => 2 | .ref "B" => 1 | _ => 0
example : demo.closed := Doc.closed_of_closedB _ (by decide)
example : ∀ ty, demoRk ty ≤ 2 := by intro ty; unfold demoRk; split <;> omega
example : ∀ n t, demo.find n = some (.typedef t) → demoRk t + 1 ≤ demoRk (.ref n) := by
  intro n t h
  by_cases hA : n = "A"
  · subst hA; simp [demo, Doc.find] at h; subst h; simp [demoRk]
  by_cases hB : n = "B"
  · subst hB; simp [demo, Doc.find] at h; subst h; simp [demoRk]
  · exfalso
    simp only [demo, Doc.find, List.find?] at h
    have h1 : ("A" == n) = false := by simpa using fun h => hA h.symm
    have h2 : ("B" == n) = false := by simpa using fun h => hB h.symm
    simp only [h1, h2] at h
    split at h <;> (try split at h) <;> (try split at h) <;> simp at h

end Pilota.Props.C09Gen
