import PilotaModel.Gen.Templates
import PilotaModel.Thrift.Len
/-
  T2 for the Thrift code-generation templates (C02, C04, C08): the per-type arms of `codegen_encode_ty`,
  `codegen_encode_field`, `codegen_ty_size`, `codegen_field_size`, `codegen_decode_ty` and `ttype`
  (pilota-build/src/codegen/thrift/ty.rs) and the instantiations of the runtime's field helpers
  (`write_field!` / `field_len!` in pilota/src/thrift/mod.rs) are re-extracted from the source on every run into
  `Gen/Templates.lean`; the theorems below are checked against what the code says now.

  The model of emitted code takes "the emitted encoder writes the value's op sequence, the emitted size walks the same
  sequence with the `*_len` twins, the emitted decoder reads it back with the `read_*` twins" as its starting point
  (TGen/Decode.lean header).  `templates_aligned` is that premise for every leaf kind: the five templates call the
  twins of ONE primitive, and the wire type the generator declares for the kind is the wire type the runtime's field
  helper of that primitive puts in the header.
-/
namespace Pilota.Props.Templates
open Pilota.Thrift Pilota.Gen.Templates

/-- the primitive each leaf kind is written with (the stem of the protocol method names) -/
def stem : LeafKind → String
  | .string => "string" | .faststr => "faststr" | .u8 => "byte" | .bool => "bool" | .bytesVec => "bytes_vec" | .bytes => "bytes"
  | .i8 => "i8" | .i16 => "i16" | .i32 => "i32" | .i64 => "i64" | .f64 => "double" | .orderedF64 => "double" | .uuid => "uuid"
  | .vec => "list"

/-- the wire type of each leaf kind (Apache Thrift: strings and binaries share `Binary`; `byte` is `i8`) -/
def wire : LeafKind → TType
  | .string | .faststr | .bytesVec | .bytes => .binary
  | .u8 | .i8 => .i8 | .bool => .bool | .i16 => .i16 | .i32 => .i32 | .i64 => .i64 | .f64 | .orderedF64 => .double | .uuid => .uuid
  | .vec => .list

def lookup {β} (t : List (LeafKind × β)) (k : LeafKind) : Option β := (t.find? (·.1 == k)).map (·.2)
def lookupS {β} (t : List (String × β)) (k : String) : Option β := (t.find? (·.1 == k)).map (·.2)

/-- every template has exactly one arm per leaf kind (the extractor also fails closed on a missing or duplicate arm) -/
theorem tables_total : ∀ k ∈ leafKinds,
    (lookup encodeTy k).isSome ∧ (lookup encodeField k).isSome ∧ (lookup tySize k).isSome ∧ (lookup fieldSize k).isSome ∧
    (lookup decodeTy k).isSome ∧ (lookup ttypeArm k).isSome := by decide

/-- **the five templates call the twins of one primitive**, and `ttype` declares that primitive's wire type -/
theorem templates_aligned : ∀ k ∈ leafKinds,
    lookup encodeTy k = some ("write_" ++ stem k) ∧
    lookup encodeField k = some ("write_" ++ stem k ++ "_field") ∧
    lookup tySize k = some (stem k ++ "_len") ∧
    lookup fieldSize k = some (stem k ++ "_field_len") ∧
    lookup decodeTy k = some (if k = .vec then "read_list_begin" else "read_" ++ stem k) ∧
    lookup ttypeArm k = some (wire k) := by decide

/-- the runtime's `write_<p>_field` and `<p>_field_len` put the same wire type in the field header, for every primitive -/
theorem field_helpers_agree : ∀ p ∈ writeFieldHeader, lookupS fieldLenHeader p.1 = some p.2 := by decide

/-- … and for every leaf kind that type is the one the generator declares (`ttype`): what the emitted encoder announces in a
field header is what the emitted decoder of the same schema matches on -/
theorem header_type_is_declared_type : ∀ k ∈ leafKinds, k ≠ .vec →
    lookupS writeFieldHeader (stem k) = some (wire k) ∧ lookupS fieldLenHeader (stem k) = some (wire k) := by decide

/-! ### fields whose type is a path: enum, struct, typedef (of any wire type) -/

def lookupK (t : List (PathKind × TType)) (k : PathKind) : Option TType := (t.find? (·.1 == k)).map (·.2)

/-- **what the emitted encoder announces in the header of an enum / struct / typedef field is what the emitted decoder of the
same schema matches on** (`ttype`), for a typedef of every wire type: `ttype` follows a typedef to its target, and
`write_struct_field` is given that very type (fails when the typedef arm of `ttype` stops following the chain) -/
theorem path_header_is_declared_type : ∀ k ∈ pathKinds,
    (lookupK ttypePath k).isSome ∧ lookupK encodeFieldPathHeader k = lookupK ttypePath k := by decide

/-- **the size template sizes a bool header exactly when the encode template writes one** (D39: before fix cb66bc4 a typedef
of bool was sized with a struct header, one byte too many under the compact protocol; the theorem fails on that table) -/
theorem path_size_header_class : ∀ k ∈ pathKinds,
    (lookupK fieldSizePathHeader k).isSome ∧
    (lookupK fieldSizePathHeader k).map (· == .bool) = (lookupK encodeFieldPathHeader k).map (· == .bool) := by decide

/-- … and whether the header is a bool header is the only property of its type any length machine looks at: two field headers
of non-bool types have the same length, in the same state, under the binary family and under compact -/
theorem header_len_depends_on_bool_only (s : Compact.CW) (t t' : TType) (id : Int) (ht : t ≠ .bool) (ht' : t' ≠ .bool)
    (hc : (Compact.compactOf t).isSome = true) (hc' : (Compact.compactOf t').isSome = true) :
    Len.cmpStep s (.fieldBegin t id) = Len.cmpStep s (.fieldBegin t' id) ∧ Len.binOp (.fieldBegin t id) = Len.binOp (.fieldBegin t' id) := by
  refine ⟨?_, rfl⟩
  simp only [Len.cmpStep, ht, ht', if_false]
  cases h1 : Compact.compactOf t with
  | none => simp [h1] at hc
  | some a =>
    cases h2 : Compact.compactOf t' with
    | none => simp [h2] at hc'
    | some b => rfl

end Pilota.Props.Templates
