import PilotaModel.Lemmas.PbGroup
/-
  C05 — protobuf encode/decode round trip and encoded_len agreement.
  Property theorems only; helper lemmas live in `PilotaModel/Lemmas/Pb*.lean`.
-/
namespace Pilota.Props.C05
open Pilota Pilota.Proto

/-! ### runtime level: varints, keys, scalar modules -/

/-- `decode_varint (encode_varint n ++ rest) = (n, rest)` for every `u64`. -/
theorem varint_rt (n : Nat) (h : n < 2 ^ 64) (rest : Bytes) :
    decodeVarint (encodeVarint n ++ rest) = .ok (n, rest) := decodeVarint_encode n h rest

/-- `encoded_len_varint n` is the number of bytes `encode_varint n` writes, for every `u64`. -/
theorem varint_len (n : Nat) (h : n < 2 ^ 64) : encodedLenVarint n = (encodeVarint n).length := by
  rw [encodedLenVarint_eq n h, encodeVarint, encVar_length]

/-- keys: every tag in `MIN_TAG..=MAX_TAG`, every wire type. -/
theorem key_rt (tag : Nat) (h1 : minTag ≤ tag) (h2 : tag ≤ maxTag) (wt : WireType) (rest : Bytes) :
    encodeKey tag wt = .ok (keyBytes tag wt) ∧
    decodeKey (keyBytes tag wt ++ rest) = .ok ((tag, wt), rest) ∧
    keyLen tag = (keyBytes tag wt).length :=
  ⟨encodeKey_ok tag wt h1 h2, decodeKey_keyBytes tag wt h1 h2 rest, keyLen_eq tag wt h1 h2⟩

/-- every codec module, every tag in range, every value of the module's Rust type: the key reads
back as (tag, the module's wire type); `merge` returns the value and leaves exactly the trailing
bytes; `encoded_len` is the number of bytes `encode` wrote. -/
theorem scalar_rt (c : Codec) (tag : Nat) (h1 : minTag ≤ tag) (h2 : tag ≤ maxTag) (v : SVal)
    (hv : c.ok v = true) (hl : Codec.lenOk v) (rest : Bytes) :
    decodeKey (c.encode tag v ++ rest) = .ok ((tag, c.wt), c.encPayload v ++ rest) ∧
    c.merge c.wt (c.encPayload v ++ rest) = .ok (v, rest) ∧
    c.encodedLen tag v = (c.encode tag v).length :=
  ⟨(Codec.field_rt c tag h1 h2 v hv hl rest).1, (Codec.field_rt c tag h1 h2 v hv hl rest).2,
   Codec.encodedLen_eq c tag h1 h2 v hl⟩

/-- `encode_repeated` read back by the `Message::merge` loop through `merge_repeated`, and
`encoded_len_repeated`. -/
theorem repeated_rt (c : Codec) (tag : Nat) (h1 : minTag ≤ tag) (h2 : tag ≤ maxTag) (vs : List SVal)
    (hv : Codec.allOk c vs) :
    c.mergeAll ((c.encodeRepeated tag vs).length + 1) [] (c.encodeRepeated tag vs) = .ok vs ∧
    c.encodedLenRepeated tag vs = (c.encodeRepeated tag vs).length := by
  refine ⟨?_, Codec.encodedLenRepeated_eq c tag h1 h2 vs (fun v h => (hv v h).2)⟩
  have := Codec.mergeAll_repeated c tag h1 h2 vs hv [] ((c.encodeRepeated tag vs).length + 1) ?_
  · simpa using this
  · have : ∀ (vs : List SVal), vs.length ≤ (c.encodeRepeated tag vs).length := by
      intro vs
      induction vs with
      | nil => simp
      | cons v vs ih =>
        rw [Codec.encodeRepeated_cons]
        have := Codec.encode_pos c tag v
        simp only [List.length_append, List.length_cons]; omega
    have := this vs
    omega

/-- `encode_packed` of a numeric module read back by `merge_repeated` (packed arm), and
`encoded_len_packed`.  `hlen`: the payload length is a `usize`. -/
theorem packed_rt (c : Codec) (hn : c.isNumeric = true) (tag : Nat) (h1 : minTag ≤ tag) (h2 : tag ≤ maxTag)
    (vs : List SVal) (hv : Codec.allOk c vs) (hlen : c.payloadLenSum vs < 2 ^ 64) :
    c.mergeAll ((c.encodePacked tag vs).length + 2) [] (c.encodePacked tag vs) = .ok vs ∧
    c.encodedLenPacked tag vs = (c.encodePacked tag vs).length :=
  ⟨Codec.mergeAll_packed c hn tag h1 h2 vs hv hlen _ (by omega),
   Codec.encodedLenPacked_eq c tag h1 h2 vs (fun v h => (hv v h).2) hlen⟩

/-- a packed run may also arrive inside a message that already holds elements (split runs, mixed
packed / unpacked): `merge_repeated` appends. -/
theorem packed_appends (c : Codec) (hn : c.isNumeric = true) (vs : List SVal) (hv : Codec.allOk c vs)
    (hlen : c.payloadLenSum vs < 2 ^ 64) (acc : List SVal) (rest : Bytes) :
    c.mergeRepeated .len acc (encodeVarint (c.payloadLenSum vs) ++ (vs.flatMap c.encPayload ++ rest)) = .ok (acc ++ vs, rest) :=
  Codec.mergeRepeated_packed c hn vs hv hlen acc rest

/-! ### message level: what pilota-build emits -/

/-- **round trip and `encoded_len` for every generated message**: every well-formed schema
(field numbers in range and distinct per message, references resolve), every message of it, every
value of the generated struct (`HasType`: scalars in the range of their Rust type, map keys
distinct, nesting within the recursion limit of 100, lengths `usize`), both settings of
`pb-encode-default-value`: `Message::decode (encode m) = Ok m` and `encoded_len m` is the number
of bytes written.  With the feature off `HasType` also asks that a map value that is `==` its
default (IEEE `==`: either zero) is the default bit for bit — see `negzero_counterexample`. -/
theorem pb_roundtrip (s : Schema) (hs : WFSchema s = true) (flag : Bool) (i : Nat) (m : Slots) (hm : HasType s flag i m) :
    decode s i (encode s flag i m) = .ok m ∧ encodedLen s flag i m = (encode s flag i m).length :=
  ⟨decode_encode s flag hs i m hm, encodedLen_encode s flag hs i m hm.1⟩

/-- nested message field through `message::encode` / `message::merge`: key, length prefix,
exact consumption, and field-wise merge into whatever value `x` the field held; with a budget
that covers the nesting of `y`.  (`pb_roundtrip` is this with `x` the default.) -/
theorem message_rt (s : Schema) (hs : WFSchema s = true) (flag : Bool) (tag : Nat) (ht : tagOk tag = true) (i : Nat)
    (hi : i < s.length) (x y : EVal) (ctx : Nat) (hy : okE s flag (.msg i) y = true) (hn : needE y ≤ ctx)
    (hx : shapeE s (.msg i) x = true) (rest : Bytes) :
    encE s flag tag (.msg i) y = keyBytes tag .len ++ payE s flag (.msg i) y ∧
    mergeE s (recurOf s ctx) (.msg i) x .len (payE s flag (.msg i) y ++ rest) = .ok (mergeValE s (.msg i) x y, rest) ∧
    lenE s flag tag (.msg i) y = (encE s flag tag (.msg i) y).length :=
  ⟨encE_split s flag tag (.msg i) y hy,
   mergeE_pay s flag hs (.msg i) (by simp [FTy.wfIn, hi]) x y ctx hy hn hx rest,
   lenE_eq s flag hs tag ht (.msg i) y hy⟩

/-- map field (`hash_map::encode / merge`, key = 1 / value = 2 entries), both flag settings:
a struct whose only field is the map round-trips; compared as association lists with distinct
keys in the order the encoder iterated. -/
theorem map_rt (s : Schema) (hs : WFSchema s = true) (flag : Bool) (i t : Nat) (kc : Codec) (vty : FTy)
    (hd : decls s i = [.map t kc vty]) (kvs : Pairs) (hm : HasType s flag i (.cons (.map kvs) .nil)) :
    decode s i (encode s flag i (.cons (.map kvs) .nil)) = .ok (.cons (.map kvs) .nil) ∧
    lenPairs s flag t kc vty kvs = (encPairs s flag t kc vty kvs).length := by
  refine ⟨decode_encode s flag hs i _ hm, ?_⟩
  have h := encodedLen_encode s flag hs i _ hm.1
  simpa [encodedLen, encode, hd, lenSlots, lenSlot, encSlots, encSlot] using h

/-- oneof field: a struct whose only field is the oneof round-trips, whichever member is set. -/
theorem oneof_rt (s : Schema) (hs : WFSchema s = true) (flag : Bool) (i : Nat) (vs : List (Nat × FTy))
    (hd : decls s i = [.oneof vs]) (v : Slot) (hm : HasType s flag i (.cons v .nil)) :
    decode s i (encode s flag i (.cons v .nil)) = .ok (.cons v .nil) :=
  decode_encode s flag hs i _ hm

/-- the runtime's group codec (`group::encode / merge / encoded_len`; pilota-build emits no group
fields, the functions are runtime API): the start key reads back as (tag, StartGroup), `group::merge`
of the body into any value of the struct gives `mergeVal`, stops at the matching end-group key and
leaves exactly the trailing bytes; `encoded_len` is the number of bytes written.  A group costs one
level of the recursion budget. -/
theorem group_rt (s : Schema) (hs : WFSchema s = true) (flag : Bool) (tag : Nat) (h1 : minTag ≤ tag) (h2 : tag ≤ maxTag)
    (i : Nat) (x y : Slots) (ctx : Nat) (hy : okSlots s flag (decls s i) y = true) (hn : needSlots y + 1 ≤ ctx)
    (hx : shapeSlots s (decls s i) x = true) (rest : Bytes) :
    decodeKey (groupEncode s flag tag i y ++ rest)
      = .ok ((tag, .sgroup), encSlots s flag (decls s i) y ++ (keyBytes tag .egroup ++ rest)) ∧
    groupMerge s ctx tag .sgroup i x (encSlots s flag (decls s i) y ++ (keyBytes tag .egroup ++ rest)) = .ok (mergeVal s i x y, rest) ∧
    groupEncodedLen s flag tag i y = (groupEncode s flag tag i y).length := by
  refine ⟨?_, groupMerge_encode s flag hs tag h1 h2 i x y ctx hy hn hx rest, groupEncodedLen_eq s flag hs tag h1 h2 i y hy⟩
  unfold groupEncode
  rw [List.append_assoc, decodeKey_keyBytes tag .sgroup h1 h2, List.append_assoc]

/-! ### known finding PB2: negative zero as a map value, feature off

Full statement (FALSE for the tree as it is): `pb_roundtrip` without the map-value clause of
`HasType`.  The map codec omits a value that is `==` its default; for floats that is IEEE
equality, so `-0.0` is omitted and decodes as `+0.0`. -/

/-- the witness replayed by the harness: `map<int32, float> {1: -0.0}` encodes (feature off) to
the entry `08 01` without a value and decodes to `{1: +0.0}`. -/
theorem negzero_counterexample :
    encode negzeroSchema false 0 negzeroMsg = [0x0a, 0x02, 0x08, 0x01] ∧
    decode negzeroSchema 0 [0x0a, 0x02, 0x08, 0x01] = .ok poszeroMsg ∧ poszeroMsg ≠ negzeroMsg :=
  ⟨negzero_encode, negzero_decode, by decide⟩

/-- with the feature on the same value is inside `pb_roundtrip`. -/
theorem negzero_flag_on : WFSchema negzeroSchema = true ∧ HasType negzeroSchema true 0 negzeroMsg := by decide

/-! non-vacuity: a schema with a required nested message, a recursive optional field, a
repeated sint32, a map with message values and a oneof; a value using all of them. -/
def demoSchema : Schema :=
  [[.single 1 (.msg 1) false, .single 2 (.msg 0) true, .rep 3 (.scalar .sint32), .map 4 .faststr (.msg 1),
    .oneof [(5, .scalar .double), (536870911, .msg 0)]],
   [.single 1 (.scalar .int32) false]]
def demoInner : EVal := .msg (.cons (.req (.s (.int (-7)))) .nil)
def demoLeaf : Slots := .cons (.req demoInner) (.cons .none (.cons (.rep .nil) (.cons (.map .nil) (.cons .none .nil))))
def demoMsg : Slots :=
  .cons (.req demoInner) (.cons (.some (.msg demoLeaf))
    (.cons (.rep (.cons (.s (.int (-1))) (.cons (.s (.int 2147483647)) .nil)))
      (.cons (.map (.cons (.bs [0x61]) demoInner (.cons (.bs []) demoInner .nil)))
        (.cons (.one 536870911 (.msg demoLeaf)) .nil))))
example : WFSchema demoSchema = true := by decide
example : HasType demoSchema false 0 demoMsg ∧ HasType demoSchema true 0 demoMsg := by decide

/-! non-vacuity: tags at both ends of the range, a negative `int32` (ten bytes on the wire), both
float zeros, a string with a four-byte code point. -/
example : minTag ≤ 1 ∧ 1 ≤ maxTag ∧ minTag ≤ 536870911 ∧ 536870911 ≤ maxTag := by decide
example : Codec.int32.ok (.int (-1)) = true ∧ Codec.lenOk (.int (-1)) := by decide
example : Codec.string.ok (.bs [0xf0, 0x9d, 0x84, 0x9e]) = true := by decide
example : Codec.allOk .sint64 [.int (-9223372036854775808), .int 9223372036854775807] := by
  intro v hv; simp at hv; rcases hv with rfl | rfl <;> decide

end Pilota.Props.C05
