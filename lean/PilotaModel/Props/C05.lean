import PilotaModel.Lemmas.PbRepeated
/-
  C05 — protobuf encode/decode round trip and encoded_len agreement.
  Property theorems only; helper lemmas live in `PilotaModel/Lemmas/Pb*.lean`.
-/
namespace Pilota.Props.C05
open Pilota Pilota.Proto

/-! ### runtime level: varints, keys, scalar modules -/

/-- `decode_varint (encode_varint n ++ rest) = (n, rest)` for every `u64`. -/
theorem varint_rt (n : Nat) (h : n < 2 ^ 64) (rest : Bytes) :
    decodeVarint (encodeVarint n ++ rest) = .ok (n, rest) := decodeVarint_encode n h rest

/-- `encoded_len_varint n` is the number of bytes `encode_varint n` writes, for every `u64`. -/
theorem varint_len (n : Nat) (h : n < 2 ^ 64) : encodedLenVarint n = (encodeVarint n).length := by
  rw [encodedLenVarint_eq n h, encodeVarint, encVar_length]

/-- keys: every tag in `MIN_TAG..=MAX_TAG`, every wire type. -/
theorem key_rt (tag : Nat) (h1 : minTag ≤ tag) (h2 : tag ≤ maxTag) (wt : WireType) (rest : Bytes) :
    encodeKey tag wt = .ok (keyBytes tag wt) ∧
    decodeKey (keyBytes tag wt ++ rest) = .ok ((tag, wt), rest) ∧
    keyLen tag = (keyBytes tag wt).length :=
  ⟨encodeKey_ok tag wt h1 h2, decodeKey_keyBytes tag wt h1 h2 rest, keyLen_eq tag wt h1 h2⟩

/-- every codec module, every tag in range, every value of the module's Rust type: the key reads
back as (tag, the module's wire type); `merge` returns the value and leaves exactly the trailing
bytes; `encoded_len` is the number of bytes `encode` wrote. -/
theorem scalar_rt (c : Codec) (tag : Nat) (h1 : minTag ≤ tag) (h2 : tag ≤ maxTag) (v : SVal)
    (hv : c.ok v = true) (hl : Codec.lenOk v) (rest : Bytes) :
    decodeKey (c.encode tag v ++ rest) = .ok ((tag, c.wt), c.encPayload v ++ rest) ∧
    c.merge c.wt (c.encPayload v ++ rest) = .ok (v, rest) ∧
    c.encodedLen tag v = (c.encode tag v).length :=
  ⟨(Codec.field_rt c tag h1 h2 v hv hl rest).1, (Codec.field_rt c tag h1 h2 v hv hl rest).2,
   Codec.encodedLen_eq c tag h1 h2 v hl⟩

/-- `encode_repeated` read back by the `Message::merge` loop through `merge_repeated`, and
`encoded_len_repeated`. -/
theorem repeated_rt (c : Codec) (tag : Nat) (h1 : minTag ≤ tag) (h2 : tag ≤ maxTag) (vs : List SVal)
    (hv : Codec.allOk c vs) :
    c.mergeAll ((c.encodeRepeated tag vs).length + 1) [] (c.encodeRepeated tag vs) = .ok vs ∧
    c.encodedLenRepeated tag vs = (c.encodeRepeated tag vs).length := by
  refine ⟨?_, Codec.encodedLenRepeated_eq c tag h1 h2 vs (fun v h => (hv v h).2)⟩
  have := Codec.mergeAll_repeated c tag h1 h2 vs hv [] ((c.encodeRepeated tag vs).length + 1) ?_
  · simpa using this
  · have : ∀ (vs : List SVal), vs.length ≤ (c.encodeRepeated tag vs).length := by
      intro vs
      induction vs with
      | nil => simp
      | cons v vs ih =>
        rw [Codec.encodeRepeated_cons]
        have := Codec.encode_pos c tag v
        simp only [List.length_append, List.length_cons]; omega
    have := this vs
    omega

/-- `encode_packed` of a numeric module read back by `merge_repeated` (packed arm), and
`encoded_len_packed`.  `hlen`: the payload length is a `usize`. -/
theorem packed_rt (c : Codec) (hn : c.isNumeric = true) (tag : Nat) (h1 : minTag ≤ tag) (h2 : tag ≤ maxTag)
    (vs : List SVal) (hv : Codec.allOk c vs) (hlen : c.payloadLenSum vs < 2 ^ 64) :
    c.mergeAll ((c.encodePacked tag vs).length + 2) [] (c.encodePacked tag vs) = .ok vs ∧
    c.encodedLenPacked tag vs = (c.encodePacked tag vs).length :=
  ⟨Codec.mergeAll_packed c hn tag h1 h2 vs hv hlen _ (by omega),
   Codec.encodedLenPacked_eq c tag h1 h2 vs (fun v h => (hv v h).2) hlen⟩

/-- a packed run may also arrive inside a message that already holds elements (split runs, mixed
packed / unpacked): `merge_repeated` appends. -/
theorem packed_appends (c : Codec) (hn : c.isNumeric = true) (vs : List SVal) (hv : Codec.allOk c vs)
    (hlen : c.payloadLenSum vs < 2 ^ 64) (acc : List SVal) (rest : Bytes) :
    c.mergeRepeated .len acc (encodeVarint (c.payloadLenSum vs) ++ (vs.flatMap c.encPayload ++ rest)) = .ok (acc ++ vs, rest) :=
  Codec.mergeRepeated_packed c hn vs hv hlen acc rest

/-! non-vacuity: tags at both ends of the range, a negative `int32` (ten bytes on the wire), both
float zeros, a string with a four-byte code point. -/
example : minTag ≤ 1 ∧ 1 ≤ maxTag ∧ minTag ≤ 536870911 ∧ 536870911 ≤ maxTag := by decide
example : Codec.int32.ok (.int (-1)) = true ∧ Codec.lenOk (.int (-1)) := by decide
example : Codec.string.ok (.bs [0xf0, 0x9d, 0x84, 0x9e]) = true := by decide
example : Codec.allOk .sint64 [.int (-9223372036854775808), .int 9223372036854775807] := by
  intro v hv; simp at hv; rcases hv with rfl | rfl <;> decide

end Pilota.Props.C05
