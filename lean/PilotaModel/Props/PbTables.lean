import PilotaModel.Gen.Tables
import PilotaModel.Proto.Wire
import PilotaModel.Proto.Lowering
/-
  T2 tie, protobuf side: the model's constants agree with the tables extracted from /repo's
  source on this run (pilota/src/prost/{encoding,mod}.rs).
-/
namespace Pilota.Props.PbTables
open Pilota Pilota.Proto Pilota.Gen.Tables

/-- `MIN_TAG`, `MAX_TAG`, `RECURSION_LIMIT`. -/
theorem pb_constants : pbMinTag = minTag ∧ pbMaxTag = maxTag ∧ pbRecursionLimit = recursionLimit := by decide

/-- `WireType` discriminants, in declaration order. -/
theorem wire_type_codes : wireTypeCodes = WireType.all.map WireType.code := by decide

/-- `WireType::try_from(u64)` inverts the discriminant on all of `0..8` (the three key bits). -/
theorem wire_type_of_code : ∀ n : Fin 8, WireType.ofCode n.val = WireType.all.find? (fun w => w.code == n.val) := by decide

/-- the generator's type lowering, composed from the three extracted tables (`lower_ty`, resolve's
`lower_type`, the ordered arms of `ty_module`), selects for every scalar field type the codec
module the model uses (`PType.codec`).  Fails if an arm is reordered, retagged or dropped. -/
theorem codec_table : ∀ t ∈ PType.all, moduleOfTables pbLowerTy pbResolve pbTyModule t = some (.codec t.codec) := by decide

/-- enum fields go through `int32`, message fields through `message`. -/
theorem path_arms : firstArm .pathEnum none pbTyModule = some (.codec .int32) ∧
    firstArm .pathAny none pbTyModule = some .message := by decide

end Pilota.Props.PbTables
