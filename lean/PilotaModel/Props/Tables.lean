import PilotaModel.Gen.Tables
import PilotaModel.Thrift.Compact
/-
  T2 tie: the hand-written model's constants agree with the tables extracted from
  /repo's source on this run.  Every theorem is a total `decide` over a finite domain.
-/
namespace Pilota.Props.Tables
open Pilota Pilota.Thrift Pilota.Gen.Tables

def assoc {α β} [DecidableEq α] (a : α) : List (α × β) → Option β
  | [] => none
  | (k, v) :: r => if k = a then some v else assoc a r

/-- `TType as u8` in the model is the enum discriminant in thrift/mod.rs. -/
theorem ttype_codes : ∀ t ∈ TType.all, assoc t ttypeCodes = some t.toByte := by decide

/-- `TType::try_from(u8)` in the model is `TTYPE_LOOKUP`, for all 256 bytes. -/
theorem ttype_lookup : ∀ b : Fin 256, TType.ofByte b.val = (ttypeLookup[b.val]?).join := by decide +kernel

/-- `TCompactType::try_from(TType)`. -/
theorem compact_of_ttype : ∀ t ∈ TType.all, Compact.compactOf t = assoc t compactOfTType := by decide

/-- `TCompactType::try_from(u8)` then `TType::try_from(TCompactType)`, for all 256 bytes. -/
theorem ttype_of_compact : ∀ b : Fin 256,
    Compact.ttypeOfCompact b.val = (assoc b.val compactOfU8).bind (fun c => assoc c ttypeOfCompact) := by decide +kernel

/-- fixed-size table used by the unchecked skipper: width of the fixed-size types, 0 otherwise. -/
def fixedWidth : TType → Nat
  | .bool => 1 | .i8 => 1 | .double => 8 | .i16 => 2 | .i32 => 4 | .i64 => 8 | .uuid => 16
  | _ => 0

theorem fixed_size_table : ∀ t ∈ TType.all, binaryFixedSize[t.toByte]? = some (fixedWidth t) := by decide

theorem constants :
    maximumSkipDepth = 64 ∧ zeroCopyThreshold = 4096 ∧
    binVersion1 = 0x80010000 ∧ unsafeVersion1 = 0x80010000 ∧ leVersion = 0x88880000 ∧ binVersionMask = 0xffff0000 ∧
    cCompactProtocolId = 0x82 ∧ cCompactVersion = 1 ∧ cCompactVersionMask = 0x1f ∧ cCompactTypeMask = 0xE0 ∧
    cCompactTypeShiftAmount = 5 ∧ compactBooleanTrue = 1 ∧ compactBooleanFalse = 2 ∧
    messageTypeCodes = [1, 2, 3, 4] ∧ messageTypeOfU8 = [(1, 1), (2, 2), (3, 3), (4, 4)] := by decide

/-- the compact message header byte `(VERSION & MASK) | ((mtype << SHIFT) & TYPE_MASK)` is what the model writes. -/
theorem compact_msg_header : ∀ mt ∈ messageTypeCodes,
    ((cCompactVersion &&& cCompactVersionMask) ||| ((mt <<< cCompactTypeShiftAmount) % 256 &&& cCompactTypeMask)) = 1 + (mt * 32) % 256 := by decide

end Pilota.Props.Tables
