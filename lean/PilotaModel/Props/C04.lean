import PilotaModel.Lemmas.Fuel
import PilotaModel.Lemmas.OpsRun
/-
  C04 — the byte count computed before encoding equals the bytes encoding writes.
-/
namespace Pilota.Props.C04
open Pilota Pilota.Thrift

/-- Lock-step simulation, compact protocol: whenever the writer accepts a call, the matching
`*_len` call on the same state succeeds, moves to the same state (field-id delta stack,
deferred bool header) and returns exactly the number of bytes the writer appended. -/
theorem len_sim (s : Compact.CW) (o : Op) (hwf : o.wf = true) (s' : Compact.CW) (b : Bytes)
    (h : Compact.wStep s o = .ok (s', b)) : Len.cmpStep s o = .ok (s', b.length) :=
  Len.len_sim s o hwf s' b h

/-- …lifted to every sequence of calls the writer accepts. -/
theorem compact_len_eq_write (ops : List Op) (hwf : ∀ o ∈ ops, o.wf = true) (s s' : Compact.CW) (bs : Bytes)
    (h : Compact.run s ops = .ok (s', bs)) :
    ∃ ns, Len.cmpRun s ops = .ok (s', ns) ∧ ns.sum = bs.length := by
  induction ops generalizing s bs with
  | nil => simp [Compact.run] at h; obtain ⟨rfl, rfl⟩ := h; exact ⟨[], rfl, rfl⟩
  | cons o os ih =>
    simp only [Compact.run] at h
    cases h1 : Compact.wStep s o with
    | ok p =>
      obtain ⟨s1, b1⟩ := p
      simp only [h1] at h
      cases h2 : Compact.run s1 os with
      | ok q =>
        obtain ⟨s2, b2⟩ := q
        simp only [h2] at h
        cases h
        obtain ⟨ns, hn1, hn2⟩ := ih (fun o ho => hwf o (by simp [ho])) s1 b2 h2
        refine ⟨b1.length :: ns, ?_, by simp [hn2]⟩
        simp [Len.cmpRun, len_sim s o (hwf o (by simp)) s1 b1 h1, hn1]
      | err k => simp [h2] at h
      | panic m => simp [h2] at h
      | fuel => simp [h2] at h
    | err k => simp [h1] at h
    | panic m => simp [h1] at h
    | fuel => simp [h1] at h

/-- Binary, little-endian binary and the unchecked binary codec share one length calculation;
it equals the bytes written for every op sequence. -/
theorem binary_len_eq_write (e : Endian) (ops : List Op) (hwf : ∀ o ∈ ops, o.wf = true) :
    Len.binLen ops = (Binary.run e ops).length := Len.binLen_eq e ops hwf

/-- Value level, binary. -/
theorem binary_value_len (e : Endian) (v : TVal) (hw : v.wt = true) :
    Len.binLen v.ops = (Binary.run e v.ops).length :=
  binary_len_eq_write e v.ops (TVal.ops_wf v hw)

/-- Value level, compact: from any state without a deferred bool both machines accept the
value's op sequence, return to that state, and agree on the size. -/
theorem compact_value_len (v : TVal) (hw : v.wt = true) (s : Compact.CW) (hp : s.pending = none) :
    ∃ ns bs, Compact.run s v.ops = .ok (s, bs) ∧ Len.cmpRun s v.ops = .ok (s, ns) ∧ ns.sum = bs.length := by
  have h := Compact.run_ops v hw s hp
  obtain ⟨ns, h1, h2⟩ := compact_len_eq_write v.ops (TVal.ops_wf v hw) s s _ h
  exact ⟨ns, _, h, h1, h2⟩

/-- Message envelope: `message_begin_len` = bytes of `write_message_begin`, all protocols. -/
theorem msg_len_eq (name : Bytes) (mt : Nat) (seq : Int) (s : Compact.CW) (hp : s.pending = none) (e : Endian) :
    (∃ ns bs, Compact.run s [.msgBegin name mt seq, .msgEnd] = .ok (s, bs) ∧
        Len.cmpRun s [.msgBegin name mt seq, .msgEnd] = .ok (s, ns) ∧ ns.sum = bs.length) ∧
    Len.binLen [.msgBegin name mt seq, .msgEnd] = (Binary.run e [.msgBegin name mt seq, .msgEnd]).length := by
  constructor
  · obtain ⟨bs, h⟩ : ∃ bs, Compact.run s [.msgBegin name mt seq, .msgEnd] = .ok (s, bs) := by
      simp [Compact.run, Compact.wStep, hp]
    obtain ⟨ns, h1, h2⟩ := compact_len_eq_write _ (by intro o ho; simp at ho; rcases ho with rfl | rfl <;> rfl) s s _ h
    exact ⟨ns, _, h, h1, h2⟩
  · exact binary_len_eq_write e _ (by intro o ho; simp at ho; rcases ho with rfl | rfl <;> rfl)

/-! non-vacuity -/
example : (TVal.struct (.cons (-20000) (.bool true) (.cons 20000 (.i16 3) .nil))).wt = true := by decide
example : ∃ s' b, Compact.wStep {} (.fieldBegin .i32 5) = .ok (s', b) := ⟨_, _, rfl⟩

end Pilota.Props.C04
