import PilotaModel.Lemmas.PbLimit
import PilotaModel.Lemmas.PbLadder
import PilotaModel.Lemmas.PbGroup
/-
  C10 — protobuf decoders are total and bounded on arbitrary bytes.
  Property theorems only; helper lemmas live in `PilotaModel/Lemmas/Pb*.lean`.
  `.panic` is a violated Rust precondition (assert, get_unchecked, advance, copy_to_bytes,
  get_u8, `unreachable!`); `.fuel` is exhaustion of a model loop budget (each loop is given
  `remaining + 1` iterations).
-/
namespace Pilota.Props.C10
open Pilota Pilota.Proto

def total {α} (o : Out α) : Prop := (∀ e, o ≠ .panic e) ∧ o ≠ .fuel

theorem total_of_good {α} {P : α → Prop} (o : Out α) (h : Out.good P o) : total o := by
  cases o <;> simp_all [Out.good, total]

/-- **the three paths of `decode_varint` agree**: the slow path on every input, the slice path
wherever its guard (`!is_empty && (len > 10 || last < 0x80)`) holds, and the function itself, all
compute the reference reading `decVarSpec` (value, bytes consumed, or error). -/
theorem varint_paths (bs : Bytes) :
    varintSlow bs = decVarSpec bs ∧
    (slicePre bs = true → varintViaSlice bs = decVarSpec bs) ∧
    decodeVarint bs = decVarSpec bs :=
  ⟨varintSlow_spec bs, varintViaSlice_spec bs, decodeVarint_eq_spec bs⟩

/-- wherever the guard allows both, slice path = slow path. -/
theorem varint_slice_eq_slow (bs : Bytes) (h : slicePre bs = true) : varintViaSlice bs = varintSlow bs := by
  rw [varintViaSlice_spec bs h, varintSlow_spec]

/-- runtime level: no wire function panics on any input. -/
theorem wire_total (bs : Bytes) (ctx : Nat) (wt : WireType) (tag : Nat) :
    total (decodeVarint bs) ∧ total (decodeKey bs) ∧ total (skipField ctx wt tag bs) :=
  ⟨total_of_good _ (decodeVarint_good bs), total_of_good _ (decodeKey_good bs), total_of_good _ (skipField_good ctx wt tag bs)⟩

/-- runtime level: every codec module's `merge` and `merge_repeated` (packed and unpacked arm,
any wire type) and the field loop over them. -/
theorem scalar_total (c : Codec) (wt : WireType) (acc : List SVal) (bs : Bytes) :
    total (c.merge wt bs) ∧ total (c.mergeRepeated wt acc bs) ∧ total (c.mergeAll (bs.length + 1) acc bs) :=
  ⟨total_of_good _ (Codec.merge_good c wt bs), total_of_good _ (Codec.mergeRepeated_good c wt acc bs),
   total_of_good _ (Codec.mergeAll_good c _ acc bs (by omega))⟩

/-- **`Message::decode` of any generated message on any byte string never panics** (every schema,
including ill-formed ones; every message index). -/
theorem pb_total (s : Schema) (i : Nat) (bs : Bytes) : total (decode s i bs) :=
  total_of_good _ (decodeIntoCtx_good s recursionLimit i _ bs)

/-- `Message::merge` into any existing value, with any remaining recursion budget. -/
theorem merge_total (s : Schema) (ctx i : Nat) (m : Slots) (bs : Bytes) : total (decodeIntoCtx s ctx i m bs) :=
  total_of_good _ (decodeIntoCtx_good s ctx i m bs)

/-- `Message::decode_length_delimited`. -/
theorem length_delimited_total (s : Schema) (i : Nat) (bs : Bytes) : total (decodeLengthDelimited s i bs) :=
  total_of_good _ (decodeLengthDelimited_good s i bs)

/-- `group::merge` (runtime API) on any bytes, any tag, any wire type, any budget. -/
theorem group_total (s : Schema) (ctx tag : Nat) (wt : WireType) (i : Nat) (m : Slots) (bs : Bytes) :
    total (groupMerge s ctx tag wt i m bs) :=
  total_of_good _ (groupMerge_good s ctx tag wt i m bs)

/-- the emitted `merge_field` itself, for any tag and wire type; a success never leaves more
input than it was given (the loops around it make progress). -/
theorem merge_field_total (s : Schema) (ctx : Nat) (ds : List FieldDecl) (m : Slots) (tag : Nat) (wt : WireType) (bs : Bytes) :
    Out.good (fun p => p.2.length ≤ bs.length) (mergeField s ctx ds m tag wt bs) :=
  mergeField_ok s ctx ds m tag wt bs

/-- the oneof `unreachable!` arm: the arm of a oneof field is entered only for tags among its
variants' field numbers (`field_tags`), and for those `<Enum>::merge` has an arm. -/
theorem oneof_unreachable (vs : List (Nat × FTy)) (tag : Nat) (h : (FieldDecl.oneof vs).tags.contains tag = true) :
    ∃ ty, lookupVariant vs tag = some ty := lookupVariant_some vs tag h

/-- the recursion budget: `limit_reached` is checked before every `enter_recursion`, so the `u32`
never underflows; and with the budget exhausted a nested message, a map entry and a skipped
field are refused whatever the bytes are. -/
theorem recursion_limit (s : Schema) (i : Nat) (cur : EVal) (bs : Bytes) (ctx : Nat) :
    (limitReached ctx = .ok () → enterRecursion ctx = .ok (ctx - 1) ∧ recurOf s ctx = some (mergeField s (ctx - 1))) ∧
    (limitReached ctx = .err .depth ↔ recurOf s ctx = none) ∧
    mergeE s (recurOf s 0) (.msg i) cur .len bs = .err .depth ∧
    (∀ t kc vty kvs tag wt, mergeSlot s (recurOf s 0) (.map t kc vty) (.map kvs) tag wt bs = .err .depth) ∧
    (∀ wt tag, skipField 0 wt tag bs = .err .depth) := by
  refine ⟨?_, ?_, ?_, ?_, ?_⟩
  · intro h
    cases ctx with
    | zero => simp [limitReached] at h
    | succ c => exact ⟨rfl, rfl⟩
  · cases ctx <;> simp [limitReached, recurOf]
  · simp [mergeE, checkWireType, recurOf]
  · intro t kc vty kvs tag wt; simp [mergeSlot, recurOf]
  · intro wt tag; simp [skipField]

/-- groups: an unknown group field containing `n` further nested groups is skipped iff the budget
exceeds `n`; with the top-level budget of 100 that is nesting depth 100; depth 101 is refused with
the recursion-limit error. -/
theorem group_recursion_limit (tag : Nat) (h1 : minTag ≤ tag) (h2 : tag ≤ maxTag) (n ctx : Nat) (rest : Bytes) :
    skipField ctx .sgroup tag (groupBody tag n ++ rest) = if n < ctx then .ok rest else .err .depth :=
  skip_group_ladder tag h1 h2 n ctx rest

/-- messages: `message Rec { optional Rec inner = 1; }` (`selfRec`) nested `n` deep is decoded with
budget `ctx` exactly when `n ≤ ctx`; deeper nesting is refused with the recursion-limit error —
with the top-level budget 100, nesting 100 decodes and nesting 101 is an error.  (For every other
schema: `pb_roundtrip` needs `needSlots m ≤ 100`, and `recursion_limit` refuses at budget 0.) -/
theorem message_recursion_limit (flag : Bool) (n ctx : Nat) (hy : okSlots selfRec flag (decls selfRec 0) (nestV n) = true) :
    decodeIntoCtx selfRec ctx 0 (nestV 0) (encode selfRec flag 0 (nestV n)) = if n ≤ ctx then .ok (nestV n) else .err .depth :=
  nest_limit flag n ctx hy

/-- a length prefix larger than what remains is refused before the copy: `bytes::merge`,
`merge_loop` (messages, packed runs, map entries) and `skip_field` return the error without
reaching `copy_to_bytes` / `advance` (whose own precondition is therefore never violated, by
`pb_total`). -/
theorem len_prefix_checked (bs r : Bytes) (len : Nat) (h : decodeVarint bs = .ok (len, r)) (hl : len > r.length) :
    Codec.mergeBytes bs = .err .invalid ∧
    (∀ {σ : Type} (step : σ → Bytes → Out (σ × Bytes)) (st : σ), mergeLoop step st bs = .err .invalid) ∧
    (∀ ctx tag, skipField (ctx + 1) .len tag bs = .err .invalid) := by
  refine ⟨?_, ?_, ?_⟩
  · simp [Codec.mergeBytes, h, hl]
  · intro σ step st; simp [mergeLoop, h, hl]
  · intro ctx tag; simp [skipField, h, hl]

/-- fixed-width values: fewer bytes than the width is an error, not a `get_*_le` panic. -/
theorem fixed_width_checked (c : Codec) (w : Nat) (hs : c.shape = .fixed w) (bs : Bytes) (h : bs.length < w) :
    c.merge c.wt bs = .err .invalid := by
  simp [Codec.merge, checkWireType, Codec.mergePayload, hs, h]

/-- steps: every loop of the decoder (field loop, `merge_loop`, group loop) is given
`remaining + 1` iterations and never exhausts them (`.fuel` is excluded by `pb_total`), because
every iteration consumes at least one byte: -/
theorem pb_steps_partial (s : Schema) (ctx : Nat) (ds : List FieldDecl) :
    StepOK (fieldStep (mergeField s ctx) ds) := fieldStep_ok _ (mergeField_ok s ctx) ds
/- Full statement (not proved): a global step counter bounded by `c * bs.length + c0` over the
whole nested decode, and an allocation counter bounded linearly.  Nesting is bounded by 100 and
each level's loops by its own remaining bytes, which gives `100 * bs.length` informally; the model
carries no step or allocation counter.  Allocation is measured by T1 only (harness). -/

/-! ### strings: what the two string modules do (facts about the modules, NOT part of C10)

C10 asks for "a message or a decode error", no panic, bounded work; it does not ask that string fields be
validated, and pilota does not validate on any of its decode paths by design (`from_bytes_unchecked` /
`from_utf8_unchecked` in every Thrift reader and in `faststr::merge`).  An earlier version of this check reported
that as a C10 finding (PB1); that demanded more than the property states and was withdrawn (see DESIGN.md).
The two theorems below record the behaviour of the modules as modelled and tied by T1. -/

/-- proved part: the `string` module validates. -/
theorem string_module_validates_utf8 (wt : WireType) (bs : Bytes) (v : SVal) (r : Bytes)
    (h : Codec.string.merge wt bs = .ok (v, r)) : ∃ b, v = .bs b ∧ validUtf8 b = true := by
  unfold Codec.merge at h
  cases hc : checkWireType Codec.string.wt wt with
  | ok u =>
    rw [hc] at h
    simp only [Codec.mergePayload, Codec.shape] at h
    cases hm : Codec.mergeBytes bs with
    | ok p =>
      obtain ⟨b, r0⟩ := p
      rw [hm] at h
      simp only at h
      split at h
      · cases h
      · rename_i hu
        cases h
        exact ⟨b, rfl, by simpa using hu⟩
    | err e => simp [hm] at h
    | panic e => simp [hm] at h
    | fuel => simp [hm] at h
  | err e => simp [hc] at h
  | panic e => simp [hc] at h
  | fuel => simp [hc] at h

/-- `faststr::merge` does not validate (same bytes in, same bytes out): a one-byte string `ff`. -/
theorem faststr_module_does_not_validate :
    Codec.faststr.merge .len [0x01, 0xff] = .ok (.bs [0xff], []) ∧ validUtf8 [0xff] = false := by
  constructor
  · rfl
  · decide

/-! non-vacuity -/
example : slicePre [0x80, 0x01] = true := by decide
example : decodeVarint [0xff, 0xff, 0xff, 0xff, 0xff, 0xff, 0xff, 0xff, 0xff, 0x02] = .err .invalid := by rfl
example : (FieldDecl.oneof [(2, .scalar .faststr), (4, .scalar .int32)]).tags.contains 4 = true := by decide
example : minTag ≤ 7 ∧ 7 ≤ maxTag := by decide
example : okSlots selfRec false (decls selfRec 0) (nestV 3) = true := by decide

end Pilota.Props.C10
