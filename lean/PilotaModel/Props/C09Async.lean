import PilotaModel.Props.C12
/-
  C09 — the emitted `decode_async` (models TGen/Async.lean, TGen/AsyncC.lean) on arbitrary bytes and delivery schedules.
  A resumable program has no panic constructor: the only partial operation it performs is "pull exactly n bytes", which answers
  end-of-stream with an error.  So, for every document, declared name, byte string and schedule, the emitted async decoders never
  reach a panic branch (`emitted_async_never_panics`, `emitted_async_compact_never_panics`); on the binary family their successes
  are exactly the successes of the in-memory decoder (`Props/C12.emitted_async_eq_sync`), whose totality is `Props/C09Gen`.
  What the compiled code does beyond this model is known finding D34 (containers pre-allocated from the wire count: capacity
  overflow panics, allocation aborts).
-/
namespace Pilota.Props.C09Async
open Pilota Pilota.Thrift Pilota.Thrift.Async Pilota.TGen

/-- no program panics on any input -/
theorem runF_never_panics {α : Type} (p : Prog α) : ∀ (bs : Bytes) (m : String), runF p bs ≠ .panic m := by
  induction p with
  | ret a => intro bs m; simp [runF]
  | fail k => intro bs m; simp [runF]
  | fuelOut => intro bs m; simp [runF]
  | need n k ih =>
    intro bs m
    simp only [runF]
    cases h : Binary.takeN n bs with
    | ok q => obtain ⟨b, r⟩ := q; exact ih b r m
    | err e => simp
    | panic m' => exact absurd h (by unfold Binary.takeN; split <;> simp)
    | fuel => simp

theorem pulledF_panic {α : Type} (bs : Bytes) (x : Out (α × Bytes)) (m : String) (h : pulledF bs x = .panic m) : x = .panic m := by
  cases x <;> simp_all [pulledF]

/-- binary / LE: the emitted `decode_async` never reaches a panic branch, whatever the bytes and the schedule -/
theorem emitted_async_never_panics (e : Endian) (d : Doc) (n : String) (s : Stream) (m : String) : adecode e d n s ≠ .panic m := by
  intro h
  simp only [adecode, Pilota.Props.C12.pulled_flat] at h
  exact runF_never_panics _ _ m (pulledF_panic _ _ m h)

/-- compact -/
theorem emitted_async_compact_never_panics (d : Doc) (n : String) (s : Stream) (m : String) : adecodeC d n s ≠ .panic m := by
  intro h
  simp only [adecodeC, Pilota.Props.C12.pulled_flat] at h
  exact runF_never_panics _ _ m (pulledF_panic _ _ m h)

end Pilota.Props.C09Async
